//! C39: schedules of MemBudget.tla driven through the real MemoryBudget with the puppeteer.
use crate::sched::{Puppeteer, StepResult};
use crate::util::*;
use serde_json::{json, Value};
use std::sync::Arc;
use turdb::memory::{MemoryBudget, Pool};

const UNIT: usize = 128 * 1024;
const POOLS: [&str; 5] = ["cache", "query", "recovery", "schema", "shared"];

fn pool_of(s: &str) -> Pool {
    match s {
        "cache" => Pool::Cache,
        "query" => Pool::Query,
        "recovery" => Pool::Recovery,
        "schema" => Pool::Schema,
        _ => Pool::Shared,
    }
}

fn used_units(b: &MemoryBudget) -> Vec<i64> {
    let s = b.stats();
    [s.cache_used, s.query_used, s.recovery_used, s.schema_used, s.shared_used].iter().map(|x| (*x / UNIT) as i64).collect()
}

fn label_of_point(p: &str) -> &str {
    match p {
        "budget.alloc.begin" => "begin",
        "budget.alloc.loaded_pool" => "loaded_pool",
        "budget.alloc.loaded_total" => "loaded_total",
        "budget.alloc.before_cas" => "before_cas",
        "budget.release.begin" => "r_begin",
        "budget.release.loaded" => "r_loaded",
        other => other,
    }
}

pub fn replay(args: &Args) {
    let cases = read_cases(&args.get("in", ""));
    let out = args.get("out", "/dev/stdout");
    let limit_units = args.num("limit", 32);
    let prefill = args.num("prefill", 22);
    par_run(cases, args.num("jobs", 8), &out, move |i, case| {
        let hist = case["hist"].as_array().unwrap();
        let budget = Arc::new(MemoryBudget::with_limit(limit_units * UNIT));
        budget.allocate(Pool::Shared, prefill * UNIT).unwrap();
        let b2 = budget.clone();
        let nthreads = hist.iter().map(|s| s["t"].as_u64().unwrap() as usize).max().unwrap_or(1);
        let pup = Puppeteer::new(nthreads, move |_t, op| {
            let pool = pool_of(op["pool"].as_str().unwrap());
            let n = op["n"].as_u64().unwrap() as usize * UNIT;
            match op["kind"].as_str().unwrap() {
                "alloc" => match b2.allocate(pool, n) {
                    Ok(()) => json!("ok"),
                    Err(_) => json!("err"),
                },
                _ => {
                    b2.release(pool, n);
                    json!("ok")
                }
            }
        });
        // ghost accounting from OBSERVED results
        let mut granted = [0i64; 5];
        granted[4] = prefill as i64;
        let mut released = [0i64; 5];
        let mut cur_op: Vec<Option<Value>> = vec![None; nthreads];
        let mut problems: Vec<Value> = vec![];
        let mut followed = 0usize;
        for (k, st) in hist.iter().enumerate() {
            let t = st["t"].as_u64().unwrap() as usize - 1;
            let start = st["a"] == "start";
            if start {
                cur_op[t] = Some(st["op"].clone());
            }
            let r = pup.step(t, if start { Some(st["op"].clone()) } else { None });
            let exp_next = st["next"].as_str().unwrap();
            let exp_res = st["res"].as_str().unwrap();
            let mut path_ok = true;
            match &r {
                StepResult::AtPoint(name, _) => {
                    if label_of_point(name) != exp_next {
                        problems.push(json!({"kind": "path", "step": k, "expected_next": exp_next, "observed": name}));
                        path_ok = false;
                    }
                }
                StepResult::Done(v) => {
                    let op = cur_op[t].take().unwrap_or(Value::Null);
                    let pi = POOLS.iter().position(|p| Some(*p) == op["pool"].as_str()).unwrap_or(4);
                    let n = op["n"].as_i64().unwrap_or(0);
                    if v == "ok" {
                        if op["kind"] == "alloc" { granted[pi] += n } else { released[pi] += n }
                    }
                    if exp_next != "idle" {
                        problems.push(json!({"kind": "path", "step": k, "expected_next": exp_next, "observed": format!("returned {}", v)}));
                        path_ok = false;
                    } else if v.as_str() != Some(exp_res) {
                        problems.push(json!({"kind": "result", "step": k, "expected": exp_res, "observed": v}));
                    }
                }
                StepResult::Blocked => {
                    problems.push(json!({"kind": "blocked", "step": k}));
                    path_ok = false;
                }
            }
            let used = used_units(&budget);
            let total: i64 = used.iter().sum();
            if total > limit_units as i64 {
                problems.push(json!({"kind": "hard_limit_exceeded", "step": k, "used": used, "limit": limit_units}));
            }
            for p in 0..5 {
                if used[p] != granted[p] - released[p] {
                    problems.push(json!({"kind": "accounting_broken", "step": k, "pool": POOLS[p], "used": used[p], "granted": granted[p], "released": released[p]}));
                    break;
                }
            }
            let exp_used: Vec<i64> = POOLS.iter().map(|p| st["used"][*p].as_i64().unwrap()).collect();
            if path_ok && used != exp_used {
                problems.push(json!({"kind": "state", "step": k, "expected_used": exp_used, "observed_used": used}));
            }
            if !path_ok {
                break;
            }
            followed = k + 1;
        }
        let diverged = problems.iter().any(|p| p["kind"] == "path" || p["kind"] == "blocked");
        let drained = pup.drain(std::time::Duration::from_secs(5));
        if !drained {
            problems.push(json!({"kind": "stuck"}));
        } else if diverged {
            // the code left the model's path: let every call finish and judge the property on what is observed
            let results = pup.results();
            for t in 0..nthreads {
                if let (Some(op), Some(v)) = (cur_op[t].take(), results[t].clone()) {
                    let pi = POOLS.iter().position(|p| Some(*p) == op["pool"].as_str()).unwrap_or(4);
                    let n = op["n"].as_i64().unwrap_or(0);
                    if v == "ok" {
                        if op["kind"] == "alloc" { granted[pi] += n } else { released[pi] += n }
                    }
                }
            }
            let used = used_units(&budget);
            let total: i64 = used.iter().sum();
            if total > limit_units as i64 {
                problems.push(json!({"kind": "hard_limit_exceeded", "step": "final", "used": used, "limit": limit_units}));
            }
            for p in 0..5 {
                if used[p] != granted[p] - released[p] {
                    problems.push(json!({"kind": "accounting_broken", "step": "final", "pool": POOLS[p], "used": used[p], "granted": granted[p], "released": released[p]}));
                    break;
                }
            }
        }
        drop(pup);
        if problems.is_empty() {
            vec![json!({"case": i, "kind": "ok", "steps": followed})]
        } else {
            vec![json!({"case": i, "kind": "diverged", "problems": problems, "hist": hist, "overlap": case["overlap"], "model_hard": case["hard"]})]
        }
    });
}

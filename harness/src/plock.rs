//! C36: schedules of PageLocks.tla driven through the real PageLockManager.
use crate::sched::{Puppeteer, StepResult};
use crate::util::*;
use serde_json::{json, Value};
use std::sync::{Arc, Mutex};
use turdb::database::page_locks::{PageLockManager, PageReadGuard, PageWriteGuard, TableIntentExclusiveGuard, TableIntentSharedGuard};

enum Held {
    R(PageReadGuard<'static>),
    W(PageWriteGuard<'static>),
}
enum HeldT {
    S(TableIntentSharedGuard<'static>),
    X(TableIntentExclusiveGuard<'static>),
}

struct Slots {
    page: Vec<Option<Held>>,
    table: Vec<Vec<HeldT>>,
}
// guards are only touched by their own puppet thread; the mutex is for the container
unsafe impl Send for Slots {}

fn label_of(r: &StepResult) -> String {
    match r {
        StepResult::AtPoint(n, _) => match n.as_str() {
            "plock.got_entry" => "got_entry".into(),
            "plock.unlocked" => "unlocked".into(),
            "plock.cleanup_pending" => "cleanup_pending".into(),
            o => o.to_string(),
        },
        StepResult::Done(v) => match v.as_str() {
            Some("held") => "held".into(),
            Some(_) => "idle".into(),
            None => format!("{}", v),
        },
        StepResult::Blocked => "BLOCKED".into(),
    }
}

pub fn replay(args: &Args) {
    let cases = read_cases(&args.get("in", ""));
    let out = args.get("out", "/dev/stdout");
    par_run(cases, args.num("jobs", 8), &out, move |i, case| {
        let hist = case["hist"].as_array().unwrap();
        let nthreads = hist.iter().map(|s| s["t"].as_u64().unwrap() as usize).max().unwrap_or(1);
        // leaked on purpose when a thread gets stuck; otherwise freed at the end
        let mgr: &'static PageLockManager = Box::leak(Box::new(PageLockManager::new()));
        let slots = Arc::new(Mutex::new(Slots { page: (0..nthreads).map(|_| None).collect(), table: (0..nthreads).map(|_| vec![]).collect() }));
        let s2 = slots.clone();
        let pup = Puppeteer::new(nthreads, move |t, op| match op["kind"].as_str().unwrap() {
            "lock" => {
                let p = op["page"].as_u64().unwrap() as u32;
                let g = if op["mode"] == "w" { Held::W(mgr.page_write(1, p)) } else { Held::R(mgr.page_read(1, p)) };
                s2.lock().unwrap().page[t] = Some(g);
                json!("held")
            }
            "unlock" => {
                let g = s2.lock().unwrap().page[t].take();
                drop(g);
                json!("released")
            }
            "table_acquire" => {
                let tb = op["table"].as_u64().unwrap() as u32;
                let g = if op["k"] == "is" { HeldT::S(mgr.table_intent_shared(tb)) } else { HeldT::X(mgr.table_intent_exclusive(tb)) };
                s2.lock().unwrap().table[t].push(g);
                json!("tbl")
            }
            _ => {
                let g = { let mut s = s2.lock().unwrap(); if s.table[t].is_empty() { None } else { Some(s.table[t].remove(0)) } };
                drop(g);
                json!("tbl")
            }
        });
        // occupancy as the harness sees it: (thread, page, mode) of locks whose lock() call has returned
        let mut holders: Vec<(usize, u64, String)> = vec![];
        let mut cur_lock: Vec<Option<(u64, String)>> = vec![None; nthreads];
        let mut problems: Vec<Value> = vec![];
        let mut label: Vec<String> = vec!["idle".to_string(); nthreads];
        for (k, st) in hist.iter().enumerate() {
            let t = st["t"].as_u64().unwrap() as usize - 1;
            let a = st["a"].as_str().unwrap();
            let op = match a {
                "lock" => {
                    cur_lock[t] = Some((st["arg"]["page"].as_u64().unwrap(), st["arg"]["mode"].as_str().unwrap().to_string()));
                    Some(json!({"kind": "lock", "page": st["arg"]["page"], "mode": st["arg"]["mode"]}))
                }
                "unlock" => {
                    holders.retain(|h| h.0 != t);
                    Some(json!({"kind": "unlock"}))
                }
                "table_acquire" => Some(json!({"kind": "table_acquire", "table": st["arg"]["table"], "k": st["arg"]["kind"]})),
                "table_release" => Some(json!({"kind": "table_release"})),
                _ => None,
            };
            let r = pup.step(t, op);
            let got = label_of(&r);
            let exp = st["next"].as_str().unwrap();
            label[t] = got.clone();
            if got == "held" {
                let (p, m) = cur_lock[t].clone().unwrap();
                for h in &holders {
                    if h.1 == p && (h.2 == "w" || m == "w") {
                        problems.push(json!({"kind": "exclusion_violated", "step": k, "page": p, "holder": {"t": h.0 + 1, "mode": h.2}, "newcomer": {"t": t + 1, "mode": m}}));
                    }
                }
                holders.push((t, p, m));
            }
            if got != exp {
                problems.push(json!({"kind": if got == "BLOCKED" { "blocked" } else { "path" }, "step": k, "expected_next": exp, "observed": got}));
                break;
            }
            let (pe, te) = mgr.verif_table_sizes();
            if pe as u64 != st["entries"].as_u64().unwrap() || te as u64 != st["tables"].as_u64().unwrap() {
                problems.push(json!({"kind": "state", "step": k, "expected": [st["entries"], st["tables"]], "observed": [pe, te]}));
            }
        }
        // orderly finish (no free running: a thread waiting for a lock another puppet holds must go last)
        let mut stuck = false;
        let run_to_done = |t: usize, first: Option<Value>| -> bool {
            let mut op = first;
            for _ in 0..8 {
                match pup.step(t, op.take()) {
                    StepResult::Done(_) => return true,
                    StepResult::AtPoint(_, _) => continue,
                    StepResult::Blocked => return false,
                }
            }
            false
        };
        let mut order: Vec<usize> = (0..nthreads).filter(|t| label[*t] != "got_entry").collect();
        order.extend((0..nthreads).filter(|t| label[*t] == "got_entry"));
        for t in order {
            if problems.iter().any(|p| p["kind"] == "path" || p["kind"] == "blocked") {
                stuck = !pup.drain(std::time::Duration::from_secs(3));
                break;
            }
            if label[t] != "idle" && label[t] != "held" && !run_to_done(t, None) {
                stuck = true;
                break;
            }
            let has_page = slots.lock().unwrap().page[t].is_some();
            if has_page && !run_to_done(t, Some(json!({"kind": "unlock"}))) {
                stuck = true;
                break;
            }
            loop {
                let has_tbl = !slots.lock().unwrap().table[t].is_empty();
                if !has_tbl { break; }
                if !run_to_done(t, Some(json!({"kind": "table_release"}))) { stuck = true; break; }
            }
        }
        if stuck {
            problems.push(json!({"kind": "stuck"}));
        } else {
            let (pe, te) = mgr.verif_table_sizes();
            if pe != 0 || te != 0 {
                problems.push(json!({"kind": "tables_not_empty_when_idle", "step": hist.len() - 1, "observed": [pe, te]}));
            }
        }
        drop(pup);
        if !stuck {
            // SAFETY: every guard was dropped above and all puppet threads have been joined
            unsafe { drop(Box::from_raw(mgr as *const PageLockManager as *mut PageLockManager)) };
        }
        if problems.is_empty() {
            vec![json!({"case": i, "kind": "ok"})]
        } else {
            vec![json!({"case": i, "kind": "diverged", "problems": problems, "hist": hist})]
        }
    });
}

/// C36, real races: the invariants MutexW / MutexRW of PageLocks.tla monitored on a shadow state while real threads
/// hammer the real PageLockManager (no schedule points: the interleavings are whatever the machine produces, also
/// inside regions that have no hook). Writers and readers of one hot page, plus threads that keep other pages of the
/// table busy (same shards). The shadow counters are changed only while the real lock is held (after the acquisition
/// returned, before the guard is dropped), so a violated invariant is two holders admitted by the real lock.
pub fn stress(args: &Args) {
    use std::sync::atomic::{AtomicBool, AtomicI64, AtomicU64, Ordering};
    let ms = args.num("ms", 3000) as u64;
    let writers = args.num("writers", 2);
    let readers = args.num("readers", 3);
    let others = args.num("others", 2);
    let out = args.get("out", "/dev/stdout");
    let mgr: &'static PageLockManager = Box::leak(Box::new(PageLockManager::new()));
    struct Shadow {
        w: AtomicI64,
        r: AtomicI64,
    }
    let hot: &'static Shadow = Box::leak(Box::new(Shadow { w: AtomicI64::new(0), r: AtomicI64::new(0) }));
    let stop: &'static AtomicBool = Box::leak(Box::new(AtomicBool::new(false)));
    let two_writers: &'static AtomicU64 = Box::leak(Box::new(AtomicU64::new(0)));
    let writer_with_reader: &'static AtomicU64 = Box::leak(Box::new(AtomicU64::new(0)));
    let acq: &'static AtomicU64 = Box::leak(Box::new(AtomicU64::new(0)));
    let mut hs = vec![];
    for _ in 0..writers {
        hs.push(std::thread::spawn(move || {
            while !stop.load(Ordering::Relaxed) {
                let g = mgr.page_write(1, 100);
                let w = hot.w.fetch_add(1, Ordering::SeqCst) + 1;
                let r = hot.r.load(Ordering::SeqCst);
                if w != 1 {
                    two_writers.fetch_add(1, Ordering::Relaxed);
                }
                if r != 0 {
                    writer_with_reader.fetch_add(1, Ordering::Relaxed);
                }
                std::hint::spin_loop();
                hot.w.fetch_sub(1, Ordering::SeqCst);
                drop(g);
                acq.fetch_add(1, Ordering::Relaxed);
            }
        }));
    }
    for _ in 0..readers {
        hs.push(std::thread::spawn(move || {
            while !stop.load(Ordering::Relaxed) {
                let g = mgr.page_read(1, 100);
                hot.r.fetch_add(1, Ordering::SeqCst);
                if hot.w.load(Ordering::SeqCst) != 0 {
                    writer_with_reader.fetch_add(1, Ordering::Relaxed);
                }
                hot.r.fetch_sub(1, Ordering::SeqCst);
                drop(g);
                acq.fetch_add(1, Ordering::Relaxed);
            }
        }));
    }
    for k in 0..others {
        hs.push(std::thread::spawn(move || {
            let mut p = 0u32;
            while !stop.load(Ordering::Relaxed) {
                // other pages of the same table: some of them live in the hot page's shard
                let page = 101 + (p % 256);
                if (p + k as u32) % 2 == 0 {
                    drop(mgr.page_write(1, page));
                } else {
                    drop(mgr.page_read(1, page));
                }
                p = p.wrapping_add(1);
                acq.fetch_add(1, Ordering::Relaxed);
            }
        }));
    }
    let t0 = std::time::Instant::now();
    while t0.elapsed().as_millis() < ms as u128 && two_writers.load(Ordering::Relaxed) + writer_with_reader.load(Ordering::Relaxed) == 0 {
        std::thread::sleep(std::time::Duration::from_millis(20));
    }
    stop.store(true, Ordering::Relaxed);
    for h in hs {
        let _ = h.join();
    }
    let (pages_left, tables_left) = mgr.verif_table_sizes();
    let rec = json!({"ms": t0.elapsed().as_millis() as u64, "acquisitions": acq.load(Ordering::Relaxed),
                     "two_writers": two_writers.load(Ordering::Relaxed), "writer_with_reader": writer_with_reader.load(Ordering::Relaxed),
                     "entries_left": pages_left, "table_entries_left": tables_left,
                     "threads": {"writers": writers, "readers": readers, "others": others}});
    std::fs::write(&out, format!("{}\n", rec)).ok();
}

//! C26 / C27 drivers: run TLC-generated cases through `turdb::encoding::{varint, key}` (and the key
//! encoders of `turdb::types::Value`) and report what the code did.  No judgement happens here: the
//! expected bytes / comparisons come from TLC and are compared in lib/checks/c26.py, c27.py.
//!
//! varint-run  input  {"id":..,"k":"enc","d":[d3,d2,d1,d0]}            (u64 as four base-2^16 digits)
//!                    {"id":..,"k":"dec","b":[bytes]}
//!             output {"id":..,"len":varint_len,"written":n,"bytes":[..],"tail_clean":bool,
//!                     "exact":{"ok":[..]}|{"panic":..},"dec":{"ok":[digits],"n":k}|{"err":msg}|{"panic":msg},
//!                     "dec_tail":..same with 0xFF.. appended}
//!                    {"id":..,"dec":{"ok":[digits],"n":k}|{"err":msg}|{"panic":msg}}
//! key-run     input  {"id":..,"k":"pt","v":VAL} | {"id":..,"k":"row","cols":[VAL..]} | {"id":..,"k":"prefix","b":f}
//!             VAL = {"t":tag,"p":[ints],"c":[VAL..]} as defined in spec/KeyOrder.tla
//!             output {"id":..,"enc":hex,"enc_value":hex|null,"enc_tv":hex|null,"dec":VAL|{"err":..},"consumed":n,
//!                     "prefix_probe":{"ok":n,"err":n,"panic":n,"overread":n}}
use crate::util::*;
use serde_json::{json, Value as J};
use turdb::encoding::key;
use turdb::encoding::varint::{decode_varint, encode_varint, varint_len};

fn hex(b: &[u8]) -> String {
    b.iter().map(|x| format!("{:02x}", x)).collect()
}
fn ints(v: &J) -> Vec<i64> {
    v.as_array().map(|a| a.iter().map(|x| x.as_i64().unwrap()).collect()).unwrap_or_default()
}
fn digits_to_u64(d: &[i64]) -> u64 {
    ((d[0] as u64) << 48) | ((d[1] as u64) << 32) | ((d[2] as u64) << 16) | (d[3] as u64)
}
fn u64_to_digits(v: u64) -> J {
    json!([(v >> 48) & 0xffff, (v >> 32) & 0xffff, (v >> 16) & 0xffff, v & 0xffff])
}

// ------------------------------------------------------------------------------------------- varint
fn dec_json(buf: &[u8]) -> J {
    match guarded(|| decode_varint(buf)) {
        Ok(Ok((v, n))) => json!({"ok": u64_to_digits(v), "n": n}),
        Ok(Err(e)) => json!({"err": e.to_string()}),
        Err(p) => json!({"panic": p}),
    }
}

pub fn run(sub: &str, args: &Args) {
    match sub {
        "varint-run" => varint_run(args),
        _ => key_run(args),
    }
}

fn varint_run(args: &Args) {
    let cases = read_cases(&args.get("in", ""));
    par_run(cases, args.num("jobs", 4), &args.get("out", ""), |_, c| {
        let id = c["id"].clone();
        match c["k"].as_str().unwrap_or("") {
            "enc" => {
                let v = digits_to_u64(&ints(&c["d"]));
                let len = guarded(|| varint_len(v));
                // a 9-byte buffer (the documented maximum) pre-filled with a sentinel
                let mut buf = [0xAAu8; 9];
                let written = guarded(|| encode_varint(v, &mut buf));
                let (w, bytes, tail_clean) = match &written {
                    Ok(n) if *n <= 9 => (json!(n), buf[..*n].to_vec(), buf[*n..].iter().all(|x| *x == 0xAA)),
                    Ok(n) => (json!(n), buf.to_vec(), false),
                    Err(p) => (json!({"panic": p}), vec![], false),
                };
                // a buffer of exactly varint_len(v) bytes must be enough
                let exact = match &len {
                    Ok(l) if *l <= 9 => {
                        let mut b = vec![0u8; *l];
                        match guarded(|| encode_varint(v, &mut b)) {
                            Ok(n) => json!({"ok": b, "n": n}),
                            Err(p) => json!({"panic": p}),
                        }
                    }
                    _ => J::Null,
                };
                let mut with_tail = bytes.clone();
                with_tail.extend_from_slice(&[0xFF; 9]);
                vec![json!({"id": id, "len": match len { Ok(l) => json!(l), Err(p) => json!({"panic": p}) },
                            "written": w, "bytes": bytes, "tail_clean": tail_clean, "exact": exact,
                            "dec": dec_json(&bytes), "dec_tail": dec_json(&with_tail)})]
            }
            "dec" => {
                let b: Vec<u8> = ints(&c["b"]).iter().map(|x| *x as u8).collect();
                // an exactly-sized heap slice: reading past the input is an out-of-bounds panic
                let exact: Box<[u8]> = b.clone().into_boxed_slice();
                vec![json!({"id": id, "dec": dec_json(&exact)})]
            }
            _ => vec![json!({"id": id, "err": "unknown case kind"})],
        }
    });
}

// ------------------------------------------------------------------------------------------- keys
fn i64_of(p: &[i64]) -> i64 {
    let mag = digits_to_u64(&p[1..5]) as i128;
    (if p[0] == 1 { -mag } else { mag }) as i64
}
fn i64_to(tag: &str, v: i64, extra: &[i64]) -> J {
    let mag = (v as i128).unsigned_abs() as u64;
    let mut p = vec![if v < 0 { 1 } else { 0 }, ((mag >> 48) & 0xffff) as i64, ((mag >> 32) & 0xffff) as i64, ((mag >> 16) & 0xffff) as i64, (mag & 0xffff) as i64];
    p.extend_from_slice(extra);
    json!({"t": tag, "p": p, "c": []})
}
fn f64_of(p: &[i64]) -> f64 {
    f64::from_bits(((p[1] as u64) << 63) | ((p[2] as u64) << 52) | ((p[3] as u64) << 48) | ((p[4] as u64) << 32) | ((p[5] as u64) << 16) | (p[6] as u64))
}
fn f64_p(f: f64) -> Vec<i64> {
    let b = f.to_bits();
    let (neg, e, m) = ((b >> 63) as i64, ((b >> 52) & 0x7ff) as i64, b & ((1u64 << 52) - 1));
    let cls = if e == 2047 { if m == 0 { if neg == 1 { 0 } else { 2 } } else { 3 } } else { 1 };
    vec![cls, neg, e, ((m >> 48) & 0xf) as i64, ((m >> 32) & 0xffff) as i64, ((m >> 16) & 0xffff) as i64, (m & 0xffff) as i64]
}
fn f32_of(p: &[i64]) -> f32 {
    f32::from_bits(((p[1] as u32) << 31) | ((p[2] as u32) << 23) | ((p[3] as u32) << 16) | (p[4] as u32))
}
fn f32_to(f: f32) -> J {
    let b = f.to_bits();
    let (neg, e, m) = ((b >> 31) as i64, ((b >> 23) & 0xff) as i64, b & ((1u32 << 23) - 1));
    let cls = if e == 255 { if m == 0 { if neg == 1 { 0 } else { 2 } } else { 3 } } else { 1 };
    json!({"t": "f32", "p": [cls, neg, e, ((m >> 16) & 0x7f) as i64, (m & 0xffff) as i64], "c": []})
}
fn bytes_of(p: &[i64]) -> Vec<u8> {
    p.iter().map(|x| *x as u8).collect()
}
fn leaf(tag: &str, p: Vec<i64>) -> J {
    json!({"t": tag, "p": p, "c": []})
}
fn node(tag: &str, c: Vec<J>) -> J {
    json!({"t": tag, "p": [], "c": c})
}

/// key::JsonValue borrows its children; the harness leaks the few small trees it builds
fn json_tree(v: &J) -> key::JsonValue<'static> {
    let p = ints(&v["p"]);
    let kids = v["c"].as_array().cloned().unwrap_or_default();
    match v["t"].as_str().unwrap() {
        "jnull" => key::JsonValue::Null,
        "jbool" => key::JsonValue::Bool(p[0] == 1),
        "jnum" => key::JsonValue::Number(f64_of(&p)),
        "jstr" => key::JsonValue::String(Box::leak(String::from_utf8(bytes_of(&p)).expect("utf8").into_boxed_str())),
        "jarr" => key::JsonValue::Array(Box::leak(kids.iter().map(json_tree).collect::<Vec<_>>().into_boxed_slice())),
        "jobj" => {
            let ents: Vec<(&'static str, key::JsonValue<'static>)> = kids
                .iter()
                .map(|kv| {
                    let k: &'static str = Box::leak(String::from_utf8(bytes_of(&ints(&kv["p"]))).expect("utf8").into_boxed_str());
                    (k, json_tree(&kv["c"][0]))
                })
                .collect();
            key::JsonValue::Object(Box::leak(ents.into_boxed_slice()))
        }
        other => panic!("not a json tag: {}", other),
    }
}

/// the low-level encoders of key.rs, one per tag
fn encode(v: &J, buf: &mut Vec<u8>) {
    let p = ints(&v["p"]);
    let kids = v["c"].as_array().cloned().unwrap_or_default();
    match v["t"].as_str().unwrap() {
        "null" => key::encode_null(buf),
        "bool" => key::encode_bool(p[0] == 1, buf),
        "int" => key::encode_int(i64_of(&p), buf),
        "float" => key::encode_float(f64_of(&p), buf),
        "text" => key::encode_text(std::str::from_utf8(&bytes_of(&p)).expect("utf8"), buf),
        "blob" => key::encode_blob(&bytes_of(&p), buf),
        "date" => key::encode_date(p[0] as i32, buf),
        "time" => key::encode_time(i64_of(&p), buf),
        "timestamp" => key::encode_timestamp(i64_of(&p), buf),
        "timestamptz" => key::encode_timestamptz(i64_of(&p), p[5] as i16, buf),
        "interval" => key::encode_interval(p[0] as i32, p[1] as i32, i64_of(&p[2..]), buf),
        "uuid" => {
            let mut a = [0u8; 16];
            a.copy_from_slice(&bytes_of(&p));
            key::encode_uuid(&a, buf)
        }
        "macaddr" => {
            let mut a = [0u8; 6];
            a.copy_from_slice(&bytes_of(&p));
            key::encode_macaddr(&a, buf)
        }
        "inet" => key::encode_inet(p[0] == 1, &bytes_of(&p[2..]), p[1] as u8, buf),
        "enum" => key::encode_enum(((p[0] as u32) << 16) | p[1] as u32, ((p[2] as u32) << 16) | p[3] as u32, buf),
        "vector" => {
            let dims: Vec<f32> = kids.iter().map(|k| f32_of(&ints(&k["p"]))).collect();
            key::encode_vector(&dims, buf)
        }
        "array" => key::encode_array(&kids, buf, |e, b| encode(e, b)),
        "tuple" => key::encode_tuple(&kids, buf, |e, b| encode(e, b)),
        "jnull" | "jbool" | "jnum" | "jstr" | "jarr" | "jobj" => key::encode_json(&json_tree(v), buf),
        other => panic!("unknown tag {}", other),
    }
}

/// key::encode_value (the `Value` front end of key.rs) where it has a variant
fn encode_value(v: &J) -> Option<Vec<u8>> {
    let p = ints(&v["p"]);
    let mut buf = Vec::new();
    let bytes = bytes_of(&p);
    let mut uu = [0u8; 16];
    let kv = match v["t"].as_str().unwrap() {
        "null" => key::Value::Null,
        "bool" => key::Value::Bool(p[0] == 1),
        "int" => key::Value::Int(i64_of(&p)),
        "float" => key::Value::Float(f64_of(&p)),
        "text" => key::Value::Text(std::str::from_utf8(&bytes).ok()?),
        "blob" => key::Value::Blob(&bytes),
        "date" => key::Value::Date(p[0] as i32),
        "timestamp" => key::Value::Timestamp(i64_of(&p)),
        "uuid" => {
            uu.copy_from_slice(&bytes);
            key::Value::Uuid(&uu)
        }
        _ => return None,
    };
    key::encode_value(&kv, &mut buf);
    Some(buf)
}

/// turdb::types::Value::encode_to_key (group keys, index-join probes) where the tag maps onto a variant
fn encode_tv(v: &J) -> Option<Vec<u8>> {
    use std::borrow::Cow;
    use turdb::types::Value as TV;
    let p = ints(&v["p"]);
    let kids = v["c"].as_array().cloned().unwrap_or_default();
    let tv = match v["t"].as_str().unwrap() {
        "null" => TV::Null,
        "int" => TV::Int(i64_of(&p)),
        "float" => TV::Float(f64_of(&p)),
        "text" => TV::Text(Cow::Owned(String::from_utf8(bytes_of(&p)).ok()?)),
        "blob" => TV::Blob(Cow::Owned(bytes_of(&p))),
        "uuid" => {
            let mut a = [0u8; 16];
            a.copy_from_slice(&bytes_of(&p));
            TV::Uuid(a)
        }
        "macaddr" => {
            let mut a = [0u8; 6];
            a.copy_from_slice(&bytes_of(&p));
            TV::MacAddr(a)
        }
        "vector" => TV::Vector(Cow::Owned(kids.iter().map(|k| f32_of(&ints(&k["p"]))).collect())),
        "timestamptz" => TV::TimestampTz { micros: i64_of(&p), offset_secs: (p[5] as i32) * 60 },
        "interval" => TV::Interval { micros: i64_of(&p[2..]), days: p[1] as i32, months: p[0] as i32 },
        "enum" if p[0] == 0 && p[2] == 0 => TV::Enum { type_id: p[1] as u16, ordinal: p[3] as u16 },
        _ => return None,
    };
    let mut buf = Vec::new();
    tv.encode_to_key(&mut buf);
    Some(buf)
}

fn djson_to(j: &key::DecodedJson) -> J {
    match j {
        key::DecodedJson::Null => leaf("jnull", vec![]),
        key::DecodedJson::Bool(b) => leaf("jbool", vec![*b as i64]),
        key::DecodedJson::Number(f) => leaf("jnum", f64_p(*f)),
        key::DecodedJson::String(s) => leaf("jstr", s.as_bytes().iter().map(|x| *x as i64).collect()),
        key::DecodedJson::Array(a) => node("jarr", a.iter().map(djson_to).collect()),
        key::DecodedJson::Object(o) => node(
            "jobj",
            o.iter().map(|(k, v)| json!({"t": "jkv", "p": k.as_bytes().iter().map(|x| *x as i64).collect::<Vec<_>>(), "c": [djson_to(v)]})).collect(),
        ),
    }
}

fn decoded_to(d: &key::DecodedKey) -> J {
    use key::DecodedKey as D;
    let b2p = |b: &[u8]| b.iter().map(|x| *x as i64).collect::<Vec<i64>>();
    match d {
        D::Null => leaf("null", vec![]),
        D::Bool(b) => leaf("bool", vec![*b as i64]),
        D::Int(i) => i64_to("int", *i, &[]),
        D::Float(f) => leaf("float", f64_p(*f)),
        D::NegInfinity => leaf("float", f64_p(f64::NEG_INFINITY)),
        D::PosInfinity => leaf("float", f64_p(f64::INFINITY)),
        D::Nan => leaf("float", vec![3, 0, 2047, 8, 0, 0, 0]),
        D::Text(s) => leaf("text", b2p(s.as_bytes())),
        D::Blob(b) => leaf("blob", b2p(b)),
        D::Date(x) => leaf("date", vec![*x as i64]),
        D::Time(x) => i64_to("time", *x, &[]),
        D::Timestamp(x) => i64_to("timestamp", *x, &[]),
        D::TimestampTz { micros, tz_offset_mins } => i64_to("timestamptz", *micros, &[*tz_offset_mins as i64]),
        D::Interval { months, days, micros } => {
            let m = i64_to("x", *micros, &[]);
            let mut p = vec![*months as i64, *days as i64];
            p.extend(ints(&m["p"]));
            leaf("interval", p)
        }
        D::Uuid(u) => leaf("uuid", b2p(u)),
        D::Inet { is_ipv6, addr, prefix_len } => {
            let mut p = vec![*is_ipv6 as i64, *prefix_len as i64];
            p.extend(b2p(addr));
            leaf("inet", p)
        }
        D::MacAddr(m) => leaf("macaddr", b2p(m)),
        D::Array(a) => node("array", a.iter().map(decoded_to).collect()),
        D::Tuple(a) => node("tuple", a.iter().map(decoded_to).collect()),
        D::Enum { type_id, ordinal } => leaf("enum", vec![(*type_id >> 16) as i64, (*type_id & 0xffff) as i64, (*ordinal >> 16) as i64, (*ordinal & 0xffff) as i64]),
        D::Vector(v) => node("vector", v.iter().map(|f| f32_to(*f)).collect()),
        D::Json(j) => djson_to(j),
        other => json!({"t": "other", "p": [], "c": [], "debug": format!("{:?}", other)}),
    }
}

fn decode_one(buf: &[u8]) -> (J, J) {
    let exact: Box<[u8]> = buf.to_vec().into_boxed_slice();
    match guarded(|| key::decode_key(&exact)) {
        Ok(Ok((d, n))) => (decoded_to(&d), json!(n)),
        Ok(Err(e)) => (json!({"err": e.to_string()}), J::Null),
        Err(p) => (json!({"panic": p}), J::Null),
    }
}

/// every proper prefix of a valid key is a truncated key: Ok (shorter), Err - never a panic or an over-read
fn prefix_probe(enc: &[u8]) -> J {
    let (mut ok, mut err, mut panic, mut over) = (0, 0, 0, 0);
    let mut first_bad = J::Null;
    for l in 0..enc.len() {
        let exact: Box<[u8]> = enc[..l].to_vec().into_boxed_slice();
        match guarded(|| key::decode_key(&exact)) {
            Ok(Ok((_, n))) => {
                if n > l {
                    over += 1;
                    if first_bad.is_null() {
                        first_bad = json!({"len": l, "consumed": n});
                    }
                } else {
                    ok += 1
                }
            }
            Ok(Err(_)) => err += 1,
            Err(p) => {
                panic += 1;
                if first_bad.is_null() {
                    first_bad = json!({"len": l, "panic": p});
                }
            }
        }
    }
    json!({"ok": ok, "err": err, "panic": panic, "overread": over, "first_bad": first_bad})
}

fn key_run(args: &Args) {
    let cases = read_cases(&args.get("in", ""));
    par_run(cases, args.num("jobs", 4), &args.get("out", ""), |_, c| {
        let id = c["id"].clone();
        match c["k"].as_str().unwrap_or("") {
            "pt" => {
                let v = c["v"].clone();
                let enc = guarded(|| {
                    let mut b = Vec::new();
                    encode(&v, &mut b);
                    b
                });
                let enc = match enc {
                    Ok(b) => b,
                    Err(p) => return vec![json!({"id": id, "panic": p})],
                };
                // the zero-allocation entry points write into a caller buffer: a dirty buffer must only be appended to
                let mut dirty = vec![0x5A, 0xA5];
                let appended = guarded(|| {
                    encode(&v, &mut dirty);
                }).is_ok() && dirty[..2] == [0x5A, 0xA5] && dirty[2..] == enc[..];
                let ev = guarded(|| encode_value(&v)).unwrap_or(None);
                let tv = guarded(|| encode_tv(&v)).unwrap_or(None);
                let (dec, consumed) = decode_one(&enc);
                // a key followed by more bytes (the next column / the row id) must decode to the same value
                let mut tail = enc.clone();
                tail.extend_from_slice(&[0x16, 0, 0, 0, 0, 0, 0, 0, 7]);
                let (dec_tail, consumed_tail) = decode_one(&tail);
                vec![json!({"id": id, "enc": hex(&enc), "appended": appended, "enc_value": ev.map(|b| hex(&b)), "enc_tv": tv.map(|b| hex(&b)),
                            "dec": dec, "consumed": consumed, "dec_tail": dec_tail, "consumed_tail": consumed_tail,
                            "prefix_probe": prefix_probe(&enc)})]
            }
            "row" => {
                let cols = c["cols"].as_array().cloned().unwrap_or_default();
                let enc = guarded(|| {
                    let mut b = Vec::new();
                    for col in &cols {
                        encode(col, &mut b);
                    }
                    b
                });
                let enc = match enc {
                    Ok(b) => b,
                    Err(p) => return vec![json!({"id": id, "panic": p})],
                };
                // column-by-column decode of the concatenation
                let mut off = 0usize;
                let mut dec_cols = vec![];
                for _ in 0..cols.len() {
                    let (d, n) = decode_one(&enc[off..]);
                    dec_cols.push(d);
                    match n.as_u64() {
                        Some(n) => off += n as usize,
                        None => break,
                    }
                }
                vec![json!({"id": id, "enc": hex(&enc), "dec_cols": dec_cols, "consumed": off})]
            }
            "prefix" => {
                let f = c["b"].as_i64().unwrap() as u8;
                let mut out = vec![];
                for (name, fill, n) in [("none", 0u8, 0usize), ("00", 0u8, 24), ("ff", 0xFFu8, 24), ("01", 1u8, 24)] {
                    let mut b = vec![f];
                    b.extend(std::iter::repeat(fill).take(n));
                    let (d, cons) = decode_one(&b);
                    let kind = if d.get("panic").is_some() { "panic" } else if d.get("err").is_some() { "err" } else { "ok" };
                    out.push(json!({"fill": name, "kind": kind, "len": b.len(), "consumed": cons, "detail": if kind == "ok" { J::Null } else { d }}));
                }
                vec![json!({"id": id, "probes": out})]
            }
            _ => vec![json!({"id": id, "err": "unknown case kind"})],
        }
    });
}

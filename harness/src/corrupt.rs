//! C23 - "decoders of stored bytes reject corruption without crashing": fault injection into the files of a valid
//! database and into valid encodings of the byte-level decoders.
//!
//! The fault descriptors come from spec/Corruption.tla (file kind x region x fault kind x database shape, and
//! decoder x sample x byte position x fault kind); this module only RESOLVES a descriptor to bytes, applies it and
//! observes the outcome class of every step in a child process (see robust.rs for the supervisor protocol).
//!
//!   corrupt-inventory --out f     builds the two database shapes and prints the resolved regions (debugging aid and
//!                                  evidence: which regions exist in which file)
//!   corrupt-run --in cases --out results [--jobs N --watchdog ms]       supervisor
//!   corrupt-child                                                        one case per stdin line
//!
//! file case    {"id":..,"mode":"file","shape":"tiny"|"multi","file":FK,"region":R,"kind":K}
//!     FK: meta | table | index | toast | hnsw | wal       (resolved to one concrete file of the shape)
//!     R : a region name (see `regions_of_*`); K: zero | ff | flip_first | flip_middle | flip_last |
//!         trunc_at_start | trunc_inside | extend_junk
//!     -> {"id":..,"resolved":{file,start,len}|null,"steps":[{"op":..,"cls":"ok"|"err"|"panic",..}]}
//! decoder case {"id":..,"mode":"decoder","decoder":D,"sample":S,"pos":P,"kind":K}
//!     D: varint | key | record | jsonb | array | catalog | walframe | pageheader | leaf | interior | tablehdr |
//!        indexhdr | metahdr | hnswhdr | toastptr
//!     P: byte position (a case whose position is beyond the sample is answered with "absent")
//!     K: zero | ff | flip_low | flip_high | trunc (cut before P) | extend_junk
use crate::robust::{child_loop, copy_dir, guarded_json, supervise};
use crate::util::*;
use serde_json::{json, Value};
use std::path::{Path, PathBuf};
use turdb::storage::{IndexFileHeader, PageHeader, PageType, TableFileHeader};
use turdb::Database;

const PAGE: usize = 16384;
const FILE_HDR: usize = 128;
const WAL_FRAME_HDR: usize = 32;

// ------------------------------------------------------------------------------------------------ shapes
fn exec_all(db: &Database, sqls: &[String]) -> Result<(), String> {
    for s in sqls {
        db.execute(s).map_err(|e| format!("setup statement failed: {}: {:#}", &s[..s.len().min(120)], e))?;
    }
    Ok(())
}

/// Builds one database shape in `dir`. The copy that the cases work on is taken while the database is still open
/// for the WAL variant (files + un-checkpointed WAL frames), after close() otherwise.
fn build_shape(shape: &str, dir: &Path) -> Result<(), String> {
    let _ = std::fs::remove_dir_all(dir);
    let live = dir.with_extension("live");
    let _ = std::fs::remove_dir_all(&live);
    let db = Database::create(&live).map_err(|e| format!("create: {e:#}"))?;
    let mut sqls: Vec<String> = vec!["PRAGMA wal = ON".into()];
    match shape {
        "tiny" => {
            sqls.push("CREATE TABLE a (id INT PRIMARY KEY, x TEXT, n BIGINT)".into());
            sqls.push("INSERT INTO a VALUES (1, 'one', 10), (2, 'two', 20), (3, NULL, 30)".into());
        }
        _ => {
            sqls.push("CREATE TABLE m (id BIGINT PRIMARY KEY, k INT, payload TEXT, big TEXT, j JSONB, v VECTOR(3))".into());
            sqls.push("CREATE INDEX m_k ON m (k)".into());
            // ~2000 rows of ~120 bytes: several leaf pages and an interior page in table and index files
            for chunk in 0..20 {
                let mut s = String::from("INSERT INTO m (id, k, payload, big, j, v) VALUES ");
                for i in 0..100 {
                    let id = chunk * 100 + i + 1;
                    if i > 0 {
                        s.push(',');
                    }
                    let big = if id % 400 == 7 { "B".repeat(9000) } else { String::from("s") };
                    s.push_str(&format!(
                        "({id}, {k}, 'payload-{id:06}-{pad}', '{big}', '{{\"a\":{id},\"b\":[1,2,3]}}', '[{x},{y},1]')",
                        id = id,
                        k = id % 97,
                        pad = "p".repeat(60),
                        big = big,
                        x = id % 10,
                        y = id % 7
                    ));
                }
                sqls.push(s);
            }
            sqls.push("CREATE TABLE hv (id INT PRIMARY KEY, v VECTOR(3))".into());
            let mut s = String::from("INSERT INTO hv VALUES ");
            for i in 0..60 {
                if i > 0 {
                    s.push(',');
                }
                s.push_str(&format!("({}, '[{},{},{}]')", i + 1, i % 5, i % 3, i % 7));
            }
            sqls.push(s);
            sqls.push("CREATE INDEX hv_v ON hv USING HNSW (v)".into());
            sqls.push("DELETE FROM m WHERE id % 50 = 0".into());
        }
    }
    exec_all(&db, &sqls)?;
    let _ = db.checkpoint();
    // frames that are only in the WAL when the copy is taken
    let tail: Vec<String> = match shape {
        "tiny" => vec!["INSERT INTO a VALUES (4, 'four', 40)".into(), "UPDATE a SET n = 11 WHERE id = 1".into()],
        _ => vec!["INSERT INTO m (id, k, payload, big) VALUES (5001, 5, 'wal-row', 's')".into(), "UPDATE m SET k = 96 WHERE id = 7".into(), "DELETE FROM m WHERE id = 8".into()],
    };
    exec_all(&db, &tail)?;
    copy_dir(&live, dir).map_err(|e| format!("copy live database: {e}"))?;
    let _ = db.close();
    drop(db);
    let _ = std::fs::remove_dir_all(&live);
    Ok(())
}

fn list_files(dir: &Path, rel: &Path, out: &mut Vec<PathBuf>) {
    if let Ok(rd) = std::fs::read_dir(dir.join(rel)) {
        let mut es: Vec<_> = rd.flatten().collect();
        es.sort_by_key(|e| e.file_name());
        for e in es {
            let r = rel.join(e.file_name());
            if e.path().is_dir() {
                list_files(dir, &r, out);
            } else {
                out.push(r);
            }
        }
    }
}

/// file kind of the spec -> the concrete file of a shape (the largest one of that kind)
fn pick_file(dir: &Path, fk: &str) -> Option<PathBuf> {
    let mut fs = vec![];
    list_files(dir, Path::new(""), &mut fs);
    let size = |p: &PathBuf| std::fs::metadata(dir.join(p)).map(|m| m.len()).unwrap_or(0);
    let name = |p: &PathBuf| p.file_name().map(|s| s.to_string_lossy().to_string()).unwrap_or_default();
    let mut cands: Vec<PathBuf> = fs
        .into_iter()
        .filter(|p| {
            let n = name(p);
            let in_wal = p.components().any(|c| c.as_os_str() == "wal");
            match fk {
                "meta" => n == "turdb.meta",
                "catalog" => n == "turdb.catalog",
                "wal" => in_wal && size(p) > 0,
                "table" => n.ends_with(".tbd") && !n.contains("toast") && !in_wal,
                "toast" => n.ends_with(".tbd") && n.contains("toast"),
                "index" => n.ends_with(".idx") && !n.contains("hv_v"),
                "hnsw" => n.ends_with(".hnsw") || (n.ends_with(".idx") && n.contains("hv_v")),
                _ => false,
            }
        })
        .collect();
    cands.sort_by_key(|p| (std::cmp::Reverse(size(p)), p.clone()));
    cands.into_iter().next()
}

// ------------------------------------------------------------------------------------------------ regions
#[derive(Clone, Debug)]
struct Region {
    name: String,
    start: usize,
    len: usize,
}

fn reg(v: &mut Vec<Region>, name: impl Into<String>, start: usize, len: usize) {
    if len > 0 {
        v.push(Region { name: name.into(), start, len });
    }
}

/// Regions of one B-tree page at byte offset `base` of the file (`hdr_skip` = 128 on page 0).
fn page_regions(v: &mut Vec<Region>, tag: &str, bytes: &[u8], base: usize) {
    let page = &bytes[base..(base + PAGE).min(bytes.len())];
    if page.len() < PAGE {
        return;
    }
    let Ok(h) = PageHeader::from_bytes(page) else { return };
    reg(v, format!("{tag}.page_header.type"), base, 1);
    reg(v, format!("{tag}.page_header.flags"), base + 1, 1);
    reg(v, format!("{tag}.page_header.cell_count"), base + 2, 2);
    reg(v, format!("{tag}.page_header.free_start"), base + 4, 2);
    reg(v, format!("{tag}.page_header.free_end"), base + 6, 2);
    reg(v, format!("{tag}.page_header.frag_reserved"), base + 8, 4);
    reg(v, format!("{tag}.page_header.right_child"), base + 12, 4);
    reg(v, format!("{tag}.page_header"), base, 16);
    let n = h.cell_count() as usize;
    let fs = h.free_start() as usize;
    let fe = h.free_end() as usize;
    match h.page_type() {
        PageType::BTreeLeaf => {
            reg(v, format!("{tag}.leaf_header"), base + 16, 8);
            let slot0 = 24;
            if n > 0 && slot0 + n * 8 <= PAGE {
                reg(v, format!("{tag}.slot_array"), base + slot0, n * 8);
                for (nm, i) in [("first", 0usize), ("middle", n / 2), ("last", n - 1)] {
                    let so = slot0 + i * 8;
                    reg(v, format!("{tag}.slot.{nm}.prefix"), base + so, 4);
                    reg(v, format!("{tag}.slot.{nm}.offset"), base + so + 4, 2);
                    reg(v, format!("{tag}.slot.{nm}.key_len"), base + so + 6, 2);
                    let off = u16::from_le_bytes([page[so + 4], page[so + 5]]) as usize;
                    let kl = u16::from_le_bytes([page[so + 6], page[so + 7]]) as usize;
                    if off + kl < PAGE {
                        reg(v, format!("{tag}.cell.{nm}.key"), base + off, kl);
                        reg(v, format!("{tag}.cell.{nm}.value_len"), base + off + kl, 1);
                        reg(v, format!("{tag}.cell.{nm}.value_head"), base + off + kl + 1, 24.min(PAGE - off - kl - 1));
                    }
                }
            }
        }
        PageType::BTreeInterior => {
            if n > 0 && 16 + n * 12 <= PAGE {
                reg(v, format!("{tag}.slot_array"), base + 16, n * 12);
                for (nm, i) in [("first", 0usize), ("last", n - 1)] {
                    reg(v, format!("{tag}.slot.{nm}"), base + 16 + i * 12, 12);
                }
            }
        }
        _ => {}
    }
    if fs < fe && fe <= PAGE {
        reg(v, format!("{tag}.free_space"), base + fs, fe - fs);
    }
    if fe < PAGE {
        reg(v, format!("{tag}.cell_area"), base + fe, PAGE - fe);
    }
    reg(v, format!("{tag}.page"), base, PAGE);
}

fn btree_file_regions(bytes: &[u8], is_index: bool) -> Vec<Region> {
    let mut v = vec![];
    reg(&mut v, "fh.magic", 0, 16);
    let root = if is_index {
        reg(&mut v, "fh.ids", 16, 16);
        reg(&mut v, "fh.root_page", 32, 4);
        reg(&mut v, "fh.meta", 36, 12);
        IndexFileHeader::from_bytes(&bytes[..FILE_HDR.min(bytes.len())]).map(|h| h.root_page()).unwrap_or(0)
    } else {
        reg(&mut v, "fh.ids", 16, 8);
        reg(&mut v, "fh.row_count", 24, 8);
        reg(&mut v, "fh.root_page", 32, 4);
        reg(&mut v, "fh.column_count", 36, 4);
        reg(&mut v, "fh.first_free_page", 40, 8);
        reg(&mut v, "fh.auto_increment", 48, 8);
        reg(&mut v, "fh.rightmost_hint", 56, 4);
        TableFileHeader::from_bytes(&bytes[..FILE_HDR.min(bytes.len())]).map(|h| h.root_page()).unwrap_or(0)
    };
    reg(&mut v, "fh.reserved", 64, 64);
    reg(&mut v, "fh", 0, FILE_HDR);
    reg(&mut v, "page0.rest", FILE_HDR, PAGE.min(bytes.len()).saturating_sub(FILE_HDR));
    let npages = bytes.len() / PAGE;
    let mut leaves = vec![];
    let mut interiors = vec![];
    let mut others = vec![];
    for p in 1..npages {
        match PageHeader::from_bytes(&bytes[p * PAGE..(p + 1) * PAGE]).map(|h| h.page_type()) {
            Ok(PageType::BTreeLeaf) => leaves.push(p),
            Ok(PageType::BTreeInterior) => interiors.push(p),
            Ok(PageType::Unknown) => {}
            Ok(_) => others.push(p),
            Err(_) => {}
        }
    }
    if (root as usize) < npages && root > 0 {
        page_regions(&mut v, "root", bytes, root as usize * PAGE);
    }
    if let Some(&p) = leaves.first() {
        page_regions(&mut v, "leaf.first", bytes, p * PAGE);
    }
    if leaves.len() > 2 {
        page_regions(&mut v, "leaf.middle", bytes, leaves[leaves.len() / 2] * PAGE);
    }
    if leaves.len() > 1 {
        page_regions(&mut v, "leaf.last", bytes, leaves[leaves.len() - 1] * PAGE);
    }
    if let Some(&p) = interiors.iter().find(|&&p| p as u32 != root) {
        page_regions(&mut v, "interior", bytes, p * PAGE);
    }
    if let Some(&p) = others.first() {
        page_regions(&mut v, "other", bytes, p * PAGE);
    }
    reg(&mut v, "file", 0, bytes.len());
    reg(&mut v, "last_page", (npages.max(1) - 1) * PAGE, PAGE.min(bytes.len()));
    v
}

fn meta_regions(bytes: &[u8]) -> Vec<Region> {
    let mut v = vec![];
    reg(&mut v, "magic", 0, 16);
    reg(&mut v, "version", 16, 4);
    reg(&mut v, "page_size", 20, 4);
    reg(&mut v, "schema_count", 24, 8);
    reg(&mut v, "default_schema_id", 32, 8);
    reg(&mut v, "next_table_id", 40, 8);
    reg(&mut v, "next_index_id", 48, 8);
    reg(&mut v, "flags", 56, 8);
    reg(&mut v, "reserved", 64, 64);
    reg(&mut v, "header", 0, FILE_HDR);
    reg(&mut v, "page0.rest", FILE_HDR, PAGE.min(bytes.len()).saturating_sub(FILE_HDR));
    reg(&mut v, "file", 0, bytes.len());
    v
}

fn catalog_regions(bytes: &[u8]) -> Vec<Region> {
    let mut v = vec![];
    reg(&mut v, "magic", 0, 16);
    reg(&mut v, "version", 16, 4);
    reg(&mut v, "page_size", 20, 4);
    reg(&mut v, "schema_count", 24, 8);
    reg(&mut v, "default_schema_id", 32, 8);
    reg(&mut v, "counters", 40, 24);
    reg(&mut v, "catalog_offset", 64, 8);
    reg(&mut v, "catalog_length", 72, 8);
    reg(&mut v, "header_rest", 80, 48);
    let off = if bytes.len() >= 80 { u64::from_le_bytes(bytes[64..72].try_into().unwrap()) as usize } else { 0 };
    let len = if bytes.len() >= 80 { u64::from_le_bytes(bytes[72..80].try_into().unwrap()) as usize } else { 0 };
    if off > 0 && off + len <= bytes.len() && len > 0 {
        reg(&mut v, "catalog.head", off, 16.min(len));
        reg(&mut v, "catalog.middle", off + len / 2, 16.min(len - len / 2));
        reg(&mut v, "catalog.tail", off + len - 8.min(len), 8.min(len));
        reg(&mut v, "catalog.body", off, len);
    }
    reg(&mut v, "file", 0, bytes.len());
    v
}

fn hnsw_regions(bytes: &[u8]) -> Vec<Region> {
    let mut v = vec![];
    reg(&mut v, "fh.magic", 0, 16);
    reg(&mut v, "fh.ids", 16, 16);
    reg(&mut v, "fh.dimensions", 32, 2);
    reg(&mut v, "fh.m", 34, 4);
    reg(&mut v, "fh.ef", 38, 4);
    reg(&mut v, "fh.distance_quantization", 42, 2);
    reg(&mut v, "fh.entry_point", 44, 6);
    reg(&mut v, "fh.max_level", 50, 2);
    reg(&mut v, "fh.node_count", 52, 8);
    reg(&mut v, "fh.vector_count", 60, 8);
    reg(&mut v, "fh.first_free_page", 68, 4);
    reg(&mut v, "fh.reserved", 72, 56);
    reg(&mut v, "fh", 0, FILE_HDR);
    reg(&mut v, "page0.rest", FILE_HDR, PAGE.min(bytes.len()).saturating_sub(FILE_HDR));
    let npages = bytes.len() / PAGE;
    if npages > 1 {
        let b = PAGE;
        reg(&mut v, "node_page.page_header", b, 16);
        reg(&mut v, "node_page.hnsw_header.slot_count", b + 16, 2);
        reg(&mut v, "node_page.hnsw_header.free_ptrs", b + 18, 4);
        reg(&mut v, "node_page.hnsw_header.counts", b + 22, 6);
        reg(&mut v, "node_page.hnsw_header.next_page", b + 28, 4);
        reg(&mut v, "node_page.hnsw_header", b + 16, 64);
        reg(&mut v, "node_page.slots_head", b + 80, 64);
        reg(&mut v, "node_page.tail", b + PAGE - 256, 256);
        reg(&mut v, "node_page.page", b, PAGE);
    }
    reg(&mut v, "file", 0, bytes.len());
    v
}

fn wal_regions(bytes: &[u8]) -> Vec<Region> {
    let mut v = vec![];
    let fsz = WAL_FRAME_HDR + PAGE;
    let n = bytes.len() / fsz;
    let mut picks = vec![];
    if n > 0 {
        picks.push(("first", 0));
    }
    if n > 2 {
        picks.push(("middle", n / 2));
    }
    if n > 1 {
        picks.push(("last", n - 1));
    }
    for (nm, i) in picks {
        let b = i * fsz;
        reg(&mut v, format!("frame.{nm}.header.file_id"), b, 8);
        reg(&mut v, format!("frame.{nm}.header.page_no"), b + 8, 4);
        reg(&mut v, format!("frame.{nm}.header.db_size"), b + 12, 4);
        reg(&mut v, format!("frame.{nm}.header.salt"), b + 16, 8);
        reg(&mut v, format!("frame.{nm}.header.checksum"), b + 24, 8);
        reg(&mut v, format!("frame.{nm}.header"), b, WAL_FRAME_HDR);
        reg(&mut v, format!("frame.{nm}.body.head"), b + WAL_FRAME_HDR, 160);
        reg(&mut v, format!("frame.{nm}.body.tail"), b + fsz - 64, 64);
        reg(&mut v, format!("frame.{nm}.body"), b + WAL_FRAME_HDR, PAGE);
        reg(&mut v, format!("frame.{nm}"), b, fsz);
    }
    reg(&mut v, "file", 0, bytes.len());
    v
}

fn regions_of(fk: &str, bytes: &[u8]) -> Vec<Region> {
    match fk {
        "meta" => meta_regions(bytes),
        "catalog" => catalog_regions(bytes),
        "table" | "toast" => btree_file_regions(bytes, false),
        "index" => btree_file_regions(bytes, true),
        "hnsw" => {
            if bytes.len() >= 16 && &bytes[..16] == turdb::storage::HNSW_MAGIC {
                hnsw_regions(bytes)
            } else {
                btree_file_regions(bytes, true)
            }
        }
        "wal" => wal_regions(bytes),
        _ => vec![],
    }
}

// ------------------------------------------------------------------------------------------------ faults
fn junk(n: usize, seed: u64) -> Vec<u8> {
    let mut x = seed.wrapping_mul(0x9E3779B97F4A7C15) | 1;
    (0..n)
        .map(|_| {
            x ^= x << 13;
            x ^= x >> 7;
            x ^= x << 17;
            (x >> 24) as u8
        })
        .collect()
}

/// applies fault kind to region [start, start+len) of the byte vector; returns false when not applicable
fn apply_fault(bytes: &mut Vec<u8>, start: usize, len: usize, kind: &str) -> bool {
    if start + len > bytes.len() || len == 0 {
        return false;
    }
    match kind {
        "zero" => bytes[start..start + len].iter_mut().for_each(|b| *b = 0),
        "ff" => bytes[start..start + len].iter_mut().for_each(|b| *b = 0xFF),
        "flip_first" => bytes[start] ^= 0x01,
        "flip_middle" => bytes[start + len / 2] ^= 0x10,
        "flip_last" => bytes[start + len - 1] ^= 0x80,
        "junk" => {
            let j = junk(len, (start as u64) << 16 | len as u64);
            bytes[start..start + len].copy_from_slice(&j);
        }
        "trunc_at_start" => bytes.truncate(start),
        "trunc_inside" => bytes.truncate(start + (len + 1) / 2),
        "extend_junk" => {
            let j = junk(1000 + len % 777, start as u64 + 7);
            bytes.extend_from_slice(&j);
        }
        _ => return false,
    }
    true
}

// ------------------------------------------------------------------------------------------------ inventory
fn shape_dirs(root: &Path) -> Result<Vec<(String, PathBuf)>, String> {
    let mut v = vec![];
    for s in ["tiny", "multi"] {
        let d = root.join(format!("shape-{s}"));
        build_shape(s, &d)?;
        v.push((s.to_string(), d));
    }
    Ok(v)
}

pub fn inventory(args: &Args) {
    let root = scratch_root();
    let mut out = vec![];
    match shape_dirs(&root) {
        Err(e) => out.push(json!({"fatal": e})),
        Ok(shapes) => {
            for (s, d) in shapes {
                let mut fs = vec![];
                list_files(&d, Path::new(""), &mut fs);
                out.push(json!({"shape": s, "files": fs.iter().map(|p| json!({"path": p.to_string_lossy(), "size": std::fs::metadata(d.join(p)).map(|m| m.len()).unwrap_or(0)})).collect::<Vec<_>>()}));
                for fk in ["meta", "catalog", "table", "index", "toast", "hnsw", "wal"] {
                    match pick_file(&d, fk) {
                        None => out.push(json!({"shape": s, "file": fk, "resolved": null})),
                        Some(p) => {
                            let bytes = std::fs::read(d.join(&p)).unwrap_or_default();
                            let rs = regions_of(fk, &bytes);
                            out.push(json!({"shape": s, "file": fk, "path": p.to_string_lossy(), "size": bytes.len(),
                                "regions": rs.iter().map(|r| json!([r.name, r.start, r.len])).collect::<Vec<_>>()}));
                        }
                    }
                }
            }
        }
    }
    let text: String = out.iter().map(|v| format!("{}\n", v)).collect();
    std::fs::write(args.get("out", "/dev/stdout"), text).expect("write inventory");
    let _ = std::fs::remove_dir_all(&root);
}

// ------------------------------------------------------------------------------------------------ file cases
fn step(steps: &mut Vec<Value>, progress: &mut dyn FnMut(Value), op: &str, f: impl FnOnce() -> Result<Value, String>) -> bool {
    progress(json!(op));
    let r = guarded_json(|| match f() {
        Ok(v) => json!({"cls": "ok", "v": v}),
        Err(e) => {
            let mut e = e;
            if e.len() > 160 {
                let mut c = 160;
                while !e.is_char_boundary(c) {
                    c -= 1;
                }
                e.truncate(c);
            }
            json!({"cls": "err", "err": e})
        }
    });
    let mut r = r;
    let panicked = r.get("panic").is_some();
    if panicked {
        r["cls"] = json!("panic");
    }
    r["op"] = json!(op);
    steps.push(r);
    !panicked
}

fn workload(shape: &str) -> Vec<(&'static str, String)> {
    match shape {
        "tiny" => vec![
            ("scan", "SELECT * FROM a".into()),
            ("count", "SELECT COUNT(*) FROM a".into()),
            ("pk_lookup", "SELECT * FROM a WHERE id = 2".into()),
            ("range", "SELECT id, x FROM a WHERE id BETWEEN 1 AND 3 ORDER BY id".into()),
            ("insert", "INSERT INTO a VALUES (9, 'nine', 90)".into()),
            ("update", "UPDATE a SET x = 'uno' WHERE id = 1".into()),
            ("delete", "DELETE FROM a WHERE id = 2".into()),
            ("rescan", "SELECT * FROM a ORDER BY id".into()),
        ],
        _ => vec![
            ("scan", "SELECT * FROM m".into()),
            ("scan_hv", "SELECT * FROM hv".into()),
            ("count", "SELECT COUNT(*) FROM m".into()),
            ("pk_lookup", "SELECT * FROM m WHERE id = 777".into()),
            ("index_lookup", "SELECT id, k FROM m WHERE k = 5".into()),
            ("range", "SELECT id FROM m WHERE id BETWEEN 100 AND 140 ORDER BY id".into()),
            ("toast_read", "SELECT id, LENGTH(big) FROM m WHERE id IN (7, 407, 1207)".into()),
            ("json_read", "SELECT j->'a' FROM m WHERE id = 3".into()),
            ("vector_search", "SELECT id FROM hv ORDER BY v <-> '[1,1,1]' LIMIT 3".into()),
            ("aggregate", "SELECT k, COUNT(*) FROM m GROUP BY k".into()),
            ("insert", "INSERT INTO m (id, k, payload, big) VALUES (9001, 3, 'new', 'n')".into()),
            ("insert_big", format!("INSERT INTO m (id, k, payload, big) VALUES (9002, 4, 'new', '{}')", "Z".repeat(5000))),
            ("update", "UPDATE m SET k = 1 WHERE id = 10".into()),
            ("delete", "DELETE FROM m WHERE id = 11".into()),
            ("insert_hv", "INSERT INTO hv VALUES (900, '[2,2,2]')".into()),
            ("rescan", "SELECT COUNT(*) FROM m WHERE k >= 0".into()),
        ],
    }
}

fn run_file_case(case: &Value, shapes: &[(String, PathBuf)], work: &Path, progress: &mut dyn FnMut(Value)) -> Value {
    let shape = case["shape"].as_str().unwrap_or("tiny");
    let fk = case["file"].as_str().unwrap_or("");
    let region = case["region"].as_str().unwrap_or("");
    let kind = case["kind"].as_str().unwrap_or("");
    let Some((_, src)) = shapes.iter().find(|(s, _)| s == shape) else { return json!({"id": case["id"], "fatal": "unknown shape"}) };
    let _ = std::fs::remove_dir_all(work);
    if let Err(e) = copy_dir(src, work) {
        return json!({"id": case["id"], "fatal": format!("copy shape: {e}")});
    }
    let mut resolved = Value::Null;
    if kind != "none" {
        let Some(rel) = pick_file(work, fk) else { return json!({"id": case["id"], "resolved": null, "why": "no such file in this shape"}) };
        let path = work.join(&rel);
        let mut bytes = std::fs::read(&path).unwrap_or_default();
        let Some(r) = regions_of(fk, &bytes).into_iter().find(|r| r.name == region) else {
            return json!({"id": case["id"], "resolved": null, "why": "no such region in this file"});
        };
        if !apply_fault(&mut bytes, r.start, r.len, kind) {
            return json!({"id": case["id"], "resolved": null, "why": "fault not applicable"});
        }
        if let Err(e) = std::fs::write(&path, &bytes) {
            return json!({"id": case["id"], "fatal": format!("write faulty file: {e}")});
        }
        resolved = json!({"file": rel.to_string_lossy(), "start": r.start, "len": r.len, "new_size": bytes.len()});
    }
    let mut steps = vec![];
    let mut db: Option<Database> = None;
    let mut alive = step(&mut steps, progress, "open", || match Database::open(work) {
        Ok(d) => {
            db = Some(d);
            Ok(Value::Null)
        }
        Err(e) => Err(format!("{e:#}")),
    });
    if let (true, Some(d)) = (alive, db.as_ref()) {
        for (name, sql) in workload(shape) {
            alive = step(&mut steps, progress, name, || d.execute(&sql).map(|r| match r {
                turdb::ExecuteResult::Select { rows, .. } => json!(rows.len()),
                _ => Value::Null,
            }).map_err(|e| format!("{e:#}")));
            if !alive {
                break;
            }
        }
        if alive {
            alive = step(&mut steps, progress, "checkpoint", || d.checkpoint().map(|i| json!(i.frames_checkpointed)).map_err(|e| format!("{e:#}")));
        }
        if alive {
            alive = step(&mut steps, progress, "close", || d.close().map(|_| Value::Null).map_err(|e| format!("{e:#}")));
        }
    }
    if alive {
        let d = db.take();
        alive = step(&mut steps, progress, "drop", move || {
            drop(d);
            Ok(Value::Null)
        });
        if alive && steps.first().map(|s| s["cls"] == "ok").unwrap_or(false) {
            // a second open: what the first session wrote must not make the database un-openable with a crash
            step(&mut steps, progress, "reopen", || Database::open(work).map(|d| {
                let n = d.execute(if shape == "tiny" { "SELECT * FROM a" } else { "SELECT COUNT(*) FROM m" }).map(|_| 1).unwrap_or(0);
                let _ = d.close();
                json!(n)
            }).map_err(|e| format!("{e:#}")));
        }
    } else {
        std::mem::forget(db);
    }
    json!({"id": case["id"], "resolved": resolved, "steps": steps})
}

// ------------------------------------------------------------------------------------------------ decoder cases
use turdb::encoding::key as kenc;
use turdb::encoding::{decode_varint, encode_varint};
use turdb::records::{ArrayBuilder, ArrayView, ColumnDef, DataType, JsonbBuilder, JsonbBuilderValue, JsonbView, RecordBuilder, RecordView, Schema};

fn record_schema() -> Schema {
    Schema::new(vec![
        ColumnDef::new("b", DataType::Bool), ColumnDef::new("i2", DataType::Int2), ColumnDef::new("i4", DataType::Int4), ColumnDef::new("i8", DataType::Int8),
        ColumnDef::new("f4", DataType::Float4), ColumnDef::new("f8", DataType::Float8), ColumnDef::new("d", DataType::Date), ColumnDef::new("tm", DataType::Time),
        ColumnDef::new("ts", DataType::Timestamp), ColumnDef::new("u", DataType::Uuid), ColumnDef::new("t", DataType::Text), ColumnDef::new("bl", DataType::Blob),
        ColumnDef::new("v", DataType::Vector), ColumnDef::new("j", DataType::Jsonb), ColumnDef::new_varchar("vc", Some(10)), ColumnDef::new("t2", DataType::Text),
    ])
}

fn jsonb_sample(i: usize) -> Vec<u8> {
    match i {
        0 => {
            let mut b = JsonbBuilder::new_object();
            b.set("a", 1i64);
            b.set("s", "text");
            b.set("t", true);
            b.set("n", JsonbBuilderValue::Null);
            b.set("arr", JsonbBuilderValue::Array(vec![JsonbBuilderValue::Number(1.5), JsonbBuilderValue::String("x".into()), JsonbBuilderValue::Object(vec![("k".into(), JsonbBuilderValue::Bool(false))])]));
            b.set("o", JsonbBuilderValue::Object(vec![("in".into(), JsonbBuilderValue::Array(vec![]))]));
            b.build()
        }
        1 => {
            let mut b = JsonbBuilder::new_array();
            b.push(1i64);
            b.push("two");
            b.push(JsonbBuilderValue::Array(vec![JsonbBuilderValue::Null]));
            b.build()
        }
        2 => JsonbBuilder::new_string("just a string").build(),
        _ => JsonbBuilder::new_number(-12.5).build(),
    }
}

fn record_sample(schema: &Schema, i: usize) -> Vec<u8> {
    let mut b = RecordBuilder::new(schema);
    let _ = b.set_bool(0, true);
    let _ = b.set_int2(1, -2);
    let _ = b.set_int4(2, 123456);
    let _ = b.set_int8(3, i64::MIN + 1);
    let _ = b.set_float4(4, 1.5);
    let _ = b.set_float8(5, -2.25);
    let _ = b.set_date(6, 19000);
    let _ = b.set_time(7, 3_600_000_000);
    let _ = b.set_timestamp(8, 1_700_000_000_000_000);
    let _ = b.set_uuid(9, &[7u8; 16]);
    let _ = b.set_text(10, "hello wörld");
    let _ = b.set_blob(11, &[0, 1, 2, 255]);
    let _ = b.set_vector(12, &[1.0, 2.0, 3.0]);
    let _ = b.set_jsonb_bytes(13, &jsonb_sample(0));
    let _ = b.set_varchar(14, "vc");
    let _ = b.set_text(15, "");
    if i == 1 {
        b.set_null(2);
        b.set_null(10);
        b.set_null(12);
        b.set_null(15);
    }
    b.build().unwrap_or_default()
}

fn key_sample(i: usize) -> Vec<u8> {
    let mut buf: Vec<u8> = vec![];
    match i {
        0 => kenc::encode_int(-5, &mut buf),
        1 => kenc::encode_text("abc\u{0}d", &mut buf),
        2 => kenc::encode_float(1.5, &mut buf),
        3 => kenc::encode_blob(&[0, 255, 0, 1], &mut buf),
        4 => {
            kenc::encode_int(42, &mut buf);
            kenc::encode_text("tail", &mut buf);
            kenc::encode_null(&mut buf);
            kenc::encode_bool(true, &mut buf);
        }
        5 => kenc::encode_uuid(&[9u8; 16], &mut buf),
        6 => kenc::encode_vector(&[1.0, -2.0], &mut buf),
        7 => kenc::encode_timestamptz(1_700_000_000_000_000, 60, &mut buf),
        8 => kenc::encode_interval(1, 2, 3, &mut buf),
        9 => kenc::encode_enum(3, 4, &mut buf),
        10 => kenc::encode_inet(false, &[10, 0, 0, 1], 24, &mut buf),
        _ => kenc::encode_date(19000, &mut buf),
    }
    buf
}

fn array_sample(i: usize) -> Vec<u8> {
    match i {
        0 => {
            let mut a = ArrayBuilder::new(DataType::Int4);
            a.push_int4(1);
            a.push_null();
            a.push_int4(-3);
            a.build()
        }
        1 => {
            let mut a = ArrayBuilder::new(DataType::Text);
            a.push_text("a");
            a.push_text("");
            a.push_null();
            a.push_text("long text element");
            a.build()
        }
        2 => {
            let mut a = ArrayBuilder::new(DataType::Float8);
            a.push_float8(1.5);
            a.build()
        }
        _ => ArrayBuilder::new(DataType::Bool).build(),
    }
}

const VARINTS: [u64; 12] = [0, 240, 241, 2287, 2288, 67823, 67824, 1 << 24, 1 << 32, 1 << 40, 1 << 56, u64::MAX];

/// the valid encoding (sample) of a decoder, produced by the corresponding encoder or taken from the `multi` database
fn decoder_sample(dec: &str, i: usize, multi: &Path) -> Option<Vec<u8>> {
    let file = |fk: &str| pick_file(multi, fk).and_then(|p| std::fs::read(multi.join(p)).ok());
    let page_of = |fk: &str, want: PageType| -> Option<Vec<u8>> {
        let b = file(fk)?;
        (1..b.len() / PAGE).map(|p| &b[p * PAGE..(p + 1) * PAGE]).find(|pg| PageHeader::from_bytes(pg).map(|h| h.page_type() == want && h.cell_count() > 1).unwrap_or(false)).map(|p| p.to_vec())
    };
    match dec {
        "varint" => VARINTS.get(i).map(|v| {
            let mut b = [0u8; 9];
            let n = encode_varint(*v, &mut b);
            b[..n].to_vec()
        }),
        "key" => (i < 12).then(|| key_sample(i)),
        "record" => (i < 2).then(|| record_sample(&record_schema(), i)),
        "jsonb" => (i < 4).then(|| jsonb_sample(i)),
        "array" => (i < 4).then(|| array_sample(i)),
        "toastptr" => (i < 1).then(|| turdb::storage::toast::ToastPointer::new(77, 3, 9000).encode().to_vec()),
        "catalog" => (i < 1).then(|| file("catalog")).flatten(),
        "walframe" => (i < 1).then(|| file("wal").map(|b| b[..(WAL_FRAME_HDR + PAGE).min(b.len())].to_vec())).flatten(),
        "leaf" => match i {
            0 => page_of("table", PageType::BTreeLeaf),
            1 => page_of("index", PageType::BTreeLeaf),
            _ => None,
        },
        "interior" => match i {
            0 => page_of("table", PageType::BTreeInterior),
            1 => page_of("index", PageType::BTreeInterior),
            _ => None,
        },
        "tablehdr" => (i < 1).then(|| file("table").map(|b| b[..FILE_HDR].to_vec())).flatten(),
        "indexhdr" => (i < 1).then(|| file("index").map(|b| b[..FILE_HDR].to_vec())).flatten(),
        "metahdr" => (i < 1).then(|| file("meta").map(|b| b[..FILE_HDR].to_vec())).flatten(),
        "hnswhdr" => (i < 1).then(|| {
            use turdb::hnsw::storage::HnswFileHeader;
            use zerocopy_bytes::as_bytes;
            as_bytes(&HnswFileHeader::new(1, 2, 3, 16, 100, 50, turdb::hnsw::DistanceFunction::L2, turdb::hnsw::QuantizationType::None))
        }),
        _ => None,
    }
}

mod zerocopy_bytes {
    /// header structs are `repr(C)`, `Unaligned` plain bytes: view them through write_to
    pub fn as_bytes(h: &turdb::hnsw::storage::HnswFileHeader) -> Vec<u8> {
        let mut v = vec![0u8; 128];
        let _ = h.write_to(&mut v);
        v
    }
}

fn sink<T: std::fmt::Debug>(acc: &mut u64, r: eyre::Result<T>) {
    match r {
        Ok(v) => *acc = acc.wrapping_add(format!("{:?}", v).len() as u64),
        Err(_) => *acc = acc.wrapping_add(1),
    }
}

/// drives every public read accessor of the decoder over `bytes`; Ok(summary) | Err(first error)
fn decode(dec: &str, bytes: &[u8], tmp: &Path) -> Result<Value, String> {
    let mut acc = 0u64;
    match dec {
        "varint" => decode_varint(bytes).map(|(v, n)| json!([v.to_string(), n])).map_err(|e| format!("{e:#}")),
        "key" => {
            let mut pos = 0;
            let mut n = 0;
            while pos < bytes.len() && n < 64 {
                let (k, used) = kenc::decode_key(&bytes[pos..]).map_err(|e| format!("{e:#}"))?;
                acc = acc.wrapping_add(format!("{:?}", k).len() as u64);
                if used == 0 {
                    return Err("decode_key consumed nothing".into());
                }
                pos += used;
                n += 1;
            }
            Ok(json!([n, pos]))
        }
        "record" => {
            let schema = record_schema();
            let v = RecordView::new(bytes, &schema).map_err(|e| format!("{e:#}"))?;
            acc = acc.wrapping_add(v.header_len() as u64 + v.null_bitmap().len() as u64 + v.offset_table().len() as u64 + v.data_offset() as u64 + v.record_column_count() as u64);
            for c in 0..schema.column_count() {
                acc = acc.wrapping_add(v.is_null(c) as u64 + v.is_null_or_missing(c) as u64);
            }
            sink(&mut acc, v.get_bool(0)); sink(&mut acc, v.get_bool_opt(0));
            sink(&mut acc, v.get_int2(1)); sink(&mut acc, v.get_int2_opt(1));
            sink(&mut acc, v.get_int4(2)); sink(&mut acc, v.get_int4_opt(2));
            sink(&mut acc, v.get_int8(3)); sink(&mut acc, v.get_int8_opt(3));
            sink(&mut acc, v.get_float4(4)); sink(&mut acc, v.get_float4_opt(4));
            sink(&mut acc, v.get_float8(5)); sink(&mut acc, v.get_float8_opt(5));
            sink(&mut acc, v.get_date(6)); sink(&mut acc, v.get_date_opt(6));
            sink(&mut acc, v.get_time(7)); sink(&mut acc, v.get_time_opt(7));
            sink(&mut acc, v.get_timestamp(8)); sink(&mut acc, v.get_timestamp_opt(8));
            sink(&mut acc, v.get_uuid(9)); sink(&mut acc, v.get_uuid_opt(9));
            sink(&mut acc, v.get_text(10)); sink(&mut acc, v.get_text_opt(10));
            sink(&mut acc, v.get_blob(11)); sink(&mut acc, v.get_blob_opt(11));
            sink(&mut acc, v.get_vector(12).map(|x| x.len())); sink(&mut acc, v.get_vector_copy(12)); sink(&mut acc, v.get_vector_opt(12));
            match v.get_jsonb(13) {
                Ok(j) => sink(&mut acc, j.to_json_string()),
                Err(_) => acc += 1,
            }
            sink(&mut acc, v.get_jsonb_opt(13).map(|o| o.map(|j| j.entry_count())));
            sink(&mut acc, v.get_varchar(14)); sink(&mut acc, v.get_text(15)); sink(&mut acc, v.get_var_raw(15));
            for c in 10..16 {
                sink(&mut acc, v.get_var_bounds(c));
            }
            Ok(json!(acc))
        }
        "jsonb" => {
            let v = JsonbView::new(bytes).map_err(|e| format!("{e:#}"))?;
            acc = acc.wrapping_add(v.root_type() as u64 + v.entry_count() as u64);
            sink(&mut acc, v.get("a").map(|o| o.is_some()));
            sink(&mut acc, v.get("arr").map(|o| o.map(|x| x.to_json_string().map(|s| s.len()).unwrap_or(0))));
            sink(&mut acc, v.get("zzz").map(|o| o.is_some()));
            sink(&mut acc, v.get_path(&["o", "in"]).map(|o| o.is_some()));
            sink(&mut acc, v.get_path(&["arr", "2", "k"]).map(|o| o.is_some()));
            sink(&mut acc, v.as_value().map(|x| x.to_json_string().map(|s| s.len()).unwrap_or(0)));
            sink(&mut acc, v.array_len());
            for i in 0..5 {
                sink(&mut acc, v.array_get(i).map(|o| o.is_some()));
            }
            sink(&mut acc, v.object_len());
            if let Ok(it) = v.iter_object() {
                acc = acc.wrapping_add(it.take(10_000).count() as u64);
            }
            if let Ok(it) = v.iter_array() {
                acc = acc.wrapping_add(it.take(10_000).count() as u64);
            }
            sink(&mut acc, v.to_json_string().map(|s| s.len()));
            Ok(json!(acc))
        }
        "array" => {
            let a = ArrayView::new(bytes).map_err(|e| format!("{e:#}"))?;
            acc = acc.wrapping_add(a.ndims() as u64 + a.len() as u64 + format!("{:?}", a.elem_type()).len() as u64);
            let n = a.len().min(100_000);
            // the accessor that matches the element type recorded in the (possibly corrupted) header, as a reader would
            let et = a.elem_type();
            for i in 0..n + 1 {
                acc = acc.wrapping_add(a.is_null(i) as u64);
                match et {
                    DataType::Int2 => sink(&mut acc, a.get_int2(i)),
                    DataType::Int4 => sink(&mut acc, a.get_int4(i)),
                    DataType::Int8 => sink(&mut acc, a.get_int8(i)),
                    DataType::Float4 => sink(&mut acc, a.get_float4(i)),
                    DataType::Float8 => sink(&mut acc, a.get_float8(i)),
                    DataType::Bool => sink(&mut acc, a.get_bool(i)),
                    DataType::Text | DataType::Varchar | DataType::Char => sink(&mut acc, a.get_text(i).map(|s| s.len())),
                    _ => sink(&mut acc, a.get_blob(i).map(|s| s.len())),
                }
            }
            Ok(json!(acc))
        }
        "toastptr" => turdb::storage::toast::ToastPointer::decode(bytes).map(|p| json!([p.row_id(), p.column_index()])).map_err(|e| format!("{e:#}")),
        "catalog" => {
            use turdb::schema::persistence::CatalogPersistence;
            let _ = std::fs::create_dir_all(tmp);
            let p = tmp.join("cat.bin");
            std::fs::write(&p, bytes).map_err(|e| e.to_string())?;
            let mut c = turdb::schema::Catalog::new();
            let r1 = CatalogPersistence::load(&p, &mut c).map_err(|e| format!("{e:#}"));
            let mut c2 = turdb::schema::Catalog::new();
            let r2 = if bytes.len() > 128 { CatalogPersistence::deserialize(&bytes[128..], &mut c2).map_err(|e| format!("{e:#}")) } else { Err("short".into()) };
            match (r1, r2) {
                (Ok(()), _) => Ok(json!(c.schemas().len())),
                (Err(e), _) => Err(e),
            }
        }
        "walframe" => {
            use turdb::storage::{WalFrameHeader, WalSegment};
            let _ = std::fs::create_dir_all(tmp);
            let p = tmp.join("wal.000001");
            std::fs::write(&p, bytes).map_err(|e| e.to_string())?;
            let mut seg = WalSegment::open(&p, 1).map_err(|e| format!("{e:#}"))?;
            seg.reset_position().map_err(|e| format!("{e:#}"))?;
            let (h, page): (WalFrameHeader, Vec<u8>) = seg.read_frame().map_err(|e| format!("{e:#}"))?;
            acc = acc.wrapping_add(h.page_no as u64 + h.actual_file_id() + h.undo_table_id() as u64 + h.undo_txn_id() as u64 + h.is_undo_frame() as u64 + format!("{:?}", h.frame_type()).len() as u64);
            Ok(json!([acc, page.len()]))
        }
        "leaf" => {
            use turdb::btree::{LeafNode, SearchResult};
            turdb::storage::validate_page(bytes).map_err(|e| format!("{e:#}"))?;
            let l = LeafNode::from_page(bytes).map_err(|e| format!("{e:#}"))?;
            let n = l.cell_count() as usize;
            acc = acc.wrapping_add(l.free_space() as u64 + l.next_leaf() as u64);
            let mut firsterr: Option<String> = None;
            for i in 0..n + 1 {
                match l.key_at(i) {
                    Ok(k) => {
                        acc = acc.wrapping_add(k.len() as u64);
                        if i % 16 == 0 {
                            acc = acc.wrapping_add(matches!(l.find_key(k), SearchResult::Found(_)) as u64);
                        }
                    }
                    Err(e) => {
                        firsterr.get_or_insert(format!("{e:#}"));
                    }
                }
                sink(&mut acc, l.value_at(i).map(|v| v.len()));
                sink(&mut acc, l.value_len_at(i));
            }
            acc = acc.wrapping_add(matches!(l.find_key(b"\x00"), SearchResult::Found(_)) as u64 + matches!(l.find_key(&[0xFF; 12]), SearchResult::Found(_)) as u64);
            acc = acc.wrapping_add(l.batch_iterator().take(100_000).count() as u64);
            match firsterr {
                Some(e) if n == 0 => Err(e),
                _ => Ok(json!(acc)),
            }
        }
        "interior" => {
            use turdb::btree::InteriorNode;
            turdb::storage::validate_page(bytes).map_err(|e| format!("{e:#}"))?;
            let l = InteriorNode::from_page(bytes).map_err(|e| format!("{e:#}"))?;
            let n = l.cell_count() as usize;
            acc = acc.wrapping_add(l.right_child() as u64);
            for i in 0..n + 1 {
                sink(&mut acc, l.key_at(i).map(|k| k.len()));
                sink(&mut acc, l.slot_at(i).map(|s| format!("{:?}", s).len()));
            }
            sink(&mut acc, l.find_child(b"\x00"));
            sink(&mut acc, l.find_child(&[0xFF; 12]));
            sink(&mut acc, l.find_child(&[0x15, 0, 0, 0, 0, 0, 0, 3, 9]));
            Ok(json!(acc))
        }
        "tablehdr" => TableFileHeader::from_bytes(bytes).map(|h| json!([h.table_id(), h.row_count(), h.root_page(), h.column_count(), h.first_free_page(), h.auto_increment(), h.rightmost_hint()])).map_err(|e| format!("{e:#}")),
        "indexhdr" => IndexFileHeader::from_bytes(bytes).map(|h| json!([h.index_id(), h.table_id(), h.root_page(), h.key_column_count(), h.is_unique(), h.index_type()])).map_err(|e| format!("{e:#}")),
        "metahdr" => turdb::storage::MetaFileHeader::from_bytes(bytes).map(|h| json!([h.version(), h.page_size(), h.schema_count(), h.next_table_id(), h.next_index_id(), h.flags()])).map_err(|e| format!("{e:#}")),
        "hnswhdr" => turdb::hnsw::storage::HnswFileHeader::from_bytes(bytes)
            .map(|h| json!([h.index_id(), h.dimensions(), h.m(), h.m0(), h.ef_construction(), h.ef_search(), format!("{:?}", h.distance_fn()), format!("{:?}", h.quantization()), format!("{:?}", h.entry_point()), h.max_level(), h.node_count(), h.vector_count(), h.first_free_page()]))
            .map_err(|e| format!("{e:#}")),
        other => Err(format!("unknown decoder {other}")),
    }
}

fn run_decoder_case(case: &Value, multi: &Path, tmp: &Path, progress: &mut dyn FnMut(Value)) -> Value {
    let dec = case["decoder"].as_str().unwrap_or("");
    let si = case["sample"].as_u64().unwrap_or(0) as usize;
    let kind = case["kind"].as_str().unwrap_or("");
    let Some(mut bytes) = decoder_sample(dec, si, multi) else { return json!({"id": case["id"], "resolved": null, "why": "no such sample"}) };
    let orig_len = bytes.len();
    // the unmodified sample must decode: otherwise the harness (not TurDB) is wrong
    if kind == "none" {
        progress(json!("decode"));
        let r = guarded_json(|| match decode(dec, &bytes, tmp) {
            Ok(v) => json!({"cls": "ok", "v": v}),
            Err(e) => json!({"cls": "err", "err": e}),
        });
        let mut r = r;
        if r.get("panic").is_some() {
            r["cls"] = json!("panic");
        }
        r["op"] = json!("decode");
        return json!({"id": case["id"], "resolved": {"len": orig_len}, "steps": [r]});
    }
    let (start, len) = if let Some(rn) = case["region"].as_str() {
        let mut v = vec![];
        page_regions(&mut v, "p", &bytes, 0);
        match v.into_iter().find(|r| r.name == format!("p.{rn}")) {
            Some(r) => (r.start, r.len),
            None => return json!({"id": case["id"], "resolved": null, "why": "no such region in this page"}),
        }
    } else {
        (case["pos"].as_u64().unwrap_or(0) as usize, 1)
    };
    if start >= bytes.len() && !(kind == "trunc" && start == bytes.len()) {
        return json!({"id": case["id"], "resolved": null, "why": "position beyond the sample"});
    }
    match kind {
        "zero" => bytes[start..start + len].iter_mut().for_each(|b| *b = 0),
        "ff" => bytes[start..start + len].iter_mut().for_each(|b| *b = 0xFF),
        "flip_low" => bytes[start] ^= 0x01,
        "flip_high" => bytes[start + len - 1] ^= 0x80,
        "inc" => bytes[start] = bytes[start].wrapping_add(1),
        "trunc" => bytes.truncate(start),
        "extend_junk" => {
            bytes.truncate(start + len);
            bytes.extend_from_slice(&junk(37, start as u64));
        }
        _ => return json!({"id": case["id"], "resolved": null, "why": "unknown fault kind"}),
    }
    if matches!(dec, "leaf" | "interior") && bytes.len() != PAGE {
        // a page is always handed over as a full page; shorter/longer slices are what from_page rejects first
    }
    progress(json!("decode"));
    let r = guarded_json(|| match decode(dec, &bytes, tmp) {
        Ok(v) => json!({"cls": "ok", "v": v}),
        Err(mut e) => {
            if e.len() > 160 {
                let mut c = 160;
                while !e.is_char_boundary(c) {
                    c -= 1;
                }
                e.truncate(c);
            }
            json!({"cls": "err", "err": e})
        }
    });
    let mut r = r;
    if r.get("panic").is_some() {
        r["cls"] = json!("panic");
    }
    r["op"] = json!("decode");
    json!({"id": case["id"], "resolved": {"start": start, "len": len, "sample_len": orig_len, "new_len": bytes.len()}, "steps": [r]})
}

// ------------------------------------------------------------------------------------------------ child / supervisor
pub fn child(_args: &Args) {
    let root = scratch_root();
    let shapes = shape_dirs(&root);
    let work = root.join("work");
    let tmp = root.join("tmp");
    child_loop(|case, progress| {
        let shapes = match &shapes {
            Ok(s) => s,
            Err(e) => return json!({"id": case["id"], "fatal": e}),
        };
        let multi = &shapes.iter().find(|(s, _)| s == "multi").unwrap().1;
        let r = guarded_json(|| match case["mode"].as_str().unwrap_or("file") {
            "decoder" => run_decoder_case(case, multi, &tmp, progress),
            _ => run_file_case(case, shapes, &work, progress),
        });
        let mut r = r;
        r["id"] = case["id"].clone();
        r
    });
    let _ = std::fs::remove_dir_all(&root);
}

/// `corrupt-run --in cases --out results [--jobs N --watchdog ms --vmem-mb M]`
pub fn run(args: &Args) {
    let cases = read_cases(&args.get("in", ""));
    supervise(cases, args.num("jobs", 8), &args.get("out", "/dev/stdout"), "corrupt-child", vec![], args.num("watchdog", 20000) as u64, args.num("vmem-mb", 4096));
}

//! Generic SQL script runner: the conformance workhorse for the relational / oracle / format properties.
//!
//! Input (ndjson), one case per line:
//!   {"id": .., "ops": [ op, ... ]}
//! op:
//!   {"k":"exec","sql":..,"h":0}                 Database::execute                 -> {"ok":{"type":..,"n":..,"rows":[..]}} | {"err":..}
//!   {"k":"query","sql":..,"h":0}                Database::query                   -> {"rows":[[..]..]} | {"err":..}
//!   {"k":"params","sql":..,"params":[v..]}      Database::execute_with_params
//!   {"k":"prepared","sql":..,"params":[..],"mode":"execute"|"query"}   prepare + bind + execute/query
//!   {"k":"batch","api":"insert_batch"|"insert_cached"|"bulk_insert"|"insert_batch_into_schema","table":..,"rows":[[v..]..]}
//!   {"k":"reopen"}                              drop every handle, Database::open
//!   {"k":"close_reopen"}                        Database::close() then open
//!   {"k":"checkpoint"}                          Database::checkpoint()
//!   {"k":"clone","h":1}                         handle h := clone of handle 0
//!   {"k":"drop_handle","h":1}
//! Output: {"id":..,"res":[..]} with one entry per op. A panic is data: {"panic": msg}.
//! Values: null | int | {"f": float-as-string} | string | {"b": hex} | {"t": debug-string} for everything else.
//!   (C11/C13) input also {"jsonb": hex} raw JSONB bytes, {"json": doc} a document built with JsonbBuilder, {"dec": [digits, scale]},
//!   {"vec": [..]} elements may be strings ("NaN", "-0.0"); output {"jsonb": hex, "json": text | "json_err": msg}, {"dec": [digits, scale]};
//!   "prepared" with times > 1 reports the earlier executions' results under "prev" in the last result.
use crate::util::*;
use serde_json::{json, Value};
use std::path::Path;
use turdb::{Database, ExecuteResult, OwnedValue, Row};

pub fn val_to_json(v: &OwnedValue) -> Value {
    match v {
        OwnedValue::Null => Value::Null,
        OwnedValue::Int(i) => json!(i),
        OwnedValue::Bool(b) => json!({"bool": b}),
        OwnedValue::Float(f) => json!({"f": format!("{:?}", f)}),
        OwnedValue::Text(s) => json!(s),
        OwnedValue::Blob(b) => json!({"b": b.iter().map(|x| format!("{:02x}", x)).collect::<String>()}),
        OwnedValue::Vector(v) => json!({"vec": v.iter().map(|x| format!("{:?}", x)).collect::<Vec<_>>()}),
        OwnedValue::Date(d) => json!({"date": d}),
        OwnedValue::Time(t) => json!({"time": t}),
        OwnedValue::Timestamp(t) => json!({"ts": t}),
        OwnedValue::Uuid(u) => json!({"uuid": u.iter().map(|x| format!("{:02x}", x)).collect::<String>()}),
        OwnedValue::Jsonb(b) => {
            // raw bytes plus the document as JSON text ("json") or the decoder's failure ("json_err")
            let hex = b.iter().map(|x| format!("{:02x}", x)).collect::<String>();
            match guarded(|| turdb::records::JsonbView::new(b).and_then(|v| v.to_json_string())) {
                Ok(Ok(t)) => json!({"jsonb": hex, "json": t}),
                Ok(Err(e)) => json!({"jsonb": hex, "json_err": format!("{:#}", e)}),
                Err(p) => json!({"jsonb": hex, "json_err": format!("panic: {p}")}),
            }
        }
        OwnedValue::Decimal(d, sc) => json!({"dec": [d.to_string(), sc]}),
        other => json!({"t": format!("{:?}", other)}),
    }
}

pub fn json_to_val(v: &Value) -> OwnedValue {
    match v {
        Value::Null => OwnedValue::Null,
        Value::Number(n) if n.is_i64() => OwnedValue::Int(n.as_i64().unwrap()),
        Value::Number(n) => OwnedValue::Float(n.as_f64().unwrap()),
        Value::String(s) => OwnedValue::Text(s.clone()),
        Value::Bool(b) => OwnedValue::Bool(*b),
        Value::Object(o) => {
            if let Some(f) = o.get("f") {
                OwnedValue::Float(f.as_str().map(|s| s.parse::<f64>().unwrap()).or(f.as_f64()).unwrap())
            } else if let Some(b) = o.get("b") {
                let s = b.as_str().unwrap();
                OwnedValue::Blob((0..s.len() / 2).map(|i| u8::from_str_radix(&s[2 * i..2 * i + 2], 16).unwrap()).collect())
            } else if let Some(v) = o.get("vec") {
                // elements: numbers, or strings for what JSON cannot carry ("NaN", "inf", "-0.0")
                OwnedValue::Vector(v.as_array().unwrap().iter().map(|x| x.as_str().map(|s| s.parse::<f32>().unwrap()).or(x.as_f64().map(|f| f as f32)).unwrap()).collect())
            } else if let Some(d) = o.get("date") {
                OwnedValue::Date(d.as_i64().unwrap() as i32)
            } else if let Some(d) = o.get("time") {
                OwnedValue::Time(d.as_i64().unwrap())
            } else if let Some(d) = o.get("ts") {
                OwnedValue::Timestamp(d.as_i64().unwrap())
            } else if let Some(u) = o.get("uuid") {
                let s = u.as_str().unwrap();
                let mut a = [0u8; 16];
                for i in 0..16 {
                    a[i] = u8::from_str_radix(&s[2 * i..2 * i + 2], 16).unwrap();
                }
                OwnedValue::Uuid(a)
            } else if let Some(b) = o.get("bool") {
                OwnedValue::Bool(b.as_bool().unwrap())
            } else if let Some(b) = o.get("jsonb") {
                let s = b.as_str().unwrap();
                OwnedValue::Jsonb((0..s.len() / 2).map(|i| u8::from_str_radix(&s[2 * i..2 * i + 2], 16).unwrap()).collect())
            } else if let Some(doc) = o.get("json") {
                // a JSON document bound the way an API user builds one: records::JsonbBuilder
                OwnedValue::Jsonb(json_doc_to_jsonb(doc))
            } else if let Some(d) = o.get("dec") {
                OwnedValue::Decimal(d[0].as_str().unwrap().parse::<i128>().unwrap(), d[1].as_i64().unwrap() as i16)
            } else {
                OwnedValue::Null
            }
        }
        _ => OwnedValue::Null,
    }
}

/// structural dump of a catalog: one entry per table, sorted
pub fn catalog_json(cat: &turdb::schema::Catalog) -> Value {
    let mut out = vec![];
    let mut schemas: Vec<_> = cat.schemas().iter().collect();
    schemas.sort_by_key(|(n, _)| n.to_string());
    for (sname, schema) in schemas {
        let mut tables: Vec<_> = schema.tables().iter().collect();
        tables.sort_by_key(|(n, _)| n.to_string());
        if tables.is_empty() {
            out.push(json!([sname, Value::Null, Value::Null, [], []]));
        }
        for (tname, t) in tables {
            let cols: Vec<Value> = t
                .columns()
                .iter()
                .map(|c| json!([c.name(), format!("{:?}", c.data_type()), c.constraints().iter().map(|k| format!("{:?}", k)).collect::<Vec<_>>(), c.default_value(), c.max_length()]))
                .collect();
            let mut idx: Vec<Value> = t
                .indexes()
                .iter()
                .map(|i| json!([i.name(), i.columns().collect::<Vec<_>>(), i.is_unique(), format!("{:?}", i.index_type()), i.where_clause()]))
                .collect();
            idx.sort_by_key(|v| v[0].as_str().unwrap_or("").to_string());
            out.push(json!([sname, tname, t.id(), cols, idx]));
        }
    }
    Value::Array(out)
}

fn json_doc_to_jsonb(doc: &Value) -> Vec<u8> {
    use turdb::records::{JsonbBuilder, JsonbBuilderValue};
    fn conv(v: &Value) -> JsonbBuilderValue {
        match v {
            Value::Null => JsonbBuilderValue::Null,
            Value::Bool(b) => JsonbBuilderValue::Bool(*b),
            Value::Number(n) => JsonbBuilderValue::Number(n.as_f64().unwrap()),
            Value::String(s) => JsonbBuilderValue::String(s.clone()),
            Value::Array(a) => JsonbBuilderValue::Array(a.iter().map(conv).collect()),
            Value::Object(o) => JsonbBuilderValue::Object(o.iter().map(|(k, v)| (k.clone(), conv(v))).collect()),
        }
    }
    match conv(doc) {
        JsonbBuilderValue::Null => JsonbBuilder::new_null().build(),
        JsonbBuilderValue::Bool(b) => JsonbBuilder::new_bool(b).build(),
        JsonbBuilderValue::Number(n) => JsonbBuilder::new_number(n).build(),
        JsonbBuilderValue::String(s) => JsonbBuilder::new_string(s).build(),
        JsonbBuilderValue::Array(a) => {
            let mut b = JsonbBuilder::new_array();
            for e in a {
                b.push(e);
            }
            b.build()
        }
        JsonbBuilderValue::Object(o) => {
            let mut b = JsonbBuilder::new_object();
            for (k, v) in o {
                b.set(k, v);
            }
            b.build()
        }
    }
}

fn rows_json(rows: &[Row]) -> Value {
    Value::Array(rows.iter().map(|r| Value::Array(r.values.iter().map(val_to_json).collect())).collect())
}

fn exec_json(r: ExecuteResult) -> Value {
    match r {
        ExecuteResult::Insert { rows_affected, returned } => json!({"type": "insert", "n": rows_affected, "rows": returned.map(|r| rows_json(&r))}),
        ExecuteResult::Update { rows_affected, returned } => json!({"type": "update", "n": rows_affected, "rows": returned.map(|r| rows_json(&r))}),
        ExecuteResult::Delete { rows_affected, returned } => json!({"type": "delete", "n": rows_affected, "rows": returned.map(|r| rows_json(&r))}),
        ExecuteResult::Truncate { rows_affected } => json!({"type": "truncate", "n": rows_affected}),
        ExecuteResult::Select { columns, rows } => json!({"type": "select", "columns": columns, "rows": rows_json(&rows)}),
        ExecuteResult::CreateTable { created } => json!({"type": "create_table", "flag": created}),
        ExecuteResult::CreateSchema { created } => json!({"type": "create_schema", "flag": created}),
        ExecuteResult::CreateIndex { created } => json!({"type": "create_index", "flag": created}),
        ExecuteResult::DropTable { dropped } => json!({"type": "drop_table", "flag": dropped}),
        ExecuteResult::DropIndex { dropped } => json!({"type": "drop_index", "flag": dropped}),
        ExecuteResult::DropSchema { dropped } => json!({"type": "drop_schema", "flag": dropped}),
        ExecuteResult::Pragma { name, value } => json!({"type": "pragma", "name": name, "value": value}),
        ExecuteResult::Explain { plan } => json!({"type": "explain", "plan": plan}),
        other => json!({"type": format!("{:?}", other).split(|c: char| !c.is_alphanumeric()).next().unwrap_or("").to_lowercase()}),
    }
}

pub struct Session {
    pub dir: std::path::PathBuf,
    pub handles: Vec<Option<Database>>,
}

impl Session {
    pub fn new(dir: &Path) -> Result<Session, String> {
        let db = guarded(|| Database::create(dir)).map_err(|p| format!("panic in create: {p}"))?.map_err(|e| format!("create: {e}"))?;
        Ok(Session { dir: dir.to_path_buf(), handles: vec![Some(db)] })
    }

    fn h(&self, op: &Value) -> Option<&Database> {
        let i = op["h"].as_u64().unwrap_or(0) as usize;
        self.handles.get(i).and_then(|x| x.as_ref())
    }

    pub fn run_op(&mut self, op: &Value) -> Value {
        let k = op["k"].as_str().unwrap_or("");
        let r = guarded(|| self.run_op_inner(k, op));
        match r {
            Ok(v) => v,
            Err(p) => json!({"panic": p}),
        }
    }

    fn run_op_inner(&mut self, k: &str, op: &Value) -> Value {
        match k {
            "exec" => {
                let Some(db) = self.h(op) else { return json!({"err": "no such handle"}) };
                match db.execute(op["sql"].as_str().unwrap()) {
                    Ok(r) => json!({"ok": exec_json(r)}),
                    Err(e) => json!({"err": format!("{:#}", e)}),
                }
            }
            "query" => {
                let Some(db) = self.h(op) else { return json!({"err": "no such handle"}) };
                match db.query(op["sql"].as_str().unwrap()) {
                    Ok(r) => json!({"rows": rows_json(&r)}),
                    Err(e) => json!({"err": format!("{:#}", e)}),
                }
            }
            "params" => {
                let Some(db) = self.h(op) else { return json!({"err": "no such handle"}) };
                let ps: Vec<OwnedValue> = op["params"].as_array().unwrap().iter().map(json_to_val).collect();
                match db.execute_with_params(op["sql"].as_str().unwrap(), &ps) {
                    Ok(r) => json!({"ok": exec_json(r)}),
                    Err(e) => json!({"err": format!("{:#}", e)}),
                }
            }
            "prepared" => {
                let Some(db) = self.h(op) else { return json!({"err": "no such handle"}) };
                let stmt = match db.prepare(op["sql"].as_str().unwrap()) {
                    Ok(s) => s,
                    Err(e) => return json!({"err": format!("prepare: {:#}", e)}),
                };
                let ps1: Vec<OwnedValue> = op["params"].as_array().unwrap().iter().map(json_to_val).collect();
                // "params2": the bindings of every execution after the first (a re-bound cached plan)
                let ps2: Option<Vec<OwnedValue>> = op["params2"].as_array().map(|a| a.iter().map(json_to_val).collect());
                let times = op["times"].as_u64().unwrap_or(1);
                let mut last = Value::Null;
                let mut prev: Vec<Value> = Vec::new(); // results of the earlier executions (times > 1), reported as "prev"
                for round in 0..times {
                    if round > 0 {
                        prev.push(last.clone());
                    }
                    let ps: &Vec<OwnedValue> = if round > 0 { ps2.as_ref().unwrap_or(&ps1) } else { &ps1 };
                    if ps.is_empty() {
                        return json!({"err": "prepared without parameters is not driven"});
                    }
                    let mut b = stmt.bind(ps[0].clone());
                    for p in &ps[1..] {
                        b = b.bind(p.clone());
                    }
                    last = if op["mode"] == "query" {
                        match b.query(db) {
                            Ok(r) => json!({"rows": rows_json(&r)}),
                            Err(e) => json!({"err": format!("{:#}", e)}),
                        }
                    } else {
                        match b.execute(db) {
                            Ok(r) => json!({"ok": exec_json(r)}),
                            Err(e) => json!({"err": format!("{:#}", e)}),
                        }
                    };
                }
                if !prev.is_empty() {
                    if let Some(o) = last.as_object_mut() {
                        o.insert("prev".to_string(), Value::Array(prev));
                    }
                }
                last
            }
            "batch" => {
                let Some(db) = self.h(op) else { return json!({"err": "no such handle"}) };
                let rows: Vec<Vec<OwnedValue>> = op["rows"].as_array().unwrap().iter().map(|r| r.as_array().unwrap().iter().map(json_to_val).collect()).collect();
                let table = op["table"].as_str().unwrap();
                let r: Result<u64, String> = match op["api"].as_str().unwrap() {
                    "insert_batch" => db.insert_batch(table, &rows).map(|n| n as u64).map_err(|e| format!("{:#}", e)),
                    "insert_batch_into_schema" => db.insert_batch_into_schema("root", table, &rows).map(|n| n as u64).map_err(|e| format!("{:#}", e)),
                    "bulk_insert" => db.bulk_insert(table, rows).map_err(|e| format!("{:#}", e)),
                    other => Err(format!("unknown batch api {other}")),
                };
                match r {
                    Ok(n) => json!({"ok": {"type": "batch", "n": n}}),
                    Err(e) => json!({"err": e}),
                }
            }
            "reopen" | "close_reopen" => {
                if k == "close_reopen" {
                    if let Some(Some(db)) = self.handles.first() {
                        let _ = db.close();
                    }
                }
                self.handles.clear();
                match Database::open(&self.dir) {
                    Ok(db) => {
                        self.handles.push(Some(db));
                        json!({"ok": {"type": "reopen"}})
                    }
                    Err(e) => {
                        self.handles.push(None);
                        json!({"err": format!("open: {:#}", e)})
                    }
                }
            }
            "checkpoint" => {
                let Some(db) = self.h(op) else { return json!({"err": "no such handle"}) };
                match db.checkpoint() {
                    Ok(i) => json!({"ok": {"type": "checkpoint", "n": i.frames_checkpointed}}),
                    Err(e) => json!({"err": format!("{:#}", e)}),
                }
            }
            "catalog" => {
                // the catalog as it is on disk now: CatalogPersistence::load of <dir>/turdb.catalog (C40)
                let path = self.dir.join("turdb.catalog");
                let mut cat = turdb::schema::Catalog::new();
                match guarded(|| turdb::schema::persistence::CatalogPersistence::load(&path, &mut cat)) {
                    Err(p) => json!({"panic": p}),
                    Ok(Err(e)) => json!({"err": format!("{:#}", e)}),
                    Ok(Ok(())) => json!({"rows": catalog_json(&cat)}),
                }
            }
            "ls" => {
                fn walk(d: &Path, base: &Path, out: &mut Vec<Value>) {
                    if let Ok(rd) = std::fs::read_dir(d) {
                        let mut es: Vec<_> = rd.flatten().collect();
                        es.sort_by_key(|e| e.path());
                        for e in es {
                            let p = e.path();
                            if p.is_dir() {
                                walk(&p, base, out);
                            } else {
                                let len = e.metadata().map(|m| m.len()).unwrap_or(0);
                                out.push(json!([p.strip_prefix(base).unwrap_or(&p).to_string_lossy(), len]));
                            }
                        }
                    }
                }
                let mut out = vec![];
                walk(&self.dir, &self.dir, &mut out);
                json!({"rows": out})
            }
            "squeeze" => {
                // leave at most `leave` bytes available to Pool::Query of the shared MemoryBudget (C17)
                use turdb::memory::Pool;
                let Some(db) = self.h(op) else { return json!({"err": "no such handle"}) };
                let b = db.memory_budget();
                let leave = op["leave"].as_u64().unwrap_or(0) as usize;
                let mut taken = 0usize;
                for _ in 0..64 {
                    let avail = b.available(Pool::Query);
                    if avail <= leave {
                        break;
                    }
                    let want = avail - leave;
                    if b.allocate(Pool::Query, want).is_ok() {
                        taken += want;
                    } else {
                        break;
                    }
                }
                json!({"ok": {"type": "squeeze", "n": b.available(Pool::Query), "taken": taken, "limit": b.total_limit()}})
            }
            "budget" => {
                use turdb::memory::Pool;
                let Some(db) = self.h(op) else { return json!({"err": "no such handle"}) };
                let b = db.memory_budget();
                json!({"ok": {"type": "budget", "n": b.total_used(), "query_available": b.available(Pool::Query), "limit": b.total_limit()}})
            }
            "clone" => {
                let i = op["h"].as_u64().unwrap() as usize;
                let c = self.handles[0].as_ref().map(|d| d.clone());
                while self.handles.len() <= i {
                    self.handles.push(None);
                }
                self.handles[i] = c;
                json!({"ok": {"type": "clone"}})
            }
            "drop_handle" => {
                let i = op["h"].as_u64().unwrap() as usize;
                if i < self.handles.len() {
                    self.handles[i] = None;
                }
                json!({"ok": {"type": "drop_handle"}})
            }
            other => json!({"err": format!("unknown op {other}")}),
        }
    }
}

pub fn run(args: &Args) {
    let cases = read_cases(&args.get("in", ""));
    let out = args.get("out", "/dev/stdout");
    let watchdog_s = args.num("watchdog", 60) as u64;
    par_run(cases, args.num("jobs", 8), &out, move |_i, case| {
        let sc = Scratch::new("sql");
        let dir = sc.path.join("db");
        let ops = case["ops"].as_array().unwrap();
        let mut res: Vec<Value> = Vec::with_capacity(ops.len());
        let t0 = std::time::Instant::now();
        match Session::new(&dir) {
            Err(e) => res.push(json!({"fatal": e})),
            Ok(mut s) => {
                for op in ops {
                    if t0.elapsed().as_secs() > watchdog_s {
                        res.push(json!({"err": "harness watchdog: case exceeded time budget"}));
                        break;
                    }
                    let r = s.run_op(op);
                    let stop = r.get("panic").is_some() && op["stop_on_panic"].as_bool().unwrap_or(true);
                    res.push(r);
                    if stop {
                        break;
                    }
                }
                // dropping handles after a panic may itself panic; guard it
                let _ = guarded(move || drop(s));
            }
        }
        vec![json!({"id": case["id"], "res": res})]
    });
}

//! The one place that depends on the shape of the submit API (it changed with the C37 repair).
use serde_json::{json, Value};
use turdb::database::group_commit::{CommitPayload, GroupCommitQueue};

pub fn submit(q: &GroupCommitQueue, payload: CommitPayload) -> Value {
    match q.submit_and_wait_leader(payload) {
        Ok((id, leader)) => json!({"ok": id, "leader": leader}),
        Err(e) => json!({"err": e}),
    }
}

//! C17: SQL sessions (same ops as sql-run) that also report which verification points of the join / spill code were
//! hit.  The extra op {"k":"hits"} returns and clears the per-session counters of every point whose name starts with
//! "join." or "spill." (e.g. the proposed spill.partition / join.grace.open / join.path points).  Without those hooks
//! in TurDB the counters stay empty, which is itself reported ({"ok":{"type":"hits","points":{}}}).
use crate::sqlrun::Session;
use crate::util::*;
use serde_json::{json, Map, Value};
use std::cell::RefCell;
use std::collections::BTreeMap;
use std::sync::Arc;

thread_local! {
    // a session runs on one worker thread and TurDB executes a query on the calling thread
    static HITS: RefCell<BTreeMap<&'static str, (u64, i64)>> = RefCell::new(BTreeMap::new());
}

pub fn run(args: &Args) {
    let cases = read_cases(&args.get("in", ""));
    let out = args.get("out", "/dev/stdout");
    let watchdog_s = args.num("watchdog", 300) as u64;
    turdb::verif::set_handler(Some(Arc::new(|name: &'static str, a: &[i64]| {
        if name.starts_with("join.") || name.starts_with("spill.") {
            HITS.with(|h| {
                let mut h = h.borrow_mut();
                let e = h.entry(name).or_insert((0, 0));
                e.0 += 1;
                e.1 = a.first().copied().unwrap_or(0);
            });
        }
    })));
    par_run(cases, args.num("jobs", 8), &out, move |_i, case| {
        let sc = Scratch::new("jobs");
        let dir = sc.path.join("db");
        let ops = case["ops"].as_array().unwrap();
        let mut res: Vec<Value> = Vec::with_capacity(ops.len());
        let t0 = std::time::Instant::now();
        HITS.with(|h| h.borrow_mut().clear());
        match Session::new(&dir) {
            Err(e) => res.push(json!({"fatal": e})),
            Ok(mut s) => {
                for op in ops {
                    if t0.elapsed().as_secs() > watchdog_s {
                        res.push(json!({"err": "harness watchdog: case exceeded time budget"}));
                        break;
                    }
                    if op["k"] == "hits" {
                        let mut m = Map::new();
                        HITS.with(|h| {
                            for (k, v) in h.borrow().iter() {
                                m.insert(k.to_string(), json!({"n": v.0, "last": v.1}));
                            }
                            h.borrow_mut().clear();
                        });
                        res.push(json!({"ok": {"type": "hits", "points": Value::Object(m)}}));
                        continue;
                    }
                    res.push(s.run_op(op));
                }
                let _ = guarded(move || drop(s));
            }
        }
        vec![json!({"id": case["id"], "res": res})]
    });
    turdb::verif::set_handler(None);
}

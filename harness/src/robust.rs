//! Process-isolated case runner for the robustness properties (C22 "no input panics, aborts or hangs",
//! C23 "decoders reject corruption without crashing").
//!
//! `catch_unwind` (sql-run) sees panics but not stack overflows, aborts (OOM, double panic) or hangs. Here every
//! case is executed in a CHILD process that handles one case at a time:
//!
//!   parent  (`robust-run`, `corrupt-run`)                         child (`robust-child`, `corrupt-child`)
//!     write one case line to the child's stdin           ---->      {"p": i} before each op (progress)
//!     wait for the reply line, at most --watchdog ms     <----      {"id":.., "res":[..]} when the case is done
//!     no reply in time -> kill  -> outcome "hang" (op = last progress mark)
//!     child died           -> outcome "crash" + signal/exit code (stack overflow = SIGABRT/SIGSEGV, OOM abort)
//!   and a fresh child is started for the next case. The culprit of a dead process is therefore always exact.
//!
//! The child runs the case on its MAIN thread (8 MiB stack, as in an application that calls the library from main)
//! under an address-space limit (`--vmem-mb`, via `ulimit -v`) so that a runaway allocation aborts the child and
//! not the machine. A panic hook records the panic location and the innermost `turdb::` frame of the backtrace
//! ("site"): the in-process outcome of an op is {"ok":..} | {"err":..} | {"panic": msg, "loc": file:line, "site": fn}.
//!
//! SQL cases (`robust-run`): {"id":.., "tpl": name, "ops":[..]}; the child builds every template database of
//! `--setup <json {name: [sql..]}>` once, closes it, and each case works on a private copy opened with
//! Database::open. ops (results are outcome classes, not row contents):
//!   exec | query | params{params} | prepared{params, mode, times} | prepare (parse only) | close | reopen
//!   | close_reopen | checkpoint | clone{h} | drop_handle{h} | batch{api,table,rows}
use crate::sqlrun::json_to_val;
use crate::util::*;
use serde_json::{json, Value};
use std::io::{BufRead, BufReader, Write};
use std::path::{Path, PathBuf};
use std::process::{Child, Command, Stdio};
use std::sync::atomic::{AtomicUsize, Ordering};
use std::sync::mpsc::{channel, Receiver, RecvTimeoutError};
use std::sync::{Arc, Mutex};
use std::time::{Duration, Instant};
use turdb::{Database, ExecuteResult, OwnedValue};

// ------------------------------------------------------------------------------------------------ panic site
static LAST_PANIC: Mutex<(String, String)> = Mutex::new((String::new(), String::new()));

/// Panic hook that remembers where the panic happened: (file:line, innermost turdb:: function of the backtrace).
pub fn install_site_hook() {
    std::panic::set_hook(Box::new(|info| {
        let loc = info.location().map(|l| format!("{}:{}", l.file(), l.line())).unwrap_or_default();
        let bt = std::backtrace::Backtrace::force_capture().to_string();
        let mut site = String::new();
        for line in bt.lines() {
            let l = line.trim();
            // frame lines look like "12: turdb::sql::functions::string::eval_lpad"
            if let Some(pos) = l.find(": ") {
                let name = &l[pos + 2..];
                if (name.starts_with("turdb::") || name.starts_with("<turdb::")) && !name.contains("verif") {
                    site = name.to_string();
                    break;
                }
            }
        }
        // strip the hash suffix `::h0123456789abcdef`
        if let Some(p) = site.rfind("::h") {
            if site.len() - p == 19 {
                site.truncate(p);
            }
        }
        if let Ok(mut g) = LAST_PANIC.lock() {
            *g = (loc, site);
        }
    }));
}

pub fn take_site() -> (String, String) {
    LAST_PANIC.lock().map(|mut g| std::mem::take(&mut *g)).unwrap_or_default()
}

/// Runs f; a panic becomes {"panic": msg, "loc":.., "site":..}.
pub fn guarded_json(f: impl FnOnce() -> Value) -> Value {
    match guarded(f) {
        Ok(v) => v,
        Err(msg) => {
            let (loc, site) = take_site();
            json!({"panic": msg, "loc": loc, "site": site})
        }
    }
}

// ------------------------------------------------------------------------------------------------ supervisor
struct Kid {
    child: Child,
    stdin: std::process::ChildStdin,
    rx: Receiver<String>,
}

fn spawn_kid(sub: &str, extra: &[String], vmem_mb: usize, scratch: &Path) -> Kid {
    let exe = std::env::current_exe().expect("current_exe");
    let mut cmd = if vmem_mb > 0 {
        let mut c = Command::new("sh");
        c.arg("-c").arg(format!("ulimit -v {}; exec \"$0\" \"$@\"", vmem_mb * 1024)).arg(&exe);
        c
    } else {
        Command::new(&exe)
    };
    cmd.arg(sub).args(extra).env("VERIF_SCRATCH", scratch).stdin(Stdio::piped()).stdout(Stdio::piped()).stderr(Stdio::null());
    let mut child = cmd.spawn().expect("spawn child");
    let stdin = child.stdin.take().unwrap();
    let stdout = child.stdout.take().unwrap();
    let (tx, rx) = channel();
    std::thread::spawn(move || {
        for line in BufReader::new(stdout).lines() {
            match line {
                Ok(l) => {
                    if tx.send(l).is_err() {
                        break;
                    }
                }
                Err(_) => break,
            }
        }
    });
    Kid { child, stdin, rx }
}

fn reap(mut kid: Kid) -> Value {
    drop(kid.stdin);
    let _ = kid.child.kill();
    match kid.child.wait() {
        Ok(st) => {
            use std::os::unix::process::ExitStatusExt;
            json!({"signal": st.signal(), "code": st.code()})
        }
        Err(_) => json!({}),
    }
}

fn wait_exit(kid: &mut Kid) -> Value {
    // the pipe closed: the child is dying; collect the status without killing it first
    for _ in 0..200 {
        if let Ok(Some(st)) = kid.child.try_wait() {
            use std::os::unix::process::ExitStatusExt;
            return json!({"signal": st.signal(), "code": st.code()});
        }
        std::thread::sleep(Duration::from_millis(10));
    }
    json!({})
}

/// Runs every case in a child `vharness <sub> <extra..>`; one output line per case:
/// {"id":.., "outcome":"done", "res":[..], "ms":..} | {"id":.., "outcome":"hang"|"crash", "at": last progress, "status":..}
pub fn supervise(cases: Vec<Value>, jobs: usize, out: &str, sub: &'static str, extra: Vec<String>, watchdog_ms: u64, vmem_mb: usize) {
    let cases = Arc::new(cases);
    let next = Arc::new(AtomicUsize::new(0));
    let outf = Arc::new(Mutex::new(std::io::BufWriter::new(std::fs::File::create(out).expect("create out"))));
    let root = scratch_root();
    let mut hs = vec![];
    for j in 0..jobs.max(1) {
        let (cases, next, outf, extra, root) = (cases.clone(), next.clone(), outf.clone(), extra.clone(), root.clone());
        hs.push(std::thread::spawn(move || {
            let scratch = root.join(format!("kid-{}", j));
            let mut kid: Option<Kid> = None;
            loop {
                let i = next.fetch_add(1, Ordering::SeqCst);
                if i >= cases.len() {
                    break;
                }
                let case = &cases[i];
                let t0 = Instant::now();
                if kid.is_none() {
                    let _ = std::fs::remove_dir_all(&scratch);
                    kid = Some(spawn_kid(sub, &extra, vmem_mb, &scratch));
                }
                let k = kid.as_mut().unwrap();
                let line = format!("{}\n", case);
                let sent = k.stdin.write_all(line.as_bytes()).and_then(|_| k.stdin.flush()).is_ok();
                let mut at = Value::Null;
                let mut reply: Option<Value> = None;
                let mut outcome = "done";
                let mut status = Value::Null;
                if !sent {
                    outcome = "crash";
                    status = wait_exit(k);
                } else {
                    let deadline = Instant::now() + Duration::from_millis(watchdog_ms);
                    loop {
                        let left = deadline.saturating_duration_since(Instant::now());
                        match k.rx.recv_timeout(left) {
                            Ok(l) => {
                                let v: Value = serde_json::from_str(&l).unwrap_or(Value::Null);
                                if v.get("p").is_some() {
                                    at = v["p"].clone();
                                } else if v.get("id").is_some() {
                                    reply = Some(v);
                                    break;
                                }
                            }
                            Err(RecvTimeoutError::Timeout) => {
                                outcome = "hang";
                                break;
                            }
                            Err(RecvTimeoutError::Disconnected) => {
                                outcome = "crash";
                                status = wait_exit(k);
                                break;
                            }
                        }
                    }
                }
                let ms = t0.elapsed().as_millis() as u64;
                let rec = match reply {
                    Some(mut v) => {
                        v["outcome"] = json!("done");
                        v["ms"] = json!(ms);
                        v
                    }
                    None => {
                        let st = if outcome == "hang" { reap(kid.take().unwrap()) } else { let _ = reap(kid.take().unwrap()); status };
                        json!({"id": case["id"], "outcome": outcome, "at": at, "status": st, "ms": ms})
                    }
                };
                let mut g = outf.lock().unwrap();
                writeln!(g, "{}", rec).unwrap();
            }
            if let Some(k) = kid.take() {
                drop(k.stdin);
                let mut c = k.child;
                let t = Instant::now();
                while t.elapsed() < Duration::from_secs(5) {
                    if let Ok(Some(_)) = c.try_wait() {
                        break;
                    }
                    std::thread::sleep(Duration::from_millis(5));
                }
                let _ = c.kill();
                let _ = c.wait();
            }
            let _ = std::fs::remove_dir_all(&scratch);
        }));
    }
    for h in hs {
        h.join().expect("supervisor thread");
    }
    outf.lock().unwrap().flush().unwrap();
    let _ = std::fs::remove_dir_all(scratch_root());
}

/// Child side of the protocol: calls `f(case, progress)` for every stdin line and prints the returned record.
pub fn child_loop(mut f: impl FnMut(&Value, &mut dyn FnMut(Value)) -> Value) {
    install_site_hook();
    let stdin = std::io::stdin();
    let stdout = std::io::stdout();
    for line in stdin.lock().lines() {
        let Ok(line) = line else { break };
        if line.trim().is_empty() {
            continue;
        }
        let case: Value = match serde_json::from_str(&line) {
            Ok(v) => v,
            Err(e) => {
                println!("{}", json!({"id": null, "fatal": format!("bad case json: {e}")}));
                continue;
            }
        };
        let mut progress = |v: Value| {
            let mut o = stdout.lock();
            let _ = writeln!(o, "{}", json!({"p": v}));
            let _ = o.flush();
        };
        let rec = f(&case, &mut progress);
        let mut o = stdout.lock();
        let _ = writeln!(o, "{}", rec);
        let _ = o.flush();
    }
}

pub fn copy_dir(src: &Path, dst: &Path) -> std::io::Result<()> {
    std::fs::create_dir_all(dst)?;
    for e in std::fs::read_dir(src)? {
        let e = e?;
        let p = e.path();
        let d = dst.join(e.file_name());
        if p.is_dir() {
            copy_dir(&p, &d)?;
        } else {
            std::fs::copy(&p, &d)?;
        }
    }
    Ok(())
}

// ------------------------------------------------------------------------------------------------ SQL cases
fn exec_class(r: &ExecuteResult) -> Value {
    match r {
        ExecuteResult::Select { rows, .. } => json!({"ok": "select", "n": rows.len()}),
        ExecuteResult::Insert { rows_affected, .. } => json!({"ok": "insert", "n": rows_affected}),
        ExecuteResult::Update { rows_affected, .. } => json!({"ok": "update", "n": rows_affected}),
        ExecuteResult::Delete { rows_affected, .. } => json!({"ok": "delete", "n": rows_affected}),
        other => {
            let s = format!("{:?}", other);
            json!({"ok": s.split(|c: char| !c.is_alphanumeric()).next().unwrap_or("").to_lowercase()})
        }
    }
}

fn err_json(e: eyre::Report) -> Value {
    let mut s = format!("{:#}", e);
    if s.len() > 200 {
        let mut cut = 200;
        while !s.is_char_boundary(cut) {
            cut -= 1;
        }
        s.truncate(cut);
    }
    json!({"err": s})
}

/// parameter / batch values: the sql-run encoding plus {"i64": "decimal string"} (TLC integers are 32-bit)
fn pval(v: &Value) -> OwnedValue {
    if let Some(s) = v.get("i64").and_then(|x| x.as_str()) {
        return s.parse::<i64>().map(OwnedValue::Int).unwrap_or(OwnedValue::Null);
    }
    if let Some(f) = v.get("f").and_then(|x| x.as_str()) {
        return OwnedValue::Float(f.parse::<f64>().unwrap_or(f64::NAN));
    }
    json_to_val(v)
}

struct Sess {
    dir: PathBuf,
    handles: Vec<Option<Database>>,
}

impl Sess {
    fn h(&self, op: &Value) -> Option<&Database> {
        self.handles.get(op["h"].as_u64().unwrap_or(0) as usize).and_then(|x| x.as_ref())
    }

    fn run(&mut self, op: &Value) -> Value {
        let k = op["k"].as_str().unwrap_or("");
        let sql = op["sql"].as_str().unwrap_or("");
        let params = || -> Vec<OwnedValue> { op["params"].as_array().map(|a| a.iter().map(pval).collect()).unwrap_or_default() };
        match k {
            "exec" => {
                let Some(db) = self.h(op) else { return json!({"err": "no such handle"}) };
                db.execute(sql).map(|r| exec_class(&r)).unwrap_or_else(err_json)
            }
            "query" => {
                let Some(db) = self.h(op) else { return json!({"err": "no such handle"}) };
                db.query(sql).map(|r| json!({"ok": "rows", "n": r.len()})).unwrap_or_else(err_json)
            }
            "params" => {
                let Some(db) = self.h(op) else { return json!({"err": "no such handle"}) };
                db.execute_with_params(sql, &params()).map(|r| exec_class(&r)).unwrap_or_else(err_json)
            }
            "prepare" => {
                let Some(db) = self.h(op) else { return json!({"err": "no such handle"}) };
                db.prepare(sql).map(|s| json!({"ok": "prepared", "n": s.param_count()})).unwrap_or_else(err_json)
            }
            "prepared" => {
                let Some(db) = self.h(op) else { return json!({"err": "no such handle"}) };
                let stmt = match db.prepare(sql) {
                    Ok(s) => s,
                    Err(e) => return err_json(e.wrap_err("prepare")),
                };
                let ps = params();
                let mut last = Value::Null;
                for _ in 0..op["times"].as_u64().unwrap_or(1) {
                    last = if ps.is_empty() {
                        // no bind() call at all: drive the statement through the cached-plan entry point
                        db.execute_with_cached_plan(&stmt, &[]).map(|r| exec_class(&r)).unwrap_or_else(err_json)
                    } else {
                        let mut b = stmt.bind(ps[0].clone());
                        for p in &ps[1..] {
                            b = b.bind(p.clone());
                        }
                        if op["mode"] == "query" {
                            b.query(db).map(|r| json!({"ok": "rows", "n": r.len()})).unwrap_or_else(err_json)
                        } else {
                            b.execute(db).map(|r| exec_class(&r)).unwrap_or_else(err_json)
                        }
                    };
                }
                last
            }
            "batch" => {
                let Some(db) = self.h(op) else { return json!({"err": "no such handle"}) };
                let rows: Vec<Vec<OwnedValue>> = op["rows"].as_array().map(|a| a.iter().map(|r| r.as_array().map(|x| x.iter().map(pval).collect()).unwrap_or_default()).collect()).unwrap_or_default();
                let table = op["table"].as_str().unwrap_or("");
                let r = match op["api"].as_str().unwrap_or("") {
                    "insert_batch" => db.insert_batch(table, &rows).map(|n| n as u64),
                    "bulk_insert" => db.bulk_insert(table, rows),
                    _ => db.insert_batch_into_schema("root", table, &rows).map(|n| n as u64),
                };
                r.map(|n| json!({"ok": "batch", "n": n})).unwrap_or_else(err_json)
            }
            "close" => {
                let Some(db) = self.h(op) else { return json!({"err": "no such handle"}) };
                db.close().map(|_| json!({"ok": "close"})).unwrap_or_else(err_json)
            }
            "checkpoint" => {
                let Some(db) = self.h(op) else { return json!({"err": "no such handle"}) };
                db.checkpoint().map(|i| json!({"ok": "checkpoint", "n": i.frames_checkpointed})).unwrap_or_else(err_json)
            }
            "reopen" | "close_reopen" => {
                if k == "close_reopen" {
                    if let Some(Some(db)) = self.handles.first() {
                        let _ = db.close();
                    }
                }
                self.handles.clear();
                match Database::open(&self.dir) {
                    Ok(db) => {
                        self.handles.push(Some(db));
                        json!({"ok": "reopen"})
                    }
                    Err(e) => {
                        self.handles.push(None);
                        err_json(e.wrap_err("open"))
                    }
                }
            }
            "clone" => {
                let i = op["h"].as_u64().unwrap_or(1) as usize;
                let c = self.handles.first().and_then(|d| d.as_ref()).cloned();
                while self.handles.len() <= i {
                    self.handles.push(None);
                }
                self.handles[i] = c;
                json!({"ok": "clone"})
            }
            "drop_handle" => {
                let i = op["h"].as_u64().unwrap_or(0) as usize;
                if i < self.handles.len() {
                    self.handles[i] = None;
                }
                json!({"ok": "drop_handle"})
            }
            other => json!({"err": format!("unknown op {other}")}),
        }
    }
}

fn build_template(dir: &Path, sqls: &[Value]) -> Result<(), String> {
    let _ = std::fs::remove_dir_all(dir);
    let db = guarded(|| Database::create(dir)).map_err(|p| format!("panic in create: {p}"))?.map_err(|e| format!("create: {e:#}"))?;
    for s in sqls {
        let s = s.as_str().unwrap_or("");
        match guarded(|| db.execute(s)) {
            Ok(Ok(_)) => {}
            Ok(Err(e)) => return Err(format!("setup statement failed: {s}: {e:#}")),
            Err(p) => return Err(format!("setup statement panicked: {s}: {p}")),
        }
    }
    let _ = db.close();
    drop(db);
    Ok(())
}

/// `robust-child --setup file`: executes SQL cases arriving on stdin.
pub fn child(args: &Args) {
    let setup: Value = serde_json::from_str(&std::fs::read_to_string(args.get("setup", "")).unwrap_or_else(|_| "{}".into())).unwrap_or(json!({}));
    let root = scratch_root();
    let mut tpl_err: std::collections::HashMap<String, String> = Default::default();
    if let Some(o) = setup.as_object() {
        for (name, sqls) in o {
            if let Err(e) = build_template(&root.join(format!("tpl-{name}")), sqls.as_array().map(|a| a.as_slice()).unwrap_or(&[])) {
                tpl_err.insert(name.clone(), e);
            }
        }
    }
    let mut n = 0usize;
    child_loop(|case, progress| {
        n += 1;
        let tpl = case["tpl"].as_str().unwrap_or("std");
        if let Some(e) = tpl_err.get(tpl) {
            return json!({"id": case["id"], "fatal": e});
        }
        let dir = root.join("work");
        let _ = std::fs::remove_dir_all(&dir);
        let src = root.join(format!("tpl-{tpl}"));
        if src.is_dir() {
            if let Err(e) = copy_dir(&src, &dir) {
                return json!({"id": case["id"], "fatal": format!("copy template: {e}")});
            }
        }
        let opened = guarded_json(|| {
            let r = if src.is_dir() { Database::open(&dir) } else { Database::create(&dir) };
            match r {
                Ok(db) => {
                    let mut s = Sess { dir: dir.clone(), handles: vec![Some(db)] };
                    let mut res = vec![];
                    for (i, op) in case["ops"].as_array().map(|a| a.as_slice()).unwrap_or(&[]).iter().enumerate() {
                        progress(json!(i));
                        let r = guarded_json(|| s.run(op));
                        let stop = r.get("panic").is_some();
                        res.push(r);
                        if stop {
                            break;
                        }
                    }
                    let d = guarded_json(move || {
                        drop(s);
                        Value::Null
                    });
                    if d.get("panic").is_some() {
                        res.push(json!({"drop": d}));
                    }
                    json!({"res": res})
                }
                Err(e) => json!({"fatal": format!("open template copy: {e:#}")}),
            }
        });
        let mut rec = opened;
        rec["id"] = case["id"].clone();
        rec
    });
    let _ = std::fs::remove_dir_all(&root);
}

/// `robust-run --in cases --out results --setup file [--jobs N --watchdog ms --vmem-mb M]`
pub fn run(args: &Args) {
    let cases = read_cases(&args.get("in", ""));
    supervise(
        cases,
        args.num("jobs", 8),
        &args.get("out", "/dev/stdout"),
        "robust-child",
        vec!["--setup".into(), args.get("setup", "")],
        args.num("watchdog", 10000) as u64,
        args.num("vmem-mb", 8192),
    );
}

//! C37: schedules of GroupCommit.tla driven through the real GroupCommitQueue; the caller protocol of
//! execute_small_commit is re-enacted step by step (submit_and_wait / take_pending / write / complete|fail).
//! The "WAL" is a harness-side vector of commit tags; a write failure is injected where the model says so.
use crate::sched::{Puppeteer, StepResult};
use crate::util::*;
use serde_json::{json, Value};
use std::sync::{Arc, Mutex};
use std::time::Duration;
use turdb::database::group_commit::{CommitPayload, GroupCommitQueue, PendingCommit};
use turdb::memory::PageBufferPool;

struct Shared {
    queue: GroupCommitQueue,
    pool: PageBufferPool,
    batch: Mutex<Vec<Vec<Arc<PendingCommit>>>>,
}

pub fn replay(args: &Args) {
    let cases = read_cases(&args.get("in", ""));
    let out = args.get("out", "/dev/stdout");
    let leader_api = args.get("leader-api", "auto");
    par_run(cases, args.num("jobs", 8), &out, move |i, case| {
        let _ = &leader_api;
        let hist = case["hist"].as_array().unwrap();
        let nthreads = hist.iter().map(|s| s["t"].as_u64().unwrap() as usize).max().unwrap_or(1);
        let sh = Arc::new(Shared { queue: GroupCommitQueue::with_default_config(), pool: PageBufferPool::new(16), batch: Mutex::new(vec![vec![]; nthreads]) });
        let s2 = sh.clone();
        let pup = Puppeteer::new(nthreads, move |t, op| match op["kind"].as_str().unwrap() {
            "submit" => {
                let tag = op["tag"].as_u64().unwrap() as u32;
                let mut payload: CommitPayload = Default::default();
                let mut buf = s2.pool.acquire().expect("buffer");
                buf[0] = tag as u8;
                payload.push((tag, 0, buf, 1));
                crate::gcommit_api::submit(&s2.queue, payload)
            }
            "take" => match s2.queue.take_pending() {
                None => json!({"taken": Value::Null}),
                Some(v) => {
                    let tags: Vec<u32> = v.iter().map(|c| c.payload[0].0).collect();
                    s2.batch.lock().unwrap()[t] = v;
                    json!({"taken": tags})
                }
            },
            "complete" => {
                let b = std::mem::take(&mut s2.batch.lock().unwrap()[t]);
                s2.queue.complete_batch(&b);
                json!("ok")
            }
            _ => {
                let b = std::mem::take(&mut s2.batch.lock().unwrap()[t]);
                s2.queue.fail_batch(&b, "injected WAL write failure");
                json!("ok")
            }
        });
        let mut log: Vec<u32> = vec![]; // tags written to the "WAL"
        let mut bad: Vec<u32> = vec![]; // tags whose batch write failed
        let mut acked: Vec<(u32, String)> = vec![]; // what each submitter was told
        let mut cur_tag = vec![0u32; nthreads];
        let mut taken: Vec<Vec<u32>> = vec![vec![]; nthreads];
        let mut problems: Vec<Value> = vec![];
        // observed protocol state of each caller (drives the enactment; the model only picks who moves)
        #[derive(Clone, PartialEq, Debug)]
        enum O { Idle, InSubmit { blocked: bool }, GotOk { leader: Option<bool> }, Taken, Written { ok: bool } }
        let mut ost = vec![O::Idle; nthreads];
        let mut diverged = false;
        let mut next_tag = 100u32;
        // after a divergence the rest of the model's thread order is still used, then a few extra rounds
        let mut order: Vec<(usize, Option<&Value>)> = hist.iter().map(|st| (st["t"].as_u64().unwrap() as usize - 1, Some(st))).collect();
        for _ in 0..12 { for t in 0..nthreads { order.push((t, None)); } }
        let nmodel = hist.len();
        for (k, (t, st)) in order.into_iter().enumerate() {
            let t = t;
            if k >= nmodel && !diverged { break; }
            let model = if diverged { None } else { st };
            let a = model.map(|m| m["a"].as_str().unwrap());
            let exp = model.map(|m| m["res"].as_str().unwrap());
            // what the thread does next is determined by what was observed
            let mut observed_action = "";
            let mut observed_res = String::new();
            match ost[t].clone() {
                O::Idle => {
                    // a new commit starts only where the model (or its remaining schedule) says so
                    let wants_push = st.map(|m| m["a"] == "push").unwrap_or(false);
                    if wants_push {
                        cur_tag[t] = if diverged { next_tag += 1; next_tag } else { st.unwrap()["id"].as_u64().unwrap() as u32 };
                        observed_action = "push";
                        match pup.step(t, Some(json!({"kind": "submit", "tag": cur_tag[t]}))) {
                            StepResult::AtPoint(n, _) if n == "gc.check" => { ost[t] = O::InSubmit { blocked: false }; observed_res = "-".into(); }
                            StepResult::Done(v) => {
                                observed_res = format!("returned {}", v);
                                if v.get("err").is_some() { acked.push((cur_tag[t], "err".into())); ost[t] = O::Idle; }
                                else { ost[t] = O::GotOk { leader: v.get("leader").and_then(|l| l.as_bool()) }; }
                            }
                            o => { observed_res = format!("{:?}", o); ost[t] = O::InSubmit { blocked: true }; }
                        }
                    } else if a.is_some() { observed_action = "idle"; }
                }
                O::InSubmit { blocked } => {
                    observed_action = "check";
                    let expect_wait = exp == Some("wait") || diverged;
                    let r = if blocked {
                        match pup.settle(t, if expect_wait { pup.block_timeout } else { Duration::from_secs(20) }) {
                            StepResult::AtPoint(_, _) => if expect_wait { pup.step_expect_block(t, None) } else { pup.step(t, None) },
                            other => other,
                        }
                    } else if expect_wait { pup.step_expect_block(t, None) } else { pup.step(t, None) };
                    match r {
                        StepResult::Blocked => { ost[t] = O::InSubmit { blocked: true }; observed_res = "wait".into(); }
                        StepResult::AtPoint(_, _) => { ost[t] = O::InSubmit { blocked: false }; observed_res = "recheck".into(); }
                        StepResult::Done(v) => {
                            if v.get("err").is_some() { acked.push((cur_tag[t], "err".into())); ost[t] = O::Idle; observed_res = "err".into(); }
                            else {
                                let leader = v.get("leader").and_then(|l| l.as_bool());
                                ost[t] = O::GotOk { leader };
                                observed_res = match leader { Some(true) => "leader".into(), Some(false) => "completed".into(), None => "ok".into() };
                            }
                        }
                    }
                }
                O::GotOk { leader } => {
                    observed_action = "take";
                    // caller protocol: only an elected leader drains the queue (when the API tells who is the leader)
                    let r = if leader == Some(false) { StepResult::Done(json!({"taken": Value::Null})) } else { pup.step(t, Some(json!({"kind": "take"}))) };
                    match r {
                        StepResult::Done(v) if v["taken"].is_null() => { acked.push((cur_tag[t], "ok".into())); ost[t] = O::Idle; observed_res = "none".into(); }
                        StepResult::Done(v) if v["taken"].is_array() => {
                            taken[t] = v["taken"].as_array().unwrap().iter().map(|x| x.as_u64().unwrap() as u32).collect();
                            ost[t] = O::Taken; observed_res = "some".into();
                        }
                        o => { observed_res = format!("{:?}", o); problems.push(json!({"kind": "stuck_in_take", "step": k})); break; }
                    }
                }
                O::Taken => {
                    observed_action = "write";
                    let ok = exp != Some("fail");
                    if ok { log.extend(taken[t].iter().copied()); } else { bad.extend(taken[t].iter().copied()); }
                    ost[t] = O::Written { ok };
                    observed_res = if ok { "ok".into() } else { "fail".into() };
                }
                O::Written { ok } => {
                    observed_action = if ok { "complete" } else { "fail" };
                    match pup.step(t, Some(json!({"kind": observed_action}))) {
                        StepResult::Done(_) => { acked.push((cur_tag[t], if ok { "ok".into() } else { "err".into() })); taken[t].clear(); ost[t] = O::Idle; observed_res = if ok { "ok".into() } else { "err".into() }; }
                        o => { observed_res = format!("{:?}", o); problems.push(json!({"kind": "stuck_in_complete", "step": k})); break; }
                    }
                }
            }
            if let (Some(a), Some(exp)) = (a, exp) {
                let same = a == observed_action && (exp == observed_res || (observed_res == "ok" && (exp == "leader" || exp == "completed")));
                if !same {
                    problems.push(json!({"kind": "path", "step": k, "model": [a, exp], "observed": [observed_action, observed_res]}));
                    diverged = true;
                } else if Some(sh.queue.pending_count() as u64) != st.unwrap()["npending"].as_u64() {
                    problems.push(json!({"kind": "state", "step": k, "expected_pending": st.unwrap()["npending"], "observed_pending": sh.queue.pending_count()}));
                    diverged = true;
                }
            }
            // C37 on what was OBSERVED so far (sound whatever the model says: this is a real execution)
            let mut stop = false;
            for (tag, what) in &acked {
                if what == "ok" && !log.contains(tag) {
                    problems.push(json!({"kind": "ack_before_write", "step": k, "commit": tag, "log": log}));
                    stop = true; break;
                }
                if what == "ok" && bad.contains(tag) {
                    problems.push(json!({"kind": "failure_not_reported", "step": k, "commit": tag}));
                    stop = true; break;
                }
            }
            let mut l2 = log.clone(); l2.sort(); l2.dedup();
            if l2.len() != log.len() {
                problems.push(json!({"kind": "written_twice", "step": k, "log": log}));
                stop = true;
            }
            if stop { break; }
            if diverged && ost.iter().all(|o| *o == O::Idle) && k >= nmodel { break; }
        }
        if diverged && ost.iter().any(|o| matches!(o, O::InSubmit { .. })) && !problems.iter().any(|p| p["kind"] == "ack_before_write") {
            problems.push(json!({"kind": "committer_never_returns", "step": "end"}));
        }
        let clean = problems.is_empty();
        drop(pup);
        if clean {
            vec![json!({"case": i, "kind": "ok"})]
        } else {
            vec![json!({"case": i, "kind": "diverged", "problems": problems, "hist": hist, "model_ackok": case["ackok"], "model_failall": case["failall"]})]
        }
    });
}

//! `rel-run`: the `sql-run` case runner plus the operations the DDL / AUTO_INCREMENT / bulk-load checks need
//! (C12, C21, C43). Every op that is not listed here is handed to `sqlrun::Session::run_op` unchanged.
//!
//!   {"k":"dot","cmd":".schema"|".tables"|".indexes [t]"}
//!         the catalog as the shipped CLI prints it (turdb::cli::commands::CommandHandler, the only public
//!         introspection there is)                                     -> {"out": text} | {"err": text}
//!   {"k":"files"}                                                     -> {"files":[[relative path, bytes]..]}
//!   {"k":"bulk","api":A,"table":"t"|"s.t","schema":"root","sql":"INSERT INTO t VALUES (?, ?)","rows":[[v..]..]}
//!         A = insert_batch              Database::insert_batch(table, rows)
//!             insert_batch_into_schema  Database::insert_batch_into_schema(schema, table-without-schema, rows)
//!             bulk_insert               Database::bulk_insert(table, rows)
//!             insert_cached             ONE prepared statement `sql`, bound and executed once per row: the first
//!                                       execution plans the statement, every later one runs Database::insert_cached
//!             insert_each               Database::execute_with_params(sql, row) per row (the row-at-a-time reference)
//!         -> {"ok":{"type":"bulk","n":rows reported inserted,"nerr":failed rows,"errs":[[row index, message]..<=3]}}
//!            | {"err": message} when a whole-batch API refuses the call
//! A panic is data: {"panic": msg} and the case stops there (as in sql-run).
use crate::sqlrun::{json_to_val, Session};
use crate::util::*;
use serde_json::{json, Value};
use turdb::cli::commands::{CommandHandler, CommandResult};
use turdb::OwnedValue;

fn rows_of(op: &Value) -> Vec<Vec<OwnedValue>> {
    op["rows"].as_array().map(|a| a.iter().map(|r| r.as_array().unwrap().iter().map(json_to_val).collect()).collect()).unwrap_or_default()
}

fn run_extra(s: &mut Session, k: &str, op: &Value) -> Option<Value> {
    let hi = op["h"].as_u64().unwrap_or(0) as usize;
    match k {
        "dot" => {
            let Some(Some(db)) = s.handles.get(hi) else { return Some(json!({"err": "no such handle"})) };
            Some(match CommandHandler::execute(op["cmd"].as_str().unwrap_or(""), db) {
                CommandResult::Output(t) => json!({"out": t}),
                CommandResult::Error(e) => json!({"err": e}),
                other => json!({"err": format!("{:?}", other)}),
            })
        }
        "files" => {
            // sizes of the files of the database directory (relative path -> bytes): lets a check see page allocation
            fn walk(base: &std::path::Path, d: &std::path::Path, out: &mut Vec<Value>) {
                if let Ok(rd) = std::fs::read_dir(d) {
                    let mut es: Vec<_> = rd.filter_map(|e| e.ok()).collect();
                    es.sort_by_key(|e| e.path());
                    for e in es {
                        let p = e.path();
                        if p.is_dir() {
                            walk(base, &p, out);
                        } else if let Ok(m) = e.metadata() {
                            out.push(json!([p.strip_prefix(base).unwrap_or(&p).to_string_lossy(), m.len()]));
                        }
                    }
                }
            }
            let mut out = vec![];
            walk(&s.dir, &s.dir, &mut out);
            Some(json!({"files": out}))
        }
        "bulk" => {
            let Some(Some(db)) = s.handles.get(hi) else { return Some(json!({"err": "no such handle"})) };
            let rows = rows_of(op);
            let table = op["table"].as_str().unwrap_or("");
            let api = op["api"].as_str().unwrap_or("");
            let whole = |r: Result<u64, String>| match r {
                Ok(n) => json!({"ok": {"type": "bulk", "n": n, "nerr": 0, "errs": []}}),
                Err(e) => json!({"err": e}),
            };
            Some(match api {
                "insert_batch" => whole(db.insert_batch(table, &rows).map(|n| n as u64).map_err(|e| format!("{:#}", e))),
                "insert_batch_into_schema" => {
                    let schema = op["schema"].as_str().unwrap_or("root");
                    let bare = table.rsplit('.').next().unwrap_or(table);
                    whole(db.insert_batch_into_schema(schema, bare, &rows).map(|n| n as u64).map_err(|e| format!("{:#}", e)))
                }
                "bulk_insert" => whole(db.bulk_insert(table, rows).map_err(|e| format!("{:#}", e))),
                "insert_cached" | "insert_each" => {
                    let sql = op["sql"].as_str().unwrap_or("");
                    let mut n = 0u64;
                    let mut nerr = 0u64;
                    let mut errs: Vec<Value> = vec![];
                    let stmt = if api == "insert_cached" {
                        match db.prepare(sql) {
                            Ok(st) => Some(st),
                            Err(e) => return Some(json!({"err": format!("prepare: {:#}", e)})),
                        }
                    } else {
                        None
                    };
                    for (i, row) in rows.iter().enumerate() {
                        let r = match &stmt {
                            Some(st) => {
                                if row.is_empty() {
                                    Err("row without values".to_string())
                                } else {
                                    let mut b = st.bind(row[0].clone());
                                    for p in &row[1..] {
                                        b = b.bind(p.clone());
                                    }
                                    b.execute(db).map_err(|e| format!("{:#}", e))
                                }
                            }
                            None => db.execute_with_params(sql, row).map_err(|e| format!("{:#}", e)),
                        };
                        match r {
                            Ok(turdb::ExecuteResult::Insert { rows_affected, .. }) => n += rows_affected as u64,
                            Ok(_) => n += 1,
                            Err(e) => {
                                nerr += 1;
                                if errs.len() < 3 {
                                    errs.push(json!([i, e]));
                                }
                            }
                        }
                    }
                    json!({"ok": {"type": "bulk", "n": n, "nerr": nerr, "errs": errs}})
                }
                other => json!({"err": format!("unknown bulk api {other}")}),
            })
        }
        _ => None,
    }
}

pub fn run(args: &Args) {
    let cases = read_cases(&args.get("in", ""));
    let out = args.get("out", "/dev/stdout");
    let watchdog_s = args.num("watchdog", 120) as u64;
    par_run(cases, args.num("jobs", 8), &out, move |_i, case| {
        let sc = Scratch::new("rel");
        let dir = sc.path.join("db");
        let ops = case["ops"].as_array().unwrap();
        let mut res: Vec<Value> = Vec::with_capacity(ops.len());
        let t0 = std::time::Instant::now();
        match Session::new(&dir) {
            Err(e) => res.push(json!({"fatal": e})),
            Ok(mut s) => {
                for op in ops {
                    if t0.elapsed().as_secs() > watchdog_s {
                        res.push(json!({"err": "harness watchdog: case exceeded time budget"}));
                        break;
                    }
                    let k = op["k"].as_str().unwrap_or("").to_string();
                    let r = match guarded(|| run_extra(&mut s, &k, op)) {
                        Ok(Some(v)) => v,
                        Ok(None) => s.run_op(op),
                        Err(p) => json!({"panic": p}),
                    };
                    let stop = r.get("panic").is_some();
                    res.push(r);
                    if stop {
                        break;
                    }
                }
                let _ = guarded(move || drop(s));
            }
        }
        vec![json!({"id": case["id"], "res": res})]
    });
}

//! C34: histories of Freelist.tla (single operations) and FreelistBulk.tla (bulk operations with the real
//! trunk size) executed on the real `Freelist` over a sparse in-memory `Storage`.
//! Judged by the abstract set semantics of the spec: a returned page was free and is not handed out twice,
//! None iff nothing is free, free_count == |free|; plus the model's predicted count / number of successes.
use crate::util::*;
use serde_json::{json, Value};
use std::collections::{BTreeSet, HashMap};
use turdb::storage::{Freelist, Storage};

const PAGE_SIZE: usize = 16384;
static ZERO_PAGE: [u8; PAGE_SIZE] = [0u8; PAGE_SIZE];

struct MemStorage {
    pages: HashMap<u32, Box<[u8]>>,
    page_count: u32,
}
impl Storage for MemStorage {
    fn page(&self, page_no: u32) -> eyre::Result<&[u8]> {
        eyre::ensure!(page_no < self.page_count, "page {} out of bounds", page_no);
        Ok(self.pages.get(&page_no).map(|p| &p[..]).unwrap_or(&ZERO_PAGE[..]))
    }
    fn page_mut(&mut self, page_no: u32) -> eyre::Result<&mut [u8]> {
        eyre::ensure!(page_no < self.page_count, "page {} out of bounds", page_no);
        Ok(&mut self.pages.entry(page_no).or_insert_with(|| vec![0u8; PAGE_SIZE].into_boxed_slice())[..])
    }
    fn grow(&mut self, n: u32) -> eyre::Result<()> {
        self.page_count = self.page_count.max(n);
        Ok(())
    }
    fn page_count(&self) -> u32 {
        self.page_count
    }
    fn sync(&self) -> eyre::Result<()> {
        Ok(())
    }
}

pub fn replay(args: &Args) {
    let cases = read_cases(&args.get("in", ""));
    let out = args.get("out", "/dev/stdout");
    let max_pages = args.num("maxpages", 12400) as u32;
    par_run(cases, args.num("jobs", 8), &out, move |i, case| {
        let hist = case["hist"].as_array().unwrap();
        let mut st = MemStorage { pages: HashMap::new(), page_count: max_pages + 1 };
        // page 0 is the file header: give it plausible non-zero content so that reading it as a trunk is visible
        st.page_mut(0).unwrap().iter_mut().enumerate().for_each(|(k, b)| *b = (k % 251) as u8 + 1);
        let mut fl = Freelist::new();
        let mut free: BTreeSet<u32> = BTreeSet::new();
        let mut outstanding: Vec<u32> = (1..=max_pages).rev().collect();
        let mut problems: Vec<Value> = vec![];
        let mut events = 0usize;
        'outer: for (k, op) in hist.iter().enumerate() {
            let last = k + 1 == hist.len();
            let is_rel = op["op"] == "release";
            let bulk = op.get("n").is_some();
            let n = if bulk { op["n"].as_u64().unwrap() as usize } else { 1 };
            let mut somes = 0u64;
            for _ in 0..n {
                events += 1;
                if is_rel {
                    let p = if bulk {
                        match outstanding.pop() { Some(p) => p, None => { problems.push(json!({"kind": "harness", "detail": "no page to release"})); break 'outer; } }
                    } else {
                        let p = op["p"].as_u64().unwrap() as u32;
                        outstanding.retain(|x| *x != p);
                        p
                    };
                    match guarded(|| fl.release(&mut st, p)) {
                        Ok(Ok(())) => { free.insert(p); }
                        Ok(Err(e)) => { problems.push(json!({"kind": "release_error", "step": k, "detail": e.to_string()})); break 'outer; }
                        Err(pn) => { problems.push(json!({"kind": "panic", "step": k, "detail": pn})); break 'outer; }
                    }
                } else {
                    match guarded(|| fl.allocate(&mut st)) {
                        Ok(Ok(Some(p))) => {
                            somes += 1;
                            if !free.remove(&p) {
                                problems.push(json!({"kind": "allocated_page_was_not_free", "step": k, "page": p, "last": last}));
                                break 'outer;
                            }
                            outstanding.push(p);
                        }
                        Ok(Ok(None)) => {
                            if !free.is_empty() {
                                problems.push(json!({"kind": "none_while_pages_free", "step": k, "free": free.len(), "reported_free_count": fl.free_count(), "last": last}));
                                break 'outer;
                            }
                        }
                        Ok(Err(e)) => { problems.push(json!({"kind": "allocate_error", "step": k, "detail": e.to_string(), "last": last})); break 'outer; }
                        Err(pn) => { problems.push(json!({"kind": "panic", "step": k, "detail": pn, "last": last})); break 'outer; }
                    }
                }
                if fl.free_count() as usize != free.len() {
                    problems.push(json!({"kind": "free_count_wrong", "step": k, "reported": fl.free_count(), "free": free.len(), "last": last}));
                    break 'outer;
                }
            }
            // model predictions
            if op["count"].as_u64() != Some(fl.free_count() as u64) {
                problems.push(json!({"kind": "model_count", "step": k, "expected": op["count"], "observed": fl.free_count()}));
                break;
            }
            if bulk && !is_rel && op["some"].as_u64() != Some(somes) {
                problems.push(json!({"kind": "model_some", "step": k, "expected": op["some"], "observed": somes}));
                break;
            }
        }
        // finally everything that is free must be allocatable exactly once
        if problems.is_empty() {
            let mut got = 0usize;
            let want = free.len();
            loop {
                match guarded(|| fl.allocate(&mut st)) {
                    Ok(Ok(Some(p))) => {
                        got += 1;
                        if !free.remove(&p) { problems.push(json!({"kind": "allocated_page_was_not_free", "step": "drain", "page": p, "last": true})); break; }
                        if got > want + 1 { break; }
                    }
                    Ok(Ok(None)) => break,
                    Ok(Err(e)) => { problems.push(json!({"kind": "allocate_error", "step": "drain", "detail": e.to_string(), "last": true})); break; }
                    Err(pn) => { problems.push(json!({"kind": "panic", "step": "drain", "detail": pn, "last": true})); break; }
                }
            }
            if problems.is_empty() && got != want {
                problems.push(json!({"kind": "free_pages_not_allocatable", "step": "drain", "free": want, "allocated": got, "last": true}));
            }
        }
        if problems.is_empty() {
            vec![json!({"case": i, "kind": "ok", "events": events})]
        } else {
            vec![json!({"case": i, "kind": "diverged", "problems": problems, "hist": hist, "events": events})]
        }
    });
}

mod btree;
mod budget;
mod cache;
mod codec;
mod commitorder;
mod corrupt;
mod crash;
mod formats;
mod freelist;
mod gcommit;
mod gcommit_api;
mod hnsw;
mod joinobs;
mod plock;
mod relx;
mod robust;
mod sched;
mod sqlrun;
mod util;
mod vector;
mod wal;

fn main() {
    let argv: Vec<String> = std::env::args().collect();
    if argv.len() < 2 {
        eprintln!("usage: vh <subcommand> [args]");
        std::process::exit(2);
    }
    util::quiet_panics();
    let args = util::parse_args(&argv[2..]);
    match argv[1].as_str() {
        "wal-replay" => wal::replay(&args),
        "budget-replay" => budget::replay(&args),
        "cache-replay" | "cache-stress" | "cache-probe" => cache::run(argv[1].as_str(), &args),
        "plock-replay" => plock::replay(&args),
        "plock-stress" => plock::stress(&args),
        "freelist-replay" => freelist::replay(&args),
        "gc-replay" => gcommit::replay(&args),
        "sql-run" => sqlrun::run(&args),
        "varint-run" | "key-run" => codec::run(argv[1].as_str(), &args),
        "vector-kernels" => vector::run(&args),
        "hnsw-replay" => hnsw::replay(&args),
        "hnsw-one" => hnsw::one(&args),
        "sq8-cases" => hnsw::sq8(&args),
        "record-run" | "jsonb-run" | "spill-run" => formats::run(argv[1].as_str(), &args),
        "rel-run" => relx::run(&args),
        "join-obs" => joinobs::run(&args),
        "crash-run" => crash::run(&args),
        "commit-order" => commitorder::run(&args),
        "wal-faults" => wal::fault_sweep(&args),
        "btree-replay" => btree::replay(&args),
        "leaf-search" => btree::leaf_search(&args),
        "robust-run" => robust::run(&args),
        "robust-child" => robust::child(&args),
        "corrupt-run" => corrupt::run(&args),
        "corrupt-child" => corrupt::child(&args),
        "corrupt-inventory" => corrupt::inventory(&args),
        other => {
            eprintln!("unknown subcommand {}", other);
            std::process::exit(2);
        }
    }
}

//! C31 / C32 / C33: data-format round trips driven by TLC-generated descriptors.
//!
//!   record-run   RecordGen.tla shapes  -> RecordBuilder / RecordView / OwnedValue glue          (C31)
//!   jsonb-run    JsonGen.tla documents -> parsing::json + JsonbBuilder + JsonbView + OwnedValue (C32)
//!   spill-run    SpillRow.tla rows     -> RowSerde, PartitionSpiller, SpillableBuffer           (C33)
//!
//! The descriptors name value CLASSES; this module owns the concrete constant of every class (`concrete`,
//! `item_value`) and reports, per case, identity or what differs (which column / which probe / which item) or a
//! panic.  It decides nothing: the expectation (identity, admissible read-backs, sizes) comes from the spec and the
//! comparison against it is done by lib/checks/c31.py, c32.py, c33.py.
use crate::util::*;
use serde_json::{json, Value as J};
use std::borrow::Cow;
use turdb::records::jsonb::{JsonbBuilder, JsonbBuilderValue, JsonbValue, JsonbView};
use turdb::records::types::{ColumnDef, DataType, Range};
use turdb::records::{ArrayBuilder, RecordBuilder, RecordBuilderState, RecordView, Schema};
use turdb::types::{OwnedValue, Value};

fn hex(b: &[u8]) -> String {
    b.iter().map(|x| format!("{:02x}", x)).collect()
}
fn unhex(s: &str) -> Vec<u8> {
    (0..s.len() / 2).map(|i| u8::from_str_radix(&s[2 * i..2 * i + 2], 16).unwrap()).collect()
}
fn fbits(f: f64) -> String {
    if f.is_nan() { "nan".into() } else { format!("{:016x}", f.to_bits()) }
}
fn fbits32(f: f32) -> String {
    if f.is_nan() { "nan".into() } else { format!("{:08x}", f.to_bits()) }
}

// ============================================================================================ C31: records

/// A concrete column value.
#[derive(Clone, Debug)]
enum CV {
    Null,
    Bool(bool),
    I2(i16),
    I4(i32),
    I8(i64),
    F4(f32),
    F8(f64),
    Date(i32),
    Time(i64),
    Ts(i64),
    TsTz(i64, i32),
    Uuid([u8; 16]),
    Mac([u8; 6]),
    Inet4([u8; 4]),
    Inet6([u8; 16]),
    Interval(i64, i32, i32),
    Enum(u16, u16),
    Point(f64, f64),
    Box((f64, f64), (f64, f64)),
    Circle((f64, f64), f64),
    R4(Range<i32>),
    R8(Range<i64>),
    Text(String),
    Char(String),
    Blob(Vec<u8>),
    Vector(Vec<f32>),
    Jsonb(Vec<u8>),
    Decimal(i128, i16),
    /// nested record of (Int4, Text): bytes + the two inner values
    Composite(Vec<u8>, Option<i32>, Option<String>),
    /// array bytes + element description
    Array(Vec<u8>, ArrDesc),
}
#[derive(Clone, Debug)]
enum ArrDesc {
    I4(Vec<Option<i32>>),
    I8(Vec<Option<i64>>),
    Tx(Vec<Option<String>>),
}

fn dt_of(ty: &str) -> DataType {
    match ty {
        "Bool" => DataType::Bool, "Int2" => DataType::Int2, "Int4" => DataType::Int4, "Int8" => DataType::Int8,
        "Float4" => DataType::Float4, "Float8" => DataType::Float8, "Date" => DataType::Date, "Time" => DataType::Time,
        "Timestamp" => DataType::Timestamp, "TimestampTz" => DataType::TimestampTz, "Uuid" => DataType::Uuid,
        "MacAddr" => DataType::MacAddr, "Inet4" => DataType::Inet4, "Inet6" => DataType::Inet6, "Interval" => DataType::Interval,
        "Int4Range" => DataType::Int4Range, "Int8Range" => DataType::Int8Range, "DateRange" => DataType::DateRange,
        "TimestampRange" => DataType::TimestampRange, "Enum" => DataType::Enum, "Point" => DataType::Point, "Box" => DataType::Box,
        "Circle" => DataType::Circle, "Text" => DataType::Text, "Blob" => DataType::Blob, "Vector" => DataType::Vector,
        "Jsonb" => DataType::Jsonb, "Varchar" => DataType::Varchar, "Char" => DataType::Char, "Decimal" => DataType::Decimal,
        "Composite" => DataType::Composite, "Array" => DataType::Array,
        other => panic!("harness: unknown DataType name {other}"),
    }
}

const CHAR_N: u32 = 8;

fn text_of_len(n: usize, idx: usize) -> String {
    (0..n).map(|j| (b'a' + ((idx + j) % 26) as u8) as char).collect()
}
fn blob_of_len(n: usize, idx: usize) -> Vec<u8> {
    (0..n).map(|j| ((idx * 31 + j * 7 + 1) % 251) as u8).collect()
}
fn inner_schema() -> Schema {
    Schema::new(vec![ColumnDef::new("x", DataType::Int4), ColumnDef::new("s", DataType::Text)])
}
fn int_class(cls: &str, idx: usize, min: i64, max: i64) -> i64 {
    match cls {
        "zero" => 0,
        "one" => 1 + idx as i64,
        "neg1" => -1 - idx as i64,
        "min" => min,
        "max" => max,
        other => panic!("harness: unknown int class {other}"),
    }
}
fn f64_class(cls: &str, idx: usize) -> f64 {
    match cls {
        "zero" => 0.0,
        "negzero" => -0.0,
        "one" => 1.0 + idx as f64,
        "negfrac" => -0.3 - idx as f64,
        "max" => f64::MAX,
        "tiny" => f64::from_bits(1),
        "inf" => f64::INFINITY,
        "neginf" => f64::NEG_INFINITY,
        "nan" => f64::NAN,
        other => panic!("harness: unknown float class {other}"),
    }
}
fn f32_class(cls: &str, idx: usize) -> f32 {
    match cls {
        "zero" => 0.0,
        "negzero" => -0.0,
        "one" => 1.0 + idx as f32,
        "negfrac" => -0.3 - idx as f32,
        "max" => f32::MAX,
        "tiny" => f32::from_bits(1),
        "inf" => f32::INFINITY,
        "neginf" => f32::NEG_INFINITY,
        "nan" => f32::NAN,
        other => panic!("harness: unknown float class {other}"),
    }
}
fn bytes_class<const N: usize>(cls: &str, idx: usize) -> [u8; N] {
    let mut a = [0u8; N];
    match cls {
        "zeros" => {}
        "ones" => a = [0xFF; N],
        "pattern" => a.iter_mut().enumerate().for_each(|(j, b)| *b = (idx * 17 + j * 13 + 5) as u8),
        other => panic!("harness: unknown bytes class {other}"),
    }
    a
}

/// The concrete constant of (DataType, value class) at column `idx`.
fn concrete(ty: &str, cls: &str, idx: usize) -> CV {
    if cls == "NULL" {
        return CV::Null;
    }
    match ty {
        "Bool" => CV::Bool(cls == "true"),
        "Int2" => CV::I2(int_class(cls, idx, i16::MIN as i64, i16::MAX as i64) as i16),
        "Int4" => CV::I4(int_class(cls, idx, i32::MIN as i64, i32::MAX as i64) as i32),
        "Int8" => CV::I8(int_class(cls, idx, i64::MIN, i64::MAX)),
        "Date" => CV::Date(int_class(cls, idx, i32::MIN as i64, i32::MAX as i64) as i32),
        "Time" => CV::Time(int_class(cls, idx, i64::MIN, i64::MAX)),
        "Timestamp" => CV::Ts(int_class(cls, idx, i64::MIN, i64::MAX)),
        "Float4" => CV::F4(f32_class(cls, idx)),
        "Float8" => CV::F8(f64_class(cls, idx)),
        "TimestampTz" => match cls {
            "zero" => CV::TsTz(0, 0),
            "maxplus" => CV::TsTz(i64::MAX, 14 * 3600),
            "minminus" => CV::TsTz(i64::MIN, -12 * 3600 - idx as i32),
            o => panic!("harness: unknown tstz class {o}"),
        },
        "Uuid" => CV::Uuid(bytes_class::<16>(cls, idx)),
        "MacAddr" => CV::Mac(bytes_class::<6>(cls, idx)),
        "Inet4" => CV::Inet4(bytes_class::<4>(cls, idx)),
        "Inet6" => CV::Inet6(bytes_class::<16>(cls, idx)),
        "Interval" => match cls {
            "zero" => CV::Interval(0, 0, 0),
            "mixed" => CV::Interval(-123_456_789 - idx as i64, 40, -7),
            "extreme" => CV::Interval(i64::MIN, i32::MAX, i32::MIN),
            o => panic!("harness: unknown interval class {o}"),
        },
        "Enum" => match cls {
            "zero" => CV::Enum(0, 0),
            "mixed" => CV::Enum(513 + idx as u16, 7),
            "extreme" => CV::Enum(u16::MAX, u16::MAX),
            o => panic!("harness: unknown enum class {o}"),
        },
        "Point" => match cls {
            "zero" => CV::Point(0.0, 0.0),
            "mixed" => CV::Point(-1.5 - idx as f64, 2.25),
            "extreme" => CV::Point(f64::MAX, f64::NEG_INFINITY),
            o => panic!("harness: unknown geo class {o}"),
        },
        "Box" => match cls {
            "zero" => CV::Box((0.0, 0.0), (0.0, 0.0)),
            "mixed" => CV::Box((-1.0 - idx as f64, -2.0), (3.5, 4.25)),
            "extreme" => CV::Box((f64::MIN, -0.0), (f64::INFINITY, f64::from_bits(1))),
            o => panic!("harness: unknown geo class {o}"),
        },
        "Circle" => match cls {
            "zero" => CV::Circle((0.0, 0.0), 0.0),
            "mixed" => CV::Circle((1.0 + idx as f64, -2.5), 7.75),
            "extreme" => CV::Circle((f64::MAX, f64::MIN), f64::INFINITY),
            o => panic!("harness: unknown geo class {o}"),
        },
        "Int4Range" | "DateRange" => CV::R4(match cls {
            "empty" => Range::empty(),
            "closed" => Range::new(Some(1 + idx as i32), Some(500 + idx as i32), true, true),
            "halfopen" => Range::new(Some(-5), Some(5 + idx as i32), true, false),
            "unbounded" => Range::new(None, None, false, false),
            "loweronly" => Range::new(Some(3 + idx as i32), None, true, false),
            "extreme" => Range::new(Some(i32::MIN), Some(i32::MAX), false, true),
            o => panic!("harness: unknown range class {o}"),
        }),
        "Int8Range" | "TimestampRange" => CV::R8(match cls {
            "empty" => Range::empty(),
            "closed" => Range::new(Some(1 + idx as i64), Some(500 + idx as i64), true, true),
            "halfopen" => Range::new(Some(-5), Some(5 + idx as i64), true, false),
            "unbounded" => Range::new(None, None, false, false),
            "loweronly" => Range::new(Some(3 + idx as i64), None, true, false),
            "extreme" => Range::new(Some(i64::MIN), Some(i64::MAX), false, true),
            o => panic!("harness: unknown range class {o}"),
        }),
        "Text" | "Varchar" => CV::Text(match cls {
            "e0" => String::new(),
            "e1" => text_of_len(1, idx),
            "e127" => text_of_len(127, idx),
            "e128" => text_of_len(128, idx),
            "utf8" => "a\u{e9}\u{4e2d}\u{1F600}".repeat(13),
            "e16383" => text_of_len(16383, idx),
            "e16384" => text_of_len(16384, idx),
            "large" => text_of_len(40000, idx),
            o => panic!("harness: unknown text class {o}"),
        }),
        "Char" => CV::Char(match cls {
            "cempty" => String::new(),
            "cshort" => text_of_len(2, idx),
            "cexact" => text_of_len(CHAR_N as usize, idx),
            "cutf8" => "\u{e9}\u{4e2d}\u{1F600}".to_string(),
            o => panic!("harness: unknown char class {o}"),
        }),
        "Blob" => CV::Blob(match cls {
            "e0" => vec![],
            "e1" => blob_of_len(1, idx),
            // exactly the size of a TOAST pointer and starting with the TOAST marker byte
            "toast17" => {
                let mut b = blob_of_len(17, idx);
                b[0] = 0xFE;
                b
            }
            "e127" => blob_of_len(127, idx),
            "e128" => blob_of_len(128, idx),
            "e16383" => blob_of_len(16383, idx),
            "e16384" => blob_of_len(16384, idx),
            "large" => blob_of_len(40000, idx),
            o => panic!("harness: unknown blob class {o}"),
        }),
        "Vector" => {
            let d = match cls { "d0" => 0, "d1" => 1, "d31" => 31, "d70" => 70, "d4095" => 4095, o => panic!("harness: unknown vector class {o}") };
            CV::Vector((0..d).map(|j| (idx as f32) * 0.5 - j as f32 * 1.25).collect())
        }
        "Jsonb" => CV::Jsonb(match cls {
            "jnull" => JsonbBuilder::new_null().build(),
            "jnum" => JsonbBuilder::new_number(1.5 + idx as f64).build(),
            "jobj" => {
                let mut b = JsonbBuilder::new_object();
                b.set("b", "x");
                b.set("a", 1.0f64 + idx as f64);
                b.build()
            }
            "jbigobj" => {
                let mut b = JsonbBuilder::new_object();
                for i in 0..100 {
                    b.set(format!("k{:03}", i), i as f64);
                }
                b.build()
            }
            o => panic!("harness: unknown jsonb class {o}"),
        }),
        "Decimal" => match cls {
            "dzero" => CV::Decimal(0, 0),
            "dpos" => CV::Decimal(1234567 + idx as i128, 3),
            "dneg" => CV::Decimal(-98765 - idx as i128, 2),
            "dmax" => CV::Decimal(i128::MAX, i16::MAX),
            "dmin" => CV::Decimal(i128::MIN, i16::MIN),
            o => panic!("harness: unknown decimal class {o}"),
        },
        "Composite" => {
            let (x, s) = match cls {
                "cpair" => (Some(7 + idx as i32), Some("xy".to_string())),
                "cnulls" => (None, None),
                o => panic!("harness: unknown composite class {o}"),
            };
            let sch = inner_schema();
            let mut b = RecordBuilder::new(&sch);
            if let Some(x) = x { b.set_int4(0, x).unwrap(); }
            if let Some(s) = &s { b.set_text(1, s).unwrap(); }
            CV::Composite(b.build().unwrap(), x, s)
        }
        "Array" => match cls {
            "aempty" => CV::Array(ArrayBuilder::new(DataType::Int4).build(), ArrDesc::I4(vec![])),
            "aint4x3" => {
                let mut b = ArrayBuilder::new(DataType::Int4);
                b.push_int4(10 + idx as i32);
                b.push_null();
                b.push_int4(-30);
                CV::Array(b.build(), ArrDesc::I4(vec![Some(10 + idx as i32), None, Some(-30)]))
            }
            "atextx3" => {
                let mut b = ArrayBuilder::new(DataType::Text);
                b.push_text("a");
                b.push_null();
                b.push_text("ccc");
                CV::Array(b.build(), ArrDesc::Tx(vec![Some("a".into()), None, Some("ccc".into())]))
            }
            "aint8x100" => {
                let mut b = ArrayBuilder::new(DataType::Int8);
                let v: Vec<Option<i64>> = (0..100).map(|j| Some(j as i64 * 1_000_000_007 - idx as i64)).collect();
                for x in &v { b.push_int8(x.unwrap()); }
                CV::Array(b.build(), ArrDesc::I8(v))
            }
            o => panic!("harness: unknown array class {o}"),
        },
        other => panic!("harness: no concrete values for type {other}"),
    }
}

fn var_len(v: &CV) -> Option<usize> {
    Some(match v {
        CV::Text(s) => s.len(),
        CV::Char(s) => {
            let n = s.chars().count();
            s.len() + (CHAR_N as usize).saturating_sub(n)
        }
        CV::Blob(b) | CV::Jsonb(b) | CV::Composite(b, _, _) | CV::Array(b, _) => b.len(),
        CV::Vector(v) => 4 + 4 * v.len(),
        CV::Decimal(_, _) => 19,
        _ => return None,
    })
}

fn set_cv(b: &mut RecordBuilder<'_>, i: usize, v: &CV, explicit_null: bool) -> eyre::Result<()> {
    match v {
        CV::Null => {
            if explicit_null {
                b.set_null(i);
            }
            Ok(())
        }
        CV::Bool(x) => b.set_bool(i, *x),
        CV::I2(x) => b.set_int2(i, *x),
        CV::I4(x) => b.set_int4(i, *x),
        CV::I8(x) => b.set_int8(i, *x),
        CV::F4(x) => b.set_float4(i, *x),
        CV::F8(x) => b.set_float8(i, *x),
        CV::Date(x) => b.set_date(i, *x),
        CV::Time(x) => b.set_time(i, *x),
        CV::Ts(x) => b.set_timestamp(i, *x),
        CV::TsTz(m, o) => b.set_timestamptz(i, *m, *o),
        CV::Uuid(x) => b.set_uuid(i, x),
        CV::Mac(x) => b.set_macaddr(i, x),
        CV::Inet4(x) => b.set_inet4(i, x),
        CV::Inet6(x) => b.set_inet6(i, x),
        CV::Interval(m, d, mo) => b.set_interval(i, *m, *d, *mo),
        CV::Enum(t, o) => b.set_enum(i, *t, *o),
        CV::Point(x, y) => b.set_point(i, *x, *y),
        CV::Box(l, h) => b.set_box(i, *l, *h),
        CV::Circle(c, r) => b.set_circle(i, *c, *r),
        CV::R4(r) => {
            if r.is_empty { b.set_int4_range_empty(i) } else { b.set_int4_range(i, r.lower, r.upper, r.lower_inclusive, r.upper_inclusive) }
        }
        CV::R8(r) => {
            if r.is_empty { b.set_int8_range_empty(i) } else { b.set_int8_range(i, r.lower, r.upper, r.lower_inclusive, r.upper_inclusive) }
        }
        CV::Text(s) => b.set_text(i, s),
        CV::Char(s) => b.set_char(i, s),
        CV::Blob(x) => b.set_blob(i, x),
        CV::Vector(x) => b.set_vector(i, x),
        CV::Jsonb(x) => b.set_jsonb_bytes(i, x),
        CV::Decimal(d, s) => b.set_decimal(i, *d, *s, *d < 0),
        CV::Composite(x, _, _) => b.set_composite(i, x),
        CV::Array(x, _) => b.set_array(i, x),
    }
}

fn pad_char(s: &str) -> String {
    let n = s.chars().count();
    let mut t = s.to_string();
    for _ in n..CHAR_N as usize {
        t.push(' ');
    }
    t
}
fn range_eq<T: PartialEq + Copy>(a: &Range<T>, b: &Range<T>) -> bool {
    a.is_empty == b.is_empty && a.lower == b.lower && a.upper == b.upper && a.lower_inclusive == b.lower_inclusive && a.upper_inclusive == b.upper_inclusive
}
fn f_eq(a: f64, b: f64) -> bool {
    (a.is_nan() && b.is_nan()) || a.to_bits() == b.to_bits()
}
fn f32_eq(a: f32, b: f32) -> bool {
    (a.is_nan() && b.is_nan()) || a.to_bits() == b.to_bits()
}

/// Reads column i with the plain getter of its type and compares with the expected value.  Ok(None) = equal.
fn read_direct(view: &RecordView<'_>, ty: &str, i: usize, exp: &CV, opt: bool) -> Result<Option<String>, String> {
    // `opt` selects the *_opt getters (NULL-or-missing aware); otherwise is_null() + plain getter.
    macro_rules! rd {
        ($plain:ident, $optg:ident) => {{
            if opt {
                view.$optg(i).map_err(|e| format!("{:#}", e))?
            } else if view.is_null(i) {
                None
            } else {
                Some(view.$plain(i).map_err(|e| format!("{:#}", e))?)
            }
        }};
    }
    macro_rules! cmp {
        ($got:expr, $want:expr, $eq:expr) => {{
            match ($got, $want) {
                (None, None) => Ok(None),
                (None, Some(_)) => Ok(Some("reads_null".to_string())),
                (Some(_), None) => Ok(Some("reads_value".to_string())),
                (Some(g), Some(w)) => Ok(if $eq(&g, &w) { None } else { Some("wrong_value".to_string()) }),
            }
        }};
    }
    fn w<T: Clone>(c: bool, v: &T) -> Option<T> {
        if c { Some(v.clone()) } else { None }
    }
    let isn = matches!(exp, CV::Null);
    match ty {
        "Bool" => cmp!(rd!(get_bool, get_bool_opt), if let CV::Bool(x) = exp { Some(*x) } else { None }, |a: &bool, b: &bool| a == b),
        "Int2" => cmp!(rd!(get_int2, get_int2_opt), if let CV::I2(x) = exp { Some(*x) } else { None }, |a: &i16, b: &i16| a == b),
        "Int4" => cmp!(rd!(get_int4, get_int4_opt), if let CV::I4(x) = exp { Some(*x) } else { None }, |a: &i32, b: &i32| a == b),
        "Int8" => cmp!(rd!(get_int8, get_int8_opt), if let CV::I8(x) = exp { Some(*x) } else { None }, |a: &i64, b: &i64| a == b),
        "Float4" => cmp!(rd!(get_float4, get_float4_opt), if let CV::F4(x) = exp { Some(*x) } else { None }, |a: &f32, b: &f32| f32_eq(*a, *b)),
        "Float8" => cmp!(rd!(get_float8, get_float8_opt), if let CV::F8(x) = exp { Some(*x) } else { None }, |a: &f64, b: &f64| f_eq(*a, *b)),
        "Date" => cmp!(rd!(get_date, get_date_opt), if let CV::Date(x) = exp { Some(*x) } else { None }, |a: &i32, b: &i32| a == b),
        "Time" => cmp!(rd!(get_time, get_time_opt), if let CV::Time(x) = exp { Some(*x) } else { None }, |a: &i64, b: &i64| a == b),
        "Timestamp" => cmp!(rd!(get_timestamp, get_timestamp_opt), if let CV::Ts(x) = exp { Some(*x) } else { None }, |a: &i64, b: &i64| a == b),
        "TimestampTz" => cmp!(rd!(get_timestamptz, get_timestamptz_opt), if let CV::TsTz(m, o) = exp { Some((*m, *o)) } else { None }, |a: &(i64, i32), b: &(i64, i32)| a == b),
        "Uuid" => cmp!(rd!(get_uuid, get_uuid_opt).copied(), if let CV::Uuid(x) = exp { Some(*x) } else { None }, |a: &[u8; 16], b: &[u8; 16]| a == b),
        "MacAddr" => cmp!(rd!(get_macaddr, get_macaddr_opt).copied(), if let CV::Mac(x) = exp { Some(*x) } else { None }, |a: &[u8; 6], b: &[u8; 6]| a == b),
        "Inet4" => cmp!(rd!(get_inet4, get_inet4_opt).copied(), if let CV::Inet4(x) = exp { Some(*x) } else { None }, |a: &[u8; 4], b: &[u8; 4]| a == b),
        "Inet6" => cmp!(rd!(get_inet6, get_inet6_opt).copied(), if let CV::Inet6(x) = exp { Some(*x) } else { None }, |a: &[u8; 16], b: &[u8; 16]| a == b),
        "Interval" => cmp!(rd!(get_interval, get_interval_opt), if let CV::Interval(a, b, c) = exp { Some((*a, *b, *c)) } else { None }, |a: &(i64, i32, i32), b: &(i64, i32, i32)| a == b),
        "Enum" => cmp!(rd!(get_enum, get_enum_opt), if let CV::Enum(a, b) = exp { Some((*a, *b)) } else { None }, |a: &(u16, u16), b: &(u16, u16)| a == b),
        "Point" => cmp!(rd!(get_point, get_point_opt), if let CV::Point(a, b) = exp { Some((*a, *b)) } else { None }, |a: &(f64, f64), b: &(f64, f64)| f_eq(a.0, b.0) && f_eq(a.1, b.1)),
        "Box" => cmp!(rd!(get_box, get_box_opt), if let CV::Box(a, b) = exp { Some((*a, *b)) } else { None },
                      |a: &((f64, f64), (f64, f64)), b: &((f64, f64), (f64, f64))| f_eq(a.0 .0, b.0 .0) && f_eq(a.0 .1, b.0 .1) && f_eq(a.1 .0, b.1 .0) && f_eq(a.1 .1, b.1 .1)),
        "Circle" => cmp!(rd!(get_circle, get_circle_opt), if let CV::Circle(a, b) = exp { Some((*a, *b)) } else { None },
                         |a: &((f64, f64), f64), b: &((f64, f64), f64)| f_eq(a.0 .0, b.0 .0) && f_eq(a.0 .1, b.0 .1) && f_eq(a.1, b.1)),
        "Int4Range" => cmp!(rd!(get_int4_range, get_int4_range_opt), if let CV::R4(r) = exp { Some(*r) } else { None }, |a: &Range<i32>, b: &Range<i32>| range_eq(a, b)),
        "DateRange" => cmp!(rd!(get_date_range, get_date_range_opt), if let CV::R4(r) = exp { Some(*r) } else { None }, |a: &Range<i32>, b: &Range<i32>| range_eq(a, b)),
        "Int8Range" => cmp!(rd!(get_int8_range, get_int8_range_opt), if let CV::R8(r) = exp { Some(*r) } else { None }, |a: &Range<i64>, b: &Range<i64>| range_eq(a, b)),
        "TimestampRange" => cmp!(rd!(get_timestamp_range, get_timestamp_range_opt), if let CV::R8(r) = exp { Some(*r) } else { None }, |a: &Range<i64>, b: &Range<i64>| range_eq(a, b)),
        "Text" | "Varchar" => {
            let got = if ty == "Varchar" && !opt { if view.is_null(i) { None } else { Some(view.get_varchar(i).map_err(|e| format!("{:#}", e))?) } } else { rd!(get_text, get_text_opt) };
            cmp!(got.map(|s| s.to_string()), if let CV::Text(s) = exp { Some(s.clone()) } else { None }, |a: &String, b: &String| a == b)
        }
        "Char" => {
            let got = if !opt { if view.is_null(i) { None } else { Some(view.get_char(i).map_err(|e| format!("{:#}", e))?) } } else { rd!(get_text, get_text_opt) };
            cmp!(got.map(|s| s.to_string()), if let CV::Char(s) = exp { Some(s.clone()) } else { None }, |a: &String, b: &String| pad_char(a) == pad_char(b))
        }
        "Blob" => cmp!(rd!(get_blob, get_blob_opt).map(|b| b.to_vec()), if let CV::Blob(b) = exp { Some(b.clone()) } else { None }, |a: &Vec<u8>, b: &Vec<u8>| a == b),
        "Vector" => {
            let got = rd!(get_vector_copy, get_vector_opt);
            let r: Result<Option<String>, String> = cmp!(got, if let CV::Vector(v) = exp { Some(v.clone()) } else { None },
                          |a: &Vec<f32>, b: &Vec<f32>| a.len() == b.len() && a.iter().zip(b.iter()).all(|(x, y)| f32_eq(*x, *y)));
            // the zero-copy getter may refuse an unaligned payload (explicit error in the source) but must never lie
            if let (Ok(None), CV::Vector(v)) = (&r, exp) {
                if !opt && !view.is_null(i) {
                    if let Ok(z) = view.get_vector(i) {
                        if !(z.len() == v.len() && z.iter().zip(v.iter()).all(|(x, y)| f32_eq(*x, *y))) {
                            return Ok(Some("wrong_value(zero_copy)".into()));
                        }
                    }
                }
            }
            r
        }
        "Jsonb" => {
            let got = rd!(get_jsonb, get_jsonb_opt).map(|v| v.data().to_vec());
            cmp!(got, if let CV::Jsonb(b) = exp { Some(b.clone()) } else { None }, |a: &Vec<u8>, b: &Vec<u8>| a == b)
        }
        "Decimal" => {
            let got = rd!(get_decimal, get_decimal_opt).map(|d| (d.digits(), d.scale(), d.is_negative()));
            cmp!(got, if let CV::Decimal(d, s) = exp { Some((*d, *s, *d < 0)) } else { None }, |a: &(i128, i16, bool), b: &(i128, i16, bool)| a == b)
        }
        "Composite" => {
            let null = if opt { view.is_null_or_missing(i) } else { view.is_null(i) };
            match (null, exp) {
                (true, CV::Null) => Ok(None),
                (true, _) => Ok(Some("reads_null".into())),
                (false, CV::Null) => Ok(Some("reads_value".into())),
                (false, CV::Composite(bytes, x, s)) => {
                    let raw = view.get_var_raw(i).map_err(|e| format!("{:#}", e))?;
                    if raw != &bytes[..] {
                        return Ok(Some("wrong_value".into()));
                    }
                    let cvw = if opt { view.get_composite_opt(i, 2).map_err(|e| format!("{:#}", e))?.unwrap() } else { view.get_composite(i, 2).map_err(|e| format!("{:#}", e))? };
                    if cvw.is_null(0) != x.is_none() || cvw.is_null(1) != s.is_none() || cvw.field_count() != 2 {
                        return Ok(Some("wrong_value(nested_nulls)".into()));
                    }
                    let sch = inner_schema();
                    let iv = RecordView::new(raw, &sch).map_err(|e| format!("{:#}", e))?;
                    let gx = iv.get_int4_opt(0).map_err(|e| format!("{:#}", e))?;
                    let gs = iv.get_text_opt(1).map_err(|e| format!("{:#}", e))?.map(|t| t.to_string());
                    Ok(if gx == *x && gs == *s { None } else { Some("wrong_value(nested)".into()) })
                }
                _ => Err("harness: composite expectation mismatch".into()),
            }
        }
        "Array" => {
            let got = rd!(get_array, get_array_opt);
            match (got, exp) {
                (None, CV::Null) => Ok(None),
                (None, _) => Ok(Some("reads_null".into())),
                (Some(_), CV::Null) => Ok(Some("reads_value".into())),
                (Some(a), CV::Array(_, d)) => {
                    let ok = match d {
                        ArrDesc::I4(v) => a.len() == v.len() && a.elem_type() == DataType::Int4 && v.iter().enumerate().all(|(j, e)| match e {
                            None => a.is_null(j),
                            Some(x) => !a.is_null(j) && a.get_int4(j).ok() == Some(*x),
                        }),
                        ArrDesc::I8(v) => a.len() == v.len() && a.elem_type() == DataType::Int8 && v.iter().enumerate().all(|(j, e)| match e {
                            None => a.is_null(j),
                            Some(x) => !a.is_null(j) && a.get_int8(j).ok() == Some(*x),
                        }),
                        ArrDesc::Tx(v) => a.len() == v.len() && a.elem_type() == DataType::Text && v.iter().enumerate().all(|(j, e)| match e {
                            None => a.is_null(j),
                            Some(x) => !a.is_null(j) && a.get_text(j).ok() == Some(x.as_str()),
                        }),
                    };
                    Ok(if ok { None } else { Some("wrong_value".into()) })
                }
                _ => Err("harness: array expectation mismatch".into()),
            }
        }
        other => {
            let _ = (isn, w(true, &0));
            Err(format!("harness: no reader for {other}"))
        }
    }
}

/// The OwnedValue the glue is expected to produce / accept for a column value (None: no OwnedValue can express it).
fn owned_of(v: &CV) -> Option<OwnedValue> {
    Some(match v {
        CV::Null => OwnedValue::Null,
        CV::Bool(b) => OwnedValue::Bool(*b),
        CV::I2(x) => OwnedValue::Int(*x as i64),
        CV::I4(x) => OwnedValue::Int(*x as i64),
        CV::I8(x) => OwnedValue::Int(*x),
        CV::F4(x) => OwnedValue::Float(*x as f64),
        CV::F8(x) => OwnedValue::Float(*x),
        CV::Date(x) => OwnedValue::Date(*x),
        CV::Time(x) => OwnedValue::Time(*x),
        CV::Ts(x) => OwnedValue::Timestamp(*x),
        CV::TsTz(m, o) => OwnedValue::TimestampTz(*m, *o),
        CV::Uuid(x) => OwnedValue::Uuid(*x),
        CV::Mac(x) => OwnedValue::MacAddr(*x),
        CV::Inet4(x) => OwnedValue::Inet4(*x),
        CV::Inet6(x) => OwnedValue::Inet6(*x),
        CV::Interval(a, b, c) => OwnedValue::Interval(*a, *b, *c),
        CV::Enum(a, b) => OwnedValue::Enum(*a, *b),
        CV::Point(a, b) => OwnedValue::Point(*a, *b),
        CV::Box(a, b) => OwnedValue::Box(*a, *b),
        CV::Circle(a, b) => OwnedValue::Circle(*a, *b),
        CV::R4(_) | CV::R8(_) => return None,
        CV::Text(s) | CV::Char(s) => OwnedValue::Text(s.clone()),
        CV::Blob(b) => OwnedValue::Blob(b.clone()),
        CV::Vector(v) => OwnedValue::Vector(v.clone()),
        CV::Jsonb(b) => OwnedValue::Jsonb(b.clone()),
        CV::Decimal(d, s) => OwnedValue::Decimal(*d, *s),
        CV::Composite(b, _, _) | CV::Array(b, _) => OwnedValue::Blob(b.clone()),
    })
}

fn owned_variant(v: &OwnedValue) -> &'static str {
    match v {
        OwnedValue::Null => "Null", OwnedValue::Bool(_) => "Bool", OwnedValue::Int(_) => "Int", OwnedValue::Float(_) => "Float",
        OwnedValue::Text(_) => "Text", OwnedValue::Blob(_) => "Blob", OwnedValue::Vector(_) => "Vector", OwnedValue::Date(_) => "Date",
        OwnedValue::Time(_) => "Time", OwnedValue::Timestamp(_) => "Timestamp", OwnedValue::TimestampTz(_, _) => "TimestampTz",
        OwnedValue::Uuid(_) => "Uuid", OwnedValue::MacAddr(_) => "MacAddr", OwnedValue::Inet4(_) => "Inet4", OwnedValue::Inet6(_) => "Inet6",
        OwnedValue::Interval(_, _, _) => "Interval", OwnedValue::Point(_, _) => "Point", OwnedValue::Box(_, _) => "GeoBox",
        OwnedValue::Circle(_, _) => "Circle", OwnedValue::Jsonb(_) => "Jsonb", OwnedValue::Decimal(_, _) => "Decimal",
        OwnedValue::Enum(_, _) => "Enum", OwnedValue::ToastPointer(_) => "ToastPointer",
    }
}
/// canonical payload text of an OwnedValue: floats by bits, every NaN the same
fn owned_payload(v: &OwnedValue) -> String {
    match v {
        OwnedValue::Null => String::new(),
        OwnedValue::Bool(b) => b.to_string(),
        OwnedValue::Int(i) => i.to_string(),
        OwnedValue::Float(f) => fbits(*f),
        OwnedValue::Text(s) => hex(s.as_bytes()),
        OwnedValue::Blob(b) | OwnedValue::Jsonb(b) | OwnedValue::ToastPointer(b) => hex(b),
        OwnedValue::Vector(v) => v.iter().map(|x| fbits32(*x)).collect::<Vec<_>>().join(","),
        OwnedValue::Date(d) => d.to_string(),
        OwnedValue::Time(t) | OwnedValue::Timestamp(t) => t.to_string(),
        OwnedValue::TimestampTz(a, b) => format!("{a},{b}"),
        OwnedValue::Uuid(u) => hex(u),
        OwnedValue::MacAddr(u) => hex(u),
        OwnedValue::Inet4(u) => hex(u),
        OwnedValue::Inet6(u) => hex(u),
        OwnedValue::Interval(a, b, c) => format!("{a},{b},{c}"),
        OwnedValue::Point(a, b) => format!("{},{}", fbits(*a), fbits(*b)),
        OwnedValue::Box(a, b) => format!("{},{},{},{}", fbits(a.0), fbits(a.1), fbits(b.0), fbits(b.1)),
        OwnedValue::Circle(a, b) => format!("{},{},{}", fbits(a.0), fbits(a.1), fbits(*b)),
        OwnedValue::Decimal(a, b) => format!("{a},{b}"),
        OwnedValue::Enum(a, b) => format!("{a},{b}"),
    }
}
/// what differs between an expected and an observed OwnedValue (None = equal)
fn owned_diff(exp: &OwnedValue, got: &OwnedValue, is_char: bool) -> Option<String> {
    if owned_variant(exp) != owned_variant(got) {
        return Some(match (exp, got) {
            (OwnedValue::Null, _) => "reads_value".to_string(),
            (_, OwnedValue::Null) => "reads_null".to_string(),
            _ => format!("type_changed:{}", owned_variant(got)),
        });
    }
    if is_char {
        if let (OwnedValue::Text(a), OwnedValue::Text(b)) = (exp, got) {
            return if pad_char(a) == pad_char(b) { None } else { Some("wrong_value".into()) };
        }
    }
    if owned_payload(exp) == owned_payload(got) { None } else { Some("wrong_value".into()) }
}

fn step<T>(name: &str, f: impl FnOnce() -> eyre::Result<T>) -> Result<T, J> {
    match guarded(f) {
        Ok(Ok(v)) => Ok(v),
        Ok(Err(e)) => Err(json!({"step": name, "err": format!("{:#}", e)})),
        Err(p) => Err(json!({"step": name, "panic": p})),
    }
}

pub fn record_run(args: &Args) {
    let cases = read_cases(&args.get("in", ""));
    let out = args.get("out", "/dev/stdout");
    par_run(cases, args.num("jobs", 8), &out, move |_i, case| {
        let cols = case["cols"].as_array().unwrap();
        let n = cols.len();
        let tys: Vec<&str> = cols.iter().map(|c| c["ty"].as_str().unwrap()).collect();
        let mut table_mismatch = vec![];
        let defs: Vec<ColumnDef> = cols.iter().enumerate().map(|(i, c)| {
            let dt = dt_of(tys[i]);
            let (k, w) = (c["k"].as_str().unwrap(), c["w"].as_u64().unwrap() as usize);
            match dt.fixed_size() {
                Some(sz) if k == "F" && sz == w => {}
                None if k == "V" => {}
                other => table_mismatch.push(json!({"col": i, "ty": tys[i], "spec": [k, w], "code": format!("{:?}", other)})),
            }
            match tys[i] {
                "Char" => ColumnDef::new_char(format!("c{i}"), CHAR_N),
                "Varchar" => ColumnDef::new_varchar(format!("c{i}"), None),
                _ => ColumnDef::new(format!("c{i}"), dt),
            }
        }).collect();
        let schema = Schema::new(defs);
        let row: Vec<CV> = cols.iter().enumerate().map(|(i, c)| concrete(tys[i], c["cls"].as_str().unwrap(), i)).collect();
        let prev: Vec<CV> = cols.iter().enumerate().map(|(i, c)| concrete(tys[i], c["pcls"].as_str().unwrap(), i + 1)).collect();
        // VERIF_SELFTEST: a deliberately wrong expectation (Int4 class "one" is expected one higher than what is stored)
        let selftest = std::env::var("VERIF_SELFTEST").map(|v| v == "1").unwrap_or(false);
        let exp_row: Vec<CV> = row.iter().enumerate().map(|(i, v)| match v {
            CV::I4(x) if selftest && cols[i]["cls"] == "one" => CV::I4(*x + 1),
            other => other.clone(),
        }).collect();
        let lens: Vec<J> = row.iter().map(|v| json!(var_len(v))).collect();
        let mut builds = serde_json::Map::new();
        let mut diffs: Vec<J> = vec![];

        // ---- fresh build with the typed setters
        let fresh = step("fresh", || {
            let mut b = RecordBuilder::new(&schema);
            for (i, v) in row.iter().enumerate() {
                set_cv(&mut b, i, v, i % 2 == 0)?;
            }
            let bytes = b.build()?;
            let mut buf = vec![0xAAu8; 7];
            b.build_into(&mut buf)?;
            Ok((bytes, buf))
        });
        let bytes0 = match fresh {
            Ok((bytes, buf)) => {
                builds.insert("fresh".into(), json!("ok"));
                builds.insert("into".into(), json!(if buf == bytes { "same" } else { "differs" }));
                Some(bytes)
            }
            Err(e) => {
                builds.insert("fresh".into(), e);
                None
            }
        };
        if let Some(bytes0) = &bytes0 {
            // ---- the same row after the builder held another row and was reset
            let variants: Vec<(&str, Box<dyn Fn() -> eyre::Result<Vec<u8>> + '_>)> = vec![
                ("reset", Box::new(|| {
                    let mut b = RecordBuilder::new(&schema);
                    for (i, v) in prev.iter().enumerate() { set_cv(&mut b, i, v, true)?; }
                    let _ = b.build()?;
                    b.reset();
                    for (i, v) in row.iter().enumerate() { set_cv(&mut b, i, v, i % 2 == 1)?; }
                    b.build()
                })),
                ("state_reset", Box::new(|| {
                    let mut b = RecordBuilderState::new(&schema).into_builder(&schema);
                    for (i, v) in prev.iter().enumerate() { set_cv(&mut b, i, v, true)?; }
                    let mut st = b.into_state();
                    st.reset(&schema);
                    let mut b = st.into_builder(&schema);
                    for (i, v) in row.iter().enumerate() { set_cv(&mut b, i, v, false)?; }
                    let mut buf = Vec::new();
                    b.build_into(&mut buf)?;
                    Ok(buf)
                })),
                ("desc_order", Box::new(|| {
                    let mut b = RecordBuilder::new(&schema);
                    for (i, v) in row.iter().enumerate().rev() { set_cv(&mut b, i, v, true)?; }
                    b.build()
                })),
            ];
            for (name, f) in variants {
                match step(name, f) {
                    Ok(b) => { builds.insert(name.into(), json!(if &b == bytes0 { "same" } else { "differs" })); }
                    Err(e) => { builds.insert(name.into(), e); }
                }
            }
            // ---- read back: plain getters, *_opt getters
            for (path, opt) in [("get", false), ("opt", true)] {
                let r = guarded(|| -> Result<Vec<J>, String> {
                    let view = RecordView::new(bytes0, &schema).map_err(|e| format!("{:#}", e))?;
                    let mut d = vec![];
                    for i in 0..n {
                        match guarded(|| read_direct(&view, tys[i], i, &exp_row[i], opt)) {
                            Ok(Ok(None)) => {}
                            Ok(Ok(Some(what))) => d.push(json!({"col": i, "path": path, "what": what})),
                            Ok(Err(e)) => d.push(json!({"col": i, "path": path, "what": "read_error", "detail": e})),
                            Err(p) => d.push(json!({"col": i, "path": path, "what": "read_panic", "detail": p})),
                        }
                    }
                    Ok(d)
                });
                match r {
                    Ok(Ok(mut d)) => diffs.append(&mut d),
                    Ok(Err(e)) => diffs.push(json!({"col": -1, "path": path, "what": "view_error", "detail": e})),
                    Err(p) => diffs.push(json!({"col": -1, "path": path, "what": "view_panic", "detail": p})),
                }
            }
        }
        // ---- the OwnedValue glue: build_record_* and extract_row_from_record
        let owned: Option<Vec<OwnedValue>> = row.iter().map(owned_of).collect();
        let owned_prev: Vec<OwnedValue> = prev.iter().map(|v| owned_of(v).unwrap_or(OwnedValue::Null)).collect();
        let tcols: Vec<turdb::schema::ColumnDef> = tys.iter().enumerate().map(|(i, t)| turdb::schema::ColumnDef::new(format!("c{i}"), dt_of(t))).collect();
        let mut glue_read = |bytes: &[u8], path: &str, diffs: &mut Vec<J>, exp: &[OwnedValue]| {
            let r = guarded(|| -> Result<Vec<J>, String> {
                let view = RecordView::new(bytes, &schema).map_err(|e| format!("{:#}", e))?;
                let mut d = vec![];
                match guarded(|| OwnedValue::extract_row_from_record(&view, &tcols)) {
                    Ok(Ok(vals)) => {
                        for i in 0..n {
                            if let Some(what) = owned_diff(&exp[i], &vals[i], tys[i] == "Char") {
                                d.push(json!({"col": i, "path": path, "what": what}));
                            }
                        }
                    }
                    _ => {
                        // localise: column by column
                        for i in 0..n {
                            match guarded(|| OwnedValue::from_record_column(&view, i, dt_of(tys[i]))) {
                                Ok(Ok(v)) => {
                                    if let Some(what) = owned_diff(&exp[i], &v, tys[i] == "Char") {
                                        d.push(json!({"col": i, "path": path, "what": what}));
                                    }
                                }
                                Ok(Err(e)) => d.push(json!({"col": i, "path": path, "what": "read_error", "detail": format!("{:#}", e)})),
                                Err(p) => d.push(json!({"col": i, "path": path, "what": "read_panic", "detail": p})),
                            }
                        }
                    }
                }
                Ok(d)
            });
            match r {
                Ok(Ok(mut d)) => diffs.append(&mut d),
                Ok(Err(e)) => diffs.push(json!({"col": -1, "path": path, "what": "view_error", "detail": e})),
                Err(p) => diffs.push(json!({"col": -1, "path": path, "what": "view_panic", "detail": p})),
            }
        };
        // expected OwnedValues when reading a record built with the typed setters (ranges have no OwnedValue: skipped)
        let glue_exp: Vec<Option<OwnedValue>> = exp_row.iter().map(owned_of).collect();
        if let (Some(bytes0), true) = (&bytes0, glue_exp.iter().all(|x| x.is_some())) {
            let exp: Vec<OwnedValue> = glue_exp.iter().map(|x| x.clone().unwrap()).collect();
            glue_read(bytes0, "glue_read", &mut diffs, &exp);
            builds.insert("glue_read".into(), json!("done"));
        } else {
            builds.insert("glue_read".into(), json!("skipped"));
        }
        if let Some(owned) = &owned {
            let g_fresh = step("glue_fresh", || OwnedValue::build_record_from_values(owned, &schema));
            match g_fresh {
                Ok(gb) => {
                    builds.insert("glue_fresh".into(), json!("ok"));
                    builds.insert("glue_len".into(), json!([gb.len(), u16::from_le_bytes([gb[0], gb[1]])]));
                    let owned_exp: Vec<OwnedValue> = exp_row.iter().map(|v| owned_of(v).unwrap()).collect();
                    glue_read(&gb, "glue_build_read", &mut diffs, &owned_exp);
                    let g_reset = step("glue_reset", || {
                        let mut b = RecordBuilder::new(&schema);
                        // the previous occupant may itself fail or panic half-way: the reset must still give a fresh builder
                        let _ = guarded(|| OwnedValue::build_record_with_builder(&owned_prev, &mut b));
                        OwnedValue::build_record_with_builder(owned, &mut b)
                    });
                    match g_reset {
                        Ok(b) => { builds.insert("glue_reset".into(), json!(if b == gb { "same" } else { "differs" })); }
                        Err(e) => { builds.insert("glue_reset".into(), e); }
                    }
                    let g_into = step("glue_into", || {
                        let mut b = RecordBuilder::new(&schema);
                        let mut buf = vec![1u8, 2, 3];
                        let _ = guarded(|| OwnedValue::build_record_into_buffer(&owned_prev, &mut b, &mut buf));
                        OwnedValue::build_record_into_buffer(owned, &mut b, &mut buf)?;
                        Ok(buf)
                    });
                    match g_into {
                        Ok(b) => { builds.insert("glue_into".into(), json!(if b == gb { "same" } else { "differs" })); }
                        Err(e) => { builds.insert("glue_into".into(), e); }
                    }
                }
                Err(e) => { builds.insert("glue_fresh".into(), e); }
            }
        } else {
            builds.insert("glue_fresh".into(), json!("skipped"));
        }
        vec![json!({"id": case["id"], "len": bytes0.as_ref().map(|b| b.len()), "hdr": bytes0.as_ref().map(|b| u16::from_le_bytes([b[0], b[1]])),
                    "lens": lens, "table_mismatch": table_mismatch, "builds": J::Object(builds), "diffs": diffs})]
    });
}

// ============================================================================================ C32: JSONB

fn tree_of_builder(t: &J) -> JsonbBuilderValue {
    match t["t"].as_str().unwrap() {
        "null" => JsonbBuilderValue::Null,
        "bool" => JsonbBuilderValue::Bool(t["b"].as_bool().unwrap()),
        "num" => JsonbBuilderValue::Number(t["v"].as_str().unwrap().parse::<f64>().unwrap()),
        "str" => JsonbBuilderValue::String(t["s"].as_str().unwrap().to_string()),
        "arr" => JsonbBuilderValue::Array(t["e"].as_array().unwrap().iter().map(tree_of_builder).collect()),
        "obj" => JsonbBuilderValue::Object(t["p"].as_array().unwrap().iter().map(|kv| (kv[0].as_str().unwrap().to_string(), tree_of_builder(&kv[1]))).collect()),
        o => panic!("harness: unknown tree tag {o}"),
    }
}
fn build_direct(t: &J) -> Vec<u8> {
    match tree_of_builder(t) {
        JsonbBuilderValue::Null => JsonbBuilder::new_null().build(),
        JsonbBuilderValue::Bool(b) => JsonbBuilder::new_bool(b).build(),
        JsonbBuilderValue::Number(n) => JsonbBuilder::new_number(n).build(),
        JsonbBuilderValue::String(s) => JsonbBuilder::new_string(s).build(),
        JsonbBuilderValue::Array(es) => {
            let mut b = JsonbBuilder::new_array();
            for e in es { b.push(e); }
            b.build()
        }
        JsonbBuilderValue::Object(ps) => {
            let mut b = JsonbBuilder::new_object();
            for (k, v) in ps { b.set(k, v); }
            b.build()
        }
    }
}
fn tree_of_parsed(v: &turdb::parsing::JsonValue) -> J {
    use turdb::parsing::JsonValue as P;
    match v {
        P::Null => json!({"t": "null"}),
        P::Bool(b) => json!({"t": "bool", "b": b}),
        P::Number(n) => json!({"t": "num", "v": format!("{:?}", n)}),
        P::String(s) => json!({"t": "str", "s": s}),
        P::Array(es) => json!({"t": "arr", "e": es.iter().map(tree_of_parsed).collect::<Vec<_>>()}),
        P::Object(ps) => json!({"t": "obj", "p": ps.iter().map(|(k, v)| json!([k, tree_of_parsed(v)])).collect::<Vec<_>>()}),
    }
}
fn tree_of_jsonb(v: &JsonbValue<'_>) -> Result<J, String> {
    Ok(match v {
        JsonbValue::Null => json!({"t": "null"}),
        JsonbValue::Bool(b) => json!({"t": "bool", "b": b}),
        JsonbValue::Number(n) => json!({"t": "num", "v": format!("{:?}", n)}),
        JsonbValue::String(s) => json!({"t": "str", "s": s}),
        JsonbValue::Array(view) => {
            let mut es = vec![];
            for it in view.iter_array().map_err(|e| format!("{:#}", e))? {
                es.push(tree_of_jsonb(&it.map_err(|e| format!("{:#}", e))?)?);
            }
            // the indexed accessor must agree with the iterator
            let n = view.array_len().map_err(|e| format!("{:#}", e))?;
            if n != es.len() {
                return Err(format!("array_len {} != iterated {}", n, es.len()));
            }
            json!({"t": "arr", "e": es})
        }
        JsonbValue::Object(view) => {
            let mut ps = vec![];
            for it in view.iter_object().map_err(|e| format!("{:#}", e))? {
                let (k, v) = it.map_err(|e| format!("{:#}", e))?;
                ps.push(json!([k, tree_of_jsonb(&v)?]));
            }
            let n = view.object_len().map_err(|e| format!("{:#}", e))?;
            if n != ps.len() {
                return Err(format!("object_len {} != iterated {}", n, ps.len()));
            }
            json!({"t": "obj", "p": ps})
        }
    })
}
fn obs<T>(r: Result<eyre::Result<Option<T>>, String>, f: impl Fn(&T) -> Result<J, String>) -> J {
    match r {
        Ok(Ok(Some(v))) => match guarded(|| f(&v)) {
            Ok(Ok(t)) => json!({"v": t}),
            Ok(Err(e)) => json!({"err": e}),
            Err(p) => json!({"panic": p}),
        },
        Ok(Ok(None)) => json!("missing"),
        Ok(Err(e)) => json!({"err": format!("{:#}", e)}),
        Err(p) => json!({"panic": p}),
    }
}
fn tree_of_owned(v: &OwnedValue) -> Result<J, String> {
    Ok(match v {
        OwnedValue::Null => json!({"t": "null"}),
        OwnedValue::Bool(b) => json!({"t": "bool", "b": b}),
        OwnedValue::Float(n) => json!({"t": "num", "v": format!("{:?}", n)}),
        OwnedValue::Text(s) => json!({"t": "str", "s": s}),
        OwnedValue::Jsonb(b) => {
            let view = JsonbView::new(b).map_err(|e| format!("{:#}", e))?;
            tree_of_jsonb(&view.as_value().map_err(|e| format!("{:#}", e))?)?
        }
        other => json!({"t": "other", "v": format!("{:?}", other)}),
    })
}

/// Everything observable about one JSONB image: the tree, the JSON text it renders to, and every probe.
fn observe_jsonb(bytes: &[u8], probes: &[J]) -> J {
    let tree = match guarded(|| -> Result<J, String> {
        let view = JsonbView::new(bytes).map_err(|e| format!("{:#}", e))?;
        tree_of_jsonb(&view.as_value().map_err(|e| format!("{:#}", e))?)
    }) {
        Ok(Ok(t)) => json!({"v": t}),
        Ok(Err(e)) => json!({"err": e}),
        Err(p) => json!({"panic": p}),
    };
    let text_back = match guarded(|| JsonbView::new(bytes).and_then(|v| v.to_json_string())) {
        Ok(Ok(s)) => json!({"v": s}),
        Ok(Err(e)) => json!({"err": format!("{:#}", e)}),
        Err(p) => json!({"panic": p}),
    };
    let mut pr = vec![];
    for p in probes {
        let steps = p.as_array().unwrap();
        // (1) stepwise navigation with get / array_get on nested views
        let nav = guarded(|| -> J {
            let view = match JsonbView::new(bytes) { Ok(v) => v, Err(e) => return json!({"err": format!("{:#}", e)}) };
            let mut cur: JsonbValue<'_> = match view.as_value() { Ok(v) => v, Err(e) => return json!({"err": format!("{:#}", e)}) };
            for (j, st) in steps.iter().enumerate() {
                let next = if let Some(k) = st.get("k") {
                    match &cur {
                        JsonbValue::Object(v) | JsonbValue::Array(v) => v.get(k.as_str().unwrap()),
                        _ => return json!({"notcontainer": j}),
                    }
                } else {
                    let i = st["i"].as_u64().unwrap() as usize;
                    match &cur {
                        JsonbValue::Object(v) | JsonbValue::Array(v) => v.array_get(i),
                        _ => return json!({"notcontainer": j}),
                    }
                };
                match next {
                    Ok(Some(v)) => cur = v,
                    Ok(None) => return json!("missing"),
                    Err(e) => return json!({"err": format!("{:#}", e), "at": j}),
                }
            }
            match tree_of_jsonb(&cur) { Ok(t) => json!({"v": t}), Err(e) => json!({"err": e}) }
        }).unwrap_or_else(|p| json!({"panic": p}));
        let mut o = json!({"nav": nav});
        let all_keys = steps.iter().all(|s| s.get("k").is_some());
        if all_keys {
            let keys: Vec<&str> = steps.iter().map(|s| s["k"].as_str().unwrap()).collect();
            // (2) get_path
            o["path"] = obs(guarded(|| JsonbView::new(bytes).and_then(|v| v.get_path(&keys))), |v| tree_of_jsonb(v));
            // (3) the OwnedValue API
            let ov = OwnedValue::Jsonb(bytes.to_vec());
            o["owned_path"] = obs(guarded(|| ov.jsonb_get_path(&keys)), tree_of_owned);
            if keys.len() == 1 {
                o["owned_get"] = obs(guarded(|| ov.jsonb_get(keys[0])), tree_of_owned);
            }
        } else if steps.len() == 1 {
            let ov = OwnedValue::Jsonb(bytes.to_vec());
            let i = steps[0]["i"].as_u64().unwrap() as usize;
            o["owned_index"] = obs(guarded(|| ov.jsonb_array_get(i)), tree_of_owned);
        }
        pr.push(o);
    }
    json!({"tree": tree, "text_back": text_back, "probes": pr, "nbytes": bytes.len()})
}

pub fn jsonb_run(args: &Args) {
    let cases = read_cases(&args.get("in", ""));
    let out = args.get("out", "/dev/stdout");
    par_run(cases, args.num("jobs", 8), &out, move |_i, case| {
        let probes: Vec<J> = case["probes"].as_array().cloned().unwrap_or_default();
        let mut res = json!({"id": case["id"]});
        if let Some(h) = case.get("hex").and_then(|h| h.as_str()) {
            // an image produced elsewhere (the SQL path): decode and probe only
            res["image"] = observe_jsonb(&unhex(h), &probes);
            return vec![res];
        }
        if let Some(text) = case.get("text").and_then(|t| t.as_str()) {
            match guarded(|| turdb::parsing::parse_json(text)) {
                Ok(Ok(r)) => {
                    res["parse"] = json!({"v": tree_of_parsed(&r.value), "consumed": r.consumed, "len": text.len(),
                                          "rest_is_ws": text[r.consumed.min(text.len())..].trim().is_empty()});
                    match guarded(|| r.value.to_jsonb_bytes()) {
                        Ok(bytes) => res["parsed_image"] = observe_jsonb(&bytes, &probes),
                        Err(p) => res["parsed_image"] = json!({"panic": p}),
                    }
                }
                Ok(Err(e)) => res["parse"] = json!({"err": format!("{:#}", e)}),
                Err(p) => res["parse"] = json!({"panic": p}),
            }
        }
        if let Some(tree) = case.get("tree") {
            match guarded(|| build_direct(tree)) {
                Ok(bytes) => res["direct_image"] = observe_jsonb(&bytes, &probes),
                Err(p) => res["direct_image"] = json!({"panic": p}),
            }
        }
        vec![res]
    });
}

// ============================================================================================ C33: spill rows

fn item_value(v: &str, c: &str, n: usize, idx: usize) -> OwnedValue {
    match v {
        "Null" => OwnedValue::Null,
        "Bool" => OwnedValue::Bool(c == "true"),
        "Int" => OwnedValue::Int(int_class(c, idx, i64::MIN, i64::MAX)),
        "Float" => OwnedValue::Float(f64_class(c, idx)),
        "Text" => OwnedValue::Text(if c == "utf8" { "a\u{e9}\u{4e2d}\u{1F600}".repeat(13) } else { text_of_len(n, idx) }),
        "Blob" => {
            let mut b = blob_of_len(n, idx);
            if c == "toast17" { b[0] = 0xFE; }
            OwnedValue::Blob(b)
        }
        "Vector" => OwnedValue::Vector((0..n).map(|j| if c == "d3nan" && j == 1 { f32::NAN } else if c == "d3nan" && j == 2 { -0.0 } else { idx as f32 * 0.5 - j as f32 * 1.25 }).collect()),
        "Date" => OwnedValue::Date(match c { "zero" => 0, "min" => i32::MIN, _ => i32::MAX }),
        "Time" => OwnedValue::Time(match c { "zero" => 0, "min" => i64::MIN, _ => i64::MAX }),
        "Timestamp" => OwnedValue::Timestamp(match c { "zero" => 0, "min" => i64::MIN, _ => i64::MAX }),
        "TimestampTz" => match c { "zero" => OwnedValue::TimestampTz(0, 0), "maxplus" => OwnedValue::TimestampTz(i64::MAX, 14 * 3600), _ => OwnedValue::TimestampTz(i64::MIN, -12 * 3600 - idx as i32) },
        "Uuid" => OwnedValue::Uuid(bytes_class::<16>(c, idx)),
        "MacAddr" => OwnedValue::MacAddr(bytes_class::<6>(c, idx)),
        "Inet4" => OwnedValue::Inet4(bytes_class::<4>(c, idx)),
        "Inet6" => OwnedValue::Inet6(bytes_class::<16>(c, idx)),
        "Interval" => match c { "zero" => OwnedValue::Interval(0, 0, 0), "mixed" => OwnedValue::Interval(-123_456_789 - idx as i64, 40, -7), _ => OwnedValue::Interval(i64::MIN, i32::MAX, i32::MIN) },
        "Point" => match c { "zero" => OwnedValue::Point(0.0, -0.0), "mixed" => OwnedValue::Point(-1.5 - idx as f64, 2.25), _ => OwnedValue::Point(f64::NAN, f64::NEG_INFINITY) },
        "GeoBox" => match c { "zero" => OwnedValue::Box((0.0, 0.0), (0.0, 0.0)), "mixed" => OwnedValue::Box((-1.0 - idx as f64, -2.0), (3.5, 4.25)), _ => OwnedValue::Box((f64::MIN, -0.0), (f64::INFINITY, f64::from_bits(1))) },
        "Circle" => match c { "zero" => OwnedValue::Circle((0.0, 0.0), 0.0), "mixed" => OwnedValue::Circle((1.0 + idx as f64, -2.5), 7.75), _ => OwnedValue::Circle((f64::MAX, f64::MIN), f64::NAN) },
        "Enum" => match c { "zero" => OwnedValue::Enum(0, 0), "mixed" => OwnedValue::Enum(513 + idx as u16, 7), _ => OwnedValue::Enum(u16::MAX, u16::MAX) },
        "Jsonb" => OwnedValue::Jsonb(match c {
            "e0" => vec![],
            "jnull" => JsonbBuilder::new_null().build(),
            _ => { let mut b = JsonbBuilder::new_object(); b.set("b", "x"); b.set("a", 1.0f64); b.build() }
        }),
        "Decimal" => match c { "dzero" => OwnedValue::Decimal(0, 0), "dpos" => OwnedValue::Decimal(1234567 + idx as i128, 3), "dneg" => OwnedValue::Decimal(-98765, 2), "dmax" => OwnedValue::Decimal(i128::MAX, i16::MAX), _ => OwnedValue::Decimal(i128::MIN, i16::MIN) },
        "ToastPointer" => OwnedValue::ToastPointer(if n == 0 { vec![] } else { let mut b = blob_of_len(n, idx); b[0] = 0xFE; b }),
        other => panic!("harness: unknown item variant {other}"),
    }
}
/// F1: the `Value` of an item (built directly, not through OwnedValue::to_value, which folds Bool/Date/Time/Timestamp)
fn to_value(o: &OwnedValue) -> Value<'static> {
    match o {
        OwnedValue::Null => Value::Null,
        OwnedValue::Int(i) => Value::Int(*i),
        OwnedValue::Float(f) => Value::Float(*f),
        OwnedValue::Text(s) => Value::Text(Cow::Owned(s.clone())),
        OwnedValue::Blob(b) => Value::Blob(Cow::Owned(b.clone())),
        OwnedValue::Vector(v) => Value::Vector(Cow::Owned(v.clone())),
        OwnedValue::Uuid(u) => Value::Uuid(*u),
        OwnedValue::MacAddr(u) => Value::MacAddr(*u),
        OwnedValue::Inet4(u) => Value::Inet4(*u),
        OwnedValue::Inet6(u) => Value::Inet6(*u),
        OwnedValue::Jsonb(b) => Value::Jsonb(Cow::Owned(b.clone())),
        OwnedValue::TimestampTz(a, b) => Value::TimestampTz { micros: *a, offset_secs: *b },
        OwnedValue::Interval(a, b, c) => Value::Interval { micros: *a, days: *b, months: *c },
        OwnedValue::Point(x, y) => Value::Point { x: *x, y: *y },
        OwnedValue::Box(l, h) => Value::GeoBox { low: *l, high: *h },
        OwnedValue::Circle(c, r) => Value::Circle { center: *c, radius: *r },
        OwnedValue::Enum(a, b) => Value::Enum { type_id: *a, ordinal: *b },
        OwnedValue::Decimal(a, b) => Value::Decimal { digits: *a, scale: *b },
        OwnedValue::ToastPointer(b) => Value::ToastPointer(Cow::Owned(b.clone())),
        other => panic!("harness: {:?} is not a Value variant", other),
    }
}
/// (variant, canonical payload) of a Value; reuses the OwnedValue canonical form
fn value_repr(v: &Value<'_>) -> (String, String) {
    let o = OwnedValue::from(v);
    (owned_variant(&o).to_string(), owned_payload(&o))
}
fn owned_repr(o: &OwnedValue) -> (String, String) {
    (owned_variant(o).to_string(), owned_payload(o))
}
fn cmp_rows(exp: &[(String, String)], got: &[(String, String)], row: usize, path: &str, law: &str, diffs: &mut Vec<J>) {
    if exp.len() != got.len() {
        diffs.push(json!({"row": row, "col": -1, "path": path, "law": law, "what": format!("column_count:{}_instead_of_{}", got.len(), exp.len())}));
        return;
    }
    for (j, (e, g)) in exp.iter().zip(got.iter()).enumerate() {
        if e.0 != g.0 {
            diffs.push(json!({"row": row, "col": j, "path": path, "law": law, "what": format!("type_changed:{}", g.0), "got": g.1.chars().take(40).collect::<String>()}));
        } else if e.1 != g.1 {
            diffs.push(json!({"row": row, "col": j, "path": path, "law": law, "what": "wrong_value"}));
        }
    }
}

static SPILL_FILE_LOCK: std::sync::Mutex<()> = std::sync::Mutex::new(());

pub fn spill_run(args: &Args) {
    use smallvec::SmallVec;
    use turdb::sql::partition_spiller::PartitionSpiller;
    use turdb::sql::row_serde::RowSerde;
    use turdb::sql::subquery::{MaterializedRow, SpillableBuffer};
    let cases = read_cases(&args.get("in", ""));
    let out = args.get("out", "/dev/stdout");
    par_run(cases, args.num("jobs", 8), &out, move |ci, case| {
        let u = case["u"].as_str().unwrap();
        let rows: Vec<Vec<OwnedValue>> = case["rows"].as_array().unwrap().iter().map(|r| {
            r.as_array().unwrap().iter().enumerate().map(|(j, it)| item_value(it["v"].as_str().unwrap(), it["c"].as_str().unwrap(), it["n"].as_u64().unwrap() as usize, j)).collect()
        }).collect();
        let selftest = std::env::var("VERIF_SELFTEST").map(|v| v == "1").unwrap_or(false);
        // VERIF_SELFTEST: a deliberately wrong expectation (Int max is expected to come back one lower)
        let exp: Vec<Vec<(String, String)>> = rows.iter().map(|r| r.iter().map(|v| match v {
            OwnedValue::Int(i64::MAX) if selftest => owned_repr(&OwnedValue::Int(i64::MAX - 1)),
            other => owned_repr(other),
        }).collect()).collect();
        let mut diffs: Vec<J> = vec![];
        let mut sizes: Vec<J> = vec![];
        if u == "F1" {
            let vrows: Vec<Vec<Value<'static>>> = rows.iter().map(|r| r.iter().map(to_value).collect()).collect();
            // ---- every row alone: size law and round trip
            for (ri, r) in vrows.iter().enumerate() {
                let res = guarded(|| {
                    let computed = RowSerde::row_size(r);
                    let mut buf = Vec::new();
                    RowSerde::serialize_row_into(r, &mut buf);
                    let mut outv: SmallVec<[Value<'static>; 16]> = SmallVec::new();
                    let mut off = 0usize;
                    let d = RowSerde::deserialize_row_into(&buf, &mut off, &mut outv);
                    (computed, buf.len(), off, d.map(|_| outv.iter().map(value_repr).collect::<Vec<_>>()).map_err(|e| format!("{:#}", e)))
                });
                match res {
                    Ok((computed, written, off, got)) => {
                        sizes.push(json!({"row": ri, "computed": computed, "written": written}));
                        if computed != written {
                            diffs.push(json!({"row": ri, "col": -1, "path": "serde", "law": "size", "what": "size_differs", "computed": computed, "written": written}));
                        }
                        match got {
                            Ok(g) => {
                                cmp_rows(&exp[ri], &g, ri, "serde", "roundtrip", &mut diffs);
                                if off != written {
                                    diffs.push(json!({"row": ri, "col": -1, "path": "serde", "law": "roundtrip", "what": "offset_not_at_end"}));
                                }
                            }
                            Err(e) => diffs.push(json!({"row": ri, "col": -1, "path": "serde", "law": "roundtrip", "what": "error", "detail": e})),
                        }
                    }
                    Err(p) => diffs.push(json!({"row": ri, "col": -1, "path": "serde", "law": "roundtrip", "what": "panic", "detail": p})),
                }
            }
            // ---- all rows in one buffer, decoded in order with one reused output vector
            let res = guarded(|| {
                let mut buf = Vec::new();
                for r in &vrows { RowSerde::serialize_row_into(r, &mut buf); }
                let mut outv: SmallVec<[Value<'static>; 16]> = SmallVec::new();
                let mut off = 0usize;
                let mut got = vec![];
                for _ in 0..vrows.len() {
                    match RowSerde::deserialize_row_into(&buf, &mut off, &mut outv) {
                        Ok(()) => got.push(Ok(outv.iter().map(value_repr).collect::<Vec<_>>())),
                        Err(e) => { got.push(Err(format!("{:#}", e))); break; }
                    }
                }
                (got, off, buf.len())
            });
            match res {
                Ok((got, off, total)) => {
                    for (ri, g) in got.iter().enumerate() {
                        match g {
                            Ok(g) => cmp_rows(&exp[ri], g, ri, "buffer", "sequence", &mut diffs),
                            Err(e) => diffs.push(json!({"row": ri, "col": -1, "path": "buffer", "law": "sequence", "what": "error", "detail": e})),
                        }
                    }
                    if got.len() == vrows.len() && off != total {
                        diffs.push(json!({"row": -1, "col": -1, "path": "buffer", "law": "sequence", "what": "offset_not_at_end"}));
                    }
                }
                Err(p) => diffs.push(json!({"row": -1, "col": -1, "path": "buffer", "law": "sequence", "what": "panic", "detail": p})),
            }
            // ---- the partition spiller: everything spilled at once / spilled midway then appended / never spilled
            let total: usize = vrows.iter().map(|r| RowSerde::row_size(r)).sum();
            for (mode, budget) in [("spill_first", 0usize), ("spill_mid", total), ("memory", total * 4 + 1024)] {
                let path = format!("spiller_{mode}");
                let res = guarded(|| -> Result<(Vec<Vec<(String, String)>>, bool, usize), String> {
                    let sc = Scratch::new("spill");
                    let mut sp = PartitionSpiller::new(sc.path.join("sp"), 2, budget, ci as u64, 'L').map_err(|e| format!("{:#}", e))?;
                    for (ri, r) in vrows.iter().enumerate() {
                        sp.write_row(1, r.iter().cloned().collect()).map_err(|e| format!("write_row {ri}: {:#}", e))?;
                        // an unrelated row into the other partition: the partitions must not mix
                        sp.write_row(0, std::iter::once(Value::Int(ri as i64 + 1000)).collect()).map_err(|e| format!("{:#}", e))?;
                    }
                    let spilled = sp.partition_is_spilled(1);
                    let count = sp.partition_row_count(1);
                    sp.start_read(1).map_err(|e| format!("start_read: {:#}", e))?;
                    let mut got = vec![];
                    loop {
                        match sp.read_next().map_err(|e| format!("read_next after {} rows: {:#}", got.len(), e))? {
                            Some(r) => got.push(r.iter().map(value_repr).collect::<Vec<_>>()),
                            None => break,
                        }
                        if got.len() > vrows.len() + 2 { break; }
                    }
                    sp.end_read();
                    let _ = sp.cleanup();
                    Ok((got, spilled, count))
                });
                match res {
                    Ok(Ok((got, spilled, count))) => {
                        sizes.push(json!({"path": path, "spilled": spilled}));
                        if got.len() != vrows.len() || count != vrows.len() {
                            diffs.push(json!({"row": -1, "col": -1, "path": path, "law": "sequence", "what": format!("row_count:{}_instead_of_{}", got.len(), vrows.len())}));
                        }
                        for (ri, g) in got.iter().enumerate().take(vrows.len()) {
                            cmp_rows(&exp[ri], g, ri, &path, "sequence", &mut diffs);
                        }
                    }
                    Ok(Err(e)) => diffs.push(json!({"row": -1, "col": -1, "path": path, "law": "sequence", "what": "error", "detail": e})),
                    Err(p) => diffs.push(json!({"row": -1, "col": -1, "path": path, "law": "sequence", "what": "panic", "detail": p})),
                }
            }
        } else {
            // ---- F2: MaterializedRow through a SpillableBuffer that is forced to disk at once / midway / never
            let est: usize = rows.iter().map(|r| 64 + r.iter().map(|v| owned_payload(v).len() / 2 + 9).sum::<usize>()).sum();
            for (mode, limit) in [("spill_first", 0usize), ("spill_mid", est / 2), ("memory", usize::MAX / 4)] {
                let path = format!("buffer_{mode}");
                let res = guarded(|| -> Result<(Vec<Vec<(String, String)>>, bool, usize), String> {
                    // the spill file name is derived from the clock: one buffer at a time
                    let _g = SPILL_FILE_LOCK.lock().unwrap_or_else(|e| e.into_inner());
                    let mut b = SpillableBuffer::new(limit);
                    for (ri, r) in rows.iter().enumerate() {
                        b.push(MaterializedRow::new(r.clone())).map_err(|e| format!("push {ri}: {:#}", e))?;
                    }
                    let spilled = b.is_spilled();
                    let count = b.row_count();
                    let mut got = vec![];
                    for r in b.iter().map_err(|e| format!("iter: {:#}", e))? {
                        let r = r.map_err(|e| format!("row {}: {:#}", got.len(), e))?;
                        got.push(r.values.iter().map(owned_repr).collect::<Vec<_>>());
                        if got.len() > rows.len() + 2 { break; }
                    }
                    Ok((got, spilled, count))
                });
                match res {
                    Ok(Ok((got, spilled, count))) => {
                        sizes.push(json!({"path": path, "spilled": spilled}));
                        if got.len() != rows.len() || count != rows.len() {
                            diffs.push(json!({"row": -1, "col": -1, "path": path, "law": "sequence", "what": format!("row_count:{}_instead_of_{}", got.len(), rows.len())}));
                        }
                        for (ri, g) in got.iter().enumerate().take(rows.len()) {
                            cmp_rows(&exp[ri], g, ri, &path, if rows.len() == 1 { "roundtrip" } else { "sequence" }, &mut diffs);
                        }
                    }
                    Ok(Err(e)) => diffs.push(json!({"row": -1, "col": -1, "path": path, "law": "sequence", "what": "error", "detail": e})),
                    Err(p) => diffs.push(json!({"row": -1, "col": -1, "path": path, "law": "sequence", "what": "panic", "detail": p})),
                }
            }
        }
        vec![json!({"id": case["id"], "diffs": diffs, "sizes": sizes})]
    });
}

/// dispatcher for the three subcommands of this module
pub fn run(sub: &str, args: &Args) {
    match sub {
        "record-run" => record_run(args),
        "jsonb-run" => jsonb_run(args),
        _ => spill_run(args),
    }
}

//! C03: replay of TLC-generated Wal.tla behaviours on the real `turdb::storage::Wal`.
//!
//! Input line: {"hist":[op...], "obs":{ref,impl,files,kfz,kfi}} (see spec/Wal.tla `Obs`).
//! For every history the whole operation sequence is executed on a fresh directory and the
//! observation of the final state is compared with the model's:
//!   files   : every segment file parsed into slots (frame version / 0 zero / -1 invalid / -2 partial)
//!   recover : `recover_for_file` for every file id into a scratch storage (page image = version byte)
//! Faults are abstract classes in the model; `--sweep` decides how many concrete byte offsets
//! each class is instantiated with.
use crate::util::*;
use serde_json::{json, Value};
use std::path::{Path, PathBuf};
use turdb::storage::{MmapStorage, Wal};

const PAGE: usize = 16384;
const HDR: usize = 32;
const FRAME: usize = PAGE + HDR;

fn seg_path(dir: &Path, n: u64) -> PathBuf {
    dir.join(format!("wal.{:06}", n))
}

/// Independent CRC-64/ECMA-182 (poly 0x42F0E1EBA9EA3693, init 0, no reflection, xorout 0)
fn crc64(parts: &[&[u8]]) -> u64 {
    static TABLE: std::sync::OnceLock<[u64; 256]> = std::sync::OnceLock::new();
    let t = TABLE.get_or_init(|| {
        let mut t = [0u64; 256];
        for i in 0..256u64 {
            let mut c = i << 56;
            for _ in 0..8 {
                c = if c & (1 << 63) != 0 { (c << 1) ^ 0x42F0E1EBA9EA3693 } else { c << 1 };
            }
            t[i as usize] = c;
        }
        t
    });
    let mut c = 0u64;
    for p in parts {
        for b in *p {
            c = t[(((c >> 56) as u8) ^ *b) as usize] ^ (c << 8);
        }
    }
    c
}

fn parse_slots(bytes: &[u8]) -> Vec<i64> {
    let mut v = vec![];
    let mut off = 0;
    while off + FRAME <= bytes.len() {
        let fr = &bytes[off..off + FRAME];
        if fr.iter().all(|b| *b == 0) {
            v.push(0);
        } else {
            // header layout: file_id u64 @0, page_no u32 @8, db_size u32 @12, salt1 @16, salt2 @20, checksum u64 @24
            let stored = u64::from_le_bytes(fr[24..32].try_into().unwrap());
            let data = &fr[HDR..];
            if crc64(&[&fr[0..24], data]) == stored && data.iter().all(|b| *b == data[0]) {
                v.push(data[0] as i64);
            } else {
                v.push(-1);
            }
        }
        off += FRAME;
    }
    if off < bytes.len() {
        v.push(-2);
    }
    v
}

fn list_files(dir: &Path) -> Vec<(u64, Vec<i64>)> {
    let mut out = vec![];
    if let Ok(rd) = std::fs::read_dir(dir) {
        for e in rd.flatten() {
            let name = e.file_name().to_string_lossy().to_string();
            if name.starts_with("wal.") && name.len() == 10 {
                if let Ok(n) = name[4..].parse::<u64>() {
                    let bytes = std::fs::read(e.path()).unwrap_or_default();
                    out.push((n, parse_slots(&bytes)));
                }
            }
        }
    }
    out.sort();
    out
}

fn copy_dir(src: &Path, dst: &Path) {
    std::fs::create_dir_all(dst).unwrap();
    for e in std::fs::read_dir(src).unwrap().flatten() {
        if e.path().is_file() {
            std::fs::copy(e.path(), dst.join(e.file_name())).unwrap();
        }
    }
}

/// recover_for_file for each file id; result per (file,page): version byte or -1 if untouched
fn recover_obs(wal: &Wal, tmp: &Path, files: &[u64], pages: &[u32]) -> Result<Vec<i64>, String> {
    let mut out = vec![];
    for f in files {
        let sp = tmp.join(format!("rec-{}.tbd", f));
        let _ = std::fs::remove_file(&sp);
        let npages = pages.iter().max().copied().unwrap_or(0) + 1;
        let mut st = MmapStorage::create(&sp, npages).map_err(|e| format!("create storage: {e}"))?;
        for p in 0..npages {
            st.page_mut(p).unwrap().fill(0xEE);
        }
        let r = guarded(|| wal.recover_for_file(&mut st, *f));
        match r {
            Err(p) => return Err(format!("panic in recover_for_file: {p}")),
            Ok(Err(e)) => return Err(format!("recover_for_file error: {e}")),
            Ok(Ok(_)) => {}
        }
        for p in pages {
            let pg = st.page(*p).map_err(|e| e.to_string())?;
            let b = pg[0];
            if !pg.iter().all(|x| *x == b) {
                out.push(-9);
            } else if b == 0xEE {
                out.push(-1);
            } else {
                out.push(b as i64);
            }
        }
        drop(st);
        let _ = std::fs::remove_file(&sp);
    }
    Ok(out)
}

struct Fault {
    seg: u64,
    /// new file length (cut) or None
    cut: Option<usize>,
    /// (offset, xor) byte damage, or zero-fill of a whole slot
    flip: Option<(usize, u8)>,
    zero: Option<usize>,
    label: String,
}

fn concrete_faults(op: &Value, sweep: &str) -> Vec<Fault> {
    let seg = op["seg"].as_u64().unwrap();
    let k = op["k"].as_u64().unwrap() as usize;
    let thorough = sweep == "thorough";
    let mut v = vec![];
    match op["op"].as_str().unwrap() {
        "cut" => {
            let offs: Vec<usize> = match op["where"].as_str().unwrap() {
                "boundary" => vec![0],
                "header" => {
                    if thorough { (1..HDR).collect() } else { vec![1, 8, 24, HDR - 1] }
                }
                _ => {
                    if thorough {
                        let mut o: Vec<usize> = (HDR..FRAME).step_by(257).collect();
                        o.extend([HDR, HDR + 1, FRAME - 1]);
                        o
                    } else {
                        vec![HDR, HDR + PAGE / 2, FRAME - 1]
                    }
                }
            };
            for o in offs {
                v.push(Fault { seg, cut: Some(k * FRAME + o), flip: None, zero: None, label: format!("cut@{}+{}", k, o) });
            }
        }
        "damage" => {
            let base = (k - 1) * FRAME;
            match op["kind"].as_str().unwrap() {
                "zero" => v.push(Fault { seg, cut: None, flip: None, zero: Some(base), label: format!("zero@{}", k) }),
                "header" => {
                    let offs: Vec<usize> = if thorough { (0..HDR).collect() } else { vec![0, 8, 12, 16, 20, 24, 31] };
                    let xors: Vec<u8> = if thorough { vec![0x01, 0x80, 0xFF] } else { vec![0x01] };
                    for o in offs {
                        for x in &xors {
                            v.push(Fault { seg, cut: None, flip: Some((base + o, *x)), zero: None, label: format!("hdr@{}+{}^{:02x}", k, o, x) });
                        }
                    }
                }
                _ => {
                    let offs: Vec<usize> = if thorough {
                        let mut o: Vec<usize> = (HDR..FRAME).step_by(1021).collect();
                        o.extend([HDR, FRAME - 1]);
                        o
                    } else {
                        vec![HDR, HDR + PAGE / 2, FRAME - 1]
                    };
                    for o in offs {
                        v.push(Fault { seg, cut: None, flip: Some((base + o, 0x01)), zero: None, label: format!("body@{}+{}", k, o) });
                    }
                }
            }
        }
        _ => unreachable!(),
    }
    v
}

fn apply_fault(dir: &Path, f: &Fault) {
    let p = seg_path(dir, f.seg);
    let mut bytes = std::fs::read(&p).unwrap();
    if let Some(n) = f.cut {
        bytes.truncate(n);
    }
    if let Some((o, x)) = f.flip {
        bytes[o] ^= x;
    }
    if let Some(b) = f.zero {
        for x in &mut bytes[b..b + FRAME] {
            *x = 0;
        }
    }
    std::fs::write(&p, &bytes).unwrap();
}

fn run_history(hist: &[Value], fault: Option<&Fault>, files: &[u64], pages: &[u32]) -> Result<(Vec<(u64, Vec<i64>)>, Vec<i64>), String> {
    let sc = Scratch::new("wal");
    let dir = sc.path.join("wal");
    let tmp = sc.path.join("tmp");
    std::fs::create_dir_all(&tmp).unwrap();
    let mut wal: Option<Wal> = Some(guarded(|| Wal::create(&dir)).map_err(|p| format!("panic in create: {p}"))?.map_err(|e| e.to_string())?);
    let mut faulted_last = false;
    for op in hist {
        faulted_last = false;
        let name = op["op"].as_str().unwrap();
        let r: Result<Result<(), String>, String> = match name {
            "append" => {
                let (f, p, v) = (op["f"].as_u64().unwrap(), op["p"].as_u64().unwrap() as u32, op["v"].as_u64().unwrap() as u8);
                let sync = op["sync"].as_bool().unwrap();
                let data = vec![v; PAGE];
                let w = wal.as_ref().unwrap();
                guarded(|| {
                    if sync {
                        w.write_frame_with_file_id(p, p + 1, &data, f).map_err(|e| e.to_string())
                    } else {
                        w.write_frames_batch_no_sync(std::iter::once((p, p + 1, &data[..], f))).map_err(|e| e.to_string())
                    }
                })
            }
            "sync" => guarded(|| wal.as_ref().unwrap().sync().map_err(|e| e.to_string())),
            "rotate" => guarded(|| wal.as_ref().unwrap().rotate_segment().map_err(|e| e.to_string())),
            "truncate" => guarded(|| wal.as_ref().unwrap().truncate().map_err(|e| e.to_string())),
            "reopen" => {
                drop(wal.take());
                match guarded(|| Wal::open(&dir)) {
                    Ok(Ok(w)) => {
                        wal = Some(w);
                        Ok(Ok(()))
                    }
                    Ok(Err(e)) => Ok(Err(e.to_string())),
                    Err(p) => Err(p),
                }
            }
            "cut" | "damage" => {
                drop(wal.take());
                apply_fault(&dir, fault.expect("fault op without concrete fault"));
                faulted_last = true;
                Ok(Ok(()))
            }
            other => return Err(format!("unknown op {other}")),
        };
        match r {
            Err(p) => return Err(format!("panic in {name}: {p}")),
            Ok(Err(e)) => return Err(format!("error in {name}: {e}")),
            Ok(Ok(())) => {}
        }
    }
    let files_obs = list_files(&dir);
    // recovery is always performed by a Wal object; after a fault no object is alive, so one is
    // opened on a copy (opening may trim a torn tail, which must not disturb the file observation)
    let rec = if faulted_last || wal.is_none() {
        let cp = sc.path.join("copy");
        copy_dir(&dir, &cp);
        let w = guarded(|| Wal::open(&cp)).map_err(|p| format!("panic in open: {p}"))?.map_err(|e| format!("error in open: {e}"))?;
        recover_obs(&w, &tmp, files, pages)?
    } else {
        recover_obs(wal.as_ref().unwrap(), &tmp, files, pages)?
    };
    Ok((files_obs, rec))
}

fn nums(s: &str) -> Vec<u64> {
    s.split(',').filter(|x| !x.is_empty()).map(|x| x.parse().unwrap()).collect()
}

pub fn replay(args: &Args) {
    let cases = read_cases(&args.get("in", ""));
    let files = nums(&args.get("files", "0,1"));
    let pages: Vec<u32> = nums(&args.get("pages", "0,1")).into_iter().map(|x| x as u32).collect();
    let sweep = args.get("sweep", "quick");
    let out = args.get("out", "/dev/stdout");
    par_run(cases, args.num("jobs", 8), &out, move |i, case| {
        let hist = case["hist"].as_array().unwrap();
        let obs = &case["obs"];
        let fault_op = hist.iter().find(|o| matches!(o["op"].as_str(), Some("cut") | Some("damage")));
        let variants: Vec<Option<Fault>> = match fault_op {
            Some(op) => concrete_faults(op, &sweep).into_iter().map(Some).collect(),
            None => vec![None],
        };
        let exp_ref: Vec<i64> = obs["ref"].as_array().unwrap().iter().map(|x| x.as_i64().unwrap()).collect();
        let exp_impl: Vec<i64> = obs["impl"].as_array().unwrap().iter().map(|x| x.as_i64().unwrap()).collect();
        let exp_files: Vec<(u64, Vec<i64>)> = obs["files"].as_array().unwrap().iter().map(|f| {
            (f["seg"].as_u64().unwrap(), f["slots"].as_array().unwrap().iter().map(|x| x.as_i64().unwrap()).collect())
        }).collect();
        let mut res = vec![];
        let nvar = variants.len();
        for fv in variants {
            let label = fv.as_ref().map(|f| f.label.clone()).unwrap_or_default();
            let r = run_history(hist, fv.as_ref(), &files, &pages);
            let mut rec = json!({"case": i, "variant": label, "nvariants": nvar, "hist": hist, "kfz": obs["kfz"], "kfi": obs["kfi"],
                                 "exp_ref": exp_ref, "exp_impl": exp_impl});
            match r {
                Err(e) => {
                    rec["kind"] = json!(if e.starts_with("panic") { "panic" } else { "error" });
                    rec["detail"] = json!(e);
                }
                Ok((fobs, robs)) => {
                    let files_ok = fobs == exp_files;
                    rec["obs_rec"] = json!(robs);
                    rec["obs_files"] = json!(fobs);
                    rec["exp_files"] = json!(exp_files);
                    rec["kind"] = json!(if robs == exp_ref && files_ok {
                        "ok"
                    } else if robs != exp_ref && robs == exp_impl && files_ok {
                        "recover_as_impl_model"
                    } else if robs != exp_ref {
                        "recover_mismatch"
                    } else {
                        "files_mismatch"
                    });
                }
            }
            if rec["kind"] == "ok" {
                rec = json!({"case": i, "kind": "ok", "fault": !label.is_empty()});
            }
            res.push(rec);
        }
        res
    });
}

pub fn fault_sweep(_args: &Args) {
    eprintln!("fault sweep is part of wal-replay (--sweep thorough)");
}

//! C24: kernel conformance cases generated from Vector.tla (subcommand `vector-kernels`).
//!
//! Input (ndjson): {"id", "fam", "n", "pos", "a":[ints], "b":[ints], "l2sq", "dot", "na", "nb", "cls"}
//! All expected numbers are TLC's integers. The inputs are integer valued and every partial sum stays below 2^24
//! (checked by TLC: invariant ExactInF32), so every addition / multiplication / FMA inside a kernel is exact in f32,
//! whatever the summation order. Hence
//!   * squared L2, dot, inner product: the kernel must return exactly the integer;
//!   * L2: sqrt of an exactly represented number, IEEE sqrt is correctly rounded: exactly `(l2sq as f32).sqrt()`;
//!   * cosine (non-zero vectors): the definition `1 - dot / sqrt(na * nb)` evaluated in f32 on the exact integers is
//!     bit-identical to what a correct kernel computes (same three exact sums, same final operations); in addition the
//!     value must be within 4 ulp(1) of the real number and satisfy the spec's class (orthogonal => exactly 1, ...);
//!   * cosine with a zero vector is unspecified: no panic, not NaN, all kernels agree.
//! Every kernel is called as (a,b) and (b,a).
//! Output: {"id", "calls", "avx2", "bad":[{"kernel","order","got","want","why"}]}
use crate::util::*;
use serde_json::{json, Value};
use turdb::hnsw::distance as d;
use turdb::hnsw::DistanceFunction as DF;

fn ints(v: &Value) -> Vec<i64> {
    v.as_array().unwrap().iter().map(|x| x.as_i64().unwrap()).collect()
}

#[derive(Clone, Copy, PartialEq)]
enum Kind {
    L2sq,
    L2,
    Dot,
    Ip,
    Cos,
}

type K = (&'static str, Kind, Box<dyn Fn(&[f32], &[f32]) -> f32 + Send + Sync>);

fn kernels() -> (Vec<K>, bool) {
    let mut ks: Vec<K> = vec![
        ("euclidean_squared_scalar", Kind::L2sq, Box::new(d::euclidean_squared_scalar)),
        ("euclidean_scalar", Kind::L2, Box::new(d::euclidean_scalar)),
        ("dot_product_scalar", Kind::Dot, Box::new(d::dot_product_scalar)),
        ("inner_product_scalar", Kind::Ip, Box::new(d::inner_product_scalar)),
        ("cosine_scalar", Kind::Cos, Box::new(d::cosine_scalar)),
        ("euclidean_squared", Kind::L2sq, Box::new(d::euclidean_squared)),
        ("select_distance_fn(L2)", Kind::L2, Box::new(d::select_distance_fn(DF::L2))),
        ("select_distance_fn(Cosine)", Kind::Cos, Box::new(d::select_distance_fn(DF::Cosine))),
        ("select_distance_fn(InnerProduct)", Kind::Ip, Box::new(d::select_distance_fn(DF::InnerProduct))),
        ("select_squared_distance_fn(L2)", Kind::L2sq, Box::new(d::select_squared_distance_fn(DF::L2))),
        ("select_squared_distance_fn(Cosine)", Kind::Cos, Box::new(d::select_squared_distance_fn(DF::Cosine))),
        ("select_squared_distance_fn(InnerProduct)", Kind::Ip, Box::new(d::select_squared_distance_fn(DF::InnerProduct))),
    ];
    let mut simd = false;
    #[cfg(target_arch = "x86_64")]
    {
        if is_x86_feature_detected!("avx2") && is_x86_feature_detected!("fma") {
            simd = true;
            // SAFETY: the features were detected just above; slices have equal length (checked by the caller)
            ks.push(("euclidean_squared_avx2", Kind::L2sq, Box::new(|a, b| unsafe { d::euclidean_squared_avx2(a, b) })));
            ks.push(("euclidean_avx2", Kind::L2, Box::new(|a, b| unsafe { d::euclidean_avx2(a, b) })));
            ks.push(("dot_product_avx2", Kind::Dot, Box::new(|a, b| unsafe { d::dot_product_avx2(a, b) })));
            ks.push(("inner_product_avx2", Kind::Ip, Box::new(|a, b| unsafe { d::inner_product_avx2(a, b) })));
            ks.push(("cosine_avx2", Kind::Cos, Box::new(|a, b| unsafe { d::cosine_avx2(a, b) })));
        }
    }
    (ks, simd)
}

const TOL: f64 = 4.0 * 1.1920929e-7; // 4 ulp(1.0)

fn class_ok(cls: &str, x: f32) -> bool {
    let x = x as f64;
    match cls {
        "same_dir" => x.abs() <= TOL,
        "opposite" => (x - 2.0).abs() <= TOL,
        "orthogonal" => x == 1.0,
        "acute" => x > 0.0 && x < 1.0,
        "obtuse" => x > 1.0 && x < 2.0,
        _ => true,
    }
}

pub fn run(args: &Args) {
    let cases = read_cases(&args.get("in", ""));
    let out = args.get("out", "/dev/stdout");
    par_run(cases, args.num("jobs", 8), &out, move |_i, case| {
        let (ks, simd) = kernels();
        let (ai, bi) = (ints(&case["a"]), ints(&case["b"]));
        if ai.len() != bi.len() {
            return vec![json!({"id": case["id"], "fatal": "vectors of different length"})];
        }
        let a: Vec<f32> = ai.iter().map(|x| *x as f32).collect();
        let b: Vec<f32> = bi.iter().map(|x| *x as f32).collect();
        let l2sq = case["l2sq"].as_i64().unwrap();
        let dot = case["dot"].as_i64().unwrap();
        let (na, nb) = (case["na"].as_i64().unwrap(), case["nb"].as_i64().unwrap());
        let cls = case["cls"].as_str().unwrap_or("");
        let zero = na == 0 || nb == 0;
        let want_cos32 = 1.0f32 - (dot as f32) / ((na as f32) * (nb as f32)).sqrt();
        let want_cos64 = if zero { f64::NAN } else { 1.0 - (dot as f64) / ((na as f64) * (nb as f64)).sqrt() };
        let mut bad: Vec<Value> = vec![];
        let mut calls = 0usize;
        let mut zero_vals: Vec<(String, u32)> = vec![];
        for (name, kind, f) in &ks {
            for order in ["ab", "ba"] {
                let (x, y) = if order == "ab" { (&a, &b) } else { (&b, &a) };
                calls += 1;
                let got = match guarded(|| f(x, y)) {
                    Ok(v) => v,
                    Err(p) => {
                        bad.push(json!({"kernel": name, "order": order, "why": "panic", "got": p}));
                        continue;
                    }
                };
                let mut complain = |why: &str, want: String| bad.push(json!({"kernel": name, "order": order, "why": why, "got": format!("{:?}", got), "want": want}));
                match kind {
                    Kind::L2sq => {
                        if got != l2sq as f32 {
                            complain("value", format!("{:?}", l2sq as f32));
                        }
                    }
                    Kind::L2 => {
                        if got != (l2sq as f32).sqrt() {
                            complain("value", format!("{:?}", (l2sq as f32).sqrt()));
                        }
                    }
                    Kind::Dot => {
                        if got != dot as f32 {
                            complain("value", format!("{:?}", dot as f32));
                        }
                    }
                    Kind::Ip => {
                        if got != -(dot as f32) {
                            complain("value", format!("{:?}", -(dot as f32)));
                        }
                    }
                    Kind::Cos => {
                        if zero {
                            if got.is_nan() {
                                complain("zero_vector_nan", "any number".into());
                            }
                            zero_vals.push((format!("{}/{}", name, order), got.to_bits()));
                        } else {
                            if got != want_cos32 {
                                complain("value", format!("{:?}", want_cos32));
                            }
                            if ((got as f64) - want_cos64).abs() > TOL {
                                complain("accuracy", format!("{:?}", want_cos64));
                            }
                            if !class_ok(cls, got) {
                                complain("class", cls.to_string());
                            }
                        }
                    }
                }
            }
        }
        if let Some((_, first)) = zero_vals.first() {
            if zero_vals.iter().any(|(_, v)| v != first) {
                bad.push(json!({"kernel": "cosine_*", "order": "-", "why": "zero_vector_inconsistent", "got": format!("{:?}", zero_vals), "want": "all equal"}));
            }
        }
        vec![json!({"id": case["id"], "calls": calls, "avx2": simd, "bad": bad})]
    });
}

//! C38: schedules of CommitOrder.tla driven through real Database handles.
//!
//! Two (or three) cloned handles live on their own threads (puppets). The schedule steps are
//!   modify   first time: BEGIN; then UPDATE t SET v = <version> WHERE id = <thread>   (runs to completion)
//!   capture  COMMIT up to the hook point `commit.captured` (page images copied, file-manager lock released)
//!   submit   from there into the group-commit queue, up to the first `gc.check` of the wait loop (an empty payload returns)
//!   elect    from `gc.check`: no flush in progress, so the waiter becomes the leader and takes every pending commit;
//!            parked at `commit.flush.begin`
//!   flush    the leader writes its batch, completes it and returns
//!   return   from `gc.check`: the waiter finds its commit completed and returns
//!   write    (older schedules) submit + elect + flush of a lone committer
//! All rows live on one table page. After the schedule the directory is copied (process-kill snapshot), reopened
//! (recovery replays the log) and the rows are read back: a row whose writer's COMMIT returned must carry the
//! writer's last value.
//!
//! Input:  {"id":.., "hist":[{"t":1,"a":"modify"},..], ...}
//! Output: {"id":.., "steps":[..], "values":{thread: last value written}, "done":[threads whose COMMIT returned ok],
//!          "live":[[id,v]..], "recovered":[[id,v]..] | {"err":..}, "frames": n}
use crate::sched::{set_park_only, Puppeteer, StepResult};
use crate::sqlrun::Session;
use crate::util::*;
use serde_json::{json, Value};
use std::sync::{Arc, Mutex};
use turdb::Database;

fn copy_dir(from: &std::path::Path, to: &std::path::Path) {
    std::fs::create_dir_all(to).ok();
    if let Ok(rd) = std::fs::read_dir(from) {
        for e in rd.flatten() {
            let p = e.path();
            let dst = to.join(e.file_name());
            if p.is_dir() {
                copy_dir(&p, &dst);
            } else {
                let _ = std::fs::copy(&p, &dst);
            }
        }
    }
}

pub fn run(args: &Args) {
    let cases = read_cases(&args.get("in", ""));
    let out = args.get("out", "/dev/stdout");
    set_park_only(Some(vec!["commit.".to_string(), "gc.".to_string()]));
    // schedules are driven one at a time: the hook handler is process wide and the puppets are real threads
    par_run(cases, 1, &out, move |_i, case| {
        let sc = Scratch::new("corder");
        let dir = sc.path.join("db");
        let db = match Database::create(&dir) {
            Ok(d) => d,
            Err(e) => return vec![json!({"id": case["id"], "fatal": format!("{:#}", e)})],
        };
        let nthreads = case["threads"].as_u64().unwrap_or(2) as usize;
        let mut setup = vec!["CREATE TABLE t (id INT PRIMARY KEY, v INT)".to_string()];
        for t in 1..=nthreads {
            setup.push(format!("INSERT INTO t VALUES ({}, 0)", t));
        }
        setup.push("PRAGMA wal=ON".into());
        setup.push("PRAGMA synchronous=FULL".into());
        for s in &setup {
            if let Err(e) = db.execute(s) {
                return vec![json!({"id": case["id"], "fatal": format!("setup {}: {:#}", s, e)})];
            }
        }
        let handles: Arc<Vec<Mutex<Database>>> = Arc::new((0..nthreads).map(|_| Mutex::new(db.clone())).collect());
        let h2 = handles.clone();
        let pup = Puppeteer::new(nthreads, move |t, op: &Value| {
            let g = h2[t].lock().unwrap();
            let mut last = Value::Null;
            for s in op["sqls"].as_array().unwrap() {
                last = match g.execute(s.as_str().unwrap()) {
                    Ok(_) => json!({"ok": true}),
                    Err(e) => json!({"err": format!("{:#}", e)}),
                };
                if last.get("err").is_some() {
                    break;
                }
            }
            last
        });
        let mut steps = vec![];
        let mut in_txn = vec![false; nthreads];
        let mut values = serde_json::Map::new();
        let mut done = vec![];
        let mut ver = 0i64;
        let mut diverged = Value::Null;
        let mut batch_sizes: Vec<i64> = vec![];
        let mut early = vec![false; nthreads];       // COMMIT returned without reaching the capture point (nothing to log)
        for st in case["hist"].as_array().unwrap() {
            let t = st["t"].as_u64().unwrap() as usize - 1;
            let a = st["a"].as_str().unwrap();
            if (a == "write" || a == "submit") && early[t] {
                steps.push(json!({"t": t + 1, "a": a, "r": "already returned"}));
                continue;
            }
            let r = match a {
                "modify" => {
                    ver += 1;
                    let mut sqls = vec![];
                    if !in_txn[t] {
                        sqls.push("BEGIN".to_string());
                        in_txn[t] = true;
                    }
                    sqls.push(format!("UPDATE t SET v = {} WHERE id = {}", ver, t + 1));
                    values.insert((t + 1).to_string(), json!(ver));
                    pup.step(t, Some(json!({"sqls": sqls})))
                }
                "capture" => pup.step(t, Some(json!({"sqls": ["COMMIT"]}))),
                "submit" | "elect" | "flush" | "return" => pup.step(t, None),
                "write" => {
                    // run to the end through every hook point on the way
                    let mut r = pup.step(t, None);
                    let mut n = 0;
                    while matches!(r, StepResult::AtPoint(..)) && n < 8 {
                        r = pup.step(t, None);
                        n += 1;
                    }
                    r
                }
                _ => StepResult::Done(json!({"harness_error": "unknown step"})),
            };
            let ok = match (&r, a) {
                (StepResult::Done(v), "modify") => v.get("ok").is_some(),
                (StepResult::AtPoint(n, _), "capture") => n == "commit.captured",
                (StepResult::Done(v), "capture") if v.get("ok").is_some() => {
                    early[t] = true;
                    done.push(t + 1);
                    true
                }
                (StepResult::Done(v), "write") | (StepResult::Done(v), "flush") | (StepResult::Done(v), "return") => {
                    if v.get("ok").is_some() {
                        done.push(t + 1);
                    }
                    true
                }
                (StepResult::AtPoint(n, _), "submit") => n == "gc.check",
                (StepResult::Done(v), "submit") if v.get("ok").is_some() => {
                    // nothing to log: COMMIT returned without entering the queue
                    early[t] = true;
                    done.push(t + 1);
                    true
                }
                (StepResult::AtPoint(n, a), "elect") => {
                    batch_sizes.push(a.first().copied().unwrap_or(-1));
                    n == "commit.flush.begin"
                }
                _ => false,
            };
            steps.push(json!({"t": t + 1, "a": a, "r": format!("{:?}", r)}));
            if !ok {
                diverged = json!({"at": steps.len() - 1, "step": a, "observed": format!("{:?}", r)});
                break;
            }
        }
        let frames = pup.events().iter().filter(|e| e.1 == "wal.frame_written").count();
        // process-kill snapshot while the handles are still open (parked committers stay parked)
        let snap = sc.path.join("snap");
        copy_dir(&dir, &snap);
        let live = match db.query("SELECT id, v FROM t") {
            Ok(rows) => json!(rows.iter().map(|r| r.values.iter().map(crate::sqlrun::val_to_json).collect::<Vec<_>>()).collect::<Vec<_>>()),
            Err(e) => json!({"err": format!("{:#}", e)}),
        };
        let recovered = match guarded(|| Database::open(&snap)) {
            Err(p) => json!({"panic": p}),
            Ok(Err(e)) => json!({"err": format!("{:#}", e)}),
            Ok(Ok(d2)) => {
                let mut s = Session { dir: snap.clone(), handles: vec![Some(d2)] };
                let r = s.run_op(&json!({"k": "query", "sql": "SELECT id, v FROM t"}));
                let _ = guarded(move || drop(s));
                r
            }
        };
        drop(pup);
        drop(handles);
        let _ = guarded(move || drop(db));
        vec![json!({"id": case["id"], "steps": steps, "values": values, "done": done, "live": live, "recovered": recovered,
                    "frames": frames, "diverged": diverged, "batch_sizes": batch_sizes,
                    "early": early.iter().enumerate().filter(|(_, e)| **e).map(|(i, _)| i + 1).collect::<Vec<_>>()})]
    });
}

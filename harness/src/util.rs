//! Shared helpers: scratch directories, parallel map over ndjson cases, panic capture.
use serde_json::Value;
use std::io::{BufRead, BufReader, Write};
use std::path::{Path, PathBuf};
use std::sync::atomic::{AtomicUsize, Ordering};
use std::sync::{Arc, Mutex};

pub fn scratch_root() -> PathBuf {
    if let Ok(p) = std::env::var("VERIF_SCRATCH") {
        return PathBuf::from(p);
    }
    let shm = Path::new("/dev/shm");
    let base = if shm.is_dir() { shm.to_path_buf() } else { std::env::temp_dir() };
    base.join(format!("turdb-verif.{}", std::process::id()))
}

pub struct Scratch {
    pub path: PathBuf,
}
impl Scratch {
    pub fn new(tag: &str) -> Scratch {
        static N: AtomicUsize = AtomicUsize::new(0);
        let n = N.fetch_add(1, Ordering::SeqCst);
        let path = scratch_root().join(format!("{}-{}", tag, n));
        let _ = std::fs::remove_dir_all(&path);
        std::fs::create_dir_all(&path).expect("create scratch dir");
        Scratch { path }
    }
}
impl Drop for Scratch {
    fn drop(&mut self) {
        let _ = std::fs::remove_dir_all(&self.path);
    }
}

pub fn read_cases(path: &str) -> Vec<Value> {
    let f = std::fs::File::open(path).unwrap_or_else(|e| panic!("open {}: {}", path, e));
    BufReader::new(f)
        .lines()
        .map(|l| l.unwrap())
        .filter(|l| !l.trim().is_empty())
        .map(|l| serde_json::from_str(&l).unwrap_or_else(|e| panic!("bad json line: {} ({})", l, e)))
        .collect()
}

/// Runs `f` over all cases on `jobs` threads; writes one JSON line per returned value.
pub fn par_run<F>(cases: Vec<Value>, jobs: usize, out: &str, f: F)
where
    F: Fn(usize, &Value) -> Vec<Value> + Send + Sync + 'static,
{
    let cases = Arc::new(cases);
    let next = Arc::new(AtomicUsize::new(0));
    let outf = Arc::new(Mutex::new(std::io::BufWriter::new(
        std::fs::File::create(out).expect("create out"),
    )));
    let f = Arc::new(f);
    let mut hs = vec![];
    for _ in 0..jobs.max(1) {
        let (cases, next, outf, f) = (cases.clone(), next.clone(), outf.clone(), f.clone());
        hs.push(std::thread::Builder::new().stack_size(64 << 20).spawn(move || loop {
            let i = next.fetch_add(1, Ordering::SeqCst);
            if i >= cases.len() {
                break;
            }
            let res = f(i, &cases[i]);
            if !res.is_empty() {
                let mut g = outf.lock().unwrap();
                for r in res {
                    writeln!(g, "{}", r).unwrap();
                }
            }
        }).unwrap());
    }
    for h in hs {
        h.join().expect("worker thread");
    }
    outf.lock().unwrap().flush().unwrap();
    let _ = std::fs::remove_dir_all(scratch_root());
}

/// Runs a closure, turning a panic into Err(message). Panics are data.
pub fn guarded<T>(f: impl FnOnce() -> T) -> Result<T, String> {
    match std::panic::catch_unwind(std::panic::AssertUnwindSafe(f)) {
        Ok(v) => Ok(v),
        Err(e) => Err(if let Some(s) = e.downcast_ref::<&str>() {
            s.to_string()
        } else if let Some(s) = e.downcast_ref::<String>() {
            s.clone()
        } else {
            "panic".to_string()
        }),
    }
}

pub fn quiet_panics() {
    std::panic::set_hook(Box::new(|_| {}));
}

pub struct Args {
    pub pos: Vec<String>,
    pub kv: std::collections::HashMap<String, String>,
}
pub fn parse_args(a: &[String]) -> Args {
    let mut pos = vec![];
    let mut kv = std::collections::HashMap::new();
    let mut i = 0;
    while i < a.len() {
        if let Some(k) = a[i].strip_prefix("--") {
            let v = a.get(i + 1).cloned().unwrap_or_default();
            kv.insert(k.to_string(), v);
            i += 2;
        } else {
            pos.push(a[i].clone());
            i += 1;
        }
    }
    Args { pos, kv }
}
impl Args {
    pub fn get(&self, k: &str, d: &str) -> String {
        self.kv.get(k).cloned().unwrap_or_else(|| d.to_string())
    }
    pub fn num(&self, k: &str, d: usize) -> usize {
        self.kv.get(k).and_then(|v| v.parse().ok()).unwrap_or(d)
    }
}

//! SQL runner for the calendar properties (C41, C20): like `sql-run`, but every DATE / TIME / TIMESTAMP value of a
//! query result is additionally rendered to text by TurDB's own renderer (`turdb::cli::table::TableFormatter`, the
//! only date-to-text code in the tree), so that "literal -> stored value -> canonical text" is observed end to end.
//!
//! Input (ndjson): {"id":.., "ops":[ {"k":"exec","sql":..} | {"k":"query","sql":..} | {"k":"render","vals":[v..]} ]}
//! Output: {"id":.., "res":[ {"ok":n} | {"err":..} | {"rows":[[v..]..], "text":[[s|null ..]..]} | {"text":[s..]} | {"panic":..} ]}
//!
//! Stand-alone binary (own crate root) because `turdb::cli` is behind the optional `cli` feature (it pulls in
//! rustyline): the renderer's source file is compiled from /repo's working tree with `#[path]`, and the two paths it
//! imports (`crate::database::Row`, `crate::types::OwnedValue`) are re-exports of the real TurDB types.
#![allow(dead_code)]
#[path = "/repo/src/cli/table.rs"]
mod table;
mod database {
    pub use turdb::Row;
}
mod types {
    pub use turdb::OwnedValue;
}
use serde_json::{json, Value};
use std::io::{BufRead, BufReader, Write};
use std::path::PathBuf;
use std::sync::atomic::{AtomicUsize, Ordering};
use std::sync::{Arc, Mutex};
use table::TableFormatter;
use turdb::{Database, OwnedValue, Row};

// ---- self-contained plumbing (deliberately not shared with the vharness crate, so that changes there cannot break this binary)
fn scratch_root() -> PathBuf {
    if let Ok(p) = std::env::var("VERIF_SCRATCH") {
        return PathBuf::from(p);
    }
    let shm = std::path::Path::new("/dev/shm");
    let base = if shm.is_dir() { shm.to_path_buf() } else { std::env::temp_dir() };
    base.join(format!("turdb-verif-cal.{}", std::process::id()))
}

fn guarded<T>(f: impl FnOnce() -> T) -> Result<T, String> {
    match std::panic::catch_unwind(std::panic::AssertUnwindSafe(f)) {
        Ok(v) => Ok(v),
        Err(e) => Err(if let Some(s) = e.downcast_ref::<&str>() {
            s.to_string()
        } else if let Some(s) = e.downcast_ref::<String>() {
            s.clone()
        } else {
            "panic".to_string()
        }),
    }
}

fn val_to_json(v: &OwnedValue) -> Value {
    match v {
        OwnedValue::Null => Value::Null,
        OwnedValue::Int(i) => json!(i),
        OwnedValue::Bool(b) => json!({"bool": b}),
        OwnedValue::Float(f) => json!({"f": format!("{:?}", f)}),
        OwnedValue::Text(s) => json!(s),
        OwnedValue::Date(d) => json!({"date": d}),
        OwnedValue::Time(t) => json!({"time": t}),
        OwnedValue::Timestamp(t) => json!({"ts": t}),
        other => json!({"t": format!("{:?}", other)}),
    }
}

fn json_to_val(v: &Value) -> OwnedValue {
    if let Some(d) = v.get("date") {
        OwnedValue::Date(d.as_i64().unwrap() as i32)
    } else if let Some(d) = v.get("time") {
        OwnedValue::Time(d.as_i64().unwrap())
    } else if let Some(d) = v.get("ts") {
        OwnedValue::Timestamp(d.as_i64().unwrap())
    } else {
        OwnedValue::Null
    }
}

/// Renders values with the CLI table formatter: one single-column table, one row per value.
fn render(vals: &[OwnedValue]) -> Vec<String> {
    if vals.is_empty() {
        return vec![];
    }
    let rows: Vec<Row> = vals.iter().map(|v| Row::new(vec![v.clone()])).collect();
    let out = TableFormatter::new(vec!["c".to_string()], &rows).render();
    // +---+ / | c | / +---+ / | v1 | ... / +---+
    out.lines()
        .skip(3)
        .filter(|l| l.starts_with('|'))
        .map(|l| l.trim_start_matches('|').trim_end_matches('|').trim().to_string())
        .collect()
}

fn is_temporal(v: &OwnedValue) -> bool {
    matches!(v, OwnedValue::Date(_) | OwnedValue::Time(_) | OwnedValue::Timestamp(_))
}

fn run_op(db: &Database, op: &Value) -> Value {
    match op["k"].as_str().unwrap_or("") {
        "exec" => match db.execute(op["sql"].as_str().unwrap()) {
            Ok(_) => json!({"ok": 1}),
            Err(e) => json!({"err": format!("{:#}", e)}),
        },
        "query" => match db.query(op["sql"].as_str().unwrap()) {
            Ok(rows) => {
                let mut jr = Vec::with_capacity(rows.len());
                let mut tr = Vec::with_capacity(rows.len());
                for r in &rows {
                    jr.push(Value::Array(r.values.iter().map(val_to_json).collect()));
                    let temporal: Vec<OwnedValue> = r.values.iter().filter(|v| is_temporal(v)).cloned().collect();
                    let mut it = render(&temporal).into_iter();
                    tr.push(Value::Array(
                        r.values.iter().map(|v| if is_temporal(v) { it.next().map(Value::String).unwrap_or(Value::Null) } else { Value::Null }).collect(),
                    ));
                }
                json!({"rows": jr, "text": tr})
            }
            Err(e) => json!({"err": format!("{:#}", e)}),
        },
        "render" => {
            let vals: Vec<OwnedValue> = op["vals"].as_array().unwrap().iter().map(json_to_val).collect();
            json!({"text": render(&vals)})
        }
        other => json!({"err": format!("unknown op {other}")}),
    }
}

fn main() {
    std::panic::set_hook(Box::new(|_| {}));
    let argv: Vec<String> = std::env::args().collect();
    let mut kv = std::collections::HashMap::new();
    let mut i = 1;
    while i + 1 < argv.len() {
        if let Some(k) = argv[i].strip_prefix("--") {
            kv.insert(k.to_string(), argv[i + 1].clone());
        }
        i += 2;
    }
    let inp = kv.get("in").cloned().expect("--in");
    let out = kv.get("out").cloned().expect("--out");
    let jobs: usize = kv.get("jobs").and_then(|v| v.parse().ok()).unwrap_or(8);
    let cases: Vec<Value> = BufReader::new(std::fs::File::open(&inp).expect("open --in"))
        .lines()
        .map(|l| l.unwrap())
        .filter(|l| !l.trim().is_empty())
        .map(|l| serde_json::from_str(&l).expect("json line"))
        .collect();
    let cases = Arc::new(cases);
    let next = Arc::new(AtomicUsize::new(0));
    let outf = Arc::new(Mutex::new(std::io::BufWriter::new(std::fs::File::create(&out).expect("create --out"))));
    let mut hs = vec![];
    for _ in 0..jobs.max(1) {
        let (cases, next, outf) = (cases.clone(), next.clone(), outf.clone());
        hs.push(
            std::thread::Builder::new()
                .stack_size(64 << 20)
                .spawn(move || loop {
                    let i = next.fetch_add(1, Ordering::SeqCst);
                    if i >= cases.len() {
                        break;
                    }
                    let r = run_case(i, &cases[i]);
                    let mut g = outf.lock().unwrap();
                    writeln!(g, "{}", r).unwrap();
                })
                .unwrap(),
        );
    }
    for h in hs {
        h.join().expect("worker thread");
    }
    outf.lock().unwrap().flush().unwrap();
    let _ = std::fs::remove_dir_all(scratch_root());
}

fn run_case(i: usize, case: &Value) -> Value {
    let dir = scratch_root().join(format!("cal-{}", i));
    let _ = std::fs::remove_dir_all(&dir);
    std::fs::create_dir_all(&dir).expect("create scratch dir");
    let dbdir = dir.join("db");
    let ops = case["ops"].as_array().unwrap();
    let mut res: Vec<Value> = Vec::with_capacity(ops.len());
    match guarded(|| Database::create(&dbdir)) {
        Err(p) => res.push(json!({"fatal": format!("panic in create: {p}")})),
        Ok(Err(e)) => res.push(json!({"fatal": format!("create: {e}")})),
        Ok(Ok(db)) => {
            for op in ops {
                match guarded(|| run_op(&db, op)) {
                    Ok(v) => res.push(v),
                    Err(p) => {
                        res.push(json!({"panic": p}));
                        break;
                    }
                }
            }
            let _ = guarded(move || drop(db));
        }
    }
    let _ = std::fs::remove_dir_all(&dir);
    json!({"id": case["id"], "res": res})
}

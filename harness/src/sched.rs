//! Puppeteer: drives real threads through a schedule produced by TLC.
//!
//! Every logical thread of a model is an OS thread. Code under test calls
//! `turdb::verif::point(name, args)` at its schedule points; for a puppet thread the handler parks
//! the thread there until the controller grants it the next step. Exactly one puppet thread runs at
//! a time (except a thread that was blocked inside a real lock and is woken by another thread's
//! step: it runs up to its next point and parks there).
use serde_json::Value;
use std::cell::RefCell;
use std::sync::{Arc, Condvar, Mutex, Once};
use std::time::{Duration, Instant};

#[derive(Clone, Copy, PartialEq, Debug)]
enum Status {
    Idle,
    Running,
    AtPoint,
}

struct State {
    status: Vec<Status>,
    grant: Vec<u32>,
    progress: Vec<u64>,
    pending: Vec<Option<Value>>,
    last_point: Vec<Option<(String, Vec<i64>)>>,
    result: Vec<Option<Value>>,
    events: Vec<(usize, String, Vec<i64>)>,
    shutdown: bool,
    free_run: bool,
}

pub struct Inner {
    m: Mutex<State>,
    cv: Condvar,
}

thread_local! {
    static PUPPET: RefCell<Option<(Arc<Inner>, usize)>> = const { RefCell::new(None) };
}

/// When set, puppet threads park only at points whose name starts with one of these prefixes (all other points are
/// recorded and passed through). Used by the database-level schedules, where most hook points are irrelevant.
static PARK_ONLY: Mutex<Option<Vec<String>>> = Mutex::new(None);
pub fn set_park_only(prefixes: Option<Vec<String>>) {
    *PARK_ONLY.lock().unwrap() = prefixes;
}

fn handler(name: &'static str, args: &[i64]) {
    let me = PUPPET.with(|p| p.borrow().clone());
    let Some((inner, t)) = me else { return };
    let pass = {
        let f = PARK_ONLY.lock().unwrap();
        match f.as_ref() {
            Some(pre) => !pre.iter().any(|p| name.starts_with(p.as_str())),
            None => false,
        }
    };
    let mut g = inner.m.lock().unwrap();
    if !pass || name.starts_with("wal.") {
        g.events.push((t, name.to_string(), args.to_vec()));
    }
    if g.free_run || pass {
        return;
    }
    g.status[t] = Status::AtPoint;
    g.last_point[t] = Some((name.to_string(), args.to_vec()));
    g.progress[t] += 1;
    inner.cv.notify_all();
    while g.grant[t] == 0 && !g.shutdown && !g.free_run {
        g = inner.cv.wait(g).unwrap();
    }
    if g.grant[t] > 0 {
        g.grant[t] -= 1;
    }
    g.status[t] = Status::Running;
}

pub fn install() {
    static ONCE: Once = Once::new();
    ONCE.call_once(|| {
        turdb::verif::set_handler(Some(Arc::new(handler)));
    });
}

#[derive(Debug, Clone, PartialEq)]
pub enum StepResult {
    AtPoint(String, Vec<i64>),
    Done(Value),
    Blocked,
}

pub struct Puppeteer {
    inner: Arc<Inner>,
    handles: Vec<std::thread::JoinHandle<()>>,
    /// patience for a step the model says completes (load-insensitive)
    pub step_timeout: Duration,
    /// patience before a step the model says blocks is declared blocked
    pub block_timeout: Duration,
}

impl Puppeteer {
    pub fn new<F>(n: usize, runner: F) -> Puppeteer
    where
        F: Fn(usize, &Value) -> Value + Send + Sync + 'static,
    {
        install();
        let inner = Arc::new(Inner {
            m: Mutex::new(State {
                status: vec![Status::Idle; n],
                grant: vec![0; n],
                progress: vec![0; n],
                pending: vec![None; n],
                last_point: vec![None; n],
                result: vec![None; n],
                events: vec![],
                shutdown: false,
                free_run: false,
            }),
            cv: Condvar::new(),
        });
        let runner = Arc::new(runner);
        let mut handles = vec![];
        for t in 0..n {
            let inner2 = inner.clone();
            let runner = runner.clone();
            handles.push(
                std::thread::Builder::new()
                    .stack_size(16 << 20)
                    .spawn(move || {
                        PUPPET.with(|p| *p.borrow_mut() = Some((inner2.clone(), t)));
                        loop {
                            let op = {
                                let mut g = inner2.m.lock().unwrap();
                                loop {
                                    if g.shutdown {
                                        return;
                                    }
                                    if g.pending[t].is_some() && (g.grant[t] > 0 || g.free_run) {
                                        if g.grant[t] > 0 {
                                            g.grant[t] -= 1;
                                        }
                                        g.status[t] = Status::Running;
                                        break g.pending[t].take().unwrap();
                                    }
                                    g = inner2.cv.wait(g).unwrap();
                                }
                            };
                            let r = crate::util::guarded(|| runner(t, &op));
                            let r = match r {
                                Ok(v) => v,
                                Err(p) => serde_json::json!({"panic": p}),
                            };
                            let mut g = inner2.m.lock().unwrap();
                            g.result[t] = Some(r);
                            g.status[t] = Status::Idle;
                            g.progress[t] += 1;
                            inner2.cv.notify_all();
                        }
                    })
                    .unwrap(),
            );
        }
        Puppeteer { inner, handles, step_timeout: Duration::from_secs(20), block_timeout: Duration::from_millis(120) }
    }

    /// Lets thread `t` take one step: start `op` (thread must be idle) or continue from its point.
    pub fn step(&self, t: usize, op: Option<Value>) -> StepResult {
        self.step_with_timeout(t, op, self.step_timeout)
    }

    /// A step after which the model says the thread is blocked inside a real lock / condvar.
    pub fn step_expect_block(&self, t: usize, op: Option<Value>) -> StepResult {
        self.step_with_timeout(t, op, self.block_timeout)
    }

    pub fn step_with_timeout(&self, t: usize, op: Option<Value>, timeout: Duration) -> StepResult {
        let mut g = self.inner.m.lock().unwrap();
        let before = g.progress[t];
        match (g.status[t], op) {
            (Status::Idle, Some(op)) => {
                g.pending[t] = Some(op);
                g.result[t] = None;
                g.grant[t] += 1;
            }
            (Status::AtPoint, None) => {
                g.grant[t] += 1;
            }
            (Status::Running, None) => { /* blocked earlier; just wait for it */ }
            (st, op) => {
                return StepResult::Done(serde_json::json!({"harness_error": format!("bad step: status {:?}, op {:?}", st, op.is_some())}));
            }
        }
        self.inner.cv.notify_all();
        let deadline = Instant::now() + timeout;
        while g.progress[t] == before {
            let now = Instant::now();
            if now >= deadline {
                return StepResult::Blocked;
            }
            let (g2, _) = self.inner.cv.wait_timeout(g, deadline - now).unwrap();
            g = g2;
        }
        match g.status[t] {
            Status::AtPoint => {
                let (n, a) = g.last_point[t].clone().unwrap();
                StepResult::AtPoint(n, a)
            }
            Status::Idle => StepResult::Done(g.result[t].clone().unwrap_or(Value::Null)),
            Status::Running => StepResult::Blocked,
        }
    }

    pub fn is_idle(&self, t: usize) -> bool {
        self.inner.m.lock().unwrap().status[t] == Status::Idle
    }

    pub fn events(&self) -> Vec<(usize, String, Vec<i64>)> {
        self.inner.m.lock().unwrap().events.clone()
    }

    /// Lets every thread run freely to the end of its current call. Returns false if some thread is stuck.
    pub fn drain(&self, timeout: Duration) -> bool {
        {
            let mut g = self.inner.m.lock().unwrap();
            g.free_run = true;
            self.inner.cv.notify_all();
        }
        let deadline = Instant::now() + timeout;
        let mut g = self.inner.m.lock().unwrap();
        loop {
            if g.status.iter().all(|s| *s == Status::Idle) {
                g.free_run = false;
                return true;
            }
            let now = Instant::now();
            if now >= deadline {
                return false;
            }
            let (g2, _) = self.inner.cv.wait_timeout(g, deadline - now).unwrap();
            g = g2;
        }
    }

    pub fn results(&self) -> Vec<Option<Value>> {
        self.inner.m.lock().unwrap().result.clone()
    }
}

impl Drop for Puppeteer {
    fn drop(&mut self) {
        let stuck = !self.drain(Duration::from_millis(500));
        {
            let mut g = self.inner.m.lock().unwrap();
            g.shutdown = true;
            g.free_run = true;
            self.inner.cv.notify_all();
        }
        if !stuck {
            for h in self.handles.drain(..) {
                let _ = h.join();
            }
        }
        // stuck threads are leaked (they are blocked inside the code under test)
    }
}

impl Puppeteer {
    /// Waits until thread `t` is no longer running on its own (it was blocked and has been woken):
    /// returns where it stopped. Does not grant anything.
    pub fn settle(&self, t: usize, timeout: Duration) -> StepResult {
        let mut g = self.inner.m.lock().unwrap();
        let deadline = Instant::now() + timeout;
        while g.status[t] == Status::Running {
            let now = Instant::now();
            if now >= deadline {
                return StepResult::Blocked;
            }
            let (g2, _) = self.inner.cv.wait_timeout(g, deadline - now).unwrap();
            g = g2;
        }
        match g.status[t] {
            Status::AtPoint => {
                let (n, a) = g.last_point[t].clone().unwrap();
                StepResult::AtPoint(n, a)
            }
            _ => StepResult::Done(g.result[t].clone().unwrap_or(Value::Null)),
        }
    }
}

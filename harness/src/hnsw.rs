//! C25: behaviours generated from Hnsw.tla driven through the real `PersistentHnswIndex` (subcommand `hnsw-replay`),
//! through SQL DML on a table with an HNSW index (mode "sql"), and SQ8 conformance cases (subcommand `sq8-cases`).
//!
//! Input (ndjson), one case per line:
//!   {"id":.., "mode":"api"|"sql", "m":16, "efc":100, "efs":[64,2], "every":bool, "hist":[step..]}
//!   step = {"a":"ins"|"del"|"upd"|"vac"|"reopen", "id":n, "v":[x,y], "lvl":l,
//!           "live":[ids], "nodes":n, "exp":[{"q":[x,y], "d":[[id,dist]..]}]}      (post-state, computed by TLC)
//! After the last step (or after every step when "every") a grid of searches is run: every query of `exp`, k in
//! {1,2,|live|,|live|+1}, both search APIs, every ef.  Each result is judged by the clauses of ValidSearch; this is a
//! MIRROR of the predicate in Hnsw.tla (all distances are TLC's integers, only comparisons happen here) and a sample
//! of the observations is fed back to TLC (Trace_Hnsw) by the check.
//! Output: {"id", "steps":[..action results..], "nsearch":n, "viol":[obs..], "sample":[obs..]}
use crate::util::*;
use serde_json::{json, Value};
use std::collections::{HashMap, HashSet};
use std::path::Path;
use turdb::hnsw::quantization::{SQ8Vector, SQ8VectorRef};
use turdb::hnsw::search::HnswSearchContext;
use turdb::hnsw::{DistanceFunction, PersistentHnswIndex, QuantizationType, SearchResult};

static CHILD: std::sync::atomic::AtomicBool = std::sync::atomic::AtomicBool::new(false);

/// In child mode (`hnsw-one`) every milestone is printed at once, so that the parent can tell how far a case got when
/// TurDB takes the whole process down (abort on allocation failure, stack overflow, endless loop).
fn progress(v: Value) {
    if CHILD.load(std::sync::atomic::Ordering::Relaxed) {
        use std::io::Write;
        let out = std::io::stdout();
        let mut g = out.lock();
        let _ = writeln!(g, "{}", v);
        let _ = g.flush();
    }
}

fn vec_of(v: &Value) -> Vec<f32> {
    v.as_array().map(|a| a.iter().map(|x| x.as_f64().unwrap_or(0.0) as f32).collect()).unwrap_or_default()
}

fn random_for_level(level: u64, m: u16) -> f64 {
    // select_level(r, ml) = floor(-ln(r) * ml), ml = 1/ln(m): r = m^-(level+1/2) lands in the middle of the level's band
    (m as f64).powf(-(level as f64 + 0.5))
}

pub const CLAUSES: [&str; 6] = ["size", "distinct", "live", "nonempty", "sorted", "topk"];

/// Mirror of ValidSearch(R, q, k) of Hnsw.tla. `d` = TLC's exact squared distances of the live ids to q.
pub fn failed_clauses(r: &[u64], d: &HashMap<u64, i64>, k: usize, nodes: usize, ef: usize) -> Vec<&'static str> {
    let mut bad = vec![];
    if r.len() > k {
        bad.push("size");
    }
    let set: HashSet<u64> = r.iter().cloned().collect();
    if set.len() != r.len() {
        bad.push("distinct");
    }
    if r.iter().any(|x| !d.contains_key(x)) {
        bad.push("live");
    }
    if !d.is_empty() && r.is_empty() {
        bad.push("nonempty");
    }
    let ds: Vec<i64> = r.iter().filter_map(|x| d.get(x).cloned()).collect();
    if ds.windows(2).any(|w| w[0] > w[1]) {
        bad.push("sorted");
    }
    if nodes <= ef {
        // the index is small enough for the search width: the result is the exact top-k (as a multiset of distances)
        let mut all: Vec<i64> = d.values().cloned().collect();
        all.sort();
        all.truncate(k);
        let mut got: Vec<i64> = set.iter().filter_map(|x| d.get(x).cloned()).collect();
        got.sort();
        if got != all {
            bad.push("topk");
        }
    }
    bad
}

fn ks_for(nlive: usize) -> Vec<usize> {
    let mut ks = vec![1usize, 2, nlive.max(1), nlive + 1];
    ks.sort();
    ks.dedup();
    ks
}

struct Obs {
    api: &'static str,
    ef: usize,
    q: Vec<f32>,
    qi: usize,
    k: usize,
    rows: Vec<u64>,
    dist: Vec<String>,
    err: Option<String>,
}

fn run_searches(idx: &PersistentHnswIndex, table: &HashMap<u64, Vec<f32>>, exp: &[Value], nlive: usize, efs: &[usize]) -> Vec<Obs> {
    let mut out = vec![];
    for &ef in efs {
        let mut ctx = HnswSearchContext::new(ef, 1024);
        for (qi, e) in exp.iter().enumerate() {
            let q = vec_of(&e["q"]);
            for k in ks_for(nlive) {
                for api in ["search", "search_filtered"] {
                    let r = guarded(|| -> Result<Vec<SearchResult>, String> {
                        if api == "search" {
                            idx.search(&q, k, &mut ctx, |rid| table.get(&rid).cloned()).map_err(|e| format!("{:#}", e))
                        } else {
                            idx.search_filtered(&q, k, &mut ctx, |rid| table.get(&rid).cloned(), |rid| table.contains_key(&rid)).map_err(|e| format!("{:#}", e))
                        }
                    });
                    let (rows, dist, err) = match r {
                        Ok(Ok(v)) => (v.iter().map(|s| s.row_id).collect(), v.iter().map(|s| format!("{:?}", s.distance)).collect(), None),
                        Ok(Err(e)) => (vec![], vec![], Some(format!("error: {e}"))),
                        Err(p) => (vec![], vec![], Some(format!("panic: {p}"))),
                    };
                    out.push(Obs { api, ef, q: q.clone(), qi, k, rows, dist, err });
                }
            }
        }
    }
    out
}

fn dist_table(e: &Value) -> HashMap<u64, i64> {
    e["d"].as_array().unwrap().iter().map(|p| (p[0].as_u64().unwrap(), p[1].as_i64().unwrap())).collect()
}

fn obs_json(step: usize, o: &Obs, clauses: &[&str]) -> Value {
    json!({"step": step, "api": o.api, "ef": o.ef, "q": o.q, "k": o.k, "R": o.rows, "reported": o.dist, "clauses": clauses, "err": o.err})
}

fn open_index(path: &Path, m: u16, efc: u16, dim: u16) -> Result<PersistentHnswIndex, String> {
    PersistentHnswIndex::create(path, 1, 1, dim, m, efc, 32, DistanceFunction::L2, QuantizationType::None).map_err(|e| format!("{:#}", e))
}

fn replay_api(case: &Value) -> Value {
    let sc = Scratch::new(&format!("hnsw-{}", std::process::id()));
    let path = sc.path.join("t_iv.hnsw");
    let m = case["m"].as_u64().unwrap_or(16) as u16;
    let efc = case["efc"].as_u64().unwrap_or(100) as u16;
    let efs: Vec<usize> = case["efs"].as_array().map(|a| a.iter().map(|x| x.as_u64().unwrap() as usize).collect()).unwrap_or(vec![64]);
    let every = case["every"].as_bool().unwrap_or(false);
    let hist = case["hist"].as_array().unwrap();
    let dim = hist.iter().find(|s| s["a"] == "ins").map(|s| s["v"].as_array().unwrap().len()).unwrap_or(2) as u16;
    let mut idx = match open_index(&path, m, efc, dim) {
        Ok(i) => Some(i),
        Err(e) => return json!({"id": case["id"], "fatal": e}),
    };
    let mut table: HashMap<u64, Vec<f32>> = HashMap::new();
    let mut steps: Vec<Value> = vec![];
    let (mut viol, mut sample): (Vec<Value>, Vec<Value>) = (vec![], vec![]);
    let mut nsearch = 0usize;
    let mut seen_sig: HashSet<(String, String)> = HashSet::new();
    for (i, st) in hist.iter().enumerate() {
        let a = st["a"].as_str().unwrap_or("");
        let id = st["id"].as_u64().unwrap_or(0);
        let judged = every || i + 1 == hist.len();
        let exp: Vec<Value> = st["exp"].as_array().cloned().unwrap_or_default();
        let live: Vec<u64> = st["live"].as_array().map(|a| a.iter().map(|x| x.as_u64().unwrap()).collect()).unwrap_or_default();
        let nodes = st["nodes"].as_u64().unwrap_or(0) as usize;
        // results before a reopen (the post-state of the previous step is the same abstract state)
        progress(json!({"begin": "action", "step": i}));
        let pre = if a == "reopen" && judged && idx.is_some() { Some(run_searches(idx.as_ref().unwrap(), &table, &exp, live.len(), &efs)) } else { None };
        let res: Result<Result<(), String>, String> = {
            let table_ref = &mut table;
            let idx_ref = &mut idx;
            let path = &path;
            guarded(move || -> Result<(), String> {
                match a {
                    "ins" => {
                        let v = vec_of(&st["v"]);
                        let r = {
                            let t: &HashMap<u64, Vec<f32>> = table_ref;
                            idx_ref.as_mut().ok_or("index not open")?.insert_with_callback(id, &v, random_for_level(st["lvl"].as_u64().unwrap_or(0), m), |rid| t.get(&rid).cloned())
                        };
                        // the row exists in the "table" whether or not the index accepted it
                        table_ref.insert(id, v);
                        r.map(|_| ()).map_err(|e| format!("{:#}", e))
                    }
                    "del" => {
                        table_ref.remove(&id);
                        idx_ref.as_mut().ok_or("index not open")?.delete_by_row_id(id).map_err(|e| format!("{:#}", e))
                    }
                    "upd" => {
                        // what dml/update.rs does: delete_by_row_id then insert under the same row id
                        let v = vec_of(&st["v"]);
                        table_ref.remove(&id);
                        let ix = idx_ref.as_mut().ok_or("index not open")?;
                        let r1 = ix.delete_by_row_id(id).map_err(|e| format!("delete: {:#}", e));
                        let r2 = {
                            let t: &HashMap<u64, Vec<f32>> = table_ref;
                            ix.insert_with_callback(id, &v, random_for_level(st["lvl"].as_u64().unwrap_or(0), m), |rid| t.get(&rid).cloned())
                        };
                        table_ref.insert(id, v);
                        r1?;
                        r2.map(|_| ()).map_err(|e| format!("insert: {:#}", e))
                    }
                    "vac" => idx_ref.as_mut().ok_or("index not open")?.vacuum_batch(1000).map(|_| ()).map_err(|e| format!("{:#}", e)),
                    "reopen" => {
                        if let Some(ix) = idx_ref.as_mut() {
                            ix.sync().map_err(|e| format!("sync: {:#}", e))?;
                        }
                        *idx_ref = None;
                        *idx_ref = Some(PersistentHnswIndex::open(path).map_err(|e| format!("open: {:#}", e))?);
                        Ok(())
                    }
                    other => Err(format!("unknown action {other}")),
                }
            })
        };
        let resj = match &res {
            Ok(Ok(())) => json!("ok"),
            Ok(Err(e)) => json!({"err": e}),
            Err(p) => json!({"panic": p}),
        };
        progress(json!({"step_res": resj, "step": i}));
        steps.push(resj);
        if idx.is_none() {
            break;
        }
        if !judged {
            continue;
        }
        progress(json!({"begin": "search", "step": i}));
        let (v0, s0) = (viol.len(), sample.len());
        let obs = run_searches(idx.as_ref().unwrap(), &table, &exp, live.len(), &efs);
        nsearch += obs.len();
        let tables: Vec<HashMap<u64, i64>> = exp.iter().map(dist_table).collect();
        for (j, o) in obs.iter().enumerate() {
            let mut bad: Vec<&str> = if o.err.is_some() { vec!["no_error"] } else { failed_clauses(&o.rows, &tables[o.qi], o.k, nodes, o.ef) };
            if let Some(p) = &pre {
                if p[j].rows != o.rows || p[j].dist != o.dist || p[j].err != o.err {
                    bad.push("reopen_same");
                }
            }
            if bad.is_empty() {
                if sample.len() < 3 && (j * 7 + i) % 11 == 0 {
                    sample.push(obs_json(i, o, &bad));
                }
            } else {
                let key = (o.api.to_string(), bad.join("+"));
                if seen_sig.insert(key) || viol.len() < 6 {
                    let mut v = obs_json(i, o, &bad);
                    if let Some(p) = &pre {
                        v["before_reopen"] = json!({"R": p[j].rows, "reported": p[j].dist});
                    }
                    viol.push(v);
                }
            }
        }
        progress(json!({"searched": i, "nsearch": obs.len(), "viol": &viol[v0..], "sample": &sample[s0..]}));
    }
    drop(idx);
    json!({"id": case["id"], "steps": steps, "nsearch": nsearch, "viol": viol, "sample": sample})
}

/// The same behaviours through SQL: a table with an HNSW index; after the history the exact ORDER BY path is judged
/// by ValidSearch w.r.t. the model's live rows, and the index FILE maintained by the DML is opened and searched.
fn replay_sql(case: &Value) -> Value {
    use crate::sqlrun::Session;
    let sc = Scratch::new(&format!("hnswsql-{}", std::process::id()));
    let dir = sc.path.join("db");
    let hist = case["hist"].as_array().unwrap();
    let efs: Vec<usize> = case["efs"].as_array().map(|a| a.iter().map(|x| x.as_u64().unwrap() as usize).collect()).unwrap_or(vec![64]);
    let lit = case["lit"].as_bool().unwrap_or(false);
    let mut s = match Session::new(&dir) {
        Ok(s) => s,
        Err(e) => return json!({"id": case["id"], "fatal": e}),
    };
    let dim = hist.iter().find(|s| s["a"] == "ins").map(|s| s["v"].as_array().unwrap().len()).unwrap_or(2);
    let mut steps: Vec<Value> = vec![];
    for sql in [format!("CREATE TABLE t (id BIGINT PRIMARY KEY, v VECTOR({}))", dim), "CREATE INDEX iv ON t USING HNSW (v)".to_string()] {
        let r = s.run_op(&json!({"k": "exec", "sql": sql}));
        if r.get("ok").is_none() {
            return json!({"id": case["id"], "fatal": format!("setup failed: {} -> {}", sql, r)});
        }
    }
    let vtxt = |v: &Value| format!("[{}]", v.as_array().unwrap().iter().map(|x| x.to_string()).collect::<Vec<_>>().join(","));
    // row ids are assigned in insertion order starting at 1 (one table, fresh database): row id -> model id
    let mut rowid_of: HashMap<u64, u64> = HashMap::new();
    let mut next_row = 1u64;
    let mut table: HashMap<u64, Vec<f32>> = HashMap::new(); // by model id
    let (mut viol, mut sample): (Vec<Value>, Vec<Value>) = (vec![], vec![]);
    let mut nsearch = 0usize;
    let every = case["every"].as_bool().unwrap_or(false);
    let mut hnsw_file = false;
    for (i, st) in hist.iter().enumerate() {
        let a = st["a"].as_str().unwrap_or("");
        let id = st["id"].as_u64().unwrap_or(0);
        let op = match a {
            "ins" => {
                table.insert(id, vec_of(&st["v"]));
                rowid_of.insert(next_row, id);
                next_row += 1;
                if lit {
                    json!({"k": "exec", "sql": format!("INSERT INTO t VALUES ({}, '{}')", id, vtxt(&st["v"]))})
                } else {
                    json!({"k": "params", "sql": "INSERT INTO t VALUES (?, ?)", "params": [id, {"vec": st["v"]}]})
                }
            }
            "del" => {
                table.remove(&id);
                json!({"k": "exec", "sql": format!("DELETE FROM t WHERE id = {}", id)})
            }
            "upd" => {
                table.insert(id, vec_of(&st["v"]));
                if lit {
                    json!({"k": "exec", "sql": format!("UPDATE t SET v = '{}' WHERE id = {}", vtxt(&st["v"]), id)})
                } else {
                    json!({"k": "params", "sql": format!("UPDATE t SET v = ? WHERE id = {}", id), "params": [{"vec": st["v"]}]})
                }
            }
            "reopen" => json!({"k": "reopen"}),
            _ => json!(null), // vacuum has no SQL counterpart
        };
        progress(json!({"begin": "action", "step": i}));
        let r = if op.is_null() { json!("skipped") } else { s.run_op(&op) };
        progress(json!({"step_res": r, "step": i}));
        let failed = !(r == "skipped" || r.get("ok").is_some());
        steps.push(r.clone());
        if failed {
            viol.push(json!({"step": i, "api": "dml", "clauses": ["dml_ok"], "op": op, "res": r}));
            if r.get("panic").is_some() {
                break;
            }
        }
        if !(every || i + 1 == hist.len()) {
            continue;
        }
        let exp: Vec<Value> = st["exp"].as_array().cloned().unwrap_or_default();
        let live: Vec<u64> = st["live"].as_array().map(|a| a.iter().map(|x| x.as_u64().unwrap()).collect()).unwrap_or_default();
        let tables: Vec<HashMap<u64, i64>> = exp.iter().map(dist_table).collect();
        // (a) the SQL path (the planner has no HNSW access path: this is the exact sort)
        for (qi, e) in exp.iter().enumerate() {
            for k in ks_for(live.len()) {
                let sql = format!("SELECT id FROM t ORDER BY v <-> '{}' LIMIT {}", vtxt(&e["q"]), k);
                let r = s.run_op(&json!({"k": "query", "sql": sql}));
                nsearch += 1;
                let (rows, err): (Vec<u64>, Option<String>) = match r["rows"].as_array() {
                    Some(rs) => (rs.iter().map(|x| x[0].as_u64().unwrap_or(u64::MAX)).collect(), None),
                    None => (vec![], Some(r.to_string())),
                };
                let bad: Vec<&str> = if err.is_some() { vec!["no_error"] } else { failed_clauses(&rows, &tables[qi], k, 0, usize::MAX) };
                let o = json!({"step": i, "api": "sql_order_by", "ef": 0, "q": e["q"], "k": k, "R": rows, "clauses": bad, "err": err, "sql": sql});
                if !bad.is_empty() {
                    if viol.len() < 12 {
                        viol.push(o);
                    }
                } else if sample.len() < 2 && (qi + k) % 5 == 0 {
                    sample.push(o);
                }
            }
        }
        // (b) the index file as maintained by DML, opened while the database is idle
        let path = dir.join("root").join("t_iv.hnsw");
        let by_row: HashMap<u64, Vec<f32>> = rowid_of.iter().filter_map(|(r, m)| table.get(m).map(|v| (*r, v.clone()))).collect();
        // several row ids can map to one model id after delete + re-insert: only the latest is the visible row
        let mut latest: HashMap<u64, u64> = HashMap::new();
        for (r, m) in &rowid_of {
            let e = latest.entry(*m).or_insert(*r);
            if *r > *e {
                *e = *r;
            }
        }
        let by_row: HashMap<u64, Vec<f32>> = by_row.into_iter().filter(|(r, _)| latest.get(&rowid_of[r]) == Some(r)).collect();
        if !path.exists() {
            // CREATE INDEX .. USING HNSW did not create an HNSW file (the unchanged tree builds a B-tree): nothing to open
            continue;
        }
        hnsw_file = true;
        match guarded(|| PersistentHnswIndex::open(&path).map_err(|e| format!("{:#}", e))) {
            Ok(Ok(ix)) => {
                let info = json!({"entry_point_in_header": ix.index().entry_point().map(|n| (n.page_no(), n.slot_index())), "node_count_in_header": ix.index().node_count(),
                                  "rows_mapped": rowid_of.keys().filter(|r| ix.find_node_by_row_id(**r).is_some()).count()});
                let obs = run_searches(&ix, &by_row, &exp, live.len(), &efs);
                nsearch += obs.len();
                let mut seen: HashSet<String> = HashSet::new();
                for o in &obs {
                    let rows_m: Vec<u64> = o.rows.iter().map(|r| *rowid_of.get(r).unwrap_or(&(1_000_000 + r))).collect();
                    let bad: Vec<&str> = if o.err.is_some() { vec!["no_error"] } else { failed_clauses(&rows_m, &tables[o.qi], o.k, st["nodes"].as_u64().unwrap_or(0) as usize, o.ef) };
                    if !bad.is_empty() && seen.insert(format!("{}{}", o.api, bad.join("+"))) {
                        let mut v = obs_json(i, o, &bad);
                        v["api"] = json!(format!("file_{}", o.api));
                        v["R_model_ids"] = json!(rows_m);
                        v["index_file"] = info.clone();
                        viol.push(v);
                    }
                }
            }
            Ok(Err(e)) => viol.push(json!({"step": i, "api": "file_open", "clauses": ["no_error"], "err": e})),
            Err(p) => viol.push(json!({"step": i, "api": "file_open", "clauses": ["no_error"], "err": format!("panic: {p}")})),
        }
    }
    let _ = guarded(move || drop(s));
    json!({"id": case["id"], "steps": steps, "nsearch": nsearch, "viol": viol, "sample": sample, "hnsw_file": hnsw_file})
}

fn replay_case(case: &Value) -> Value {
    match guarded(|| if case["mode"] == "sql" { replay_sql(case) } else { replay_api(case) }) {
        Ok(v) => v,
        Err(p) => json!({"id": case["id"], "fatal": format!("harness panic: {p}")}),
    }
}

/// `hnsw-one`: worker process. Cases arrive on stdin one per line; progress lines and the final result of each case go
/// to stdout. The parent (`hnsw-replay`) restarts the worker when TurDB takes it down.
pub fn one(_args: &Args) {
    CHILD.store(true, std::sync::atomic::Ordering::Relaxed);
    use std::io::BufRead;
    let stdin = std::io::stdin();
    for line in stdin.lock().lines() {
        let Ok(line) = line else { break };
        if line.trim().is_empty() {
            continue;
        }
        let case: Value = match serde_json::from_str(&line) {
            Ok(c) => c,
            Err(e) => {
                progress(json!({"final": {"fatal": format!("bad case json: {e}")}}));
                continue;
            }
        };
        let r = replay_case(&case);
        progress(json!({"final": r}));
    }
}

struct Worker {
    child: std::process::Child,
    stdin: Option<std::process::ChildStdin>,
    rx: std::sync::mpsc::Receiver<String>,
    err: std::sync::Arc<std::sync::Mutex<String>>,
}

fn spawn_worker() -> Result<Worker, String> {
    use std::io::{BufRead, BufReader, Read};
    use std::process::{Command, Stdio};
    let exe = std::env::current_exe().map_err(|e| e.to_string())?;
    // the worker's address space is capped (1 GiB): a wild allocation inside TurDB fails fast instead of eating the machine
    let mut child = Command::new("sh")
        .arg("-c")
        .arg("ulimit -v 1048576 2>/dev/null; exec \"$0\" hnsw-one")
        .arg(exe)
        .stdin(Stdio::piped())
        .stdout(Stdio::piped())
        .stderr(Stdio::piped())
        .spawn()
        .map_err(|e| format!("cannot spawn worker: {e}"))?;
    let stdin = child.stdin.take();
    let so = child.stdout.take().unwrap();
    let mut se = child.stderr.take().unwrap();
    let (tx, rx) = std::sync::mpsc::channel::<String>();
    std::thread::spawn(move || {
        for l in BufReader::new(so).lines() {
            match l {
                Ok(l) => {
                    if tx.send(l).is_err() {
                        break;
                    }
                }
                Err(_) => break,
            }
        }
    });
    let err = std::sync::Arc::new(std::sync::Mutex::new(String::new()));
    let err2 = err.clone();
    std::thread::spawn(move || {
        let mut s = String::new();
        let _ = se.read_to_string(&mut s);
        *err2.lock().unwrap() = s;
    });
    Ok(Worker { child, stdin, rx, err })
}

/// Runs one case on the worker. Ok(result) or Err(result reconstructed from the progress lines + crash record): the
/// worker is dead / killed in the second case.
fn run_on_worker(w: &mut Worker, case: &Value, watchdog_s: u64) -> Result<Value, Value> {
    use std::io::Write;
    let sent = match w.stdin.as_mut() {
        Some(si) => writeln!(si, "{}", case).and_then(|_| si.flush()).is_ok(),
        None => false,
    };
    let mut steps: Vec<Value> = vec![];
    let (mut viol, mut sample): (Vec<Value>, Vec<Value>) = (vec![], vec![]);
    let mut nsearch = 0u64;
    let mut last_begin = json!(null);
    let mut kind = "abort";
    if sent {
        let deadline = std::time::Instant::now() + std::time::Duration::from_secs(watchdog_s);
        loop {
            let left = deadline.saturating_duration_since(std::time::Instant::now());
            match w.rx.recv_timeout(left) {
                Ok(line) => {
                    let Ok(v) = serde_json::from_str::<Value>(&line) else { continue };
                    if let Some(f) = v.get("final") {
                        return Ok(f.clone());
                    }
                    if v.get("begin").is_some() {
                        last_begin = v.clone();
                    }
                    if let Some(r) = v.get("step_res") {
                        steps.push(r.clone());
                    }
                    if v.get("searched").is_some() {
                        nsearch += v["nsearch"].as_u64().unwrap_or(0);
                        viol.extend(v["viol"].as_array().cloned().unwrap_or_default());
                        sample.extend(v["sample"].as_array().cloned().unwrap_or_default());
                    }
                }
                Err(std::sync::mpsc::RecvTimeoutError::Timeout) => {
                    kind = "hang";
                    break;
                }
                Err(std::sync::mpsc::RecvTimeoutError::Disconnected) => break,
            }
        }
    }
    let _ = w.child.kill();
    let status = w.child.wait().ok().map(|s| format!("{s}"));
    std::thread::sleep(std::time::Duration::from_millis(5));
    let err = w.err.lock().unwrap().clone();
    let tail: String = err.lines().filter(|l| !l.trim().is_empty()).take(3).collect::<Vec<_>>().join(" | ");
    Err(json!({"id": case["id"], "steps": steps, "nsearch": nsearch, "viol": viol, "sample": sample,
               "crash": {"kind": kind, "phase": last_begin["begin"], "step": last_begin["step"], "status": status,
                         "stderr": tail.chars().take(300).collect::<String>()}}))
}

/// Cases run inside worker processes (one per job, restarted after a crash): an abort / stack overflow / endless loop
/// inside TurDB is data for the case that was running, never the end of the replay.
pub fn replay(args: &Args) {
    use std::io::Write;
    use std::sync::atomic::{AtomicUsize, Ordering};
    let cases = read_cases(&args.get("in", ""));
    let out = args.get("out", "/dev/stdout");
    let isolate = args.get("isolate", "1") != "0";
    let watchdog = args.num("watchdog", 30) as u64;
    let jobs = args.num("jobs", 8).max(1);
    if !isolate {
        par_run(cases, jobs, &out, move |_i, case| vec![replay_case(case)]);
        return;
    }
    let next = AtomicUsize::new(0);
    let outf = std::sync::Mutex::new(std::io::BufWriter::new(std::fs::File::create(&out).expect("create out")));
    std::thread::scope(|sc| {
        for _ in 0..jobs {
            sc.spawn(|| {
                let mut w: Option<Worker> = None;
                loop {
                    let i = next.fetch_add(1, Ordering::SeqCst);
                    if i >= cases.len() {
                        break;
                    }
                    if w.is_none() {
                        w = spawn_worker().ok();
                    }
                    let res = match w.as_mut() {
                        None => json!({"id": cases[i]["id"], "fatal": "cannot spawn worker process"}),
                        Some(wk) => match run_on_worker(wk, &cases[i], watchdog) {
                            Ok(v) => v,
                            Err(v) => {
                                w = None;
                                v
                            }
                        },
                    };
                    let mut g = outf.lock().unwrap();
                    writeln!(g, "{}", res).unwrap();
                }
                if let Some(mut wk) = w {
                    drop(wk.stdin.take());
                    let _ = wk.child.wait();
                }
            });
        }
    });
    outf.lock().unwrap().flush().unwrap();
    let _ = std::fs::remove_dir_all(scratch_root());
}

/// SQ8 cases: {"id", "min":int, "unit_exp":e, "u":[ints]}: the vector is (min + u[i]) * 2^-e (exact in f32).
/// Output: decoded values in the same integer units (exact when representable; else the float as a string).
pub fn sq8(args: &Args) {
    let cases = read_cases(&args.get("in", ""));
    let out = args.get("out", "/dev/stdout");
    par_run(cases, args.num("jobs", 4), &out, move |_i, case| {
        let e = case["unit_exp"].as_i64().unwrap_or(0) as i32;
        let unit = (2.0f64).powi(-e);
        let min = case["min"].as_i64().unwrap_or(0);
        let u: Vec<i64> = case["u"].as_array().unwrap().iter().map(|x| x.as_i64().unwrap()).collect();
        let vals: Vec<f32> = u.iter().map(|x| ((min + x) as f64 * unit) as f32).collect();
        let exact_in = u.iter().zip(&vals).all(|(x, v)| (*v as f64) == (min + x) as f64 * unit);
        let to_units = |xs: &[f32]| -> Vec<Value> {
            xs.iter()
                .map(|x| {
                    let t = (*x as f64) / unit - min as f64;
                    if t.fract() == 0.0 && t.abs() < 1e15 { json!(t as i64) } else { json!({"f": format!("{:?}", t)}) }
                })
                .collect()
        };
        let r = guarded(|| {
            let s = SQ8Vector::from_f32(&vals);
            let dec = s.decode();
            let mut into = vec![0f32; vals.len()];
            s.decode_into(&mut into);
            let mut buf = vec![0u8; s.serialized_size()];
            s.write_to(&mut buf);
            let back = SQ8Vector::read_from(&buf, vals.len()).map(|b| b.decode()).map_err(|e| format!("{:#}", e));
            let mut via_ref = vec![0f32; vals.len()];
            let rr = SQ8VectorRef::from_bytes(&buf).map(|r| r.decode_into(&mut via_ref)).map_err(|e| format!("{:#}", e));
            json!({"codes": s.data(), "scale_units": (s.scale() as f64) / unit, "min_units": (s.min() as f64) / unit - min as f64,
                   "decode": to_units(&dec), "decode_into": to_units(&into),
                   "stored_decode": match back { Ok(b) => json!(to_units(&b)), Err(e) => json!({"err": e}) },
                   "ref_decode": match rr { Ok(()) => json!(to_units(&via_ref)), Err(e) => json!({"err": e}) }})
        });
        vec![match r {
            Ok(v) => json!({"id": case["id"], "exact_input": exact_in, "obs": v}),
            Err(p) => json!({"id": case["id"], "panic": p}),
        }]
    });
}

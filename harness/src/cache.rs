//! C35: behaviours of PageCache.tla replayed on the real `PageCache` (+ `MemoryBudget`).
//!
//! `cache-replay`  every line TLC emitted (`<<"T", json>>`: cfg, hist = schedule with expected results, obs = expected
//!                 final observation) is executed on a fresh `PageCache::with_budget`:
//!                 * call-level behaviours (cfg.fine = false) in ONE OS thread - the logical threads only own PageRefs;
//!                 * fine-grained behaviours (cfg.fine = true) through the puppeteer at the hook points
//!                   `cache.goi.after_fast_miss`, `cache.clear.after_len|before_shard|after_shards`
//!                   (proposed/C35-cache-hooks.diff); skipped (and counted) when the hooks are not compiled in.
//!                 After EVERY step the property is judged on what the real cache shows (PinnedStays, DataIsLastWrite,
//!                 WithinCapacity, budget accounting at quiescent points); after the last step the real observation is
//!                 compared with the model's.
//! `cache-stress`  three free-running OS threads, seeded; judged only on what does not depend on the schedule.
//! `cache-probe`   prints whether the hooks are present.
use crate::sched::{set_park_only, Puppeteer, StepResult};
use crate::util::*;
use serde_json::{json, Map, Value};
use std::io::{BufRead, BufReader, Write};
use std::sync::atomic::{AtomicBool, AtomicU64, AtomicUsize, Ordering};
use std::sync::{Arc, Mutex};
use std::time::{Duration, Instant};
use turdb::memory::{MemoryBudget, Pool};
use turdb::storage::{PageCache, PageKey, PageRef, PAGE_SIZE};

const SHARD_A: u32 = 31; // real shard index of model shard 1: (1*31 + 0) % 64
const TOTAL_CAP_PER_SHARD: usize = 64; // CACHE_SHARD_COUNT

type Stamp = (u32, u32, u32); // key, thread (1-based), call number of that thread

fn page_key(k: u32, shard: u32) -> PageKey {
    // keys of model shard 1 -> real shard 31, of model shard 2 -> real shard 32 (cleared right after 31)
    PageKey::new(1, (shard - 1) + 64 * (k - 1))
}

fn put_stamp(buf: &mut [u8], s: Stamp) {
    for off in [0usize, PAGE_SIZE - 12] {
        buf[off..off + 4].copy_from_slice(&s.0.to_le_bytes());
        buf[off + 4..off + 8].copy_from_slice(&s.1.to_le_bytes());
        buf[off + 8..off + 12].copy_from_slice(&s.2.to_le_bytes());
    }
}

fn get_stamp(buf: &[u8]) -> Result<Stamp, String> {
    let rd = |off: usize| -> Stamp {
        (
            u32::from_le_bytes(buf[off..off + 4].try_into().unwrap()),
            u32::from_le_bytes(buf[off + 4..off + 8].try_into().unwrap()),
            u32::from_le_bytes(buf[off + 8..off + 12].try_into().unwrap()),
        )
    };
    let (a, b) = (rd(0), rd(PAGE_SIZE - 12));
    if a == b {
        Ok(a)
    } else {
        Err(format!("torn page: head {:?} tail {:?}", a, b))
    }
}

fn num_of(v: &Value) -> u32 {
    // "k2" / "t1" -> 2 / 1 ; integers pass
    match v {
        Value::String(s) => s.trim_start_matches(|c: char| c.is_alphabetic()).parse().unwrap_or(0),
        Value::Number(n) => n.as_u64().unwrap_or(0) as u32,
        _ => 0,
    }
}

struct HeldRef {
    r: Option<PageRef<'static>>,
    key: u32,
    gen: u64,
    lost: Option<String>,
}

/// harness-side ghosts, fed only by what the harness itself did and saw
struct Ghost {
    gen: Vec<u64>,            // successful init calls per key
    last: Vec<Option<Stamp>>, // what was last written for the key (init counts)
}

struct World {
    // declared first: PageRefs must be dropped before the cache they point into
    refs: Vec<Mutex<Vec<HeldRef>>>,
    ghost: Mutex<Ghost>,
    cache: Arc<PageCache>,
    budget: Arc<MemoryBudget>,
    shard_of: Vec<u32>, // by key number (index 0 unused)
    ballast: usize,
    selftest: String,
}
// PageRef is a (&PageCache, PageKey): fine to move between threads
unsafe impl Send for World {}
unsafe impl Sync for World {}

impl World {
    fn new(nthreads: usize, shard_of: Vec<u32>, budget_pages: usize, ballast: usize, selftest: &str) -> Result<World, String> {
        let limit = 4 * 1024 * 1024; // MIN_BUDGET_FLOOR = 256 pages
        let budget = Arc::new(MemoryBudget::with_limit(limit));
        if ballast > 0 {
            // other consumers: `ballast` pages of the Cache pool, and the shared pool filled so that exactly
            // `budget_pages` more cache pages can be allocated (see notes/C35.md for the arithmetic)
            if ballast + budget_pages != 33 {
                return Err(format!("budget arrangement needs ballast + budget_pages = 33, got {} + {}", ballast, budget_pages));
            }
            budget.allocate(Pool::Cache, ballast * PAGE_SIZE).map_err(|e| e.to_string())?;
            budget.allocate(Pool::Shared, (256 - 33) * PAGE_SIZE).map_err(|e| e.to_string())?;
            // self-check of the arrangement: can_allocate flips exactly after budget_pages pages, and allocate agrees
            for a in 0..budget_pages {
                if !budget.can_allocate(Pool::Cache, PAGE_SIZE) || budget.allocate(Pool::Cache, PAGE_SIZE).is_err() {
                    return Err(format!("budget arrangement: page {} of {} not allocatable", a + 1, budget_pages));
                }
            }
            if budget.can_allocate(Pool::Cache, PAGE_SIZE) {
                return Err("budget arrangement: more pages allocatable than BudgetPages".into());
            }
            budget.release(Pool::Cache, budget_pages * PAGE_SIZE);
        }
        let cache = Arc::new(PageCache::with_budget(2 * TOTAL_CAP_PER_SHARD, Some(budget.clone())).map_err(|e| e.to_string())?);
        let nkeys = shard_of.len();
        Ok(World {
            refs: (0..nthreads).map(|_| Mutex::new(vec![])).collect(),
            ghost: Mutex::new(Ghost { gen: vec![0; nkeys], last: vec![None; nkeys] }),
            cache,
            budget,
            shard_of,
            ballast,
            selftest: selftest.to_string(),
        })
    }

    fn key(&self, k: u32) -> PageKey {
        page_key(k, self.shard_of[k as usize])
    }

    fn cache_ref(&self) -> &'static PageCache {
        // SAFETY: every PageRef lives in self.refs, which is dropped before self.cache (field order)
        unsafe { &*(Arc::as_ptr(&self.cache)) }
    }

    fn push_ref(&self, t: usize, k: u32, r: PageRef<'static>) {
        let gen = self.ghost.lock().unwrap().gen[k as usize];
        self.refs[t].lock().unwrap().push(HeldRef { r: Some(r), key: k, gen, lost: None });
    }

    /// one whole public call of logical thread t; returns the result class
    fn exec(&self, t: usize, op: &Value) -> Value {
        let a = op["a"].as_str().unwrap_or("");
        let k = num_of(&op["k"]);
        let i = op["i"].as_u64().unwrap_or(0) as usize;
        let n = op["n"].as_u64().unwrap_or(0) as u32;
        let cache = self.cache_ref();
        let r = guarded(|| -> Value {
            match a {
                "get" => match cache.get(&self.key(k)) {
                    Some(r) => {
                        self.push_ref(t, k, r);
                        json!("hit")
                    }
                    None => json!("miss"),
                },
                "goi" => {
                    if self.selftest == "unpin" && t > 0 {
                        // SELFTEST: misuse the public unpin so that the cache evicts a page another thread holds
                        for (u, rs) in self.refs.iter().enumerate() {
                            if u != t {
                                for h in rs.lock().unwrap().iter() {
                                    cache.unpin(&self.key(h.key));
                                }
                            }
                        }
                    }
                    let fail = op["f"].as_bool().unwrap_or(false);
                    let called = AtomicBool::new(false);
                    let st: Stamp = (k, t as u32 + 1, n);
                    let res = cache.get_or_insert(self.key(k), |buf| {
                        called.store(true, Ordering::SeqCst);
                        if fail {
                            eyre::bail!("init failed (injected)");
                        }
                        put_stamp(buf, st);
                        Ok(())
                    });
                    match res {
                        Ok(r) => {
                            let ins = called.load(Ordering::SeqCst);
                            if ins {
                                let mut g = self.ghost.lock().unwrap();
                                g.gen[k as usize] += 1;
                                g.last[k as usize] = Some(st);
                            }
                            self.push_ref(t, k, r);
                            json!(if ins { "inserted" } else { "hit" })
                        }
                        Err(e) => {
                            let m = e.to_string();
                            if m.contains("init failed (injected)") {
                                json!("err_init")
                            } else if m.contains("memory budget exhausted and no evictable pages") {
                                json!("err_budget")
                            } else if m.contains("cache shard full and all pages pinned") {
                                json!("err_full")
                            } else {
                                json!(format!("err_other: {}", m))
                            }
                        }
                    }
                }
                "write" => {
                    let mut h = {
                        let mut rs = self.refs[t].lock().unwrap();
                        if i == 0 || i > rs.len() {
                            return json!("harness_error: no such ref");
                        }
                        rs[i - 1].r.take()
                    };
                    let key = self.refs[t].lock().unwrap()[i - 1].key;
                    let st: Stamp = if self.selftest == "data" { (key % 3 + 1, t as u32 + 1, n) } else { (key, t as u32 + 1, n) };
                    let w = guarded(|| {
                        let buf = h.as_mut().unwrap().data_mut();
                        put_stamp(buf, st);
                    });
                    self.refs[t].lock().unwrap()[i - 1].r = h;
                    match w {
                        Ok(()) => {
                            self.ghost.lock().unwrap().last[key as usize] = Some((key, t as u32 + 1, n));
                            json!("ok")
                        }
                        Err(p) => json!(if p.contains("page not in cache") { "panic".to_string() } else { format!("panic: {}", p) }),
                    }
                }
                "unpin" => {
                    let h = {
                        let mut rs = self.refs[t].lock().unwrap();
                        if i == 0 || i > rs.len() {
                            return json!("harness_error: no such ref");
                        }
                        rs.remove(i - 1)
                    };
                    drop(h);
                    json!("ok")
                }
                "clear" | "clear_len" => {
                    cache.clear();
                    json!("ok")
                }
                "evict_all" => {
                    let c = cache.evict_all_unpinned();
                    if self.selftest == "budget" {
                        let _ = self.budget.allocate(Pool::Cache, PAGE_SIZE);
                    }
                    json!({ "evicted": c })
                }
                other => json!(format!("harness_error: unknown action {}", other)),
            }
        });
        match r {
            Ok(v) => v,
            Err(p) => json!(format!("panic: {}", p)),
        }
    }

    /// non-perturbing observation: (present stamp or None or Err) per key, dirty, len, budget pages beyond the ballast
    fn observe(&self) -> Observation {
        let nk = self.shard_of.len();
        let mut keys = vec![];
        for k in 1..nk as u32 {
            let pk = self.key(k);
            let d = self.cache.data(&pk).map(get_stamp);
            keys.push((k, d, self.cache.is_dirty(&pk)));
        }
        let used = self.budget.stats().cache_used;
        Observation { keys, len: self.cache.len(), used_bytes: used as i64 - (self.ballast * PAGE_SIZE) as i64 }
    }
}

struct Observation {
    keys: Vec<(u32, Option<Result<Stamp, String>>, bool)>,
    len: usize,
    used_bytes: i64,
}

fn stamp_json(s: &Stamp) -> Value {
    json!([s.0, s.1, s.2])
}

fn model_stamp(v: &Value) -> Stamp {
    (num_of(&v[0]), num_of(&v[1]), num_of(&v[2]))
}

fn result_matches(step: &Value, got: &Value) -> bool {
    let a = step["a"].as_str().unwrap_or("");
    if a == "evict_all" {
        return got["evicted"].as_u64() == Some(num_of(&step["k"]) as u64);
    }
    got.as_str() == step["res"].as_str()
}

/// the judge: called after every step with the real observation
struct Judge {
    cap: usize,
    problems: Vec<Value>,
    last_quiescent_drift: i64,
    predicted_panics: usize,
}

impl Judge {
    fn after_step(&mut self, w: &World, idx: usize, step: &Value, quiescent: bool) -> Observation {
        let o = w.observe();
        let a = step["a"].as_str().unwrap_or("");
        // PinnedStays: the entry a live PageRef pinned is still cached
        {
            let g = w.ghost.lock().unwrap();
            for (t, rs) in w.refs.iter().enumerate() {
                for (i, h) in rs.lock().unwrap().iter_mut().enumerate() {
                    if h.lost.is_some() {
                        continue;
                    }
                    let present = matches!(o.keys[h.key as usize - 1].1, Some(_));
                    if !present || g.gen[h.key as usize] != h.gen {
                        h.lost = Some(a.to_string());
                        self.problems.push(json!({"kind": "pinned_lost", "step": idx, "t": t + 1, "i": i + 1, "key": h.key, "by": a,
                            "how": if present { "replaced" } else { "absent" }}));
                    }
                }
            }
            // DataIsLastWrite
            for (k, d, _) in &o.keys {
                match d {
                    Some(Ok(s)) => {
                        if Some(*s) != g.last[*k as usize] {
                            self.problems.push(json!({"kind": "data_mismatch", "step": idx, "key": k, "observed": stamp_json(s),
                                "last_written": g.last[*k as usize].as_ref().map(stamp_json)}));
                        }
                    }
                    Some(Err(e)) => self.problems.push(json!({"kind": "data_mismatch", "step": idx, "key": k, "observed": e})),
                    None => {}
                }
            }
        }
        // WithinCapacity (only the model's keys are ever inserted)
        let mut per_shard: std::collections::BTreeMap<u32, usize> = Default::default();
        for (k, d, _) in &o.keys {
            if d.is_some() {
                *per_shard.entry(w.shard_of[*k as usize]).or_default() += 1;
            }
        }
        for (s, c) in &per_shard {
            if *c > self.cap {
                self.problems.push(json!({"kind": "capacity", "step": idx, "shard": s, "entries": c, "cap": self.cap}));
            }
        }
        let present: usize = per_shard.values().sum();
        if present != o.len {
            self.problems.push(json!({"kind": "len_mismatch", "step": idx, "len": o.len, "present_keys": present}));
        }
        // BudgetMatches / BudgetZeroWhenEmpty at quiescent points
        if quiescent {
            if o.used_bytes % PAGE_SIZE as i64 != 0 {
                self.problems.push(json!({"kind": "budget_not_page_multiple", "step": idx, "used_bytes": o.used_bytes}));
            }
            let drift = o.used_bytes / PAGE_SIZE as i64 - o.len as i64;
            if drift != self.last_quiescent_drift {
                self.problems.push(json!({"kind": "budget_drift", "step": idx, "before": self.last_quiescent_drift, "after": drift,
                    "a": a, "res": step["res"], "len": o.len, "used_pages": o.used_bytes / PAGE_SIZE as i64, "empty": o.len == 0}));
                self.last_quiescent_drift = drift;
            }
        }
        o
    }

    /// model observation vs real observation after the last step
    fn compare_final(&mut self, w: &World, idx: usize, o: &Observation, obs: &Value) {
        let mut diffs = vec![];
        if let Some(ks) = obs["keys"].as_array() {
            for mk in ks {
                let k = num_of(&mk["k"]);
                let (_, d, dirty) = &o.keys[k as usize - 1];
                let mp = mk["p"].as_bool().unwrap_or(false);
                match d {
                    None => {
                        if mp {
                            diffs.push(json!({"key": k, "model": "present", "real": "absent"}));
                        }
                    }
                    Some(Ok(s)) => {
                        if !mp {
                            diffs.push(json!({"key": k, "model": "absent", "real": stamp_json(s)}));
                        } else {
                            if model_stamp(&mk["data"]) != *s {
                                diffs.push(json!({"key": k, "model_data": mk["data"], "real_data": stamp_json(s)}));
                            }
                            if mk["dirty"].as_bool() != Some(*dirty) {
                                diffs.push(json!({"key": k, "model_dirty": mk["dirty"], "real_dirty": dirty}));
                            }
                        }
                    }
                    Some(Err(e)) => diffs.push(json!({"key": k, "real": e})),
                }
            }
        }
        if obs["len"].as_u64() != Some(o.len as u64) {
            diffs.push(json!({"model_len": obs["len"], "real_len": o.len}));
        }
        if obs["quiescent"].as_bool() == Some(true) && obs["used"].as_i64().map(|u| u * PAGE_SIZE as i64) != Some(o.used_bytes) {
            diffs.push(json!({"model_used_pages": obs["used"], "real_used_bytes": o.used_bytes}));
        }
        // the model's ghost `lost` against the harness's own
        for (t, rs) in w.refs.iter().enumerate() {
            let mh = &obs["held"][format!("t{}", t + 1)];
            let rs = rs.lock().unwrap();
            let ml = mh.as_array().map(|a| a.len()).unwrap_or(0);
            if ml != rs.len() {
                diffs.push(json!({"thread": t + 1, "model_refs": ml, "real_refs": rs.len()}));
                continue;
            }
            for (i, h) in rs.iter().enumerate() {
                let m_lost = mh[i]["lost"].as_str().unwrap_or("") != "";
                if m_lost != h.lost.is_some() || num_of(&mh[i]["key"]) != h.key {
                    diffs.push(json!({"thread": t + 1, "ref": i + 1, "model": mh[i], "real_lost": h.lost, "real_key": h.key}));
                }
            }
        }
        if !diffs.is_empty() {
            self.problems.push(json!({"kind": "state", "step": idx, "diffs": diffs}));
        }
    }
}

fn shard_table(cfg: &Value) -> Vec<u32> {
    let mut v = vec![0u32; 1];
    if let Some(a) = cfg["shards"].as_array() {
        for p in a {
            let k = num_of(&p[0]) as usize;
            if v.len() <= k {
                v.resize(k + 1, 1);
            }
            v[k] = num_of(&p[1]);
        }
    }
    v
}

fn run_call_level(case: &Value, selftest: &str) -> (Vec<Value>, usize) {
    let cfg = &case["cfg"];
    let hist = case["hist"].as_array().unwrap();
    let nthreads = cfg["nthreads"].as_u64().unwrap_or(2) as usize;
    let w = match World::new(nthreads, shard_table(cfg), cfg["budget"].as_u64().unwrap_or(99) as usize, cfg["ballast"].as_u64().unwrap_or(0) as usize, selftest) {
        Ok(w) => w,
        Err(e) => return (vec![json!({"kind": "harness_error", "msg": e})], 0),
    };
    let mut j = Judge { cap: cfg["cap"].as_u64().unwrap_or(2) as usize, problems: vec![], last_quiescent_drift: 0, predicted_panics: 0 };
    let last = hist.len() - 1;
    for (idx, st) in hist.iter().enumerate() {
        let t = num_of(&st["t"]) as usize - 1;
        let got = w.exec(t, st);
        if !result_matches(st, &got) {
            j.problems.push(json!({"kind": "result", "step": idx, "a": st["a"], "expected": if st["a"] == "evict_all" { st["k"].clone() } else { st["res"].clone() }, "observed": got}));
        } else if got == "panic" {
            j.predicted_panics += 1;
        }
        let o = j.after_step(&w, idx, st, true);
        if idx == last {
            j.compare_final(&w, idx, &o, &case["obs"]);
        }
    }
    (j.problems, j.predicted_panics)
}

fn expect(problems: &mut Vec<Value>, idx: usize, r: &StepResult, want_point: Option<&str>) -> bool {
    match (r, want_point) {
        (StepResult::AtPoint(n, _), Some(p)) if n == p => true,
        (StepResult::Done(_), None) => true,
        (StepResult::Blocked, _) => {
            problems.push(json!({"kind": "blocked", "step": idx}));
            false
        }
        (other, want) => {
            problems.push(json!({"kind": "path", "step": idx, "expected": want.unwrap_or("return"), "observed": format!("{:?}", other)}));
            false
        }
    }
}

/// moves a thread parked in clear() forward to `cache.clear.before_shard` [target] (or to after_shards when target = 64)
fn advance_clear(pup: &Puppeteer, t: usize, mut at: StepResult, target: i64, problems: &mut Vec<Value>, idx: usize) -> bool {
    loop {
        let here = match &at {
            StepResult::AtPoint(n, a) if n == "cache.clear.before_shard" => a.first().copied().unwrap_or(-1),
            StepResult::AtPoint(n, _) if n == "cache.clear.after_len" => -1,
            StepResult::AtPoint(n, _) if n == "cache.clear.after_shards" => 64,
            other => {
                problems.push(json!({"kind": "path", "step": idx, "expected": "a cache.clear.* point", "observed": format!("{:?}", other)}));
                return false;
            }
        };
        if here == target {
            return true;
        }
        if here > target {
            problems.push(json!({"kind": "path", "step": idx, "expected": format!("clear at shard {}", target), "observed": format!("{:?}", at)}));
            return false;
        }
        at = pup.step(t, None);
    }
}

fn run_fine(case: &Value, selftest: &str) -> (Vec<Value>, usize) {
    let cfg = &case["cfg"];
    let hist = case["hist"].as_array().unwrap();
    let nthreads = cfg["nthreads"].as_u64().unwrap_or(2) as usize;
    let shard_of = shard_table(cfg);
    let mut model_shards: Vec<u32> = shard_of[1..].to_vec();
    model_shards.sort();
    model_shards.dedup();
    let real_idx = |s: u32| -> i64 { (SHARD_A + s - 1) as i64 };
    let w = match World::new(nthreads, shard_of, cfg["budget"].as_u64().unwrap_or(99) as usize, cfg["ballast"].as_u64().unwrap_or(0) as usize, selftest) {
        Ok(w) => Arc::new(w),
        Err(e) => return (vec![json!({"kind": "harness_error", "msg": e})], 0),
    };
    let w2 = w.clone();
    let pup = Puppeteer::new(nthreads, move |t, op| w2.exec(t, op));
    let mut j = Judge { cap: cfg["cap"].as_u64().unwrap_or(2) as usize, problems: vec![], last_quiescent_drift: 0, predicted_panics: 0 };
    let mut in_call = vec![false; nthreads];
    let last = hist.len() - 1;
    for (idx, st) in hist.iter().enumerate() {
        let t = num_of(&st["t"]) as usize - 1;
        let a = st["a"].as_str().unwrap_or("");
        let cont = st["res"] == "-";
        let mut probs = vec![];
        let (ok, done): (bool, Option<Value>) = match a {
            "goi" => {
                let r = pup.step(t, Some(st.clone()));
                let ok = expect(&mut probs, idx, &r, if cont { Some("cache.goi.after_fast_miss") } else { None });
                (ok, if let StepResult::Done(v) = r { Some(v) } else { None })
            }
            "goi_slow" | "clear_release" => {
                let r = pup.step(t, None);
                let ok = expect(&mut probs, idx, &r, None);
                (ok, if let StepResult::Done(v) = r { Some(v) } else { None })
            }
            "clear_len" => {
                let r = pup.step(t, Some(st.clone()));
                let ok = expect(&mut probs, idx, &r, Some("cache.clear.after_len")) && advance_clear(&pup, t, r, real_idx(model_shards[0]), &mut probs, idx);
                (ok, None)
            }
            "clear_shard" => {
                let s = num_of(&st["k"]);
                let next = model_shards.iter().copied().find(|x| *x > s);
                let r = pup.step(t, None);
                let ok = advance_clear(&pup, t, r, next.map(real_idx).unwrap_or(64), &mut probs, idx);
                (ok, None)
            }
            _ => {
                let r = pup.step(t, Some(st.clone()));
                let ok = expect(&mut probs, idx, &r, None);
                (ok, if let StepResult::Done(v) = r { Some(v) } else { None })
            }
        };
        j.problems.append(&mut probs);
        if !ok {
            break;
        }
        in_call[t] = done.is_none();
        if let Some(got) = done {
            // the call returned: its result is judged against the step that completes it
            let cmp = if a == "goi_slow" { json!({"a": "goi", "res": st["res"], "k": st["k"]}) } else { st.clone() };
            if !result_matches(&cmp, &got) {
                j.problems.push(json!({"kind": "result", "step": idx, "a": a, "expected": st["res"], "observed": got}));
            } else if got == "panic" {
                j.predicted_panics += 1;
            }
        }
        let quiescent = in_call.iter().all(|x| !*x);
        let o = j.after_step(&w, idx, st, quiescent);
        if idx == last {
            j.compare_final(&w, idx, &o, &case["obs"]);
        }
    }
    if !pup.drain(Duration::from_secs(5)) {
        j.problems.push(json!({"kind": "stuck"}));
        std::mem::forget(w.clone()); // a stuck thread may still use the cache
    }
    drop(pup);
    (j.problems, j.predicted_panics)
}

pub fn hooks_present() -> bool {
    set_park_only(Some(vec!["cache.".to_string()]));
    let c = Arc::new(PageCache::new(64).unwrap());
    let c2 = c.clone();
    let pup = Puppeteer::new(1, move |_t, _op| {
        c2.clear();
        json!("ok")
    });
    let r = pup.step_with_timeout(0, Some(json!({})), Duration::from_secs(10));
    let present = matches!(r, StepResult::AtPoint(ref n, _) if n == "cache.clear.after_len");
    pup.drain(Duration::from_secs(5));
    present
}

fn read_tlc_or_ndjson(path: &str) -> Vec<Value> {
    let f = std::fs::File::open(path).unwrap_or_else(|e| panic!("open {}: {}", path, e));
    let mut v = vec![];
    for l in BufReader::new(f).lines() {
        let l = l.unwrap();
        if let Some(body) = l.strip_prefix("<<\"T\", \"").and_then(|x| x.strip_suffix("\">>")) {
            let s = body.replace("\\\\", "\u{0}").replace("\\\"", "\"").replace('\u{0}', "\\");
            v.push(serde_json::from_str(&s).unwrap_or_else(|e| panic!("bad emitted line: {} ({})", l, e)));
        } else if l.starts_with('{') {
            v.push(serde_json::from_str(&l).unwrap_or_else(|e| panic!("bad json line: {} ({})", l, e)));
        }
    }
    v
}

pub fn run(cmd: &str, args: &Args) {
    match cmd {
        "cache-probe" => println!("{}", json!({"hooks_present": hooks_present()})),
        "cache-stress" => stress(args),
        _ => replay(args),
    }
}

fn replay(args: &Args) {
    let mut cases = vec![];
    for p in args.get("in", "").split(',').filter(|p| !p.is_empty()) {
        cases.append(&mut read_tlc_or_ndjson(p));
    }
    let out = args.get("out", "/dev/stdout");
    let selftest = args.get("selftest", "");
    let keep_all = args.get("verbose", "") == "1";
    let hooks = hooks_present();
    let stats = Arc::new(Mutex::new(Map::new()));
    let counters: Arc<[AtomicUsize; 6]> = Arc::new(Default::default()); // cases, steps, ok, fine_replayed, fine_skipped, predicted_panics
    let (st2, c2) = (stats.clone(), counters.clone());
    let ncases = cases.len();
    par_run(cases, args.num("jobs", 8), &out, move |i, case| {
        let fine = case["cfg"]["fine"].as_bool().unwrap_or(false);
        let hist = case["hist"].as_array().unwrap();
        let lastst = &hist[hist.len() - 1];
        {
            // non-vacuity: what the last step of the emitted behaviours is
            let key = format!("{}{}/{}", if fine { "fine:" } else { "" }, lastst["a"].as_str().unwrap_or("?"), lastst["res"].as_str().unwrap_or("?"));
            let mut m = st2.lock().unwrap();
            let e = m.entry(key).or_insert(json!(0));
            *e = json!(e.as_u64().unwrap() + 1);
            if case["removed"].as_array().map(|a| !a.is_empty()).unwrap_or(false) {
                let e = m.entry(format!("{}removes:{}", if fine { "fine:" } else { "" }, lastst["a"].as_str().unwrap_or("?"))).or_insert(json!(0));
                *e = json!(e.as_u64().unwrap() + 1);
            }
            for d in case["obs"]["dev"].as_array().map(|a| a.as_slice()).unwrap_or(&[]) {
                let e = m.entry(format!("dev:{}", d.as_str().unwrap_or("?"))).or_insert(json!(0));
                *e = json!(e.as_u64().unwrap() + 1);
            }
        }
        c2[0].fetch_add(1, Ordering::Relaxed);
        if fine && !hooks {
            c2[4].fetch_add(1, Ordering::Relaxed);
            return vec![];
        }
        let (problems, panics) = if fine { run_fine(case, &selftest) } else { run_call_level(case, &selftest) };
        c2[1].fetch_add(hist.len(), Ordering::Relaxed);
        c2[5].fetch_add(panics, Ordering::Relaxed);
        if fine {
            c2[3].fetch_add(1, Ordering::Relaxed);
        }
        if problems.is_empty() {
            c2[2].fetch_add(1, Ordering::Relaxed);
            if keep_all {
                return vec![json!({"case": i, "kind": "ok"})];
            }
            return vec![];
        }
        // every prefix of this behaviour is an emitted behaviour of its own: what happened before the last step is reported there
        let last = (hist.len() - 1) as u64;
        let relevant = problems.iter().any(|p| p["step"].as_u64() == Some(last) || matches!(p["kind"].as_str(), Some("stuck" | "harness_error" | "path" | "blocked")));
        if !relevant && !keep_all {
            return vec![];
        }
        vec![json!({"case": i, "kind": "problems", "problems": problems, "cfg": case["cfg"], "hist": case["hist"], "obs": case["obs"]})]
    });
    let mut f = std::fs::OpenOptions::new().append(true).open(&out).expect("reopen out");
    let c = &counters;
    writeln!(
        f,
        "{}",
        json!({"kind": "summary", "cases_read": ncases, "cases": c[0].load(Ordering::Relaxed), "steps": c[1].load(Ordering::Relaxed),
            "followed_without_problem": c[2].load(Ordering::Relaxed), "fine_replayed": c[3].load(Ordering::Relaxed),
            "fine_skipped_no_hooks": c[4].load(Ordering::Relaxed), "predicted_panics_observed": c[5].load(Ordering::Relaxed),
            "hooks_present": hooks, "last_step_classes": Value::Object(stats.lock().unwrap().clone())})
    )
    .unwrap();
}

// ------------------------------------------------------------------------------------------------ stress (C)
struct Rng(u64);
impl Rng {
    fn next(&mut self) -> u64 {
        self.0 ^= self.0 << 13;
        self.0 ^= self.0 >> 7;
        self.0 ^= self.0 << 17;
        self.0
    }
    fn below(&mut self, n: u64) -> u64 {
        self.next() % n
    }
}

fn pack(s: Stamp) -> u64 {
    ((s.0 as u64) << 56) | ((s.1 as u64) << 48) | s.2 as u64
}

/// Free-running threads on one small cache. No clear() while PageRefs are alive (that is the recorded finding and,
/// under real concurrency, a use-after-free). Judged: no panic; a page read through a held PageRef shows the last
/// stamp written through a PageRef (writers and readers of one key serialise on a harness mutex, the role TurDB's
/// page locks play); every page seen through a PageRef carries its own key; len() <= capacity at all times; after
/// dropping all refs + clear(): len = 0 and the Cache pool is back to zero except one page per failed init
/// (= the recorded init-error leak, reported separately).
fn stress(args: &Args) {
    let secs = args.num("secs", 3) as u64;
    let seed = args.num("seed", 1) as u64;
    let nthreads = args.num("threads", 3);
    let out = args.get("out", "/dev/stdout");
    let keys_a = 4u32; // 4 keys on a shard of capacity 2
    let keys_b = 2u32; // 2 keys on a second shard
    let nkeys = (keys_a + keys_b) as usize;
    let budget = Arc::new(MemoryBudget::with_limit(4 * 1024 * 1024));
    let cache = Arc::new(PageCache::with_budget(2 * TOTAL_CAP_PER_SHARD, Some(budget.clone())).unwrap());
    let pk = move |k: usize| -> PageKey {
        if (k as u32) < keys_a { page_key(k as u32 + 1, 1) } else { page_key(k as u32 - keys_a + 1, 2) }
    };
    let last: Arc<Vec<AtomicU64>> = Arc::new((0..nkeys).map(|_| AtomicU64::new(0)).collect());
    let latch: Arc<Vec<Mutex<()>>> = Arc::new((0..nkeys).map(|_| Mutex::new(())).collect());
    let stop = Arc::new(AtomicBool::new(false));
    let max_len = Arc::new(AtomicUsize::new(0));
    let mut hs = vec![];
    for t in 0..nthreads {
        let (cache, last, latch, stop, max_len) = (cache.clone(), last.clone(), latch.clone(), stop.clone(), max_len.clone());
        hs.push(std::thread::spawn(move || -> Value {
            let mut rng = Rng(seed.wrapping_mul(0x9E3779B97F4A7C15) ^ ((t as u64 + 1) << 32) | 1);
            let cache_ref: &'static PageCache = unsafe { &*(Arc::as_ptr(&cache)) };
            let mut held: Vec<(usize, PageRef<'static>)> = vec![];
            let mut n: u32 = 0;
            let mut fails = 0u32;
            let mut counts: std::collections::BTreeMap<String, u64> = Default::default();
            let mut problems: Vec<Value> = vec![];
            let mut log: Vec<Value> = vec![];
            let r = guarded(|| {
                while !stop.load(Ordering::Relaxed) && problems.len() < 5 {
                    n += 1;
                    let k = rng.below(nkeys as u64) as usize;
                    let choice = rng.below(100);
                    let res: String = if choice < 30 && held.len() < 2 {
                        let fail = fails < 8 && rng.below(16) == 0;
                        if fail {
                            fails += 1;
                        }
                        let st: Stamp = (k as u32 + 1, t as u32 + 1, n);
                        let last2 = last.clone();
                        match cache_ref.get_or_insert(pk(k), |buf| {
                            if fail {
                                eyre::bail!("init failed (injected)");
                            }
                            put_stamp(buf, st);
                            // the key is absent and we hold its shard exclusively: nobody has a PageRef on it
                            last2[k].store(pack(st), Ordering::SeqCst);
                            Ok(())
                        }) {
                            Ok(r) => {
                                held.push((k, r));
                                "goi/ok".into()
                            }
                            Err(e) => {
                                let m = e.to_string();
                                if m.contains("injected") { "goi/err_init".into() } else if m.contains("all pages pinned") { "goi/err_full".into() } else if m.contains("memory budget") { "goi/err_budget".into() } else { format!("goi/err_other:{}", m) }
                            }
                        }
                    } else if choice < 45 && held.len() < 2 {
                        match cache_ref.get(&pk(k)) {
                            Some(r) => {
                                held.push((k, r));
                                "get/hit".into()
                            }
                            None => "get/miss".into(),
                        }
                    } else if choice < 65 && !held.is_empty() {
                        let i = rng.below(held.len() as u64) as usize;
                        let kk = held[i].0;
                        let st: Stamp = (kk as u32 + 1, t as u32 + 1, n);
                        let _g = latch[kk].lock().unwrap();
                        put_stamp(held[i].1.data_mut(), st);
                        last[kk].store(pack(st), Ordering::SeqCst);
                        "write".into()
                    } else if choice < 85 && !held.is_empty() {
                        let i = rng.below(held.len() as u64) as usize;
                        let kk = held[i].0;
                        let _g = latch[kk].lock().unwrap();
                        match get_stamp(held[i].1.data()) {
                            Ok(s) => {
                                if s.0 != kk as u32 + 1 {
                                    problems.push(json!({"kind": "foreign_page", "thread": t + 1, "call": n, "key": kk + 1, "stamp": stamp_json(&s)}));
                                } else if pack(s) != last[kk].load(Ordering::SeqCst) {
                                    problems.push(json!({"kind": "stale_or_lost_write", "thread": t + 1, "call": n, "key": kk + 1, "stamp": stamp_json(&s), "last_written_packed": last[kk].load(Ordering::SeqCst)}));
                                }
                            }
                            Err(e) => problems.push(json!({"kind": "torn_page", "thread": t + 1, "call": n, "key": kk + 1, "detail": e})),
                        }
                        "read".into()
                    } else if choice < 97 && !held.is_empty() {
                        let i = rng.below(held.len() as u64) as usize;
                        held.remove(i);
                        "unpin".into()
                    } else if choice < 99 {
                        let l = cache_ref.len();
                        max_len.fetch_max(l, Ordering::Relaxed);
                        "len".into()
                    } else {
                        cache_ref.evict_all_unpinned();
                        "evict_all".into()
                    };
                    *counts.entry(res.clone()).or_default() += 1;
                    if log.len() < 40 {
                        log.push(json!([n, res]));
                    }
                }
            });
            held.clear();
            if let Err(p) = r {
                problems.push(json!({"kind": "panic", "thread": t + 1, "call": n, "msg": p}));
            }
            json!({"thread": t + 1, "calls": n, "counts": counts, "problems": problems, "first_calls": log})
        }));
    }
    let t0 = Instant::now();
    while t0.elapsed() < Duration::from_secs(secs) {
        std::thread::sleep(Duration::from_millis(20));
        max_len.fetch_max(cache.len(), Ordering::Relaxed);
    }
    stop.store(true, Ordering::SeqCst);
    let per_thread: Vec<Value> = hs.into_iter().map(|h| h.join().unwrap_or_else(|_| json!({"problems": [{"kind": "panic", "msg": "thread died"}]}))).collect();
    let failed_inits: u64 = per_thread.iter().map(|p| p["counts"]["goi/err_init"].as_u64().unwrap_or(0)).sum();
    let used_before_clear = budget.stats().cache_used;
    let len_before_clear = cache.len();
    cache.clear();
    let fin = json!({"kind": "stress", "seed": seed, "secs": secs, "threads": per_thread, "max_len_seen": max_len.load(Ordering::Relaxed),
        "capacity": cache.capacity(), "shard_capacity": 2, "len_bound": 4, "failed_inits": failed_inits,
        "len_before_clear": len_before_clear, "used_pages_before_clear": used_before_clear / PAGE_SIZE,
        "len_after_clear": cache.len(), "used_bytes_after_clear": budget.stats().cache_used, "page": PAGE_SIZE});
    let race = clear_race(args.num("race-ms", 0) as u64, seed);
    let mut f = std::fs::File::create(&out).expect("create out");
    writeln!(f, "{}", fin).unwrap();
    writeln!(f, "{}", race).unwrap();
}

/// clear() racing with get_or_insert (no hook needed): two threads insert pages and drop the PageRef at once (they never
/// touch page data, so a cleared entry is harmless for them), one thread calls clear() in a loop. After the join one more
/// clear() empties the cache; the Cache pool must then be back at the ballast the harness allocated itself. Whether the
/// race strikes depends on the schedule: only a non-zero drift is a result.
fn clear_race(ms: u64, seed: u64) -> Value {
    if ms == 0 {
        return json!({"kind": "race", "ran": false});
    }
    let ballast = 8usize;
    let budget = Arc::new(MemoryBudget::with_limit(4 * 1024 * 1024));
    budget.allocate(Pool::Cache, ballast * PAGE_SIZE).unwrap();
    let cache = Arc::new(PageCache::with_budget(2 * TOTAL_CAP_PER_SHARD, Some(budget.clone())).unwrap());
    let stop = Arc::new(AtomicBool::new(false));
    let mut hs = vec![];
    for t in 0..3usize {
        let (cache, stop) = (cache.clone(), stop.clone());
        hs.push(std::thread::spawn(move || -> (u64, u64, Option<String>) {
            let mut rng = Rng(seed.wrapping_mul(0xD1B54A32D192ED03) ^ ((t as u64 + 7) << 24) | 1);
            let (mut calls, mut errs) = (0u64, 0u64);
            let r = guarded(|| {
                while !stop.load(Ordering::Relaxed) {
                    calls += 1;
                    if t == 0 {
                        cache.clear();
                    } else {
                        // many shards, so that clear() is long compared with an insert
                        let key = PageKey::new(1, rng.below(96) as u32);
                        match cache.get_or_insert(key, |_| Ok(())) {
                            Ok(r) => drop(r),
                            Err(_) => errs += 1,
                        }
                    }
                }
            });
            (calls, errs, r.err())
        }));
    }
    std::thread::sleep(Duration::from_millis(ms));
    stop.store(true, Ordering::SeqCst);
    let rs: Vec<(u64, u64, Option<String>)> = hs.into_iter().map(|h| h.join().unwrap_or((0, 0, Some("thread died".into())))).collect();
    cache.clear();
    let used = budget.stats().cache_used as i64;
    json!({"kind": "race", "ran": true, "ms": ms, "clears": rs[0].0, "inserts": rs[1].0 + rs[2].0, "insert_errors": rs[1].1 + rs[2].1,
        "panics": rs.iter().filter_map(|r| r.2.clone()).collect::<Vec<_>>(), "len_after_final_clear": cache.len(),
        "drift_bytes_after_final_clear": used - (ballast * PAGE_SIZE) as i64, "page": PAGE_SIZE})
}

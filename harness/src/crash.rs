//! Crash-point enumeration (C01, C02, C40): runs a workload with the durability hooks on, and at every hook event
//! (page mutation, WAL frame write, sync, truncation, catalog/meta write step) plus every statement boundary takes
//! two snapshots of the database directory:
//!
//!   kill   byte copy of every file as the OS sees it now (user-space buffers are naturally absent)
//!   power  the sync shadow: directory structure and file lengths as they are now, file CONTENTS as of the last
//!          explicit msync/fsync of that file (zeros where never synced) - assumption A-FS of DESIGN.md
//!
//! After the workload each snapshot is opened with Database::open (recovery runs) and the verification queries are
//! executed; results go to the output for the model-side judgement.
//!
//! Input case: {"id", "setup":[op..], "work":[op..], "verify":[sql..], "models":["kill","power"], "stride":1,
//!              "recover_pragma": false}
//! Output:     {"id", "events":[[n, name, op_index, detail]..], "work_res":[..], "final":[..verify results..],
//!              "snaps":[{"n", "model", "op", "event", "open":"ok"|"err:.."|"panic:..", "res":[..]} ..]}
use crate::sqlrun::Session;
use crate::util::*;
use serde_json::{json, Value};
use std::cell::RefCell;
use std::path::{Path, PathBuf};
use std::sync::{Arc, Once};
use turdb::Database;

struct Ctx {
    active: bool,
    db: PathBuf,
    shadow: PathBuf,
    snaps: PathBuf,
    counter: u64,
    cur_op: i64,
    stride: u64,
    models: Vec<String>,
    events: Vec<Value>,
    taken: Vec<(u64, String, i64, String)>,
    max_snaps: usize,
    always: Vec<String>,
}

thread_local! {
    static CTX: RefCell<Option<Ctx>> = const { RefCell::new(None) };
}

fn walk(d: &Path, base: &Path, out: &mut Vec<(PathBuf, u64)>) {
    if let Ok(rd) = std::fs::read_dir(d) {
        for e in rd.flatten() {
            let p = e.path();
            if p.is_dir() {
                walk(&p, base, out);
            } else {
                let len = e.metadata().map(|m| m.len()).unwrap_or(0);
                out.push((p.strip_prefix(base).unwrap().to_path_buf(), len));
            }
        }
    }
}

fn copy_tree(from: &Path, to: &Path) {
    let mut fs = vec![];
    walk(from, from, &mut fs);
    std::fs::create_dir_all(to).ok();
    // empty directories matter too (wal/)
    fn dirs(d: &Path, base: &Path, to: &Path) {
        if let Ok(rd) = std::fs::read_dir(d) {
            for e in rd.flatten() {
                let p = e.path();
                if p.is_dir() {
                    std::fs::create_dir_all(to.join(p.strip_prefix(base).unwrap())).ok();
                    dirs(&p, base, to);
                }
            }
        }
    }
    dirs(from, from, to);
    for (rel, _) in fs {
        let dst = to.join(&rel);
        if let Some(par) = dst.parent() {
            std::fs::create_dir_all(par).ok();
        }
        let _ = std::fs::copy(from.join(&rel), dst);
    }
}

/// directory operations are durable at once: mirror names and lengths of the real directory into the shadow
fn mirror_structure(db: &Path, shadow: &Path) {
    let mut real = vec![];
    walk(db, db, &mut real);
    let mut sh = vec![];
    walk(shadow, shadow, &mut sh);
    let real_names: std::collections::HashSet<PathBuf> = real.iter().map(|x| x.0.clone()).collect();
    for (rel, _) in &sh {
        if !real_names.contains(rel) {
            let _ = std::fs::remove_file(shadow.join(rel));
        }
    }
    fn dirs(d: &Path, base: &Path, to: &Path) {
        if let Ok(rd) = std::fs::read_dir(d) {
            for e in rd.flatten() {
                let p = e.path();
                if p.is_dir() {
                    std::fs::create_dir_all(to.join(p.strip_prefix(base).unwrap())).ok();
                    dirs(&p, base, to);
                }
            }
        }
    }
    dirs(db, db, shadow);
    for (rel, len) in &real {
        let dst = shadow.join(rel);
        if let Some(par) = dst.parent() {
            std::fs::create_dir_all(par).ok();
        }
        let f = std::fs::OpenOptions::new().create(true).write(true).open(&dst);
        if let Ok(f) = f {
            let cur = f.metadata().map(|m| m.len()).unwrap_or(0);
            if cur != *len {
                let _ = f.set_len(*len); // truncation drops bytes, extension reads back as zeros
            }
        }
    }
}

fn on_event(name: &str, detail: String, sync_path: Option<&Path>, truncated: Option<&Path>) {
    CTX.with(|c| {
        let mut g = c.borrow_mut();
        let Some(ctx) = g.as_mut() else { return };
        if !ctx.active {
            return;
        }
        ctx.active = false; // no re-entrancy while we copy files
        ctx.counter += 1;
        let n = ctx.counter;
        if let Some(p) = truncated {
            // truncation in place: the old synced content is gone even if the file grows again before the next event
            if let Ok(rel) = p.strip_prefix(&ctx.db) {
                if let Ok(f) = std::fs::OpenOptions::new().write(true).open(ctx.shadow.join(rel)) {
                    let _ = f.set_len(0);
                }
            }
        }
        mirror_structure(&ctx.db, &ctx.shadow);
        if let Some(p) = sync_path {
            if let Ok(rel) = p.strip_prefix(&ctx.db) {
                let _ = std::fs::copy(p, ctx.shadow.join(rel));
            }
        }
        ctx.events.push(json!([n, name, ctx.cur_op, detail]));
        if (n % ctx.stride == 0 || ctx.always.iter().any(|a| a == name)) && ctx.taken.len() < ctx.max_snaps {
            for m in ctx.models.clone() {
                let dst = ctx.snaps.join(format!("{}-{}", m, n));
                if m == "kill" {
                    copy_tree(&ctx.db, &dst);
                } else {
                    copy_tree(&ctx.shadow, &dst);
                }
                ctx.taken.push((n, m, ctx.cur_op, name.to_string()));
            }
        }
        ctx.active = true;
    });
}

// ---------------------------------------------------------------------------------------------------------------
// Ground truth for "explicitly synced": the harness binary interposes the libc entry points fsync / fdatasync /
// msync (its own #[no_mangle] definitions win at link time; Rust's std and memmap2 call these symbols) and performs
// the real system call itself. What the shadow holds therefore does not depend on any source hook that a change to
// TurDB could leave behind or forget.
extern "C" {
    fn syscall(num: i64, ...) -> i64;
}
const SYS_RENAME: i64 = 82;
const SYS_UNLINK: i64 = 87;
const SYS_FTRUNCATE: i64 = 77;
const SYS_MSYNC: i64 = 26;
const SYS_FSYNC: i64 = 74;
const SYS_FDATASYNC: i64 = 75;

fn fd_path(fd: i32) -> Option<PathBuf> {
    std::fs::read_link(format!("/proc/self/fd/{}", fd)).ok()
}

fn addr_path(addr: usize) -> Option<PathBuf> {
    let maps = std::fs::read_to_string("/proc/self/maps").ok()?;
    for line in maps.lines() {
        let mut it = line.split_whitespace();
        let range = it.next()?;
        let (a, b) = range.split_once('-')?;
        let (a, b) = (usize::from_str_radix(a, 16).ok()?, usize::from_str_radix(b, 16).ok()?);
        if addr >= a && addr < b {
            let path = line.split_whitespace().nth(5)?;
            if path.starts_with('/') {
                return Some(PathBuf::from(path));
            }
            return None;
        }
    }
    None
}

fn ctx_active() -> bool {
    CTX.try_with(|c| c.try_borrow().map(|g| g.as_ref().map(|x| x.active).unwrap_or(false)).unwrap_or(false)).unwrap_or(false)
}

#[no_mangle]
pub unsafe extern "C" fn fsync(fd: i32) -> i32 {
    let r = syscall(SYS_FSYNC, fd as i64) as i32;
    if r == 0 && ctx_active() {
        if let Some(p) = fd_path(fd) {
            on_event("fsync", p.file_name().map(|s| s.to_string_lossy().to_string()).unwrap_or_default(), Some(&p), None);
        }
    }
    r
}

#[no_mangle]
pub unsafe extern "C" fn fdatasync(fd: i32) -> i32 {
    let r = syscall(SYS_FDATASYNC, fd as i64) as i32;
    if r == 0 && ctx_active() {
        if let Some(p) = fd_path(fd) {
            on_event("fsync", p.file_name().map(|s| s.to_string_lossy().to_string()).unwrap_or_default(), Some(&p), None);
        }
    }
    r
}

#[no_mangle]
pub unsafe extern "C" fn msync(addr: *mut u8, len: usize, flags: i32) -> i32 {
    let r = syscall(SYS_MSYNC, addr as i64, len as i64, flags as i64) as i32;
    if r == 0 && ctx_active() {
        if let Some(p) = addr_path(addr as usize) {
            on_event("msync", p.file_name().map(|s| s.to_string_lossy().to_string()).unwrap_or_default(), Some(&p), None);
        }
    }
    r
}

/// rename is a directory operation: durable at once (A-FS); the shadow file moves with its synced content
#[no_mangle]
pub unsafe extern "C" fn rename(old: *const std::ffi::c_char, new: *const std::ffi::c_char) -> i32 {
    let r = syscall(SYS_RENAME, old as i64, new as i64) as i32;
    if r == 0 && ctx_active() {
        let o = PathBuf::from(std::ffi::CStr::from_ptr(old).to_string_lossy().to_string());
        let n = PathBuf::from(std::ffi::CStr::from_ptr(new).to_string_lossy().to_string());
        let pair = CTX.with(|c| {
            let g = c.try_borrow().ok()?;
            let ctx = g.as_ref()?;
            let (ro, rn) = (o.strip_prefix(&ctx.db).ok()?, n.strip_prefix(&ctx.db).ok()?);
            Some((ctx.shadow.join(ro), ctx.shadow.join(rn)))
        });
        if let Some((so, sn)) = pair {
            if let (Ok(a), Ok(b)) = (std::ffi::CString::new(so.to_string_lossy().as_bytes()), std::ffi::CString::new(sn.to_string_lossy().as_bytes())) {
                syscall(SYS_RENAME, a.as_ptr() as i64, b.as_ptr() as i64);
            }
        }
        on_event("rename", n.file_name().map(|s| s.to_string_lossy().to_string()).unwrap_or_default(), None, None);
    }
    r
}

/// unlink is a directory operation too: the file is gone at once in both crash models (the mirror removes it)
#[no_mangle]
pub unsafe extern "C" fn unlink(path: *const std::ffi::c_char) -> i32 {
    let r = syscall(SYS_UNLINK, path as i64) as i32;
    if r == 0 && ctx_active() {
        let p = PathBuf::from(std::ffi::CStr::from_ptr(path).to_string_lossy().to_string());
        on_event("unlink", p.file_name().map(|s| s.to_string_lossy().to_string()).unwrap_or_default(), None, None);
    }
    r
}

/// ftruncate (File::set_len): the new length is durable at once; shrinking drops the synced bytes beyond it
#[no_mangle]
pub unsafe extern "C" fn ftruncate64(fd: i32, len: i64) -> i32 {
    let r = syscall(SYS_FTRUNCATE, fd as i64, len) as i32;
    if r == 0 && ctx_active() {
        if let Some(p) = fd_path(fd) {
            let name = p.file_name().map(|s| s.to_string_lossy().to_string()).unwrap_or_default();
            if len == 0 {
                on_event("ftruncate", name, None, Some(&p));
            } else {
                on_event("ftruncate", name, None, None);
            }
        }
    }
    r
}

#[no_mangle]
pub unsafe extern "C" fn ftruncate(fd: i32, len: i64) -> i32 {
    ftruncate64(fd, len)
}

fn install() {
    static ONCE: Once = Once::new();
    ONCE.call_once(|| {
        turdb::verif::set_handler(Some(Arc::new(|name: &'static str, args: &[i64]| {
            if name == "mmap.page_mut" && args.len() >= 2 {
                // [page, mapping address] -> "file:page"
                let f = addr_path(args[1] as usize).and_then(|p| p.file_name().map(|s| s.to_string_lossy().to_string())).unwrap_or_default();
                on_event(name, format!("{}:{}", f, args[0]), None, None);
            } else {
                on_event(name, format!("{:?}", args), None, None);
            }
        })));
        turdb::verif::set_file_handler(Some(Arc::new(|kind: &'static str, path: &Path| {
            let fname = path.file_name().map(|s| s.to_string_lossy().to_string()).unwrap_or_default();
            match kind {
                "msync" | "fsync" => {} // syncs are observed at the system-call level (see above), never through hooks
                "truncated" | "created" => on_event(kind, fname, None, Some(path)),
                _ => on_event(kind, fname, None, None),
            }
        })));
    });
}

fn verify_snapshot(dir: &Path, verify: &[Value], recover_pragma: bool) -> (String, Vec<Value>) {
    // recover_pragma: take the second recovery path - open in degraded mode, then PRAGMA recover_wal
    turdb::verif::set_force_degraded(recover_pragma);
    let opened = guarded(|| Database::open(dir));
    turdb::verif::set_force_degraded(false);
    match opened {
        Err(p) => (format!("panic:{}", p), vec![]),
        Ok(Err(e)) => (format!("err:{:#}", e), vec![]),
        Ok(Ok(db)) => {
            let mut s = Session { dir: dir.to_path_buf(), handles: vec![Some(db)] };
            let mut res = vec![];
            if recover_pragma {
                res.push(s.run_op(&json!({"k": "exec", "sql": "PRAGMA recover_wal"})));
            }
            for q in verify {
                let op = if q.is_string() { json!({"k": "query", "sql": q}) } else { q.clone() };
                let r = s.run_op(&op);
                let stop = r.get("panic").is_some();
                res.push(r);
                if stop {
                    break;
                }
            }
            let _ = guarded(move || drop(s));
            ("ok".to_string(), res)
        }
    }
}

pub fn run(args: &Args) {
    install();
    let cases = read_cases(&args.get("in", ""));
    let out = args.get("out", "/dev/stdout");
    par_run(cases, args.num("jobs", 8), &out, move |_i, case| {
        let sc = Scratch::new("crash");
        let db = sc.path.join("db");
        let shadow = sc.path.join("shadow");
        let snaps = sc.path.join("snaps");
        std::fs::create_dir_all(&shadow).unwrap();
        std::fs::create_dir_all(&snaps).unwrap();
        let empty = vec![];
        let setup = case["setup"].as_array().unwrap_or(&empty);
        let work = case["work"].as_array().unwrap_or(&empty);
        let verify = case["verify"].as_array().unwrap_or(&empty).clone();
        let models: Vec<String> = case["models"].as_array().map(|a| a.iter().map(|x| x.as_str().unwrap().to_string()).collect()).unwrap_or(vec!["kill".into(), "power".into()]);
        let mut s = match Session::new(&db) {
            Ok(s) => s,
            Err(e) => return vec![json!({"id": case["id"], "fatal": e})],
        };
        let mut setup_res = vec![];
        for op in setup {
            setup_res.push(s.run_op(op));
        }
        // the setup state counts as durable: everything is synced by closing and reopening, then both snapshots start equal
        s.run_op(&json!({"k": "close_reopen"}));
        for op in case["after_reopen"].as_array().unwrap_or(&empty) {
            setup_res.push(s.run_op(op));
        }
        copy_tree(&db, &shadow);
        CTX.with(|c| {
            *c.borrow_mut() = Some(Ctx {
                active: true,
                db: db.clone(),
                shadow: shadow.clone(),
                snaps: snaps.clone(),
                counter: 0,
                cur_op: 0,
                stride: case["stride"].as_u64().unwrap_or(1).max(1),
                models: models.clone(),
                events: vec![],
                taken: vec![],
                max_snaps: case["max_snaps"].as_u64().unwrap_or(4000) as usize,
                always: case["always"].as_array().map(|a| a.iter().filter_map(|x| x.as_str().map(|s| s.to_string())).collect()).unwrap_or_default(),
            })
        });
        let mut work_res = vec![];
        for (i, op) in work.iter().enumerate() {
            CTX.with(|c| c.borrow_mut().as_mut().unwrap().cur_op = i as i64);
            let r = if op["k"] == "close_reopen_wal" {
                // one model step: close, reopen (recovery runs), settings that are not persisted are applied again
                let r = s.run_op(&json!({"k": "close_reopen"}));
                for o in case["after_reopen"].as_array().unwrap_or(&empty) {
                    s.run_op(o);
                }
                r
            } else {
                s.run_op(op)
            };
            let panicked = r.get("panic").is_some();
            work_res.push(r);
            // statement boundary: op i is acknowledged (or failed) now
            CTX.with(|c| c.borrow_mut().as_mut().unwrap().cur_op = -(i as i64) - 1);
            on_event("op_end", format!("{}", i), None, None);
            if panicked {
                break;
            }
        }
        let ctx = CTX.with(|c| {
            let mut g = c.borrow_mut();
            g.as_mut().unwrap().active = false;
            g.take().unwrap()
        });
        // final state through the live handle
        let mut fin = vec![];
        for q in &verify {
            let op = if q.is_string() { json!({"k": "query", "sql": q}) } else { q.clone() };
            fin.push(s.run_op(&op));
        }
        let _ = guarded(move || drop(s));
        let rp = case["recover_pragma"].as_bool().unwrap_or(false);
        let mut snaps_out = vec![];
        let both_every = case["both_paths_every"].as_u64().unwrap_or(0);
        for (k, (n, m, op, ev)) in ctx.taken.iter().enumerate() {
            let dir = snaps.join(format!("{}-{}", m, n));
            let mut entry = json!({"n": n, "model": m, "op": op, "event": ev});
            if both_every > 0 && (k as u64) % both_every == 0 {
                // the same snapshot through the streaming path (degraded mode + PRAGMA recover_wal), on a copy
                let dir2 = snaps.join(format!("{}-{}-streaming", m, n));
                copy_tree(&dir, &dir2);
                let (open2, res2) = verify_snapshot(&dir2, &verify, true);
                entry["streaming_open"] = json!(open2);
                entry["streaming_res"] = json!(res2);
                let _ = std::fs::remove_dir_all(&dir2);
            }
            let (open, res) = verify_snapshot(&dir, &verify, rp);
            entry["open"] = json!(open);
            entry["res"] = json!(res);
            snaps_out.push(entry);
            let _ = std::fs::remove_dir_all(&dir);
        }
        vec![json!({"id": case["id"], "setup_res": setup_res, "events": ctx.events, "work_res": work_res, "final": fin, "snaps": snaps_out})]
    });
}

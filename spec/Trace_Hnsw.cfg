CONSTANTS Levels = {0}  MaxOps = 0  MaxNodes = 0  WithDelete = FALSE  Ids = {1}  NeighborCap = 32  PageBudget = 8128
CONSTANTS PointsOf <- TPointsOf  SlotBytes <- TSlotBytes
INIT InitO
NEXT NextO
INVARIANTS EmitO
CHECK_DEADLOCK FALSE

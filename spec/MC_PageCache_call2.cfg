\* repaired design, call level, 2 threads: every C35 property is an invariant
CONSTANTS Threads = {1, 2}  Keys = {1, 2, 3}  Cap = 2  MaxCalls = 4  MaxHeld = 2  Fine = FALSE  InitMayFail = TRUE
          BudgetPages = 2  Ballast = 31  ClearKeepsPinned = TRUE  ReleaseOnInitError = TRUE
CONSTANT ShardOf <- ShardsOneTwo
SPECIFICATION Spec
VIEW view
INVARIANTS TypeOK PinnedStays PinAccounting DataIsLastWrite WithinCapacity BudgetMatches BudgetZeroWhenEmpty
PROPERTY FreshEntryShape
CHECK_DEADLOCK FALSE

\* repaired design, call level, 2 threads (all interleavings of whole calls, up to renaming of threads / keys of a shard):
\* every C35 property is an invariant
CONSTANTS Threads = {t1, t2}  KA = {k1, k2, k3}  KB = {k4}  Cap = 2  MaxCalls = 3  MaxHeld = 2  Fine = FALSE  InitMayFail = TRUE
          BudgetPages = 3  Ballast = 30  ClearKeepsPinned = TRUE  ClearCountsUnderLock = TRUE  ReleaseOnInitError = TRUE
CONSTANT Keys <- KeysAll  ShardOf <- ShardsOneTwo
SYMMETRY Sym
SPECIFICATION Spec
VIEW view
INVARIANTS TypeOK PinnedStays PinAccounting DataIsLastWrite WithinCapacity BudgetMatches BudgetZeroWhenEmpty
PROPERTY FreshEntryShape
CHECK_DEADLOCK FALSE

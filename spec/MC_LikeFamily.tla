---------------------------- MODULE MC_LikeFamily ----------------------------
EXTENDS LikeFamily, Json
Str(s) == IF s = <<>> THEN "" ELSE LET RECURSIVE J(_) J(q) == IF q = <<>> THEN "" ELSE Head(q) \o J(Tail(q)) IN J(s)
\* one line per pattern: the texts it matches
Emit == done' => \A p \in Pats : PrintT(<<"T", ToJson([p |-> Str(p), yes |-> {Str(t) : t \in {t2 \in Texts : LikeMatch(t2, p)}}])>>)
Laws == LawPercentMatchesAll /\ LawLiteralIsEquality /\ LawUnderscoresCountChars /\ LawSuffix
=============================================================================

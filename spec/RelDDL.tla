------------------------------- MODULE RelDDL -------------------------------
(***************************************************************************)
(* Reference model of schema changes (property C21)                        *)
(*                                                                         *)
(* Catalog + rows: schemas -> tables -> ORDERED column list (type INT,     *)
(* NOT NULL, DEFAULT, PRIMARY KEY, UNIQUE) + a global list of named        *)
(* indexes. Every statement is one action with a result (ok / err, rows    *)
(* affected) and a complete post-state; an erring statement changes        *)
(* nothing. The property is the action semantics:                          *)
(*   CREATE/DROP TABLE, SCHEMA, INDEX  do what they say, names can be      *)
(*       re-used after a DROP, a UNIQUE index is refused on data that      *)
(*       violates it and enforced afterwards                               *)
(*   TRUNCATE          leaves the declaration, removes the rows            *)
(*   ADD COLUMN        existing rows read the DEFAULT (or NULL), later     *)
(*                     inserts that omit the column too                    *)
(*   DROP COLUMN       every other column keeps its values and position    *)
(*                     order; indexes and constraints on the column go     *)
(*   RENAME COLUMN     values, constraints and indexes stay with the       *)
(*                     column; the old name is gone                        *)
(*   Reopen            changes nothing                                     *)
(* interleaved with INSERT / UPDATE / DELETE on the affected tables.       *)
(*                                                                         *)
(* Two tables with the same bare name in two schemas (root.t, s1.t) and    *)
(* two declarations (V1, V2) for DROP-then-CREATE of the same name.        *)
(* Columns carry an identity `cid` next to their current name, so that the *)
(* value an INSERT gives a column (Val) does not depend on renames, and a  *)
(* shifted or swapped column is visible in every row.                      *)
(*                                                                         *)
(* Named deviation (switchable, see DESIGN 5.2): KF_add_default_reads_null *)
(* - ADD COLUMN .. DEFAULT v shows NULL in the rows that existed. When the *)
(* name is in `Dev` the model continues with that state (coverage behind   *)
(* the finding); the reference post-state is printed either way.           *)
(***************************************************************************)
EXTENDS Integers, Sequences, FiniteSets, TLC

CONSTANTS MaxOps, Dev, WithS1, WithReopen,
          Starts     \* initial databases: "empty" and / or "t2" (root.t = V1 with the rows of INSERT 1 full and INSERT 2 omit);
                     \* a history from "empty" may be one statement longer (it needs one to have a table at all)
N == -99
TKs == IF WithS1 THEN {"root.t", "s1.t"} ELSE {"root.t"}
SchemaOf(tk) == IF tk = "root.t" THEN "root" ELSE "s1"

VARIABLES start, schemas, tabs, idxs, nops, hist,
          hx        \* ghost, per table: what happened to it since the database was created (classes of DDL events, "tomb" =
                    \* a row was deleted or updated, "reopened"); part of the VIEW on purpose: the implementation keeps
                    \* tombstones, file names and cached handles, so user-equal states are explored once per history class
vars == <<start, schemas, tabs, idxs, nops, hist, hx>>
view == <<start, schemas, tabs, idxs, nops, hx>>
Limit == MaxOps + (IF start = "empty" THEN 1 ELSE 0)

Col(cid, nn, dflt, pk, uq) == [cid |-> cid, name |-> cid, nn |-> nn, dflt |-> dflt, pk |-> pk, uq |-> uq]
V1 == << Col("id", TRUE, N, TRUE, FALSE), Col("a", FALSE, N, FALSE, TRUE), Col("b", TRUE, N, FALSE, FALSE), Col("c", FALSE, 7, FALSE, FALSE) >>
V2 == << Col("id", TRUE, N, TRUE, FALSE), Col("z", FALSE, N, FALSE, FALSE) >>
Decl(v) == IF v = "V1" THEN V1 ELSE V2
Absent == [ex |-> FALSE, cols |-> <<>>, rows |-> <<>>]
Table(cols, rows) == [ex |-> TRUE, cols |-> cols, rows |-> rows]

SeqSet(s) == {s[i] : i \in 1..Len(s)}
Pos(cols, cid) == IF \E i \in 1..Len(cols) : cols[i].cid = cid THEN CHOOSE i \in 1..Len(cols) : cols[i].cid = cid ELSE 0
Names(cols) == {cols[i].name : i \in 1..Len(cols)}
RemoveAt(s, i) == [j \in 1..(Len(s) - 1) |-> IF j < i THEN s[j] ELSE s[j + 1]]

(* the value INSERT number k gives the column with identity cid *)
Val(cid, k, form) == CASE cid = "id" -> k
                       [] cid = "a" -> IF form = "dupa" THEN 10 ELSE 10 * k
                       [] cid = "b" -> IF form = "nullb" THEN N ELSE 100 * k
                       [] cid = "c" -> 1000 * k
                       [] cid = "d" -> 5000 * k
                       [] cid = "z" -> 7000 * k

(* ------------------------------------------------------------ constraints *)
UniqueCids(tk, cols) == {cols[i].cid : i \in {j \in 1..Len(cols) : cols[j].pk \/ cols[j].uq}}
                        \cup {x.cid : x \in {y \in idxs : y.tk = tk /\ y.uq}}
RowOk(cols, r) == \A i \in 1..Len(cols) : (cols[i].nn \/ cols[i].pk) => r[i] # N
UniqueOk(cols, rows, cids) == \A c \in cids : LET p == Pos(cols, c) IN
                                  p = 0 \/ \A i, j \in 1..Len(rows) : (i # j /\ rows[i][p] # N) => rows[i][p] # rows[j][p]
TableOk(tk, cols, rows) == (\A i \in 1..Len(rows) : RowOk(cols, rows[i])) /\ UniqueOk(cols, rows, UniqueCids(tk, cols))

\* the first constraint a candidate table violates ("-" if none): names the reason a statement is refused
Why(tk, cols, rows) == IF \E i \in 1..Len(rows) : \E j \in 1..Len(cols) : cols[j].pk /\ rows[i][j] = N THEN "pk_null"
                       ELSE IF \E i \in 1..Len(rows) : \E j \in 1..Len(cols) : cols[j].nn /\ rows[i][j] = N THEN "not_null"
                       ELSE IF ~UniqueOk(cols, rows, {cols[j].cid : j \in {q \in 1..Len(cols) : cols[q].pk}}) THEN "pk_dup"
                       ELSE IF ~UniqueOk(cols, rows, {cols[j].cid : j \in {q \in 1..Len(cols) : cols[q].uq}}) THEN "unique_col"
                       ELSE IF ~UniqueOk(cols, rows, UniqueCids(tk, cols)) THEN "unique_index"
                       ELSE "-"

(* ------------------------------------------------------------ results     *)
Res(ok, n, sc, tb, ix) == [ok |-> ok, n |-> n, schemas |-> sc, tabs |-> tb, idxs |-> ix, why |-> "-"]
Same(ok) == Res(ok, 0, schemas, tabs, idxs)
\* a refused statement changes nothing; `why` names the reason (it goes into finding signatures)
ErrW(why) == [Same(FALSE) EXCEPT !.why = why]
Err == ErrW("?")
SetTab(tk, t) == [tabs EXCEPT ![tk] = t]

DoCreateSchema == IF "s1" \in schemas THEN ErrW("schema_exists") ELSE Res(TRUE, 0, schemas \cup {"s1"}, tabs, idxs)
\* only an EMPTY schema is dropped (what DROP SCHEMA does to the tables of a non-empty one is left out)
DoDropSchema == IF "s1" \notin schemas THEN ErrW("no_schema") ELSE Res(TRUE, 0, schemas \ {"s1"}, tabs, idxs)
DoCreateTable(tk, v) == IF SchemaOf(tk) \notin schemas THEN ErrW("no_schema") ELSE IF tabs[tk].ex THEN ErrW("table_exists")
                        ELSE Res(TRUE, 0, schemas, SetTab(tk, Table(Decl(v), <<>>)), idxs)
DoDropTable(tk) == IF ~tabs[tk].ex THEN ErrW("no_table") ELSE Res(TRUE, 0, schemas, SetTab(tk, Absent), {x \in idxs : x.tk # tk})
DoTruncate(tk) == IF ~tabs[tk].ex THEN ErrW("no_table") ELSE Res(TRUE, Len(tabs[tk].rows), schemas, SetTab(tk, Table(tabs[tk].cols, <<>>)), idxs)
DoCreateIndex(name, tk, cid, uq) ==
    LET t == tabs[tk] IN
    IF ~t.ex THEN ErrW("no_table") ELSE IF Pos(t.cols, cid) = 0 THEN ErrW("no_column")
    ELSE IF \E x \in idxs : x.name = name THEN ErrW("index_name_taken")
    ELSE IF uq /\ ~UniqueOk(t.cols, t.rows, {cid}) THEN ErrW("data_violates_unique_index")
    ELSE Res(TRUE, 0, schemas, tabs, idxs \cup {[name |-> name, tk |-> tk, cid |-> cid, uq |-> uq]})
DoDropIndex(name) == IF ~\E x \in idxs : x.name = name THEN ErrW("no_index") ELSE Res(TRUE, 0, schemas, tabs, {x \in idxs : x.name # name})

AddedRows(rows, v) == [i \in 1..Len(rows) |-> Append(rows[i], v)]
DoAlterAdd(tk, dflt, readAs) ==       \* readAs: what the rows that are already there show in the new column
    LET t == tabs[tk] IN
    IF ~t.ex THEN ErrW("no_table") ELSE IF "d" \in Names(t.cols) THEN ErrW("column_exists")
    ELSE Res(TRUE, 0, schemas, SetTab(tk, Table(Append(t.cols, Col("d", FALSE, dflt, FALSE, FALSE)), AddedRows(t.rows, readAs))), idxs)
DoAlterDrop(tk, cid) ==
    LET t == tabs[tk]
        p == Pos(t.cols, cid)
    IN IF ~t.ex THEN ErrW("no_table") ELSE IF p = 0 THEN ErrW("no_column") ELSE IF Len(t.cols) < 2 THEN ErrW("only_column")
       ELSE Res(TRUE, 0, schemas, SetTab(tk, Table(RemoveAt(t.cols, p), [i \in 1..Len(t.rows) |-> RemoveAt(t.rows[i], p)])),
                {x \in idxs : ~(x.tk = tk /\ x.cid = cid)})
DoAlterRename(tk, cid, new) ==
    LET t == tabs[tk]
        p == Pos(t.cols, cid)
    IN IF ~t.ex THEN ErrW("no_table") ELSE IF p = 0 THEN ErrW("no_column") ELSE IF new \in Names(t.cols) THEN ErrW("column_name_exists")
       ELSE Res(TRUE, 0, schemas, SetTab(tk, Table([t.cols EXCEPT ![p].name = new], t.rows)), idxs)

\* INSERT number k in form: "full" (positional, every column), "omit" (named columns, the last one left out),
\* "dupa" (a = 10 whatever k), "nullb" (b = NULL)
NewRow(cols, k, form) == [i \in 1..Len(cols) |->
                             IF form = "omit" /\ i = Len(cols) /\ Len(cols) > 1 THEN cols[i].dflt ELSE Val(cols[i].cid, k, form)]
DoInsert(tk, k, form) ==
    LET t == tabs[tk] IN
    IF ~t.ex THEN ErrW("no_table")
    ELSE LET rows2 == Append(t.rows, NewRow(t.cols, k, form)) IN
         IF TableOk(tk, t.cols, rows2) THEN Res(TRUE, 1, schemas, SetTab(tk, Table(t.cols, rows2)), idxs) ELSE ErrW(Why(tk, t.cols, rows2))
\* the statements address rows through the FIRST column of the table as it is now: WHERE <col 1> = <value in the first row>
FirstVal(t) == t.rows[1][1]
DoUpdate(tk, cid, v) ==
    LET t == tabs[tk]
        p == Pos(t.cols, cid)
    IN IF ~t.ex THEN ErrW("no_table") ELSE IF p = 0 THEN ErrW("no_column")
       ELSE IF Len(t.rows) = 0 THEN Same(TRUE)                         \* nothing matches: 0 rows updated
       ELSE LET hit == {i \in 1..Len(t.rows) : t.rows[i][1] = FirstVal(t)}
                rows2 == [i \in 1..Len(t.rows) |-> IF i \in hit THEN [t.rows[i] EXCEPT ![p] = v] ELSE t.rows[i]]
            IN IF TableOk(tk, t.cols, rows2) THEN Res(TRUE, Cardinality(hit), schemas, SetTab(tk, Table(t.cols, rows2)), idxs)
               ELSE ErrW(Why(tk, t.cols, rows2))
DoDelete(tk) ==
    LET t == tabs[tk] IN
    IF ~t.ex THEN ErrW("no_table") ELSE IF Len(t.rows) = 0 THEN Same(TRUE)
    ELSE LET keep == SelectSeq(t.rows, LAMBDA r : r[1] # FirstVal(t))
         IN Res(TRUE, Len(t.rows) - Len(keep), schemas, SetTab(tk, Table(t.cols, keep)), idxs)

(* ------------------------------------------------------------ behaviour   *)
InitTabs == [tk \in TKs |-> IF tk = "root.t" /\ start = "t2"
                            THEN Table(V1, << <<1, 10, 100, 1000>>, <<2, 20, 200, 7>> >>) ELSE Absent]
Init == start \in Starts /\ schemas = {"root"} /\ tabs = InitTabs /\ idxs = {} /\ nops = 0 /\ hist = <<>> /\ hx = [tk \in TKs |-> {}]

\* lookups a query may be asked after the step: every column of every table, every value it holds and one it does not
\* lookups a query may be asked after the step: every column of every table, every value an INSERT / UPDATE / DEFAULT of this
\* model can ever put there (also values of rows that were deleted: an index must not bring them back) and one nobody uses
Universe(cid) == {Val(cid, k, "full") : k \in 1..3} \cup {5, 7, 9, 10, 20, 4242}
Lookups(tb) == UNION {UNION {{[tk |-> tk, col |-> tb[tk].cols[p].name, v |-> v, rows |-> SelectSeq(tb[tk].rows, LAMBDA r : r[p] = v)] :
                                  v \in Universe(tb[tk].cols[p].cid)} :
                              p \in 1..Len(tb[tk].cols)} :
                      tk \in {x \in TKs : tb[x].ex}}
Post(r) == [schemas |-> r.schemas, tabs |-> r.tabs, idxs |-> r.idxs, lookups |-> Lookups(r.tabs)]
\* op: the statement; ref: what the property demands; cont: the state the model goes on with (= ref unless a deviation
\* named in Dev applies); alts: post-states under each named deviation that applies to this step
\* constraint class of a column: why a statement on it matters
ClsOf(tk, cid) == LET t == tabs[tk]
                      p == Pos(t.cols, cid)
                  IN IF ~t.ex \/ p = 0 THEN {"missing"}
                     ELSE (IF t.cols[p].pk THEN {"pk"} ELSE {}) \cup (IF t.cols[p].uq THEN {"uq"} ELSE {})
                          \cup (IF t.cols[p].nn /\ ~t.cols[p].pk THEN {"nn"} ELSE {}) \cup (IF t.cols[p].dflt # N THEN {"dflt"} ELSE {})
                          \cup (IF \E x \in idxs : x.tk = tk /\ x.cid = cid THEN {"indexed"} ELSE {})
Ev(tk, evs) == [hx EXCEPT ![tk] = @ \cup evs]
\* op: the statement (with the spec's feature values for it: `cls` constraint classes of the column it names, `why` the
\*     reason the reference refuses it, `hx` the history class of the table it addresses);
\* ref: what the property demands; cont: the state the model goes on with (= ref unless a deviation named in Dev
\* applies); alts: post-states under each named deviation that applies to this step; evs: history events if it succeeds
Do(op, tk, ref, alts, evs) ==
    /\ nops < Limit /\ UNCHANGED start
    /\ LET use == {d \in DOMAIN alts : d \in Dev}
           cont == IF use = {} THEN ref ELSE alts[CHOOSE d \in use : TRUE]
       IN /\ schemas' = cont.schemas /\ tabs' = cont.tabs /\ idxs' = cont.idxs /\ nops' = nops + 1
          /\ hx' = IF ref.ok /\ tk \in TKs THEN Ev(tk, evs) ELSE hx
          /\ hist' = Append(hist, [op |-> op, tk |-> tk, hx |-> IF tk \in TKs THEN hx[tk] ELSE {}, ok |-> ref.ok, n |-> ref.n, why |-> ref.why,
                                   cont |-> Post(cont), dev |-> IF use = {} THEN "-" ELSE CHOOSE d \in use : TRUE,
                                   ref |-> IF use = {} THEN <<>> ELSE <<Post(ref)>>,
                                   alts |-> [d \in DOMAIN alts |-> Post(alts[d])]])
NoAlt == [d \in {} |-> Err]
Other(tk) == IF tk = "root.t" THEN "s1.t" ELSE "root.t"
\* features of the addressed table that do not depend on the statement
TFeat(tk) == (IF SchemaOf(tk) = "s1" THEN {"in_s1"} ELSE {})
             \cup (IF WithS1 /\ tabs[Other(tk)].ex THEN {"same_name_in_other_schema"} ELSE {})
             \cup (IF tabs[tk].ex /\ Len(tabs[tk].rows) > 0 THEN {"has_rows"} ELSE {})

CreateSchema == WithS1 /\ Do([k |-> "create_schema", feat |-> {}], "-", DoCreateSchema, NoAlt, {})
DropSchema == WithS1 /\ ~tabs["s1.t"].ex /\ Do([k |-> "drop_schema", feat |-> {}], "-", DoDropSchema, NoAlt, {})
CreateTable == \E tk \in TKs, v \in {"V1", "V2"} :
                  Do([k |-> "create_table", v |-> v, feat |-> TFeat(tk) \cup (IF "dropped" \in hx[tk] THEN {"recreate"} ELSE {})],
                     tk, DoCreateTable(tk, v), NoAlt, {"created"})
DropTable == \E tk \in TKs : Do([k |-> "drop_table", feat |-> TFeat(tk)], tk, DoDropTable(tk), NoAlt, {"dropped"})
Truncate == \E tk \in TKs : Do([k |-> "truncate", feat |-> TFeat(tk)], tk, DoTruncate(tk), NoAlt, {"truncated"})
\* the column is named as the table names it now (or by its identity if the table has no such column: an error)
ColName(tk, cid) == LET p == Pos(tabs[tk].cols, cid) IN IF p = 0 THEN cid ELSE tabs[tk].cols[p].name
\* the statement would name a column by an identity the table lacks while ANOTHER column carries that word as its name:
\* the SQL text would address that other column; such statements are not generated
Ambig(tk, cid) == tabs[tk].ex /\ Pos(tabs[tk].cols, cid) = 0 /\ cid \in Names(tabs[tk].cols)
CreateIndex == \E tk \in TKs, cid \in {"a", "b", "c", "d"}, uq \in BOOLEAN : ~Ambig(tk, cid) /\
                   Do([k |-> "create_index", name |-> "i1", cid |-> cid, col |-> ColName(tk, cid), uq |-> uq, cls |-> ClsOf(tk, cid),
                       feat |-> TFeat(tk) \cup (IF uq THEN {"unique"} ELSE {})
                                \cup (IF tabs[tk].ex /\ uq /\ ~UniqueOk(tabs[tk].cols, tabs[tk].rows, {cid}) THEN {"data_violates"} ELSE {})
                                \cup (IF \E x \in idxs : x.name = "i1" THEN {"name_taken"} ELSE {})
                                \cup (IF "index_dropped" \in hx[tk] THEN {"recreate"} ELSE {})
                                \cup (IF "tomb" \in hx[tk] THEN {"tomb"} ELSE {})],
                      tk, DoCreateIndex("i1", tk, cid, uq), NoAlt, {"index_created"})
DropIndex == LET tk == IF \E x \in idxs : x.name = "i1" THEN (CHOOSE x \in idxs : x.name = "i1").tk ELSE "-"
             IN Do([k |-> "drop_index", name |-> "i1", feat |-> IF tk = "-" THEN {"missing"} ELSE TFeat(tk)], tk, DoDropIndex("i1"), NoAlt, {"index_dropped"})
AlterAdd == \E tk \in TKs, dflt \in {N, 5} :
                LET ref == DoAlterAdd(tk, dflt, dflt)
                    applies == ref.ok /\ dflt # N /\ Len(tabs[tk].rows) > 0
                IN Do([k |-> "alter_add", dflt |-> dflt, feat |-> TFeat(tk) \cup (IF dflt # N THEN {"default"} ELSE {})],
                      tk, ref, IF applies THEN [d \in {"KF_add_default_reads_null"} |-> DoAlterAdd(tk, dflt, N)] ELSE NoAlt,
                      {"added"})
Where(tk, cid) == LET p == Pos(tabs[tk].cols, cid) IN
                  IF p = 0 THEN "missing" ELSE IF p = 1 THEN "first" ELSE IF p = Len(tabs[tk].cols) THEN "last" ELSE "middle"
AlterDrop == \E tk \in TKs, cid \in {"id", "a", "b", "c", "d"} : ~Ambig(tk, cid) /\
                Do([k |-> "alter_drop", cid |-> cid, col |-> ColName(tk, cid), where |-> Where(tk, cid), cls |-> ClsOf(tk, cid),
                    feat |-> TFeat(tk) \cup {Where(tk, cid)} \cup (IF "tomb" \in hx[tk] THEN {"tomb"} ELSE {})],
                   tk, DoAlterDrop(tk, cid), NoAlt, {"dropped_col_" \o Where(tk, cid)} \cup {"dropped_" \o c : c \in ClsOf(tk, cid)})
AlterRename == \E tk \in TKs, cid \in {"id", "a", "b", "c"}, new \in {"x", "b"} : ~Ambig(tk, cid) /\
                Do([k |-> "alter_rename", cid |-> cid, col |-> ColName(tk, cid), new |-> new, cls |-> ClsOf(tk, cid),
                    feat |-> TFeat(tk) \cup (IF tabs[tk].ex /\ new \in Names(tabs[tk].cols) THEN {"target_name_exists"} ELSE {})],
                   tk, DoAlterRename(tk, cid, new), NoAlt, {"renamed_" \o c : c \in ClsOf(tk, cid)} \cup {"renamed"})
Insert == \E tk \in TKs, k \in 1..3, form \in {"full", "omit", "dupa", "nullb"} :
                Do([k |-> "insert", i |-> k, form |-> form,
                    cols |-> IF tabs[tk].ex THEN [j \in 1..Len(tabs[tk].cols) |-> tabs[tk].cols[j].name] ELSE <<>>,
                    vals |-> IF tabs[tk].ex THEN [j \in 1..Len(tabs[tk].cols) |-> Val(tabs[tk].cols[j].cid, k, form)] ELSE <<>>,
                    feat |-> TFeat(tk)],
                   tk, DoInsert(tk, k, form), NoAlt, {})
UpdRows(tk, cid, v) == LET t == tabs[tk]
                           p == Pos(t.cols, cid)
                       IN [i \in 1..Len(t.rows) |-> IF t.rows[i][1] = FirstVal(t) THEN [t.rows[i] EXCEPT ![p] = v] ELSE t.rows[i]]
\* (an UPDATE that names a column the table does not have is left out: what TurDB does with it is DML business, C05)
Update == \E tk \in TKs, cid \in {"a", "c", "d"} : (~tabs[tk].ex \/ Pos(tabs[tk].cols, cid) # 0) /\ ~Ambig(tk, cid) /\
                LET v == IF cid = "a" THEN 20 ELSE 9
                    can == tabs[tk].ex /\ Pos(tabs[tk].cols, cid) # 0 /\ Len(tabs[tk].rows) > 0
                IN Do([k |-> "update", cid |-> cid, col |-> ColName(tk, cid), v |-> v,
                       wcol |-> IF tabs[tk].ex /\ Len(tabs[tk].cols) > 0 THEN tabs[tk].cols[1].name ELSE "id",
                       wval |-> IF tabs[tk].ex /\ Len(tabs[tk].rows) > 0 THEN FirstVal(tabs[tk]) ELSE 0,
                       feat |-> TFeat(tk)],
                      tk, DoUpdate(tk, cid, v), NoAlt, {"tomb"})
Delete == \E tk \in TKs :
                Do([k |-> "delete",
                    wcol |-> IF tabs[tk].ex /\ Len(tabs[tk].cols) > 0 THEN tabs[tk].cols[1].name ELSE "id",
                    wval |-> IF tabs[tk].ex /\ Len(tabs[tk].rows) > 0 THEN FirstVal(tabs[tk]) ELSE 0,
                    feat |-> TFeat(tk)],
                   tk, DoDelete(tk), NoAlt, {"tomb"})
Reopen == /\ WithReopen /\ nops < Limit
          /\ UNCHANGED <<start, schemas, tabs, idxs>> /\ nops' = nops + 1
          /\ hx' = [tk \in TKs |-> hx[tk] \cup {"reopened"}]
          /\ hist' = Append(hist, [op |-> [k |-> "reopen", feat |-> (IF "s1" \in schemas THEN {"user_schema_exists"} ELSE {})
                                                                  \cup UNION {IF "created" \in hx[tk] /\ "dropped" \in hx[tk] THEN {"table_recreated"} ELSE {} : tk \in TKs}],
                                   tk |-> "-", hx |-> UNION {hx[tk] : tk \in TKs}, ok |-> TRUE, n |-> 0, why |-> "-",
                                   cont |-> Post(Same(TRUE)), dev |-> "-", ref |-> <<>>, alts |-> NoAlt])

Next == CreateSchema \/ DropSchema \/ CreateTable \/ DropTable \/ Truncate \/ CreateIndex \/ DropIndex
        \/ AlterAdd \/ AlterDrop \/ AlterRename \/ Insert \/ Update \/ Delete \/ Reopen
Spec == Init /\ [][Next]_vars

(* ------------------------------------------------------------ meta level  *)
\* the catalog is well formed and the rows respect it, whatever sequence of statements ran (with Dev = {})
WellFormed ==
    /\ "root" \in schemas
    /\ \A tk \in TKs : tabs[tk].ex =>
          /\ SchemaOf(tk) \in schemas
          /\ Cardinality(Names(tabs[tk].cols)) = Len(tabs[tk].cols) /\ Len(tabs[tk].cols) >= 1
          /\ Cardinality({tabs[tk].cols[i].cid : i \in 1..Len(tabs[tk].cols)}) = Len(tabs[tk].cols)
          /\ \A i \in 1..Len(tabs[tk].rows) : Len(tabs[tk].rows[i]) = Len(tabs[tk].cols)
    /\ \A x \in idxs : tabs[x.tk].ex /\ Pos(tabs[x.tk].cols, x.cid) # 0
    /\ \A x, y \in idxs : x.name = y.name => x = y
ConstraintsHold == \A tk \in TKs : tabs[tk].ex => TableOk(tk, tabs[tk].cols, tabs[tk].rows)
\* DROP COLUMN keeps every other column's values; RENAME keeps all values; ADD shows the default - as action properties
LastOp == hist'[Len(hist')].op
ColumnValues(t, cid) == LET p == Pos(t.cols, cid) IN [i \in 1..Len(t.rows) |-> t.rows[i][p]]
AlterPreserves ==
    [][(hist' # hist /\ hist'[Len(hist')].ok /\ LastOp.k \in {"alter_drop", "alter_rename", "alter_add"}) =>
         LET tk == hist'[Len(hist')].tk IN
         /\ \A c \in {tabs'[tk].cols[i].cid : i \in 1..Len(tabs'[tk].cols)} \ {"d"} :
                Pos(tabs[tk].cols, c) # 0 /\ ColumnValues(tabs'[tk], c) = ColumnValues(tabs[tk], c)
         /\ (LastOp.k = "alter_add" /\ Dev = {} => \A i \in 1..Len(tabs'[tk].rows) : tabs'[tk].rows[i][Len(tabs'[tk].cols)] = LastOp.dflt)
         /\ \A tk2 \in TKs \ {tk} : tabs'[tk2] = tabs[tk2]]_vars
ErrChangesNothing == [][(hist' # hist /\ ~hist'[Len(hist')].ok) => (schemas' = schemas /\ tabs' = tabs /\ idxs' = idxs)]_vars
=============================================================================

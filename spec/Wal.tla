------------------------------- MODULE Wal -------------------------------
(***************************************************************************)
(* Implementation-shaped specification of TurDB's write-ahead log          *)
(* (src/storage/wal.rs): segment files as sequences of frame slots, the    *)
(* BufWriter in front of the current segment, the OS file cursor and the   *)
(* struct's `offset` as SEPARATE variables (the code keeps them apart),    *)
(* rotation, truncation, reopen, and file faults.  Property C03 is stated  *)
(* over the ghost variable `written`.                                      *)
(*                                                                         *)
(* One action per public call of `Wal`:                                    *)
(*   AppendSync   = write_frame_with_file_id under SyncMode::Full          *)
(*   AppendNoSync = write_frames_batch_no_sync (one frame)                 *)
(*   Sync         = Wal::sync                                              *)
(*   Rotate       = rotate_segment (old BufWriter dropped => flushed)      *)
(*   Truncate     = Wal::truncate                                          *)
(*   Reopen       = drop(Wal); Wal::open(dir)                              *)
(* Fault actions (only after the workload): Cut, Damage.                   *)
(***************************************************************************)
EXTENDS Integers, Sequences, FiniteSets, TLC

CONSTANTS Files,            \* file ids, e.g. {0,1}  (0 matters: an all-zero frame decodes as file 0/page 0)
          Pages,            \* page numbers, e.g. {0,1}
          MaxSeg,           \* highest segment number explored
          MaxOps,           \* workload length bound
          MaxFaults,        \* 0 or 1
          FixSeekOnOpen,    \* TRUE: open positions the writer at the end of the valid prefix (repaired code)
          FixSeekOnTruncate \* TRUE: truncate discards the buffer and rewinds the cursor (repaired code)

VARIABLES segs,     \* [1..MaxSeg -> Seq(Slot)] contents of segment files (<<>> if absent)
          exist,    \* set of segment numbers whose file exists
          cur,      \* sequence number of the current segment
          buf,      \* frames sitting in the BufWriter
          cursor,   \* OS file position of the current segment's fd, in slots
          offset,   \* WalSegment.offset, in slots
          ver,      \* next frame version (page image = ver)
          written,  \* ghost: frames appended since the last truncate, in order
          nops, nfaults,
          lastop,   \* name of the last operation (enables the post-fault steps)
          hist      \* observation only (hidden by VIEW): operations so far

vars  == <<segs, exist, cur, buf, cursor, offset, ver, written, nops, nfaults, lastop, hist>>
view  == <<segs, exist, cur, buf, cursor, offset, ver, written, nops, nfaults, lastop>>

Frame(f, p, v) == [f |-> f, p |-> p, v |-> v]
Z == Frame(0, 0, 0)      \* a slot of zero bytes: CRC-64/ECMA-182 of zeros is 0, so the code accepts it as (file 0, page 0, zero image)
J == Frame(-1, -1, -1)   \* a damaged slot (checksum fails)
P == Frame(-2, -2, -2)   \* a partial slot at the end of a cut file
IsFrame(s)    == s.v > 0          \* a frame somebody wrote
CodeValid(s)  == s.v >= 0         \* what validate_checksum accepts

Max(a, b) == IF a >= b THEN a ELSE b

\* BufWriter flush: frames land at the fd's cursor; a cursor beyond EOF leaves a hole of zero slots
WriteAt(s, pos, fr) ==
    IF fr = <<>> THEN s ELSE
    LET n == Max(Len(s), pos + Len(fr)) IN
    [i \in 1..n |-> IF i > pos /\ i <= pos + Len(fr) THEN fr[i - pos]
                    ELSE IF i <= Len(s) THEN s[i] ELSE Z]

PrefixLen(s, Ok(_)) == LET bad == {i \in 1..Len(s) : ~Ok(s[i])} IN
                       IF bad = {} THEN Len(s) ELSE (CHOOSE i \in bad : \A j \in bad : i <= j) - 1

SegList == LET RECURSIVE L(_)
               L(n) == IF n > MaxSeg THEN <<>> ELSE (IF n \in exist THEN <<n>> ELSE <<>>) \o L(n + 1)
           IN L(1)

RECURSIVE Cat(_)
Cat(ns) == IF ns = <<>> THEN <<>> ELSE segs[Head(ns)] \o Cat(Tail(ns))

Keys == Files \X Pages
Apply(fr, img) == [k \in Keys |-> LET idx == {i \in 1..Len(fr) : <<fr[i].f, fr[i].p>> = k} IN
                                   IF idx = {} THEN img[k]
                                   ELSE fr[CHOOSE i \in idx : \A j \in idx : j <= i].v]
NoImg == [k \in Keys |-> -1]

(* Reference: the longest valid prefix of the whole log, frames only *)
RefLog     == LET c == Cat(SegList) IN SubSeq(c, 1, PrefixLen(c, IsFrame))
RefRecover == Apply(RefLog, NoImg)

(* What recover() in wal.rs does: per segment, frames until the first checksum failure;
   an all-zero slot passes the checksum *)
RECURSIVE ImplLog(_)
ImplLog(ns) == IF ns = <<>> THEN <<>>
               ELSE LET s == segs[Head(ns)] IN SubSeq(s, 1, PrefixLen(s, CodeValid)) \o ImplLog(Tail(ns))
ImplRecover == Apply(ImplLog(SegList), NoImg)

Flushed(s) == WriteAt(s, cursor, buf)

Init == /\ segs = [n \in 1..MaxSeg |-> <<>>] /\ exist = {1} /\ cur = 1
        /\ buf = <<>> /\ cursor = 0 /\ offset = 0 /\ ver = 1
        /\ written = <<>> /\ nops = 0 /\ nfaults = 0 /\ lastop = "init" /\ hist = <<>>

Step(op) == /\ nops' = nops + 1
            /\ lastop' = op.op
            /\ hist' = Append(hist, op)

CanWork == nops < MaxOps /\ nfaults = 0

AppendSync(f, p) ==
    /\ CanWork
    /\ LET fr == Frame(f, p, ver) IN
       /\ segs' = [segs EXCEPT ![cur] = WriteAt(@, cursor, Append(buf, fr))]
       /\ cursor' = cursor + Len(buf) + 1
       /\ written' = Append(written, fr)
    /\ buf' = <<>> /\ offset' = offset + 1 /\ ver' = ver + 1
    /\ UNCHANGED <<exist, cur, nfaults>>
    /\ Step([op |-> "append", f |-> f, p |-> p, v |-> ver, sync |-> TRUE])

AppendNoSync(f, p) ==
    /\ CanWork
    /\ LET fr == Frame(f, p, ver) IN
       /\ buf' = Append(buf, fr)
       /\ written' = Append(written, fr)
    /\ offset' = offset + 1 /\ ver' = ver + 1
    /\ UNCHANGED <<segs, exist, cur, cursor, nfaults>>
    /\ Step([op |-> "append", f |-> f, p |-> p, v |-> ver, sync |-> FALSE])

Sync ==
    /\ CanWork /\ buf # <<>>
    /\ segs' = [segs EXCEPT ![cur] = Flushed(@)]
    /\ cursor' = cursor + Len(buf) /\ buf' = <<>>
    /\ UNCHANGED <<exist, cur, offset, ver, written, nfaults>>
    /\ Step([op |-> "sync"])

Rotate ==
    /\ CanWork /\ cur < MaxSeg
    /\ segs' = [segs EXCEPT ![cur] = Flushed(@), ![cur + 1] = <<>>]
    /\ exist' = exist \cup {cur + 1} /\ cur' = cur + 1
    /\ buf' = <<>> /\ cursor' = 0 /\ offset' = 0
    /\ UNCHANGED <<ver, written, nfaults>>
    /\ Step([op |-> "rotate"])

Truncate ==
    /\ CanWork
    /\ IF FixSeekOnTruncate
         THEN /\ segs' = [n \in 1..MaxSeg |-> IF n <= cur THEN <<>> ELSE segs[n]]
              /\ cursor' = 0
         ELSE \* set_len(0); flush() at the old cursor; cursor not rewound
              /\ segs' = [n \in 1..MaxSeg |-> IF n < cur THEN <<>>
                                              ELSE IF n = cur THEN WriteAt(<<>>, cursor, buf) ELSE segs[n]]
              /\ cursor' = cursor + Len(buf)
    /\ exist' = {n \in exist : n >= cur}
    /\ buf' = <<>> /\ offset' = 0 /\ written' = <<>>
    /\ UNCHANGED <<cur, ver, nfaults>>
    /\ Step([op |-> "truncate"])

Reopen ==
    /\ CanWork
    /\ LET flushed == [segs EXCEPT ![cur] = Flushed(@)]
           last    == CHOOSE n \in exist : \A m \in exist : m <= n
           file    == flushed[last]
           vp      == PrefixLen(file, CodeValid)
       IN /\ cur' = last
          /\ IF FixSeekOnOpen
               THEN /\ segs' = [flushed EXCEPT ![last] = SubSeq(file, 1, vp)]
                    /\ cursor' = vp /\ offset' = vp
               ELSE /\ segs' = flushed
                    /\ cursor' = 0 /\ offset' = Len(file)
    /\ buf' = <<>>
    /\ UNCHANGED <<exist, ver, written, nfaults>>
    /\ Step([op |-> "reopen"])

(* ---- faults on the files of a closed log (no Wal object alive: buf is flushed first by Reopen) ---- *)
CanFault == nfaults < MaxFaults /\ buf = <<>> /\ nops > 0

Cut(n, k, where) ==   \* keep k whole slots, then (unless where = "boundary") a partial slot
    /\ CanFault /\ n \in exist /\ k < Len(segs[n])
    /\ segs' = [segs EXCEPT ![n] = SubSeq(@, 1, k) \o (IF where = "boundary" THEN <<>> ELSE <<P>>)]
    /\ nfaults' = nfaults + 1
    /\ IF n = cur THEN cursor' = k /\ offset' = k ELSE UNCHANGED <<cursor, offset>>
    /\ UNCHANGED <<exist, cur, buf, ver, written, nops>>
    /\ lastop' = "cut"
    /\ hist' = Append(hist, [op |-> "cut", seg |-> n, k |-> k, where |-> where])

Damage(n, k, kind) ==
    /\ CanFault /\ n \in exist /\ k \in 1..Len(segs[n])
    /\ segs' = [segs EXCEPT ![n][k] = IF kind = "zero" THEN Z ELSE J]
    /\ nfaults' = nfaults + 1
    /\ UNCHANGED <<exist, cur, buf, cursor, offset, ver, written, nops>>
    /\ lastop' = "damage"
    /\ hist' = Append(hist, [op |-> "damage", seg |-> n, k |-> k, kind |-> kind])

(* after a fault the log is reopened and may be appended to once more *)
ReopenAfterFault ==
    /\ nfaults > 0 /\ nops < MaxOps + 2 /\ lastop \in {"cut", "damage"}
    /\ LET last == CHOOSE n \in exist : \A m \in exist : m <= n
           file == segs[last]
           vp   == PrefixLen(file, CodeValid)
       IN /\ cur' = last
          /\ IF FixSeekOnOpen
               THEN segs' = [segs EXCEPT ![last] = SubSeq(file, 1, vp)] /\ cursor' = vp /\ offset' = vp
               ELSE segs' = segs /\ cursor' = 0 /\ offset' = Len(file)
    /\ UNCHANGED <<exist, buf, ver, written, nfaults>>
    /\ Step([op |-> "reopen"])

AppendAfterFault(f, p) ==
    /\ nfaults > 0 /\ nops < MaxOps + 2 /\ lastop = "reopen"
    /\ LET fr == Frame(f, p, ver) IN
       /\ segs' = [segs EXCEPT ![cur] = WriteAt(@, cursor, <<fr>>)]
       /\ written' = Append(written, fr)
    /\ cursor' = cursor + 1 /\ offset' = offset + 1 /\ ver' = ver + 1
    /\ UNCHANGED <<exist, cur, buf, nfaults>>
    /\ Step([op |-> "append", f |-> f, p |-> p, v |-> ver, sync |-> TRUE])

Next == \/ \E f \in Files, p \in Pages : AppendSync(f, p) \/ AppendNoSync(f, p) \/ AppendAfterFault(f, p)
        \/ Sync \/ Rotate \/ Truncate \/ Reopen \/ ReopenAfterFault
        \/ \E n \in 1..MaxSeg, k \in 0..MaxOps, w \in {"boundary", "header", "body"} : Cut(n, k, w)
        \/ \E n \in 1..MaxSeg, k \in 1..MaxOps, kd \in {"header", "body", "zero"} : Damage(n, k, kd)

Spec == Init /\ [][Next]_vars

(* ------------------------------ properties ------------------------------ *)
\* C03: before any fault the files plus the buffer hold exactly the frames written since the last
\* truncate, in write order: nothing overwritten, nothing hidden, no never-written slot.
NoOverwriteNoPhantom == nfaults = 0 => Cat(SegList) \o buf = written
\* C03: recovery (as the code performs it) yields each page's last image in the longest valid prefix
ReplayExact == ImplRecover = RefRecover
\* offset and cursor agree (what the two repairs establish)
CursorIsOffset == cursor + Len(buf) = offset

\* region where the unrepaired format-level finding applies: a zero-filled slot, or a fault in a
\* non-final segment followed by frames in a later segment
LastSeg == CHOOSE n \in exist : \A m \in exist : m <= n
KF_zero_slot    == \E n \in exist : \E i \in 1..Len(segs[n]) : segs[n][i] = Z
KF_inner_fault  == \E n \in exist : n # LastSeg /\ PrefixLen(segs[n], CodeValid) < Len(segs[n])
                                   /\ \E m \in exist : m > n /\ segs[m] # <<>>
ReplayExactOutsideKF == (~KF_zero_slot /\ ~KF_inner_fault) => ReplayExact

(* -------------------- observation for behaviour replay -------------------- *)
KeySeq == LET RECURSIVE S(_)
              S(ks) == IF ks = {} THEN <<>>
                       ELSE LET k == CHOOSE x \in ks : \A y \in ks : (x[1] < y[1]) \/ (x[1] = y[1] /\ x[2] <= y[2])
                            IN <<k>> \o S(ks \ {k})
          IN S(Keys)
Obs == [ref   |-> [i \in 1..Len(KeySeq) |-> RefRecover[KeySeq[i]]],
        impl  |-> [i \in 1..Len(KeySeq) |-> ImplRecover[KeySeq[i]]],
        files |-> [i \in 1..Len(SegList) |-> [seg |-> SegList[i], slots |-> [j \in 1..Len(segs[SegList[i]]) |-> segs[SegList[i]][j].v]]],
        offset |-> offset, kfz |-> KF_zero_slot, kfi |-> KF_inner_fault]
=============================================================================

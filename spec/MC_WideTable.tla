---------------------------- MODULE MC_WideTable ----------------------------
EXTENDS WideTable, Json
Emit == PrintT(<<"T", ToJson([hist |-> hist'])>>)
\* the same without the row sets (the replay of lib/widetable.py judges the probes; lib/crashrun.py needs the rows)
Slim(h) == [j \in 1..Len(h) |-> [op |-> h[j].op, n |-> h[j].n, intxn |-> h[j].intxn, idx |-> h[j].idx, nbig |-> h[j].nbig, bigpts |-> h[j].bigpts, probes |-> h[j].probes]]
EmitSlim == PrintT(<<"T", ToJson([hist |-> Slim(hist')])>>)
=============================================================================

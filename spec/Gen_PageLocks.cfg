CONSTANTS Threads = {1, 2}  Pages = {1, 2}  Tables = {1}  MaxEntries = 6  MaxOpsPerThread = 3  CleanupUnderLock = TRUE
SPECIFICATION Spec
VIEW view
ACTION_CONSTRAINT Emit
CHECK_DEADLOCK FALSE

--------------------------- MODULE MC_ForeignKey ---------------------------
EXTENDS ForeignKey, Json
Emit == PrintT(<<"T", ToJson([act |-> act, hist |-> hist'])>>)
=============================================================================

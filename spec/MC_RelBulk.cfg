\* the compact model against a naive row-by-row fold over explicit row sets, small batches
CONSTANTS Variants = {"plain","pk","uniq","idx","nn","all","ai"}
CONSTANTS Apis = {"insert_batch","insert_cached"}
CONSTANTS SizesFirst = {0,1,2,3,4}
CONSTANTS SizesLater = {0,1,2,3,4}
CONSTANTS MaxOps = 1  WithTxn = TRUE  WithReopen = FALSE  WithDml = TRUE
SPECIFICATION Spec
VIEW view
INVARIANTS CompactEqualsNaive ConstraintsHold LookupsSound
CHECK_DEADLOCK FALSE

------------------------------- MODULE RelBulk -------------------------------
(***************************************************************************)
(* Reference model for the bulk-load APIs (property C43)                   *)
(*                                                                         *)
(*   BulkLoad(api, batch) == the fold of single-row INSERT over the rows   *)
(*                                                                         *)
(* One table t(id, a, b) whose declaration is the variant `tv`:            *)
(*   plain  no constraint                 pk    id PRIMARY KEY             *)
(*   uniq   pk + a UNIQUE                 idx   pk + CREATE INDEX ON t(b)  *)
(*   nn     pk + b NOT NULL               all   pk + UNIQUE + INDEX + NN   *)
(*   ai     id PRIMARY KEY AUTO_INCREMENT (ids of a batch are generated)   *)
(*                                                                         *)
(* Rows are functions of their id: Row(id) = <<id, A(id), B(id)>>. The     *)
(* table is held COMPACTLY: a sequence of arithmetic progressions of ids   *)
(* (`segs`, each with a small set `minus` of holes) plus a small set of    *)
(* exceptional rows (`extra`). A batch is a descriptor                     *)
(*   [n, st, ord, dupAt, dupKind, nullAt]                                  *)
(* = n rows with ids base, base+st, ... presented in ascending or          *)
(* descending order, where the row at position dupAt is replaced by a row  *)
(* that duplicates a primary key / UNIQUE value (of position 1 of the same *)
(* batch or of a row already in the table) and the row at position nullAt  *)
(* has b = NULL. Batches of 5000 rows cost as much as batches of 3.        *)
(*                                                                         *)
(* WHAT "the same observable state as inserting the rows one by one"       *)
(* MEANS when a row of the batch is not insertable (first such position f, *)
(* set F of all such positions):                                           *)
(*   every row that is stored passed its checks against the table and the  *)
(*   rows stored before it (fold semantics); a row in F is never stored;   *)
(*   the call either stops at f (rows before f stay, error reported:       *)
(*   outcome "stop") or goes on (all rows outside F stored, reported as a  *)
(*   count "skip" or as an error "skip_err"). All-or-nothing rejection is  *)
(*   NOT among the outcomes: one-by-one INSERTs leave the rows before f.   *)
(*   A per-row API (a prepared INSERT executed once per row) has exactly   *)
(*   one outcome: "each" = all rows outside F, |F| errors.                 *)
(* If F is empty the only outcome is: all rows stored, count = n.          *)
(***************************************************************************)
EXTENDS Integers, Sequences, FiniteSets, TLC

CONSTANTS Variants,        \* subset of {"plain","pk","uniq","idx","nn","all","ai"}
          Apis,            \* subset of {"insert_batch","insert_batch_into_schema","insert_cached","bulk_insert"}
          SizesFirst,      \* batch sizes offered while the history is empty
          SizesLater,      \* batch sizes offered afterwards
          MaxOps, WithTxn, WithReopen, WithDml
N == -99
Span == 10000              \* ids of different batches never meet: every batch gets its own block of Span ids

VARIABLES tv, segs, extra, txn, base, ai, nops, hist,
          used      \* ghost: the bulk APIs that produced the table so far. Part of the VIEW on purpose: the same rows loaded
                    \* by INSERT or by a bulk API are the same state for the user but not for the implementation, so every
                    \* state is explored once per history class (and reached by a history that only uses those APIs)
vars == <<tv, segs, extra, txn, base, ai, nops, hist, used>>
view == <<tv, segs, extra, txn, base, ai, nops, used>>

HasPK   == tv # "plain"
HasUniq == tv \in {"uniq", "all"}
HasIdx  == tv \in {"idx", "all"}
NotNullB == tv \in {"nn", "all"}
AutoInc == tv = "ai"

A(id) == IF id % 10 = 5 THEN N ELSE id + 1000000
B(id) == id % 3
Row(id) == <<id, A(id), B(id)>>
Max2(x, y) == IF x > y THEN x ELSE y
Min2(x, y) == IF x < y THEN x ELSE y

(* ------------------------------------------------------ compact table   *)
Seg(s, c, st, minus) == [s |-> s, c |-> c, st |-> st, minus |-> minus]
SegLast(g) == g.s + (g.c - 1) * g.st
InSeg(id, g) == g.c > 0 /\ id >= g.s /\ id <= SegLast(g) /\ (id - g.s) % g.st = 0 /\ id \notin g.minus
SegIdx == 1..Len(segs)
HasIdIn(ss, ex, id) == (\E i \in 1..Len(ss) : InSeg(id, ss[i])) \/ (\E r \in ex : r[1] = id)
HasAIn(ss, ex, a) == a # N /\ (\/ (\E i \in 1..Len(ss) : InSeg(a - 1000000, ss[i]) /\ A(a - 1000000) = a)
                               \/ (\E r \in ex : r[2] = a))
RowsWithId(ss, ex, id) == (IF \E i \in 1..Len(ss) : InSeg(id, ss[i]) THEN {Row(id)} ELSE {}) \cup {r \in ex : r[1] = id}
RowsWithA(ss, ex, a) == IF a = N THEN {}
                        ELSE (IF \E i \in 1..Len(ss) : InSeg(a - 1000000, ss[i]) /\ A(a - 1000000) = a THEN {Row(a - 1000000)} ELSE {})
                             \cup {r \in ex : r[2] = a}
RECURSIVE SumSeq(_, _)
SumSeq(f, i) == IF i > Len(f) THEN 0 ELSE f[i] + SumSeq(f, i + 1)
CountIn(ss, ex) == SumSeq([i \in 1..Len(ss) |-> ss[i].c - Cardinality(ss[i].minus)], 1) + Cardinality(ex)
\* rows of a progression with B = v, without enumerating it: the residues of s + i*st mod 3 have period 3 (st is 1 or 2)
CountB(g, v) == IF g.c = 0 \/ v \notin {0, 1, 2} THEN 0
                ELSE LET q == g.c \div 3
                         r == g.c % 3
                         tail == Cardinality({i \in 0..(r - 1) : B(g.s + (3 * q + i) * g.st) = v})
                     IN q + tail - Cardinality({m \in g.minus : B(m) = v})
CountBIn(ss, ex, v) == SumSeq([i \in 1..Len(ss) |-> CountB(ss[i], v)], 1) + Cardinality({r \in ex : r[3] = v})
MaxIdIn(ss, ex) == LET c == {SegLast(ss[i]) : i \in {j \in 1..Len(ss) : ss[j].c > 0}} \cup {r[1] : r \in ex}
                   IN IF c = {} THEN 0 ELSE CHOOSE m \in c : \A x \in c : x <= m
\* some row that is in the table (used as the target of duplicates, deletes, updates): first id of the last non-empty progression
LiveSegsIn(ss) == {i \in 1..Len(ss) : \E k \in 0..Min2(ss[i].c - 1, 3) : InSeg(ss[i].s + k * ss[i].st, ss[i])}
ExistingIn(ss) == LET L == LiveSegsIn(ss)
                      i == CHOOSE j \in L : \A k \in L : k <= j
                      g == ss[i]
                      k == CHOOSE k \in 0..Min2(g.c - 1, 3) : InSeg(g.s + k * g.st, g) /\ \A m \in 0..(k - 1) : ~InSeg(g.s + m * g.st, g)
                  IN g.s + k * g.st
LiveSegs == LiveSegsIn(segs)
Existing == ExistingIn(segs)
HasExisting == LiveSegs # {}

(* ------------------------------------------------------ batches         *)
Desc(n, st, ord, dupAt, dupKind, nullAt) == [n |-> n, st |-> st, ord |-> ord, dupAt |-> dupAt, dupKind |-> dupKind, nullAt |-> nullAt]
Mid(n) == (n + 1) \div 2
\* the curated family of batch shapes for a size n (specials never at the same position; dupAt is never 1)
ShapesFor(n) ==
    {Desc(n, 1, "asc", 0, "-", 0)}
    \cup (IF n >= 2 THEN {Desc(n, 2, "desc", 0, "-", 0),
                          Desc(n, 1, "asc", n, "pk_batch", 0),
                          Desc(n, 1, "asc", 2, "uq_batch", 0)} ELSE {})
    \cup (IF n >= 1 THEN {Desc(n, 1, "asc", 0, "-", 1)} ELSE {})
    \cup (IF n >= 3 THEN {Desc(n, 2, "asc", 2, "pk_batch", n)} ELSE {})
    \cup (IF n >= 3 /\ HasExisting THEN {Desc(n, 1, "asc", n, "pk_exist", Mid(n) - (IF Mid(n) = n THEN 1 ELSE 0)),
                                         Desc(n, 1, "desc", Mid(n), "uq_exist", 0)} ELSE {})
\* big batches only come in a few shapes
BigShapes(n) == {d \in ShapesFor(n) : d.dupKind \in {"-", "pk_batch"} /\ ~(d.st = 2 /\ d.dupAt # 0) /\ d.nullAt = 0}
Shapes(n) == IF n > 8 THEN BigShapes(n) ELSE ShapesFor(n)

Logical(d, p) == IF d.ord = "asc" THEN p ELSE d.n + 1 - p
IdAt(d, b, p) == b + (Logical(d, p) - 1) * d.st
\* the row presented at position p
RowAt(d, b, p) ==
    LET id == IdAt(d, b, p) IN
    IF p = d.dupAt
    THEN CASE d.dupKind = "pk_batch" -> <<IdAt(d, b, 1), A(id), B(id)>>
           [] d.dupKind = "uq_batch" -> <<id, A(IdAt(d, b, 1)), B(id)>>
           [] d.dupKind = "pk_exist" -> <<Existing, A(id), B(id)>>
           [] d.dupKind = "uq_exist" -> <<id, A(Existing), B(id)>>
    ELSE IF p = d.nullAt THEN <<id, A(id), N>>
    ELSE Row(id)
Specials(d) == ({1, d.dupAt, d.nullAt} \ {0}) \cap (1..d.n)

\* single-row INSERT semantics: may row r be added to the table (ss, ex) plus the already accepted special rows acc?
RowOk(r, ss, ex, acc) ==
    /\ (NotNullB => r[3] # N)
    /\ (HasPK => r[1] # N /\ ~HasIdIn(ss, ex, r[1]) /\ \A q \in acc : q[1] # r[1])
    /\ (HasUniq => r[2] = N \/ (~HasAIn(ss, ex, r[2]) /\ \A q \in acc : q[2] # r[2]))

\* the fold, restricted to the positions that can matter (every other position holds a fresh row that collides with nothing)
RECURSIVE FoldSpecials(_, _, _, _)
FoldSpecials(d, b, todo, acc) ==     \* acc = [ok |-> set of <<p, row>> accepted, bad |-> set of positions refused]
    IF todo = {} THEN acc
    ELSE LET p == CHOOSE x \in todo : \A y \in todo : x <= y
             r == RowAt(d, b, p)
         IN IF RowOk(r, segs, extra, {x[2] : x \in acc.ok})
            THEN FoldSpecials(d, b, todo \ {p}, [acc EXCEPT !.ok = @ \cup {<<p, r>>}])
            ELSE FoldSpecials(d, b, todo \ {p}, [acc EXCEPT !.bad = @ \cup {p}])
FoldOf(d, b) == FoldSpecials(d, b, Specials(d), [ok |-> {}, bad |-> {}])

\* the table after the rows at presented positions 1..upto have been folded in (upto = d.n: the whole batch)
\* progression part: logical indices of positions 1..upto, minus the special positions; special rows accepted go to `extra`
After(d, b, upto, f) ==
    LET keepSpecial == {x \in f.ok : x[1] <= upto /\ x[1] \notin {d.dupAt, d.nullAt}}       \* position 1 as a plain row
        exc == {x[2] : x \in {y \in f.ok : y[1] <= upto /\ y[1] \in {d.dupAt, d.nullAt}}}
        holes == {IdAt(d, b, p) : p \in {q \in Specials(d) : q <= upto /\ ~\E x \in keepSpecial : x[1] = q}}
        g == IF d.ord = "asc" THEN Seg(b, upto, d.st, holes)
             ELSE Seg(b + (d.n - upto) * d.st, upto, d.st, holes)
    IN [segs |-> IF upto = 0 THEN segs ELSE Append(segs, g), extra |-> extra \cup exc]

Outcome(kind, ok, n, nerr, t) == [kind |-> kind, ok |-> ok, n |-> n, nerr |-> nerr, segs |-> t.segs, extra |-> t.extra]
\* admissible outcomes of loading batch d at base b through api
Outcomes(api, d, b) ==
    LET f == FoldOf(d, b)
        all == After(d, b, d.n, f)
        nbad == Cardinality(f.bad)
    IN IF d.n = 0 THEN {Outcome("all", TRUE, 0, 0, [segs |-> segs, extra |-> extra])}
       ELSE IF f.bad = {} THEN {Outcome("all", TRUE, d.n, 0, all)}
       ELSE IF api = "insert_cached" THEN {Outcome("each", TRUE, d.n - nbad, nbad, all)}
       ELSE LET first == CHOOSE x \in f.bad : \A y \in f.bad : x <= y
            IN {Outcome("stop", FALSE, first - 1, 1, After(d, b, first - 1, f)),
                Outcome("skip", TRUE, d.n - nbad, nbad, all),
                Outcome("skip_err", FALSE, d.n - nbad, nbad, all)}
\* the state the model continues with: every insertable row stored
Continue(os) == CHOOSE o \in os : o.kind \in {"all", "each", "skip", "dml", "ctl"}

(* ------------------------------------------------------ observation     *)
\* ids worth looking up after a step: ends of the last two progressions, the special positions of the last batch, a hole
ProbeIds(ss, ex, more) ==
    LET ends == UNION {{ss[i].s, SegLast(ss[i]), ss[i].s + (ss[i].c \div 2) * ss[i].st} : i \in {j \in 1..Len(ss) : j >= Len(ss) - 1 /\ ss[j].c > 0}}
    IN ends \cup more \cup {r[1] : r \in ex} \cup {MaxIdIn(ss, ex) + 7}
Obs(ss, ex, more) ==
    LET ids == ProbeIds(ss, ex, more) \ {N}
    IN [count |-> CountIn(ss, ex),
        byid |-> {[v |-> i, rows |-> RowsWithId(ss, ex, i)] : i \in ids},
        bya  |-> {[v |-> A(i), rows |-> RowsWithA(ss, ex, A(i))] : i \in {j \in ids : A(j) # N}},
        byb  |-> {[v |-> v, n |-> CountBIn(ss, ex, v)] : v \in {0, 1, 2, 9}},
        bnull |-> Cardinality({r \in ex : r[3] = N}),
        maxid |-> MaxIdIn(ss, ex),
        \* statements tried AFTER everything else was observed (they change the table): constraints are still enforced on
        \* what was loaded, and the table still takes new rows
        probes |-> (IF LiveSegsIn(ss) # {} /\ ~AutoInc
                    THEN LET e == ExistingIn(ss) IN
                         {[name |-> "dup_pk", row |-> <<e, N, 0>>, ok |-> ~HasPK],
                          [name |-> "dup_uq", row |-> <<MaxIdIn(ss, ex) + 11, A(e), 0>>, ok |-> ~(HasUniq /\ A(e) # N)]}
                    ELSE {})
                   \cup (IF AutoInc THEN {} ELSE {[name |-> "fresh", row |-> <<MaxIdIn(ss, ex) + 12, N, 1>>, ok |-> TRUE]})]

Init == /\ tv \in Variants /\ segs = <<>> /\ extra = {} /\ txn = <<>> /\ base = 1 /\ ai = 1 /\ nops = 0 /\ hist = <<>> /\ used = {}

Step(op, outs, more) ==
    /\ nops' = nops + 1
    /\ used' = IF op.k \in {"bulk", "bulk_ai"} THEN used \cup {op.api} ELSE used
    /\ hist' = Append(hist, [op |-> op, tv |-> tv, intxn |-> txn' # <<>>,
                             outs |-> {[kind |-> o.kind, ok |-> o.ok, n |-> o.n, nerr |-> o.nerr, segs |-> o.segs, extra |-> o.extra,
                                        obs |-> Obs(o.segs, o.extra, more)] : o \in outs},
                             cont |-> Continue(outs).kind, ai |-> ai'])

Sizes == IF nops = 0 THEN SizesFirst ELSE SizesLater

\* ---- bulk load (tables without AUTO_INCREMENT)
Bulk == /\ ~AutoInc /\ nops < MaxOps
        /\ \E api \in Apis, n \in Sizes : \E d \in Shapes(n) :
             LET os == Outcomes(api, d, base)
                 c == Continue(os)
                 more == {IdAt(d, base, p) : p \in Specials(d)} \cup (IF HasExisting THEN {Existing} ELSE {})
             IN /\ segs' = c.segs /\ extra' = c.extra /\ base' = base + Span
                /\ UNCHANGED <<tv, txn, ai>>
                /\ Step([k |-> "bulk", api |-> api, d |-> d, base |-> base, specials |-> {[p |-> p, row |-> RowAt(d, base, p)] : p \in Specials(d) \cup ({d.n} \ {0})},
                         bad |-> FoldOf(d, base).bad],
                        os, more)
\* ---- bulk load into the AUTO_INCREMENT table: ids NULL (generated: ai, ai+1, ...), optionally one explicit id far above
\*      at position 2, after which generation continues above it - exactly what one INSERT per row does
BulkAi == /\ AutoInc /\ nops < MaxOps
          /\ \E api \in Apis, n \in Sizes, far \in {0, 2} :
               /\ (far = 2 => n >= 3)
               /\ LET x == ai + 50000
                      g1 == Seg(ai, IF far = 0 THEN n ELSE 1, 1, {})
                      g2 == Seg(x, n - 1, 1, {})
                      ss == IF n = 0 THEN segs ELSE IF far = 0 THEN Append(segs, g1) ELSE Append(Append(segs, g1), g2)
                      o == Outcome("all", TRUE, n, 0, [segs |-> ss, extra |-> extra])
                  IN /\ segs' = ss /\ ai' = IF far = 0 THEN ai + n ELSE x + n - 1
                     /\ UNCHANGED <<tv, extra, txn, base>>
                     /\ Step([k |-> "bulk_ai", api |-> api, n |-> n, far |-> far, x |-> x, first |-> ai], {o}, {ai, x})

\* ---- ordinary DML in between (each is one SQL statement; result = ok/err + affected rows)
Single(kind, ok, n, ss, ex) == {Outcome(kind, ok, n, 0, [segs |-> ss, extra |-> ex])}
Ins1 == /\ WithDml /\ nops < MaxOps
        /\ LET id == IF AutoInc THEN ai ELSE base
           IN /\ segs' = Append(segs, Seg(id, 1, 1, {})) /\ UNCHANGED <<tv, extra, txn>>
              /\ base' = (IF AutoInc THEN base ELSE base + Span)
              /\ ai' = (IF AutoInc THEN ai + 1 ELSE ai)
              /\ Step([k |-> "ins1", row |-> Row(id), gen |-> AutoInc], Single("dml", TRUE, 1, segs', extra), {id})
\* an INSERT that repeats an existing primary key value: refused iff there is a primary key
InsDup == /\ WithDml /\ nops < MaxOps /\ HasExisting /\ ~AutoInc
          /\ LET r == <<Existing, A(base), B(base)>>
             IN /\ extra' = IF HasPK THEN extra ELSE extra \cup {r}
                /\ base' = base + Span /\ UNCHANGED <<tv, segs, txn, ai>>
                /\ Step([k |-> "insdup", row |-> r], Single("dml", ~HasPK, IF HasPK THEN 0 ELSE 1, segs, extra'), {Existing})
DelSegs(ss, x) == [i \in 1..Len(ss) |->
                     LET g == ss[i]
                         c2 == IF x <= g.s THEN 0 ELSE Min2(g.c, ((x - g.s - 1) \div g.st) + 1)
                     IN Seg(g.s, c2, g.st, {m \in g.minus : m < x})]
Del1 == /\ WithDml /\ nops < MaxOps /\ HasExisting
        /\ LET e == Existing
               i == CHOOSE j \in SegIdx : InSeg(e, segs[j])
           IN /\ segs' = [segs EXCEPT ![i].minus = @ \cup {e}] /\ extra' = {r \in extra : r[1] # e}      \* every row with that id
              /\ UNCHANGED <<tv, txn, base, ai>>
              /\ Step([k |-> "del1", id |-> e], Single("dml", TRUE, 1 + Cardinality({r \in extra : r[1] = e}), segs', extra'), {e})
\* DELETE ... WHERE id >= x with x in the middle of the last progression
DelTail == /\ WithDml /\ nops < MaxOps /\ HasExisting
           /\ LET i == CHOOSE j \in LiveSegs : \A k \in LiveSegs : k <= j
                  x == segs[i].s + (segs[i].c \div 2) * segs[i].st
                  ss == DelSegs(segs, x)
                  ex == {r \in extra : r[1] < x}
              IN /\ segs' = ss /\ extra' = ex /\ UNCHANGED <<tv, txn, base, ai>>
                 /\ Step([k |-> "deltail", x |-> x], Single("dml", TRUE, CountIn(segs, extra) - CountIn(ss, ex), ss, ex), {x, x - 1})
\* UPDATE t SET b = 9 WHERE id = e  (b carries the secondary index in idx/all)
Upd1 == /\ WithDml /\ nops < MaxOps /\ HasExisting
        /\ LET e == Existing
               i == CHOOSE j \in SegIdx : InSeg(e, segs[j])
           IN /\ segs' = [segs EXCEPT ![i].minus = @ \cup {e}]
              /\ extra' = {IF r[1] = e THEN <<r[1], r[2], 9>> ELSE r : r \in extra} \cup {<<e, A(e), 9>>}
              /\ UNCHANGED <<tv, txn, base, ai>>
              /\ Step([k |-> "upd1", id |-> e], Single("dml", TRUE, 1 + Cardinality({r \in extra : r[1] = e}), segs', extra'), {e})
Ctl(k, ss, ex, t) == /\ nops < MaxOps /\ segs' = ss /\ extra' = ex /\ txn' = t /\ UNCHANGED <<tv, base, ai>>
                     /\ Step([k |-> k], Single("ctl", TRUE, 0, ss, ex), {})
Begin == WithTxn /\ txn = <<>> /\ Ctl("begin", segs, extra, <<[segs |-> segs, extra |-> extra]>>)
Commit == txn # <<>> /\ Ctl("commit", segs, extra, <<>>)
Rollback == txn # <<>> /\ Ctl("rollback", txn[1].segs, txn[1].extra, <<>>)
Reopen == WithReopen /\ txn = <<>> /\ Ctl("reopen", segs, extra, <<>>)

Next == Bulk \/ BulkAi \/ Ins1 \/ InsDup \/ Del1 \/ DelTail \/ Upd1 \/ Begin \/ Commit \/ Rollback \/ Reopen
Spec == Init /\ [][Next]_vars

(* ---------- meta level: the compact representation against a naive one, *)
(* ---------- on small batches (checked by TLC in MC_RelBulk.cfg)         *)
SegIds(g) == {g.s + i * g.st : i \in 0..(g.c - 1)} \ g.minus
AllRows == UNION {{Row(i) : i \in SegIds(segs[j])} : j \in SegIdx} \cup extra
\* naive single-row INSERT over explicit sets of rows
NaiveOk(r, rs) == /\ (NotNullB => r[3] # N)
                  /\ (HasPK => r[1] # N /\ \A q \in rs : q[1] # r[1])
                  /\ (HasUniq => r[2] = N \/ \A q \in rs : q[2] # r[2])
RECURSIVE NaiveFold(_, _, _, _, _)
NaiveFold(d, b, p, rs, upto) == IF p > upto THEN rs
                                ELSE LET r == RowAt(d, b, p) IN NaiveFold(d, b, p + 1, IF NaiveOk(r, rs) THEN rs \cup {r} ELSE rs, upto)
RowsOfState(ss, ex) == UNION {{Row(i) : i \in SegIds(ss[j])} : j \in 1..Len(ss)} \cup ex
\* every admissible outcome of every offered small batch is what the naive fold gives (stop: fold of the prefix)
CompactEqualsNaive ==
    \A api \in Apis, n \in {m \in Sizes : m <= 8} : \A d \in (IF AutoInc THEN {} ELSE Shapes(n)) :
        LET f == FoldOf(d, base) IN
        \A o \in Outcomes(api, d, base) :
            LET upto == IF o.kind = "stop" THEN o.n ELSE d.n
            IN /\ RowsOfState(o.segs, o.extra) = NaiveFold(d, base, 1, AllRows, upto)
               /\ (o.kind = "stop" => ~NaiveOk(RowAt(d, base, o.n + 1), NaiveFold(d, base, 1, AllRows, o.n)))
               /\ CountIn(o.segs, o.extra) = Cardinality(RowsOfState(o.segs, o.extra))
               /\ \A v \in {0, 1, 2, 9} : CountBIn(o.segs, o.extra, v) = Cardinality({r \in RowsOfState(o.segs, o.extra) : r[3] = v})
\* no two identical rows (the table is a set in every variant the generator reaches) and keys hold
ConstraintsHold == /\ Cardinality(AllRows) = CountIn(segs, extra)
                   /\ (HasPK => \A r1, r2 \in AllRows : r1 # r2 => r1[1] # r2[1])
                   /\ (HasUniq => \A r1, r2 \in AllRows : (r1 # r2 /\ r1[2] # N) => r1[2] # r2[2])
                   /\ (NotNullB => \A r \in AllRows : r[3] # N)
LookupsSound == \A i \in ProbeIds(segs, extra, {}) \ {N} : RowsWithId(segs, extra, i) = {r \in AllRows : r[1] = i}
=============================================================================

----------------------------- MODULE MC_Subquery -----------------------------
(***************************************************************************)
(* Enumerates table contents x query shapes for Subquery.tla, checks the   *)
(* algebra of the oracle (meta-invariants) and prints per case the         *)
(* expected outcome of every query: [err, rows] plus the outcome under     *)
(* every named deviation (singly, and all together).                       *)
(* phase 0: catalogue; 1: t chosen; 2: t, s chosen; 3: t, s, u chosen.     *)
(***************************************************************************)
EXTENDS Subquery, Json

CONSTANTS MaxRowsT, MaxRowsS, MaxRowsU, Stride, Seed
VARIABLES phase, tt, ts, tu
vars == <<phase, tt, ts, tu>>

MCKeySeq == <<N, 1, 2>>
MCValSeq == <<0, 1>>

T(c) == Col("t", c)
S(c) == Col("s", c)
U(c) == Col("u", c)
D(c) == Col("d", c)
T2(c) == Col("t2", c)
K1 == K(1)

(* ---------------- building blocks ---------------- *)
\* one-column subqueries over s
SubW == << <<>>,                                   \* every row
           <<Cmp("eq", S(2), K1)>>,                \* filtered
           <<Cmp("eq", S(2), T(2))>>,              \* correlated
           <<Cmp("gt", S(1), K(5))>>,              \* always empty
           <<Cmp("gt", S(1), K(0))>> >>            \* the non-NULL keys
SubK(w) == Sel(Base("s"), w, <<S(1)>>, "none")
SubUK == Sel(Base("u"), <<>>, <<U(1)>>, "none")
SubUV == Sel(Base("u"), <<>>, <<U(2)>>, "none")
ExW == << <<Cmp("eq", S(1), T(1))>>,
          <<Cmp("eq", S(1), T(1)), Cmp("eq", S(2), K1)>>,
          <<>>,
          <<Cmp("eq", S(2), K1)>>,
          <<Cmp("lt", S(1), T(1))>> >>
ExQ(w) == Sel(Base("s"), w, <<K1>>, "none")
Outer(w) == Sel(Base("t"), w, <<T(1), T(2)>>, "none")
Agg(f, col, w) == Sel(Base("s"), w, <<col>>, f)
Corr == <<Cmp("eq", S(1), T(1))>>

(* ---------------- the catalogue: a sequence of [c |-> class, q |-> query] ---------------- *)
Item(c, q) == [c |-> c, q |-> q]


CatIn == [x \in 1..(2 * Len(SubW)) |->
            LET neg == x > Len(SubW)  w == ((x - 1) % Len(SubW)) + 1
            IN Item(IF w = 3 THEN "where_in_corr" ELSE "where_in", Outer(<<In(neg, T(1), SubK(SubW[w]))>>))]
CatEx == [x \in 1..(2 * Len(ExW)) |->
            LET neg == x > Len(ExW)  w == ((x - 1) % Len(ExW)) + 1
            IN Item(IF w \in {3, 4} THEN "where_exists" ELSE "where_exists_corr", Outer(<<Exists(neg, ExQ(ExW[w]))>>))]
CatScalarW == <<
    Item("where_scalar_agg", Outer(<<Cmp("eq", T(1), SQ(Agg("max", S(1), <<>>)))>>)),
    Item("where_scalar_agg", Outer(<<Cmp("gt", T(1), SQ(Agg("min", S(1), <<>>)))>>)),
    Item("where_scalar_agg", Outer(<<Cmp("eq", SQ(Agg("max", S(1), <<>>)), T(1))>>)),
    Item("where_scalar_agg", Outer(<<Cmp("eq", T(2), SQ(Agg("count", K1, <<Cmp("eq", S(2), K1)>>)))>>)),
    Item("where_scalar_agg_corr", Outer(<<Cmp("eq", T(2), SQ(Agg("count", K1, Corr)))>>)),
    Item("where_scalar_agg_corr", Outer(<<Cmp("eq", T(2), SQ(Agg("max", S(2), Corr)))>>)),
    Item("where_scalar_row", Outer(<<Cmp("eq", T(1), SQ(SubK(SubW[2])))>>)),
    Item("where_scalar_row", Outer(<<Cmp("eq", T(1), SQ(SubK(SubW[4])))>>)),
    Item("where_scalar_row", Outer(<<Cmp("eq", T(1), SQ(SubK(SubW[1])))>>)),
    Item("where_scalar_row_corr", Outer(<<Cmp("eq", T(2), SQ(Sel(Base("s"), Corr, <<S(2)>>, "none")))>>)) >>
CatConj == <<
    Item("where_in_and", Outer(<<In(FALSE, T(1), SubK(SubW[1])), Cmp("eq", T(2), K1)>>)),
    Item("where_in_and", Outer(<<Cmp("eq", T(2), K1), In(TRUE, T(1), SubK(SubW[5]))>>)),
    Item("where_exists_and", Outer(<<Exists(FALSE, ExQ(ExW[1])), Cmp("eq", T(2), K1)>>)),
    Item("where_in_in", Outer(<<In(FALSE, T(1), SubK(SubW[1])), In(TRUE, T(2), SubUV)>>)) >>
CatNest == <<
    Item("nest2", Outer(<<In(FALSE, T(1), Sel(Base("s"), <<In(FALSE, S(1), SubUK)>>, <<S(1)>>, "none"))>>)),
    Item("nest2", Outer(<<In(TRUE, T(1), Sel(Base("s"), <<In(FALSE, S(1), SubUK)>>, <<S(1)>>, "none"))>>)),
    Item("nest2", Outer(<<In(FALSE, T(1), Sel(Base("s"), <<In(TRUE, S(1), SubUK)>>, <<S(1)>>, "none"))>>)),
    Item("nest2", Outer(<<In(FALSE, T(1), Sel(Base("s"), <<Exists(FALSE, Sel(Base("u"), <<Cmp("eq", U(1), S(1))>>, <<K1>>, "none"))>>, <<S(1)>>, "none"))>>)),
    Item("nest2", Outer(<<In(FALSE, T(1), Sel(Base("s"), <<Exists(TRUE, Sel(Base("u"), <<Cmp("eq", U(1), S(1))>>, <<K1>>, "none"))>>, <<S(1)>>, "none"))>>)),
    Item("nest2", Outer(<<Exists(FALSE, Sel(Base("s"), <<Cmp("eq", S(1), T(1)), In(FALSE, S(2), SubUV)>>, <<K1>>, "none"))>>)),
    Item("nest2", Outer(<<Exists(TRUE, Sel(Base("s"), <<Cmp("eq", S(1), T(1)), In(TRUE, S(2), SubUV)>>, <<K1>>, "none"))>>)),
    \* the innermost query refers to the outermost row
    Item("nest2_corr_outer", Outer(<<Exists(FALSE, Sel(Base("s"), <<Exists(FALSE, Sel(Base("u"), <<Cmp("eq", U(1), T(1)), Cmp("eq", U(2), S(2))>>, <<K1>>, "none"))>>, <<K1>>, "none"))>>)),
    Item("nest2", Outer(<<Cmp("eq", T(1), SQ(Sel(Base("s"), <<In(FALSE, S(1), SubUK)>>, <<S(1)>>, "max")))>>)),
    Item("nest3", Outer(<<In(FALSE, T(1), Sel(Base("s"), <<In(FALSE, S(1),
                    Sel(Base("u"), <<Exists(FALSE, Sel(BaseAs("t", "t2"), <<Cmp("eq", T2(1), U(1))>>, <<K1>>, "none"))>>, <<U(1)>>, "none"))>>, <<S(1)>>, "none"))>>)),
    Item("nest3", Outer(<<In(TRUE, T(1), Sel(Base("s"), <<In(FALSE, S(1),
                    Sel(Base("u"), <<Exists(TRUE, Sel(BaseAs("t", "t2"), <<Cmp("eq", T2(2), U(2))>>, <<K1>>, "none"))>>, <<U(1)>>, "none"))>>, <<S(1)>>, "none"))>>)),
    Item("nest3", Outer(<<Exists(FALSE, Sel(Base("s"), <<Cmp("eq", S(1), T(1)), Exists(TRUE,
                    Sel(Base("u"), <<Cmp("eq", U(1), S(1)), In(FALSE, U(2), Sel(BaseAs("t", "t2"), <<>>, <<T2(2)>>, "none"))>>, <<K1>>, "none"))>>, <<K1>>, "none"))>>)) >>
SelList(x) == Sel(Base("t"), <<>>, <<T(1), T(2), x>>, "none")
CatSel == <<
    Item("select_scalar_agg", SelList(SQ(Agg("max", S(1), <<>>)))),
    Item("select_scalar_agg", SelList(SQ(Agg("count", K1, <<>>)))),
    Item("select_scalar_agg_corr", SelList(SQ(Agg("count", K1, Corr)))),
    Item("select_scalar_agg_corr", SelList(SQ(Agg("max", S(2), Corr)))),
    Item("select_scalar_row_corr", SelList(SQ(Sel(Base("s"), Corr, <<S(2)>>, "none")))),
    Item("select_scalar_row", SelList(SQ(SubK(SubW[2])))),
    Item("select_in", SelList(PV(In(FALSE, T(1), SubK(SubW[1]))))),
    Item("select_in", SelList(PV(In(TRUE, T(1), SubK(SubW[1]))))),
    Item("select_exists", SelList(PV(Exists(FALSE, ExQ(ExW[1]))))),
    Item("select_exists", SelList(PV(Exists(TRUE, ExQ(ExW[1]))))) >>
DerS(w) == Derived(Sel(Base("s"), w, <<S(1), S(2)>>, "none"), "d")
CatFrom == <<
    Item("from_derived", Sel(DerS(<<>>), <<>>, <<D(1), D(2)>>, "none")),
    Item("from_derived", Sel(DerS(SubW[2]), <<>>, <<D(1), D(2)>>, "none")),
    Item("from_derived", Sel(DerS(SubW[2]), <<Cmp("eq", D(1), K1)>>, <<D(1), D(2)>>, "none")),
    Item("from_derived", Sel(DerS(<<>>), <<IsNull(D(1))>>, <<D(2), D(1)>>, "none")),
    Item("from_derived_agg", Sel(DerS(SubW[2]), <<>>, <<K1>>, "count")),
    Item("from_derived_in", Sel(DerS(<<>>), <<In(FALSE, D(1), SubUK)>>, <<D(1), D(2)>>, "none")),
    Item("from_derived_in", Sel(DerS(<<>>), <<In(TRUE, D(1), SubUK)>>, <<D(1), D(2)>>, "none")),
    Item("from_derived_inner_sub", Sel(DerS(<<In(FALSE, S(1), SubUK)>>), <<>>, <<D(1), D(2)>>, "none")),
    Item("from_derived_inner_sub", Sel(DerS(<<Exists(TRUE, Sel(Base("u"), <<Cmp("eq", U(1), S(1))>>, <<K1>>, "none"))>>), <<>>, <<D(1), D(2)>>, "none")),
    Item("in_derived", Outer(<<In(FALSE, T(1), Sel(DerS(SubW[2]), <<>>, <<D(1)>>, "none"))>>)),
    Item("in_derived", Outer(<<In(TRUE, T(1), Sel(DerS(SubW[5]), <<>>, <<D(1)>>, "none"))>>)) >>
P1(n) == Sel(Base(n), <<>>, <<Col(n, 1)>>, "none")
P2(n) == Sel(Base(n), <<>>, <<Col(n, 1), Col(n, 2)>>, "none")
Ops == <<[op |-> "union", all |-> FALSE], [op |-> "union", all |-> TRUE], [op |-> "intersect", all |-> FALSE],
         [op |-> "intersect", all |-> TRUE], [op |-> "except", all |-> FALSE], [op |-> "except", all |-> TRUE]>>
CatSet2 == [x \in 1..(2 * Len(Ops)) |->
              LET o == Ops[((x - 1) % Len(Ops)) + 1]
              IN IF x <= Len(Ops) THEN Item("setop_" \o o.op \o (IF o.all THEN "_all" ELSE ""), SetOp(o.op, o.all, P1("t"), P1("s")))
                 ELSE Item("setop_" \o o.op \o (IF o.all THEN "_all" ELSE "") \o "_2col", SetOp(o.op, o.all, P2("t"), P2("s")))]
\* a chain written without parentheses: INTERSECT binds tighter than UNION / EXCEPT, equal precedence associates left
Chain(o1, o2) == IF o2.op = "intersect" /\ o1.op # "intersect"
                 THEN SetOp(o1.op, o1.all, P1("t"), SetOp(o2.op, o2.all, P1("s"), P1("u")))
                 ELSE SetOp(o2.op, o2.all, SetOp(o1.op, o1.all, P1("t"), P1("s")), P1("u"))
ChainOps == <<Ops[1], Ops[2], Ops[3], Ops[5]>>
CatChain == [x \in 1..(Len(ChainOps) * Len(ChainOps)) |->
               LET o1 == ChainOps[((x - 1) \div Len(ChainOps)) + 1]  o2 == ChainOps[((x - 1) % Len(ChainOps)) + 1]
               IN Item("setop_chain", Chain(o1, o2))]
CatSetMisc == <<
    Item("setop_where", SetOp("union", FALSE, Sel(Base("t"), <<Cmp("eq", T(2), K1)>>, <<T(1)>>, "none"), Sel(Base("s"), <<Cmp("eq", S(2), K1)>>, <<S(1)>>, "none"))),
    Item("setop_except_rev", SetOp("except", FALSE, P1("s"), P1("t"))),
    Item("in_setop", Outer(<<In(FALSE, T(1), SetOp("union", FALSE, SubK(<<>>), SubUK))>>)),
    Item("in_setop", Outer(<<In(TRUE, T(1), SetOp("union", TRUE, SubK(SubW[5]), SubUK))>>)),
    Item("in_setop", Outer(<<In(FALSE, T(1), SetOp("intersect", FALSE, SubK(<<>>), SubUK))>>)),
    Item("from_setop", Sel(Derived(SetOp("union", TRUE, P2("s"), P2("u")), "d"), <<Cmp("eq", D(2), K1)>>, <<D(1), D(2)>>, "none")),
    Item("setop_with_sub", SetOp("union", FALSE, Outer(<<In(FALSE, T(1), SubK(<<>>))>>), P2("u"))) >>
Cat == CatIn \o CatEx \o CatScalarW \o CatConj \o CatNest \o CatSel \o CatFrom \o CatSet2 \o CatChain \o CatSetMisc
NQ == Len(Cat)

(* ---------------- cases ---------------- *)
H(s) == Len(s) * 101 + (IF Len(s) >= 1 THEN s[1] * 7 ELSE 0) + (IF Len(s) >= 2 THEN s[2] * 37 ELSE 0)
        + (IF Len(s) >= 3 THEN s[3] * 53 ELSE 0)
Sel3(x, y, z) == \/ Stride = 1 \/ ((H(x) * 13 + H(y) * 29 + H(z) * 31 + Seed * 17) % Stride = 0)
                 \/ (Len(x) + Len(y) + Len(z) = 0)
                 \/ (Len(z) = 0 /\ x = y /\ Len(x) = 2 /\ x[1] = 1)          \* NULL keys on both sides, duplicates
Init == phase = 0 /\ tt = <<>> /\ ts = <<>> /\ tu = <<>>
Next == \/ phase = 0 /\ \E x \in TablesUpTo(MaxRowsT) : tt' = x /\ phase' = 1 /\ UNCHANGED <<ts, tu>>
        \/ phase = 1 /\ \E y \in TablesUpTo(MaxRowsS) : ts' = y /\ phase' = 2 /\ UNCHANGED <<tt, tu>>
        \/ phase = 2 /\ \E z \in TablesUpTo(MaxRowsU) : Sel3(tt, ts, z) /\ tu' = z /\ phase' = 3 /\ UNCHANGED <<tt, ts>>
Spec == Init /\ [][Next]_vars

Tabs == [t |-> RowsOf(tt), s |-> RowsOf(ts), u |-> RowsOf(tu)]

(* ---------------- what is printed ---------------- *)
KFNames == {"in_two_valued", "select_subquery_null", "scalar_first_row", "null_eq_null", "except_all_as_except",
            "setop_right_assoc", "in_setop_first_branch", "in_derived_ignored", "extra_conjunct_ignored",
            "semi_join_residual_dropped", "intersect_all_left_multiplicity", "nested_pred_in_exists_ignored",
            "agg_over_subquery_pred_null"}
KFOrder == <<"null_eq_null", "scalar_first_row", "in_two_valued", "select_subquery_null", "except_all_as_except",
             "intersect_all_left_multiplicity", "setop_right_assoc", "in_setop_first_branch", "in_derived_ignored",
             "extra_conjunct_ignored", "nested_pred_in_exists_ignored", "agg_over_subquery_pred_null", "semi_join_residual_dropped">>
Out(q, kf) == LET r == Eval(q, <<>>, Tabs, kf) IN [err |-> r.err, rows |-> r.rows]
SameOut(a, b) == a.err = b.err /\ BagEq(a.rows, b.rows)
\* blame: the complete behaviour (all deviations at once) is reduced to a locally minimal deviation set with the
\* same outcome (deviations are tried for removal in the order KFOrder)
RECURSIVE Prune(_, _, _, _)
Prune(q, P, out, i) ==
    IF i > Len(KFOrder) THEN P
    ELSE IF KFOrder[i] \in P /\ SameOut(Out(q, P \ {KFOrder[i]}), out) THEN Prune(q, P \ {KFOrder[i]}, out, i + 1)
    ELSE Prune(q, P, out, i + 1)
ResOf(q) ==
    LET ref == Out(q, {})
        all == Out(q, KFNames)
        singles == {[kf |-> {n}, out |-> Out(q, {n})] : n \in KFNames}
        pruned == IF SameOut(all, ref) THEN {} ELSE {[kf |-> Prune(q, KFNames, all, 1), out |-> all]}
    IN [exp |-> ref, dev |-> {d \in singles \cup pruned : ~SameOut(d.out, ref)}]
Case == [n |-> 3, t |-> Tabs.t, s |-> Tabs.s, u |-> Tabs.u, res |-> [i \in 1..NQ |-> ResOf(Cat[i].q)]]
Catalogue == [n |-> 0, cat |-> Cat]
EmitInv == /\ phase = 0 => PrintT(<<"T", ToJson(Catalogue)>>)
           /\ phase = 3 => PrintT(<<"T", ToJson(Case)>>)

(* ---------------- meta-invariants: the algebra of the oracle ---------------- *)
R(q) == Ref(q, Tabs)
Rows(q) == R(q).rows
NoNull(tab) == \A i \in DOMAIN tab : RowK(tab[i]) # N
SubBagSeq(s1, s2) == \A x \in Range(s1) : Count(s1, x) <= Count(s2, x)
A1 == P1("t")
B1 == P1("s")
SetAlgebra == phase = 3 =>
    /\ Len(Rows(SetOp("union", TRUE, A1, B1))) = Len(tt) + Len(ts)
    /\ BagEq(Rows(SetOp("union", FALSE, A1, B1)), Distinct(Rows(SetOp("union", TRUE, A1, B1))))
    /\ SubBagSeq(Rows(SetOp("intersect", FALSE, A1, B1)), Rows(A1))
    /\ SubBagSeq(Rows(SetOp("intersect", TRUE, A1, B1)), Rows(A1))
    /\ SubBagSeq(Rows(SetOp("intersect", TRUE, A1, B1)), Rows(B1))
    /\ Range(Rows(SetOp("except", FALSE, A1, B1))) \cap Range(Rows(B1)) = {}
    \* A = (A EXCEPT ALL B) + (A INTERSECT ALL B) as bags
    /\ BagEq(Rows(A1), Rows(SetOp("except", TRUE, A1, B1)) \o Rows(SetOp("intersect", TRUE, A1, B1)))
    \* distinct results have no duplicates; NULLs are not distinct from each other
    /\ \A o \in {"union", "intersect", "except"} : LET r == Rows(SetOp(o, FALSE, A1, B1)) IN Len(r) = Cardinality(Range(r))
    \* INTERSECT is commutative
    /\ BagEq(Rows(SetOp("intersect", TRUE, A1, B1)), Rows(SetOp("intersect", TRUE, B1, A1)))
InQ(neg) == Outer(<<In(neg, T(1), SubK(<<>>))>>)
ExCorr(neg) == Outer(<<Exists(neg, ExQ(ExW[1]))>>)
InAlgebra == phase = 3 =>
    \* x IN S iff EXISTS (.. WHERE s.k = x); with no NULL anywhere also NOT IN iff NOT EXISTS
    /\ BagEq(Rows(InQ(FALSE)), Rows(ExCorr(FALSE)))
    /\ (NoNull(tt) /\ NoNull(ts)) => BagEq(Rows(InQ(TRUE)), Rows(ExCorr(TRUE)))
    \* NOT IN over a subquery that contains a NULL is never TRUE; over an empty subquery it is always TRUE
    /\ ~NoNull(ts) => Rows(InQ(TRUE)) = <<>>
    /\ Len(ts) = 0 => BagEq(Rows(InQ(TRUE)), Tabs.t)
    \* IN and NOT IN never both hold; rows in neither are exactly those where the predicate is UNKNOWN
    /\ SubBagSeq(Rows(InQ(FALSE)) \o Rows(InQ(TRUE)), Tabs.t)
    /\ (NoNull(tt) /\ NoNull(ts)) => BagEq(Rows(InQ(FALSE)) \o Rows(InQ(TRUE)), Tabs.t)
    \* EXISTS / NOT EXISTS partition the outer table
    /\ BagEq(Rows(ExCorr(FALSE)) \o Rows(ExCorr(TRUE)), Tabs.t)
    \* the select-list value of IN agrees with the WHERE filter: 1 exactly on the rows WHERE keeps
    /\ LET sel == Rows(SelList(PV(In(FALSE, T(1), SubK(<<>>)))))
       IN BagEq(SelectSeq(sel, LAMBDA r : r[3] = 1), [i \in DOMAIN Rows(InQ(FALSE)) |-> Rows(InQ(FALSE))[i] \o <<1>>])
ScalarAlgebra == phase = 3 =>
    \* COUNT is never NULL; MAX over no rows is NULL; a one-row scalar subquery never fails
    /\ \A r \in Range(Rows(SelList(SQ(Agg("count", K1, Corr))))) : r[3] # N
    /\ Len(ts) = 0 => \A r \in Range(Rows(SelList(SQ(Agg("max", S(1), <<>>))))) : r[3] = N
    /\ R(SelList(SQ(Agg("max", S(1), <<>>)))).err = "no"
    \* a row subquery fails exactly when it can return two rows for some outer row (or may fail when there is no outer row)
    /\ LET q == SelList(SQ(Sel(Base("s"), Corr, <<S(2)>>, "none")))
           dup == \E i \in DOMAIN tt : RowK(tt[i]) # N /\ Cardinality({j \in DOMAIN ts : RowK(ts[j]) = RowK(tt[i])}) > 1
       IN (R(q).err = "must") <=> dup
    \* deviations switched off give the reference
    /\ \A i \in 1..NQ : SameOut(Out(Cat[i].q, {}), [err |-> R(Cat[i].q).err, rows |-> Rows(Cat[i].q)])
=============================================================================

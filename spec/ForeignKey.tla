----------------------------- MODULE ForeignKey -----------------------------
(***************************************************************************)
(* Reference semantics of a FOREIGN KEY between two tables (C09):          *)
(*                                                                         *)
(*   p(id INT PRIMARY KEY, u INT)                                          *)
(*   c(id INT PRIMARY KEY, pid INT REFERENCES p(id) [ON DELETE <act>])     *)
(*                                                                         *)
(* act is one of  noaction (no clause), restrict, cascade, setnull.        *)
(* A write succeeds iff afterwards every non-NULL c.pid names an existing  *)
(* p.id (and the primary keys are unique); deleting a referenced parent is *)
(* refused (noaction / restrict), deletes the referencing children         *)
(* (cascade) or sets their pid to NULL (setnull), as declared. ON UPDATE   *)
(* is not declared: changing a referenced parent key is refused.           *)
(* Statements are atomic: a multi-row statement with one offending row     *)
(* changes nothing. BEGIN / ROLLBACK restore both tables (C07 meets C09:   *)
(* the children a cascade removed must be back after ROLLBACK).            *)
(***************************************************************************)
EXTENDS Integers, Sequences, FiniteSets, TLC

CONSTANTS PIds,      \* parent keys
          CIds,      \* child keys
          Acts,      \* the ON DELETE actions explored (one initial state each)
          MaxOps, WithTxn
N == -99

VARIABLES par,      \* set of parent ids
          chi,      \* set of <<id, pid>>
          act,      \* the declared ON DELETE action
          txn,      \* <<>> or <<[par, chi]>>
          nops, hist
vars == <<par, chi, act, txn, nops, hist>>
view == <<par, chi, act, txn, nops>>

RefOk(ps, cs) == \A x \in cs : x[2] = N \/ x[2] \in ps
KeysOk(cs) == \A x, y \in cs : x[1] = y[1] => x = y
Ok(ps, cs) == RefOk(ps, cs) /\ KeysOk(cs)

Res(ok, n, ps, cs) == [ok |-> ok, n |-> n, par |-> ps, chi |-> cs]
Fail == Res(FALSE, 0, par, chi)

\* INSERT INTO p VALUES (i, 0)
DoInsP(i) == IF i \in par THEN Fail ELSE Res(TRUE, 1, par \cup {i}, chi)
\* INSERT INTO c VALUES (..), (..): all rows or none
DoInsC(rows) == LET new == {rows[j] : j \in 1..Len(rows)}
                    after == chi \cup new
                IN IF Cardinality(new) = Len(rows) /\ Cardinality(after) = Cardinality(chi) + Len(rows) /\ Ok(par, after)
                     THEN Res(TRUE, Len(rows), par, after) ELSE Fail
\* DELETE FROM p WHERE id IN sel
DoDelP(sel) == LET hit == par \cap sel
                   refs == {x \in chi : x[2] \in hit}
               IN CASE act \in {"noaction", "restrict"} -> IF refs = {} THEN Res(TRUE, Cardinality(hit), par \ hit, chi) ELSE Fail
                    [] act = "cascade" -> Res(TRUE, Cardinality(hit), par \ hit, chi \ refs)
                    [] act = "setnull" -> Res(TRUE, Cardinality(hit), par \ hit, (chi \ refs) \cup {<<x[1], N>> : x \in refs})
\* UPDATE p SET id = j WHERE id = i
DoUpdPKey(i, j) == IF i \notin par THEN Res(TRUE, 0, par, chi)
                   ELSE IF i = j THEN Res(TRUE, 1, par, chi)
                   ELSE IF j \in par \/ (\E x \in chi : x[2] = i) THEN Fail
                   ELSE Res(TRUE, 1, (par \ {i}) \cup {j}, chi)
\* UPDATE c SET pid = q WHERE id IN sel
DoUpdCFk(sel, q) == LET hit == {x \in chi : x[1] \in sel}
                        after == (chi \ hit) \cup {<<x[1], q>> : x \in hit}
                    IN IF hit = {} THEN Res(TRUE, 0, par, chi)
                       ELSE IF q = N \/ q \in par THEN Res(TRUE, Cardinality(hit), par, after) ELSE Fail
DoDelC(sel) == LET hit == {x \in chi : x[1] \in sel} IN Res(TRUE, Cardinality(hit), par, chi \ hit)

Init == par = {} /\ chi = {} /\ act \in Acts /\ txn = <<>> /\ nops = 0 /\ hist = <<>>

Step(op, res) == /\ nops < MaxOps /\ nops' = nops + 1 /\ UNCHANGED act
                 /\ hist' = Append(hist, [op |-> op, ok |-> res.ok, n |-> res.n, par |-> res.par, chi |-> res.chi, intxn |-> txn' # <<>>])
Stmt(op, res) == par' = res.par /\ chi' = res.chi /\ UNCHANGED txn /\ Step(op, res)

Pids == PIds \cup {N}
InsP == \E i \in PIds : Stmt([k |-> "ins_p", i |-> i], DoInsP(i))
InsC == \E i \in CIds, q \in Pids : Stmt([k |-> "ins_c", rows |-> << <<i, q>> >>], DoInsC(<< <<i, q>> >>))
InsC2 == \E q1 \in Pids, q2 \in Pids : LET rows == << <<1, q1>>, <<2, q2>> >> IN Stmt([k |-> "ins_c", rows |-> rows], DoInsC(rows))
DelP == \E sel \in ({{i} : i \in PIds} \cup {PIds}) : Stmt([k |-> "del_p", sel |-> sel], DoDelP(sel))
UpdPKey == \E i \in PIds, j \in PIds : i # j /\ Stmt([k |-> "upd_p_key", i |-> i, j |-> j], DoUpdPKey(i, j))
UpdCFk == \E sel \in ({{i} : i \in CIds} \cup {CIds}), q \in Pids : Stmt([k |-> "upd_c_fk", sel |-> sel, q |-> q], DoUpdCFk(sel, q))
DelC == \E i \in CIds : Stmt([k |-> "del_c", sel |-> {i}], DoDelC({i}))
Reopen == txn = <<>> /\ UNCHANGED <<par, chi, txn>> /\ Step([k |-> "reopen"], Res(TRUE, 0, par, chi))
Begin == WithTxn /\ txn = <<>> /\ txn' = << [par |-> par, chi |-> chi] >> /\ UNCHANGED <<par, chi>> /\ Step([k |-> "begin"], Res(TRUE, 0, par, chi))
Commit == txn # <<>> /\ txn' = <<>> /\ UNCHANGED <<par, chi>> /\ Step([k |-> "commit"], Res(TRUE, 0, par, chi))
Rollback == txn # <<>> /\ txn' = <<>> /\ par' = txn[1].par /\ chi' = txn[1].chi /\ Step([k |-> "rollback"], Res(TRUE, 0, txn[1].par, txn[1].chi))

Next == InsP \/ InsC \/ InsC2 \/ DelP \/ UpdPKey \/ UpdCFk \/ DelC \/ Reopen \/ Begin \/ Commit \/ Rollback
Spec == Init /\ [][Next]_vars

\* the model keeps what it promises, and a refused statement changes nothing
ReferencesHold == Ok(par, chi)
FailureIsNoOp == \A j \in 1..Len(hist) : ~hist[j].ok =>
                     (IF j = 1 THEN hist[j].par = {} /\ hist[j].chi = {} ELSE hist[j].par = hist[j - 1].par /\ hist[j].chi = hist[j - 1].chi)
=============================================================================

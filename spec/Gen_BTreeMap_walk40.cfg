\* motif-driven random walks over the mixed 40-key universe (run with -simulate num=N -depth MaxOps+1 -seed S)
CONSTANTS NKeys = 40  KB <- KB_U40  Vals = {1, 2, 3, 4, 5, 6, 7, 8}  VLen <- VLen8  InsVals <- AllVals8  AllowUnsafe = FALSE
CONSTANTS MaxOps = 240  Preloads <- NoPreload  Motifs = {"sorted", "reverse", "random", "eqprefix"}  PhaseLen = 40  OpVals <- OpVals_U6
SPECIFICATION SpecWalk
ACTION_CONSTRAINT EmitWalk
CHECK_DEADLOCK FALSE

----------------------------- MODULE Relational -----------------------------
(***************************************************************************)
(* Reference semantics of DML on one table with declared constraints       *)
(*                                                                         *)
(*   t(id INT PRIMARY KEY, a INT UNIQUE, b INT NOT NULL CHECK (b < 3))     *)
(*                                                                         *)
(* (and, by the constant HasPK = FALSE, the same table without a primary   *)
(* key, where rows form a bag). The user-visible state is `rows`; every    *)
(* statement is ONE action whose result (ok n / err) and post-state are    *)
(* the property: C05 (results match), C06 (err => UNCHANGED), C09 (ok iff  *)
(* constraints hold afterwards), C10 (indexes are invisible), C04/C42      *)
(* (reopen / checkpoint / configuration are stuttering steps), C07 (Txn).  *)
(*                                                                         *)
(* `tomb`, `reop` and `txn` are history abstractions that are part of the  *)
(* VIEW on purpose: the implementation keeps tombstones, restarts counters *)
(* on reopen and logs undo entries, so states that are equal for the user  *)
(* are explored once per history class.                                    *)
(***************************************************************************)
EXTENDS Integers, Sequences, FiniteSets, TLC

CONSTANTS Ids, AVals, BVals,      \* value domains; N stands for NULL
          MaxOps, WithTxn, WithReopen,
          Configs                 \* names of configurations SetConfig may switch to ({} = no configuration steps)
N == -99

VARIABLES rows,     \* set of <<id, a, b>>
          tomb,     \* ids deleted at some point (a tombstone may exist in the implementation)
          reop,     \* the database was reopened at least once
          txn,      \* <<>> or the stack of snapshots: BEGIN state, then one per savepoint
          conf,     \* current configuration (PRAGMA wal / synchronous / wal_autoflush / wal_checkpoint_threshold): invisible to queries (C42)
          nops,
          hist
vars == <<rows, tomb, reop, txn, conf, nops, hist>>
view == <<rows, tomb, reop, txn, conf, nops>>

Row(i, a, b) == <<i, a, b>>
Col(r, c) == CASE c = "id" -> r[1] [] c = "a" -> r[2] [] c = "b" -> r[3]
SetCol(r, c, v) == CASE c = "id" -> <<v, r[2], r[3]>> [] c = "a" -> <<r[1], v, r[3]>> [] c = "b" -> <<r[1], r[2], v>>

(* ---------- predicates (WHERE), SQL three-valued: a comparison with NULL is not TRUE ---------- *)
Preds == {[k |-> "all", c |-> "id", v |-> 0]}
         \cup {[k |-> "eq", c |-> "id", v |-> i] : i \in Ids}
         \cup {[k |-> "eq", c |-> "a", v |-> x] : x \in AVals \ {N}}
         \cup {[k |-> "eq", c |-> "b", v |-> x] : x \in {0, 1}}
         \cup {[k |-> "ge", c |-> "id", v |-> 2]}
         \cup {[k |-> "isnull", c |-> "a", v |-> 0]}
Matches(r, p) == CASE p.k = "all" -> TRUE
                   [] p.k = "eq" -> Col(r, p.c) # N /\ Col(r, p.c) = p.v
                   [] p.k = "ge" -> Col(r, p.c) # N /\ Col(r, p.c) >= p.v
                   [] p.k = "isnull" -> Col(r, p.c) = N

(* ---------- constraints ---------- *)
RowOk(r) == /\ r[1] # N                \* PRIMARY KEY implies NOT NULL
            /\ r[3] # N                \* b NOT NULL
            /\ r[3] < 3                \* CHECK (b < 3): not FALSE (b is never NULL here)
TableOk(rs) == /\ \A r \in rs : RowOk(r)
               /\ \A r1, r2 \in rs : (r1 # r2) => r1[1] # r2[1]                       \* PRIMARY KEY
               /\ \A r1, r2 \in rs : (r1 # r2 /\ r1[2] # N) => r1[2] # r2[2]          \* UNIQUE(a), NULLs distinct

(* ---------- statements: result = [ok, n, rows, ret] ---------- *)
\* ret: the rows a RETURNING id, a, b clause of the statement delivers (C05): the inserted rows, the NEW images of the
\* updated rows, the deleted rows; nothing when the statement fails
ResR(ok, n, rs, ret) == [ok |-> ok, n |-> n, rows |-> rs, ret |-> ret]
Res(ok, n, rs) == ResR(ok, n, rs, {})
\* INSERT of a sequence of rows: all rows or none
DoInsert(rs, new) ==
    LET newset == {new[i] : i \in 1..Len(new)}
        distinct == Cardinality(newset) = Len(new)
        after == rs \cup newset
    IN IF distinct /\ Cardinality(after) = Cardinality(rs) + Len(new) /\ TableOk(after)
         THEN ResR(TRUE, Len(new), after, newset) ELSE Res(FALSE, 0, rs)
DoUpdate(rs, c, v, p) ==
    LET hit == {r \in rs : Matches(r, p)}
        img == {SetCol(r, c, v) : r \in hit}
        after == (rs \ hit) \cup img
    IN IF Cardinality(after) = Cardinality(rs) /\ TableOk(after)
         THEN ResR(TRUE, Cardinality(hit), after, img) ELSE Res(FALSE, 0, rs)
DoDelete(rs, p) == LET hit == {r \in rs : Matches(r, p)} IN ResR(TRUE, Cardinality(hit), rs \ hit, hit)

(* ---------- INSERT ... ON CONFLICT (one row) ---------- *)
\* the existing rows the new row collides with: on the primary key, on UNIQUE(a) (NULLs never collide)
ClashId(rs, r) == {x \in rs : x[1] = r[1]}
ClashA(rs, r) == {x \in rs : r[2] # N /\ x[2] = r[2]}
\* ON CONFLICT DO NOTHING (no target): a row that collides with an existing row on any key is skipped; otherwise it is
\* an ordinary INSERT. (A colliding row that ALSO breaks NOT NULL / CHECK is left out of the model: SQL dialects
\* disagree on whether it is skipped or refused, and C09 only says the result must satisfy the constraints.)
UpsertNothingDefined(rs, r) == RowOk(r) \/ (ClashId(rs, r) \cup ClashA(rs, r) = {})
DoUpsertNothing(rs, r) == IF ClashId(rs, r) \cup ClashA(rs, r) # {} THEN Res(TRUE, 0, rs) ELSE DoInsert(rs, <<r>>)
\* ON CONFLICT (tgt) DO UPDATE SET c = v: if an existing row collides on the TARGET key, that row gets c = v (and the
\* statement succeeds iff the table then satisfies every constraint); otherwise it is an ordinary INSERT, which a
\* collision on the other key refuses
DoUpsertUpdate(rs, r, tgt, c, v) ==
    LET hit == IF tgt = "id" THEN ClashId(rs, r) ELSE ClashA(rs, r)
        img == {SetCol(x, c, v) : x \in hit}
        after == (rs \ hit) \cup img
    IN IF hit = {} THEN DoInsert(rs, <<r>>)
       ELSE IF Cardinality(after) = Cardinality(rs) /\ TableOk(after) THEN ResR(TRUE, 1, after, img) ELSE Res(FALSE, 0, rs)

InsRows == {Row(i, a, b) : i \in Ids, a \in AVals, b \in BVals}
\* second rows of two-row inserts: a small set that produces every failure kind in second position
SecondRows == {Row(i, a, b) : i \in {1, 3}, a \in {N, 1}, b \in {0, 5}} \cup {Row(2, 2, N)}

Init == rows = {} /\ tomb = {} /\ reop = FALSE /\ txn = <<>> /\ conf = "default" /\ nops = 0 /\ hist = <<>>

\* ids of the rows a statement reads-and-writes (whether or not their values change): what a crash in the middle of
\* the statement may leave half done
Touched(op) == CASE op.k = "insert" -> {op.rows[j][1] : j \in 1..Len(op.rows)}
                 [] op.k = "update" -> {r[1] : r \in {r2 \in rows : Matches(r2, op.p)}} \cup (IF op.c = "id" THEN {op.v} ELSE {})
                 [] op.k = "delete" -> {r[1] : r \in {r2 \in rows : Matches(r2, op.p)}}
                 [] op.k = "truncate" -> {r[1] : r \in rows}
                 [] op.k = "upsert" -> {op.row[1]} \cup {x[1] : x \in ClashId(rows, op.row) \cup ClashA(rows, op.row)}
                 [] OTHER -> {}
Step(op, res) == /\ nops' = nops + 1
                 /\ (op.k # "setconfig" => UNCHANGED conf)
                 /\ hist' = Append(hist, [op |-> op, ok |-> res.ok, n |-> res.n, rows |-> res.rows, ret |-> res.ret, intxn |-> txn' # <<>>, touched |-> Touched(op)])

Stmt(op, res) == /\ nops < MaxOps
                 /\ rows' = res.rows
                 /\ tomb' = tomb \cup {r[1] : r \in rows \ res.rows}
                 /\ UNCHANGED <<reop, txn>>
                 /\ Step(op, res)

Insert1 == \E r \in InsRows : Stmt([k |-> "insert", rows |-> <<r>>], DoInsert(rows, <<r>>))
Insert2 == \E r1 \in InsRows, r2 \in SecondRows : Stmt([k |-> "insert", rows |-> <<r1, r2>>], DoInsert(rows, <<r1, r2>>))
Update  == \E p \in Preds, c \in {"a", "b"} : \E v \in (IF c = "a" THEN AVals ELSE BVals) :
               Stmt([k |-> "update", c |-> c, v |-> v, p |-> p], DoUpdate(rows, c, v, p))
UpdateId == \E i \in Ids, j \in Ids : Stmt([k |-> "update", c |-> "id", v |-> j, p |-> [k |-> "eq", c |-> "id", v |-> i]],
                                           DoUpdate(rows, "id", j, [k |-> "eq", c |-> "id", v |-> i]))
Delete  == \E p \in Preds : Stmt([k |-> "delete", p |-> p], DoDelete(rows, p))
UpsertNothing(RowSet) == \E r \in RowSet : UpsertNothingDefined(rows, r) /\
                             Stmt([k |-> "upsert", row |-> r, act |-> "nothing", tgt |-> "-", c |-> "-", v |-> 0], DoUpsertNothing(rows, r))
UpsertUpdate(RowSet, Sets) == \E r \in RowSet, tgt \in {"id", "a"}, cv \in Sets : RowOk(r) /\
                             Stmt([k |-> "upsert", row |-> r, act |-> "update", tgt |-> tgt, c |-> cv[1], v |-> cv[2]], DoUpsertUpdate(rows, r, tgt, cv[1], cv[2]))
\* statements that are wrong whatever the table holds (C06: type error, missing object, wrong arity, unknown function,
\* also as the SECOND row of a VALUES list and in a multi-row UPDATE): refused, and nothing changes. `id` is an id no row
\* has, so that the rows such a statement names would be acceptable if the statement were not wrong.
BadKinds == {"unknown_table", "unknown_column_in_list", "unknown_column_in_set", "unknown_column_in_where", "too_many_values",
             "text_into_int", "second_row_text_into_int", "second_row_too_many_values", "second_row_unknown_function",
             "update_all_text_into_int", "update_all_unknown_function", "delete_where_unknown_function", "not_sql"}
FreeIds == Ids \ {r[1] : r \in rows}
Bad == \E b \in BadKinds, i \in FreeIds : Stmt([k |-> "bad", b |-> b, id |-> i], Res(FALSE, 0, rows))
Truncate == txn = <<>> /\ Stmt([k |-> "truncate"], Res(TRUE, Cardinality(rows), {}))

\* stuttering steps on the logical state (C04, C42)
SetConfig == /\ nops < MaxOps /\ txn = <<>>
             /\ \E c \in Configs \ {conf} :
                   /\ conf' = c /\ UNCHANGED <<rows, tomb, reop, txn>>
                   /\ Step([k |-> "setconfig", c |-> c], Res(TRUE, 0, rows))
Reopen == /\ WithReopen /\ nops < MaxOps /\ txn = <<>>
          /\ reop' = TRUE /\ UNCHANGED <<rows, tomb, txn>>
          /\ Step([k |-> "reopen"], Res(TRUE, 0, rows))
Checkpoint == /\ WithReopen /\ nops < MaxOps /\ txn = <<>>
              /\ UNCHANGED <<rows, tomb, reop, txn>>
              /\ Step([k |-> "checkpoint"], Res(TRUE, 0, rows))

(* ---------- transactions on one handle (C07) ---------- *)
Begin == /\ WithTxn /\ nops < MaxOps /\ txn = <<>>
         /\ txn' = <<rows>> /\ UNCHANGED <<rows, tomb, reop>>
         /\ Step([k |-> "begin"], Res(TRUE, 0, rows))
Commit == /\ txn # <<>> /\ nops < MaxOps
          /\ txn' = <<>> /\ UNCHANGED <<rows, tomb, reop>>
          /\ Step([k |-> "commit"], Res(TRUE, 0, rows))
Rollback == /\ txn # <<>> /\ nops < MaxOps
            /\ rows' = txn[1] /\ txn' = <<>> /\ UNCHANGED <<tomb, reop>>
            /\ Step([k |-> "rollback"], Res(TRUE, 0, txn[1]))
\* the handle that holds the open transaction is dropped: everything it did since BEGIN is undone (C07); the history
\* continues on a fresh handle of the same database
DropHandle == /\ txn # <<>> /\ nops < MaxOps
              /\ rows' = txn[1] /\ txn' = <<>> /\ UNCHANGED <<tomb, reop>>
              /\ Step([k |-> "drophandle"], Res(TRUE, 0, txn[1]))
Savepoint == /\ txn # <<>> /\ Len(txn) < 3 /\ nops < MaxOps
             /\ txn' = Append(txn, rows) /\ UNCHANGED <<rows, tomb, reop>>
             /\ Step([k |-> "savepoint", name |-> Len(txn)], Res(TRUE, 0, rows))
RollbackTo == /\ Len(txn) >= 2 /\ nops < MaxOps
              /\ \E k \in 2..Len(txn) :
                    /\ rows' = txn[k] /\ txn' = SubSeq(txn, 1, k) /\ UNCHANGED <<tomb, reop>>
                    /\ Step([k |-> "rollback_to", name |-> k - 1], Res(TRUE, 0, txn[k]))
Release == /\ Len(txn) >= 2 /\ nops < MaxOps
           /\ \E k \in 2..Len(txn) :
                 /\ txn' = SubSeq(txn, 1, k - 1) /\ UNCHANGED <<rows, tomb, reop>>
                 /\ Step([k |-> "release", name |-> k - 1], Res(TRUE, 0, rows))

Next == Insert1 \/ Insert2 \/ Update \/ UpdateId \/ Delete \/ Truncate \/ Reopen \/ Checkpoint \/ SetConfig
        \/ Begin \/ Commit \/ Rollback \/ Savepoint \/ RollbackTo \/ Release
Spec == Init /\ [][Next]_vars

(* ---------- what the reference itself guarantees ---------- *)
ConstraintsHold == TableOk(rows)
ErrLeavesStateAlone == [][hist' # hist /\ ~hist'[Len(hist')].ok => rows' = rows]_vars
=============================================================================

------------------------------- MODULE Values -------------------------------
(***************************************************************************)
(* C11 - every stored value reads back unchanged.                          *)
(*                                                                         *)
(* The user-visible contract of a column is a REGISTER: after               *)
(*        Write(row, col, v)      (INSERT or UPDATE, any API path)          *)
(* a Read(row, col) returns v - the same type tag and the same value under *)
(* the per-type equality Eq below - until the next Write to that cell,     *)
(* whatever happens in between to other cells of the row (UPDATE of a      *)
(* neighbour column rewrites the record), to other rows, and across        *)
(* Reopen, which is a stuttering step on the store.                        *)
(*                                                                         *)
(* A value is a NAMED POINT [tag, cls] of a column type; the renderer maps *)
(* the name to the concrete value (lib/values.py) and the spec fixes what  *)
(* the name means where that is arithmetic: byte lengths relative to the   *)
(* TOAST threshold and chunk size, calendar day numbers, integer bounds.   *)
(* Eq is identity of points: the points are chosen so that distinct names  *)
(* are distinct values (NaN is one point, equal to itself; -0.0 and +0.0   *)
(* are two points - the comparer works on bits; a blob and a text with the *)
(* same bytes are two points because the tag is part of the value).        *)
(*                                                                         *)
(* The state space IS the enumeration the property quantifies over:        *)
(*   column type x value class x form x path x op x prior x reopen x shape *)
(* Every behaviour  Insert [Update | Touch] [Reopen] Read  is emitted with *)
(* the expected contents of the table (MC_Values.Emit).                    *)
(***************************************************************************)
EXTENDS Integers, Sequences, FiniteSets, TLC

CONSTANTS ColTypes,     \* column types explored in this run (subset of AllColTypes)
          Shapes,       \* table shapes explored (subset of AllShapes)
          WithReopen    \* BOOLEAN: explore Reopen steps

(* ------------------------------------------------------------------ storage constants of the implementation *)
ToastThreshold == 1000      \* storage/toast.rs TOAST_THRESHOLD: a text/blob of MORE than this many bytes is moved out of line
ChunkSize      == 4000      \* storage/toast.rs TOAST_CHUNK_SIZE
Pages          == 100000    \* 25 chunks: the chunks of one value fill several 16 KiB leaf pages of the TOAST tree
Huge           == 3145728   \* 3 MiB: "multi-megabyte", 787 chunks

(* ------------------------------------------------------------------ calendar (day number of a civil date) *)
IsLeap(y) == (y % 4 = 0 /\ y % 100 # 0) \/ (y % 400 = 0)
DaysInMonth(y, m) == CASE m \in {1, 3, 5, 7, 8, 10, 12} -> 31 [] m \in {4, 6, 9, 11} -> 30 [] m = 2 -> IF IsLeap(y) THEN 29 ELSE 28
LeapsBefore(y) == ((y - 1) \div 4) - ((y - 1) \div 100) + ((y - 1) \div 400)
DaysBeforeYear(y) == 365 * (y - 1) + LeapsBefore(y)
RECURSIVE DaysBeforeMonth(_, _)
DaysBeforeMonth(y, m) == IF m = 1 THEN 0 ELSE DaysBeforeMonth(y, m - 1) + DaysInMonth(y, m - 1)
DaysFromCivil(y, m, d) == DaysBeforeYear(y) + DaysBeforeMonth(y, m) + (d - 1) - DaysBeforeYear(1970)

(* ------------------------------------------------------------------ column types and value tags *)
AllColTypes == {"SMALLINT", "INT", "BIGINT", "DOUBLE", "REAL", "DECIMAL", "TEXT", "VARCHAR", "CHAR", "BLOB", "BOOLEAN",
                "DATE", "TIME", "TIMESTAMP", "UUID", "JSONB", "VECTOR1", "VECTOR8", "VECTOR9", "VECTOR70"}
Tag(ct) == CASE ct \in {"SMALLINT", "INT", "BIGINT"}   -> "int"
             [] ct \in {"DOUBLE", "REAL", "DECIMAL"}   -> "float"   \* the dialect stores REAL and DECIMAL(p,s) as 8-byte floats
             [] ct \in {"TEXT", "VARCHAR", "CHAR"}     -> "text"
             [] ct = "BLOB"                            -> "blob"
             [] ct = "BOOLEAN"                         -> "bool"
             [] ct = "DATE"                            -> "date"
             [] ct = "TIME"                            -> "time"
             [] ct = "TIMESTAMP"                       -> "ts"
             [] ct = "UUID"                            -> "uuid"
             [] ct = "JSONB"                           -> "json"
             [] ct \in {"VECTOR1", "VECTOR8", "VECTOR9", "VECTOR70"} -> "vec"
VecDim(ct) == CASE ct = "VECTOR1" -> 1 [] ct = "VECTOR8" -> 8 [] ct = "VECTOR9" -> 9 [] ct = "VECTOR70" -> 70

(* ------------------------------------------------------------------ named points per column type *)
Int16 == {"i_zero", "i_one", "i_neg1", "i16_max", "i16_min"}
Int32 == Int16 \cup {"i16_max_p1", "i16_min_m1", "i32_max", "i32_min"}
Int64 == Int32 \cup {"i32_max_p1", "i32_min_m1", "i64_max", "i64_max_m1", "i64_min", "i64_min_p1"}
Floats == {"f_zero", "f_negzero", "f_one_half", "f_neg_one_half", "f_five", "f_tenth", "f_sum", "f_nan", "f_inf", "f_ninf",
           "f_min_sub", "f_min_norm", "f_max", "f_neg_max", "f_1e22", "f_2p53_p2"}
Decimals == {"f_zero", "f_one_half", "f_five", "f_tenth", "f_money", "f_dec19"}     \* f_dec19: 19 significant digits, exact in DECIMAL(38,10)
\* sizes in BYTES; the same size points exist for text, for blobs that are valid UTF-8 and for blobs that are not
SizePoints == {"thr_m1", "thr", "thr_p1", "chunk_m1", "chunk", "chunk_p1", "chunk2", "chunk2_p1", "pages", "huge"}
SizeOf(p) == CASE p = "thr_m1" -> ToastThreshold - 1 [] p = "thr" -> ToastThreshold [] p = "thr_p1" -> ToastThreshold + 1
               [] p = "chunk_m1" -> ChunkSize - 1 [] p = "chunk" -> ChunkSize [] p = "chunk_p1" -> ChunkSize + 1
               [] p = "chunk2" -> 2 * ChunkSize [] p = "chunk2_p1" -> 2 * ChunkSize + 1 [] p = "pages" -> Pages [] p = "huge" -> Huge
Texts == {"t_empty", "t_1b", "t_quote", "t_backslash", "t_nul", "t_4byte", "t_unicode", "t_sqlish", "t_numeric", "t_newline"}
         \cup {"t_" \o p : p \in SizePoints} \cup {"t_mb_chunk"}     \* t_mb_chunk: a 4-byte character straddles the chunk boundary
Varchars == {"t_empty", "t_1b", "vc_quote", "t_4byte", "vc_max_ascii", "vc_max_4byte"}    \* VARCHAR(10): 10 characters, 10 and 40 bytes
Chars == {"t_1b", "ch_full", "ch_full_4byte"}                                           \* CHAR(5)
Blobs == {"b_empty", "b_zero", "b_ff", "b_bin", "b_utf8", "b_fe17", "b_fe16", "b_fe18"}
         \cup {"bu_" \o p : p \in SizePoints}     \* valid UTF-8 of that size
         \cup {"bb_" \o p : p \in SizePoints}     \* invalid UTF-8 of that size
Bools == {"true", "false"}
\* civil dates <<y, m, d>>; the day number is DaysFromCivil
DatePoint(c) == CASE c = "d_epoch" -> <<1970, 1, 1>> [] c = "d_pre_epoch" -> <<1969, 12, 31>> [] c = "d_min" -> <<1, 1, 1>>
                  [] c = "d_max" -> <<9999, 12, 31>> [] c = "d_leap" -> <<2024, 2, 29>> [] c = "d_2000_leap" -> <<2000, 2, 29>>
                  [] c = "d_1900_mar1" -> <<1900, 3, 1>> [] c = "d_2038" -> <<2038, 1, 19>>
Dates == {"d_epoch", "d_pre_epoch", "d_min", "d_max", "d_leap", "d_2000_leap", "d_1900_mar1", "d_2038"}
\* time of day <<h, m, s, micros>>
TimePoint(c) == CASE c = "tm_midnight" -> <<0, 0, 0, 0>> [] c = "tm_last" -> <<23, 59, 59, 999999>> [] c = "tm_1us" -> <<0, 0, 0, 1>>
                  [] c = "tm_millis" -> <<12, 34, 56, 789000>> [] c = "tm_noon" -> <<12, 0, 0, 0>>
Times == {"tm_midnight", "tm_last", "tm_1us", "tm_millis", "tm_noon"}
\* timestamps are a date point and a time point
TsPoint(c) == CASE c = "ts_epoch" -> <<"d_epoch", "tm_midnight">> [] c = "ts_pre_epoch" -> <<"d_pre_epoch", "tm_last">>
                [] c = "ts_min" -> <<"d_min", "tm_midnight">> [] c = "ts_max" -> <<"d_max", "tm_last">>
                [] c = "ts_leap" -> <<"d_leap", "tm_millis">> [] c = "ts_2038" -> <<"d_2038", "tm_1us">>
Timestamps == {"ts_epoch", "ts_pre_epoch", "ts_min", "ts_max", "ts_leap", "ts_2038"}
Uuids == {"u_nil", "u_max", "u_v4", "u_upper", "u_fe"}
Jsons == {"j_null", "j_true", "j_int", "j_frac", "j_exp", "j_neg", "j_str", "j_str_empty", "j_str_unicode", "j_str_escapes", "j_str_quote",
          "j_empty_obj", "j_empty_arr", "j_arr", "j_obj", "j_nested", "j_keys_unsorted", "j_str_64k", "j_2k", "j_20k"}
Vecs == {"v_zero", "v_ramp", "v_neg_frac", "v_f32_extremes"}

Classes(ct) == CASE ct = "SMALLINT" -> Int16 [] ct = "INT" -> Int32 [] ct = "BIGINT" -> Int64
                 [] ct \in {"DOUBLE", "REAL"} -> Floats [] ct = "DECIMAL" -> Decimals
                 [] ct = "TEXT" -> Texts [] ct = "VARCHAR" -> Varchars [] ct = "CHAR" -> Chars [] ct = "BLOB" -> Blobs
                 [] ct = "BOOLEAN" -> Bools [] ct = "DATE" -> Dates [] ct = "TIME" -> Times [] ct = "TIMESTAMP" -> Timestamps
                 [] ct = "UUID" -> Uuids [] ct = "JSONB" -> Jsons [] ct \in {"VECTOR1", "VECTOR8", "VECTOR9", "VECTOR70"} -> Vecs

Null == [tag |-> "null", cls |-> "null"]
Val(ct, c) == [tag |-> Tag(ct), cls |-> c]
IsLarge(c) == \E p \in SizePoints \ {"thr_m1", "thr"} : c \in {"t_" \o p, "bu_" \o p, "bb_" \o p}   \* stored out of line
IsHuge(c) == c \in {"t_huge", "bu_huge", "bb_huge"}

(* Every point above is a value of its column type, so a write of it must be accepted - with one documented exception:
   a JSONB document larger than a page. JSONB is not moved out of line (only TEXT / BLOB are), so the engine may refuse
   the write; it must then leave the table unchanged. *)
MayReject(x, c) == x = "JSONB" /\ c \in {"j_20k", "j_str_64k"}

(* per-type equality: identity of points, type tag included *)
Eq(x, y) == x.tag = y.tag /\ x.cls = y.cls

(* ------------------------------------------------------------------ how a value is written *)
\* form: the same float point can be written as a float or - when it is integral - as an integer literal / Int parameter
\* (INSERT INTO t(f) VALUES (5)); the stored value is the float 5.0 in both cases.
Forms(ct, c) == IF Tag(ct) = "float" /\ c \in {"f_five", "f_zero"} THEN {"native", "int"} ELSE {"native"}
Paths == {"literal", "params", "prepared"}
\* "prepared2": the prepared statement is executed twice with the same bindings, the second time through the cached plan.
\* For UPDATE that is idempotent; for INSERT it needs a table without a key and stores the row twice (copies = 2).
InsertPaths(shape) == Paths \cup (IF shape = "nokey" THEN {"prepared2"} ELSE {})
UpdatePaths == Paths \cup {"prepared2"}

(* table shapes: where the column under test sits in the record, and what surrounds it
   solo   t(id INT PRIMARY KEY, v T)
   nokey  t(id INT, v T)
   first  t(id INT PRIMARY KEY, v T, a TEXT, b BIGINT)          neighbours set
   firstn                                                       neighbours NULL
   last   t(id INT PRIMARY KEY, a TEXT, b BIGINT, v T)          neighbours set
   lastn                                                        neighbours NULL *)
AllShapes == {"solo", "nokey", "first", "firstn", "last", "lastn"}
HasNbr(s) == s \in {"first", "firstn", "last", "lastn"}
NbrA(s) == IF s \in {"first", "last"} THEN [tag |-> "text", cls |-> "n_left"] ELSE Null
NbrB(s) == IF s \in {"first", "last"} THEN [tag |-> "int", cls |-> "n_minus7"] ELSE Null
\* the witness row (id 2) holds another value of the same type and must never change. It is inserted before row 1 in
\* most shapes and after it in two (the insertion order decides the internal row ids and the position of the row's
\* out-of-line chunks in the TOAST tree; the logical content is the same).
WitnessFirst(s) == s \notin {"solo", "lastn"}
Witness(ct) == CASE Tag(ct) = "int" -> "i_one" [] ct \in {"DOUBLE", "REAL"} -> "f_neg_one_half" [] ct = "DECIMAL" -> "f_money"
                 [] Tag(ct) = "text" -> "t_1b" [] ct = "BLOB" -> "b_bin" [] ct = "BOOLEAN" -> "true" [] ct = "DATE" -> "d_leap"
                 [] ct = "TIME" -> "tm_millis" [] ct = "TIMESTAMP" -> "ts_leap" [] ct = "UUID" -> "u_v4" [] ct = "JSONB" -> "j_obj"
                 [] Tag(ct) = "vec" -> "v_ramp"
\* values a cell holds before an UPDATE overwrites it: NULL, a small one, and (text/blob) one that is stored out of line
Priors(ct) == {"null", Witness(ct)} \cup (IF ct = "TEXT" THEN {"t_chunk2_p1", "t_pages"} ELSE IF ct = "BLOB" THEN {"bb_chunk2_p1", "bb_pages"} ELSE {})

(* ------------------------------------------------------------------ the register store *)
VARIABLES ct, shape,
          store,     \* [r1 |-> Absent | [v, a, b], r2 |-> [v, a, b], copies |-> number of stored copies of row 1]
          sess,      \* session number; Reopen increments it
          phase,     \* "empty" -> "written" -> "read"
          hist       \* the writes and reopens so far (this is the test case)
vars == <<ct, shape, store, sess, phase, hist>>

Absent == [tag |-> "absent", cls |-> "absent"]
RowOf(v, s) == [v |-> v, a |-> NbrA(s), b |-> NbrB(s)]

Init == /\ ct \in ColTypes /\ shape \in Shapes
        /\ store = [r1 |-> Absent, r2 |-> RowOf(Val(ct, Witness(ct)), shape), copies |-> 0]
        /\ sess = 1 /\ phase = "empty" /\ hist = <<>>

\* pre: the point the cell under test holds before the step ("absent": no row yet). A write the engine REJECTS is a
\* stuttering step: the table must still read as before (pre), see MayReject.
Step(k, c, form, path) == [k |-> k, cls |-> c, form |-> form, path |-> path,
                           pre |-> IF store.r1 = Absent THEN "absent" ELSE store.r1.v.cls]
ValOrNull(c) == IF c = "null" THEN Null ELSE Val(ct, c)

\* INSERT INTO t VALUES (1, ..v.., neighbours)
Insert == /\ phase = "empty" /\ store.r1 = Absent
          /\ \E c \in Classes(ct) \cup {"null"}, path \in InsertPaths(shape) :
               \E form \in (IF c = "null" THEN {"native"} ELSE Forms(ct, c)) :
                 /\ store' = [store EXCEPT !.r1 = RowOf(ValOrNull(c), shape), !.copies = IF path = "prepared2" THEN 2 ELSE 1]
                 /\ hist' = <<Step("insert", c, form, path)>>
          /\ phase' = "written" /\ UNCHANGED <<ct, shape, sess>>

\* a seed is an INSERT that only prepares the cell for an UPDATE: literal path, prior value
IsSeed(h) == h.k = "insert" /\ h.path = "literal" /\ h.form = "native" /\ h.cls \in Priors(ct)

\* UPDATE t SET v = .. WHERE id = 1
Update == /\ phase = "written" /\ Len(hist) = 1 /\ IsSeed(hist[1]) /\ sess = 1
          /\ \E c \in Classes(ct) \cup {"null"}, path \in UpdatePaths :
               \E form \in (IF c = "null" THEN {"native"} ELSE Forms(ct, c)) :
                 /\ ~(c = "null" /\ hist[1].cls = "null")
                 /\ store' = [store EXCEPT !.r1.v = ValOrNull(c)]
                 /\ hist' = Append(hist, Step("update", c, form, path))
          /\ UNCHANGED <<ct, shape, sess, phase>>

\* UPDATE t SET b = 42 WHERE id = 1: another cell of the same row is written, the record is rebuilt, v must survive
Touch == /\ phase = "written" /\ Len(hist) = 1 /\ HasNbr(shape) /\ sess = 1 /\ hist[1].form = "native"
         /\ \E path \in {"literal", "params"} :
              /\ store' = [store EXCEPT !.r1.b = [tag |-> "int", cls |-> "n_42"]]
              /\ hist' = Append(hist, Step("touch", "n_42", "native", path))
         /\ UNCHANGED <<ct, shape, sess, phase>>

\* close the database and open it again: a stuttering step on the store
Reopen == /\ WithReopen /\ phase = "written" /\ sess = 1
          /\ sess' = sess + 1
          /\ hist' = Append(hist, Step("reopen", "-", "native", "-"))
          /\ UNCHANGED <<ct, shape, store, phase>>

\* SELECT: the observation is the whole store
Read == /\ phase = "written"
        /\ phase' = "read"
        /\ UNCHANGED <<ct, shape, store, sess, hist>>

Next == Insert \/ Update \/ Touch \/ Reopen \/ Read
Spec == Init /\ [][Next]_vars

(* ------------------------------------------------------------------ the property, stated on the model *)
\* the value a cell must hold, defined from the history alone: the last write to it wins
RECURSIVE LastWrite(_, _, _)
LastWrite(h, kinds, dflt) == IF h = <<>> THEN dflt
                             ELSE IF h[Len(h)].k \in kinds THEN h[Len(h)] ELSE LastWrite(SubSeq(h, 1, Len(h) - 1), kinds, dflt)
ExpectedV == LET w == LastWrite(hist, {"insert", "update"}, [k |-> "none"])
             IN IF w.k = "none" THEN Absent ELSE ValOrNull(w.cls)
ExpectedB == LET w == LastWrite(hist, {"touch"}, [k |-> "none"])
             IN IF w.k = "none" THEN NbrB(shape) ELSE [tag |-> "int", cls |-> "n_42"]

\* C11: a read returns what was written last, with its type, in every reachable state (hence also after Reopen)
ReadBack == store.r1 # Absent =>
              /\ Eq(store.r1.v, ExpectedV)
              /\ Eq(store.r1.b, ExpectedB)
              /\ Eq(store.r1.a, NbrA(shape))
WitnessUntouched == store.r2 = RowOf(Val(ct, Witness(ct)), shape)
\* the stored value has the column's type tag (or is NULL) and is one of the column's points
TypeOk == store.r1 # Absent =>
              \/ store.r1.v = Null
              \/ (store.r1.v.tag = Tag(ct) /\ store.r1.v.cls \in Classes(ct))
ReopenStutters == [][sess' # sess => store' = store]_vars

(* ------------------------------------------------------------------ meta-checks of the catalogue (ASSUME: evaluated by TLC at start-up) *)
ASSUME DaysFromCivil(1970, 1, 1) = 0 /\ DaysFromCivil(1969, 12, 31) = -1 /\ DaysFromCivil(2024, 2, 29) = 19782
ASSUME DaysFromCivil(1, 1, 1) = -719162 /\ DaysFromCivil(9999, 12, 31) = 2932896 /\ DaysFromCivil(2038, 1, 19) = 24855
ASSUME \A c \in Dates : LET p == DatePoint(c) IN p[2] \in 1..12 /\ p[3] \in 1..DaysInMonth(p[1], p[2])
ASSUME \A c \in Timestamps : TsPoint(c)[1] \in Dates /\ TsPoint(c)[2] \in Times
ASSUME \A x \in ColTypes : Witness(x) \in Classes(x) /\ Priors(x) \subseteq Classes(x) \cup {"null"}
ASSUME ColTypes \subseteq AllColTypes /\ Shapes \subseteq AllShapes
\* size points are distinct and ordered around the two boundaries
ASSUME SizeOf("thr_m1") < SizeOf("thr") /\ SizeOf("thr") < SizeOf("thr_p1") /\ SizeOf("thr_p1") < SizeOf("chunk_m1")
ASSUME SizeOf("chunk_p1") = ChunkSize + 1 /\ SizeOf("chunk2_p1") > 2 * ChunkSize /\ SizeOf("huge") >= 3 * 1024 * 1024
\* Eq is an equivalence on the points of every explored type, and points with different tags are never equal
ASSUME \A x \in ColTypes : \A c1, c2 \in Classes(x) : Eq(Val(x, c1), Val(x, c2)) <=> c1 = c2
ASSUME \A x \in ColTypes : \A c \in Classes(x) : ~Eq(Val(x, c), Null)
=============================================================================

CONSTANTS Years <- TsYears  Mode = "times"
SPECIFICATION Spec
INVARIANT TimeInv
INVARIANT EmitTime
INVARIANT EmitBoundary
CHECK_DEADLOCK FALSE

CONSTANTS Budget = 0  VBudget = 0  JunkTokens = {"(", "NULL", "'unterminated", ";", "99999999999999999999999999999", "--", "$"}  MaxMut = 1  Starts = {"<Stmt>"}  DeepN = {8}  MutMaxLen = 60  MaxLen = 200
SPECIFICATION Spec
INVARIANT TypeOK Balanced KeywordLed Bounded
ACTION_CONSTRAINT Emit
CHECK_DEADLOCK FALSE

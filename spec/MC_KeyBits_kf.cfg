SPECIFICATION Spec
INVARIANTS VecOrderOK VecRoundTripOK
CHECK_DEADLOCK FALSE

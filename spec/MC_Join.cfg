\* model-checking config: only the meta-invariants of the oracle (nothing is printed), every expensive invariant on
\* every selected case; Stride = 1 makes it exhaustive over all pairs of tables of <= 2 rows
CONSTANTS KeySeq <- MCKeySeq  ValSeq <- MCValSeq
CONSTANTS MaxRowsA = 2  MaxRowsB = 2  MaxRowsC = 1
CONSTANTS Stride = 7  Seed = 1  Stride3 = 13  RScale = 3  RCheck = 3  MetaStride = 1
SPECIFICATION Spec
INVARIANT Containment LeftPreserves CrossSize Mirror WhereFilters NullNeverMatches ImplIsRef ScaleLawHolds ThreeWay
CHECK_DEADLOCK FALSE

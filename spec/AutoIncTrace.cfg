\* judge run: constants of AutoInc that only matter for schedule generation are dummies here
CONSTANTS MaxOps = 0  Far = 0  MaxId = 0  FreeGen = FALSE  WithTxn = FALSE  WithReopen = FALSE  WithBulk = FALSE  WithUpdate = FALSE
INIT JInit
NEXT JStep
INVARIANT JInv
ACTION_CONSTRAINT JEmit
CHECK_DEADLOCK FALSE

CONSTANTS Files = {"T", "I"}  Pages = {0, 1}  LoggedFiles = {"T"}  MaxStmts = 2  MaxMut = 3  SyncMode = "OFF"
SPECIFICATION Spec
INVARIANT C01_power_logged
CHECK_DEADLOCK FALSE

------------------------------- MODULE Varint -------------------------------
(***************************************************************************)
(* C27 - TurDB's variable-length integer (src/encoding/varint.rs).         *)
(*                                                                         *)
(* A u64 is written in 1, 2, 3, 4, 5 or 9 bytes; the first byte (marker)   *)
(* tells how many follow:                                                  *)
(*      0..240        1 byte    [v]                                        *)
(*      241..2287     2 bytes   [241 + (v-240)>>8, (v-240)&FF]             *)
(*      2288..67823   3 bytes   [249, (v-2288)>>8, (v-2288)&FF]            *)
(*      ..0xFFFFFF    4 bytes   [250, v>>16, v>>8, v]                      *)
(*      ..0xFFFFFFFF  5 bytes   [251, v>>24, v>>16, v>>8, v]               *)
(*      ..u64::MAX    9 bytes   [255, 8 bytes big-endian]                  *)
(* markers 252..254 are reserved (decode error).                           *)
(*                                                                         *)
(* THIS module is the TLC-evaluable form.  TLC integers are 32-bit, so a   *)
(* u64 is a tuple of four base-2^16 digits <<d3,d2,d1,d0>> (big-endian,    *)
(* value d3*2^48 + d2*2^32 + d1*2^16 + d0).  Enc / Dec / LenOf follow the  *)
(* case split of varint_len / encode_varint / decode_varint one to one;    *)
(* wherever the Rust code works on a value that fits TLC's integers        *)
(* (everything up to the 4-byte case) the arithmetic is written exactly as *)
(* in the Rust source, on Low(d).                                          *)
(*                                                                         *)
(* spec/proofs/Varint_proofs.tla restates the same functions over          *)
(* unbounded naturals (NEnc, NDec, NLenOf), proves with TLAPS that the     *)
(* digit form computes the same bytes (EncRefines, DecRefines), and proves *)
(* RoundTrip, CanonicalLen, DecTotal, DecPrefix for all 2^64 values / all  *)
(* byte strings.  MC_Varint.tla evaluates THIS module on the conformance   *)
(* vectors that harness/src/codec.rs replays on the Rust functions.        *)
(***************************************************************************)
EXTENDS Integers, Sequences

Byte == 0..255
D16  == 0..65535
U64  == D16 \X D16 \X D16 \X D16

(* value <= 0xFFFF_FFFF   and   value <= 0xFF_FFFF *)
Fits32(d) == d[1] = 0 /\ d[2] = 0
Small(d)  == Fits32(d) /\ d[3] <= 255
(* the value itself when Small(d): below 2^24, an ordinary TLC integer *)
Low(d)    == d[3] * 65536 + d[4]
(* value <= k for a constant k < 2^24 *)
Leq(d, k) == Small(d) /\ Low(d) <= k
FromLow(v) == <<0, 0, v \div 65536, v % 65536>>

(* ------------------------------------------------------------------ *)
(* varint_len                                                         *)
LenOf(d) ==
  IF      Leq(d, 240)    THEN 1
  ELSE IF Leq(d, 2287)   THEN 2
  ELSE IF Leq(d, 67823)  THEN 3
  ELSE IF Small(d)       THEN 4
  ELSE IF Fits32(d)      THEN 5
  ELSE 9

(* ------------------------------------------------------------------ *)
(* encode_varint: the bytes written (their number is the return value) *)
Enc(d) ==
  IF Leq(d, 240) THEN << Low(d) >>
  ELSE IF Leq(d, 2287) THEN
       LET v == Low(d) - 240 IN << ((v \div 256) + 241) % 256, v % 256 >>
  ELSE IF Leq(d, 67823) THEN
       LET v == Low(d) - 2288 IN << 249, (v \div 256) % 256, v % 256 >>
  ELSE IF Small(d) THEN
       LET v == Low(d) IN << 250, (v \div 65536) % 256, (v \div 256) % 256, v % 256 >>
  ELSE IF Fits32(d) THEN
       << 251, (d[3] \div 256) % 256, d[3] % 256, (d[4] \div 256) % 256, d[4] % 256 >>
  ELSE << 255, d[1] \div 256, d[1] % 256, d[2] \div 256, d[2] % 256,
               d[3] \div 256, d[3] % 256, d[4] \div 256, d[4] % 256 >>

(* ------------------------------------------------------------------ *)
(* decode_varint: Ok(value, bytes consumed) or one of the three errors *)
(* documented in the module header of varint.rs.                       *)
Ok(d, n)      == [ok |-> TRUE, val |-> d, n |-> n]
ErrEmpty      == [ok |-> FALSE, err |-> "empty", need |-> 1]
ErrTrunc(k)   == [ok |-> FALSE, err |-> "truncated", need |-> k]
ErrMarker(f)  == [ok |-> FALSE, err |-> "marker", need |-> f]

Dec(b) ==
  IF Len(b) = 0 THEN ErrEmpty
  ELSE LET f == b[1] IN
    IF f <= 240 THEN Ok(FromLow(f), 1)
    ELSE IF f <= 248 THEN
         IF Len(b) < 2 THEN ErrTrunc(2)
         ELSE Ok(FromLow(240 + (f - 241) * 256 + b[2]), 2)
    ELSE IF f = 249 THEN
         IF Len(b) < 3 THEN ErrTrunc(3)
         ELSE Ok(FromLow(2288 + b[2] * 256 + b[3]), 3)
    ELSE IF f = 250 THEN
         IF Len(b) < 4 THEN ErrTrunc(4)
         ELSE Ok(FromLow(b[2] * 65536 + b[3] * 256 + b[4]), 4)
    ELSE IF f = 251 THEN
         IF Len(b) < 5 THEN ErrTrunc(5)
         ELSE Ok(<<0, 0, b[2] * 256 + b[3], b[4] * 256 + b[5]>>, 5)
    ELSE IF f = 255 THEN
         IF Len(b) < 9 THEN ErrTrunc(9)
         ELSE Ok(<<b[2] * 256 + b[3], b[4] * 256 + b[5], b[6] * 256 + b[7], b[8] * 256 + b[9]>>, 9)
    ELSE ErrMarker(f)

(* ------------------------------------------------------------------ *)
(* The property (C27), digit form.  Proved for all of U64 / Seq(Byte)  *)
(* in Varint_proofs.tla; TLC checks the same predicates on every       *)
(* conformance vector before anything is compared with the Rust code.  *)
RoundTripAt(d)    == Dec(Enc(d)) = Ok(d, LenOf(d))
CanonicalLenAt(d) == Len(Enc(d)) = LenOf(d) /\ \A i \in 1..Len(Enc(d)) : Enc(d)[i] \in Byte
DecTotalAt(b)     == LET r == Dec(b) IN
                       IF r.ok THEN r.val \in U64 /\ r.n \in 1..Len(b) /\ r.n <= 9
                               ELSE r.err \in {"empty", "truncated", "marker"}
(* decode looks only at the bytes it reports as consumed *)
DecPrefixAt(b)    == LET r == Dec(b) IN r.ok => Dec(SubSeq(b, 1, r.n)) = r
(* an encoding followed by anything decodes to the same value and length *)
EncThenTailAt(d, t) == Dec(Enc(d) \o t) = Ok(d, LenOf(d))
=============================================================================

-------------------------- MODULE Trace_BTreeShape --------------------------
(***************************************************************************)
(* C29, trace validation: the harness dumps the abstract tree record       *)
(* projected from the real pages, one JSON object {"id", "tree"} per line. *)
(* TLC evaluates BTreeShape!WellFormed on every tree of the file.          *)
(*                                                                         *)
(*   Trace_BTreeShape.cfg      prints the verdict of every tree (id and    *)
(*                             the set of failed clauses): all trees of a  *)
(*                             run are judged, broken ones included        *)
(*   Trace_BTreeShape_inv.cfg  the clauses as INVARIANTS: TLC stops at the *)
(*                             first ill-formed tree and names the clause  *)
(*                             (used by `bin/check C29 --replay`)          *)
(* Run with  TRACE=<file> tlc -workers 1 ...                               *)
(***************************************************************************)
EXTENDS BTreeShape, Json, IOUtils, TLC

Trace == ndJsonDeserialize(IOEnv.TRACE)

VARIABLE i
Init == i = 1
Next == i < Len(Trace) /\ i' = i + 1
Spec == Init /\ [][Next]_i

Tree == Trace[i].tree
Verdict == PrintT(<<"T", ToJson([id |-> Trace[i].id, failed |-> Failed(Tree)])>>)

InvKindsOk == KindsOk(Tree)
InvSlotAreaOk == SlotAreaOk(Tree)
InvCellsInside == CellsInside(Tree)
InvCellsDisjoint == CellsDisjoint(Tree)
InvKeysIncreasing == KeysIncreasing(Tree)
InvSeparatorsBound == SeparatorsBound(Tree)
InvUniformDepth == UniformDepth(Tree)
InvLeafChain == LeafChain(Tree)
InvNoSharing == NoSharing(Tree)
=============================================================================

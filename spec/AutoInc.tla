------------------------------- MODULE AutoInc -------------------------------
(***************************************************************************)
(* Reference model of an AUTO_INCREMENT column (property C12)              *)
(*                                                                         *)
(*     t(id INT PRIMARY KEY AUTO_INCREMENT, v INT)                         *)
(*                                                                         *)
(* `v` is a tag the environment chooses (unique per inserted row) so that  *)
(* every row can be recognised in a SELECT whatever id it was given.       *)
(*                                                                         *)
(* THE PROPERTY is the operator GenOK: a value g generated for the column  *)
(* is different from every value the column has EVER held (`held`, a ghost *)
(* that is not rolled back, not truncated, not forgotten on reopen) and    *)
(* larger than the value generated last (`lastGen`). The model does NOT    *)
(* say which value is generated: the generated values are an INPUT of the  *)
(* Insert action (`gens`), constrained by GenOK only. Two instantiations:  *)
(*   FreeGen = TRUE   every admissible value up to MaxId (model checking   *)
(*                    of the meta-invariants below)                        *)
(*   FreeGen = FALSE  one admissible value, max(held)+1 (used to ENUMERATE *)
(*                    schedules that are replayed on the implementation;   *)
(*                    the replayed traces are judged by AutoIncTrace.tla   *)
(*                    with the OBSERVED generated values as the input).    *)
(* Explicit ids may be anything (re-using a deleted id explicitly is       *)
(* legal); they only have to respect the primary key.                      *)
(***************************************************************************)
EXTENDS Integers, Sequences, FiniteSets, TLC

CONSTANTS MaxOps, Far, MaxId, FreeGen, WithTxn, WithReopen, WithBulk, WithUpdate
N == -99                     \* NULL

VARIABLES rows,      \* set of <<id, v>>
          held,      \* ghost: every value the id column has ever held
          lastGen,   \* ghost: the value generated last (0: none yet)
          txn,       \* <<>> or <<rows at BEGIN>>
          nv,        \* next tag
          nops, hist
vars == <<rows, held, lastGen, txn, nv, nops, hist>>
view == <<rows, held, lastGen, txn, nv, nops>>

Ids(rs) == {r[1] : r \in rs}
MaxOf(S) == IF S = {} THEN 0 ELSE CHOOSE m \in S : \A x \in S : x <= m
MinOf(S) == CHOOSE m \in S : \A x \in S : m <= x
SeqSet(s) == {s[i] : i \in 1..Len(s)}

(* ------------------------------------------------------------------ C12 *)
GenOK(g, h, last) == g # N /\ g >= 1 /\ g \notin h /\ g > last

(* An INSERT statement is a sequence of items [id, v]; id = N asks for a   *)
(* generated value. Rows are processed in order; gens[k] is the value the  *)
(* k-th generating item received.                                          *)
GenItems(items) == {i \in 1..Len(items) : items[i].id = N}
ExpItems(items) == {i \in 1..Len(items) : items[i].id # N}
NGen(items) == Cardinality(GenItems(items))

RECURSIVE Fold(_, _, _, _)
Fold(items, gens, i, acc) ==
    IF i > Len(items) THEN acc
    ELSE LET it == items[i]
             x == IF it.id = N THEN gens[acc.gi] ELSE it.id
         IN Fold(items, gens, i + 1,
                 [cur   |-> acc.cur \cup {x},
                  h     |-> IF x = N THEN acc.h ELSE acc.h \cup {x},
                  last  |-> IF it.id = N /\ x # N THEN x ELSE acc.last,
                  gi    |-> IF it.id = N THEN acc.gi + 1 ELSE acc.gi,
                  new   |-> acc.new \cup {<<x, it.v>>},
                  genok |-> acc.genok /\ (it.id = N => GenOK(x, acc.h, acc.last)),
                  dup   |-> acc.dup \/ (x # N /\ x \in acc.cur)])

Acc0(rs, h, last) == [cur |-> Ids(rs), h |-> h, last |-> last, gi |-> 1, new |-> {}, genok |-> TRUE, dup |-> FALSE]

(* all rows or none; a statement that fails leaves rows AND ghosts alone   *)
(* (values generated inside a failed statement are not observable)         *)
InsertRes(rs, h, last, items, gens) ==
    LET a == Fold(items, gens, 1, Acc0(rs, h, last))
    IN IF a.dup THEN [ok |-> FALSE, rows |-> rs, h |-> h, last |-> last, genok |-> TRUE]
       ELSE [ok |-> TRUE, rows |-> rs \cup a.new, h |-> a.h, last |-> a.last, genok |-> a.genok]

(* which outcomes the property leaves open for a statement, given that the *)
(* generated values are not determined:                                    *)
MustFail(items, rs) == \E i \in ExpItems(items) :
                           \/ items[i].id \in Ids(rs)
                           \/ \E j \in ExpItems(items) : j < i /\ items[j].id = items[i].id
\* an explicit id that follows a generating item may be exactly the value that item was given
CouldCollide(items, h, last) == \E i \in ExpItems(items) :
                                    /\ \E j \in GenItems(items) : j < i
                                    /\ items[i].id \notin h /\ items[i].id > last
MayFail(items, rs, h, last) == MustFail(items, rs) \/ CouldCollide(items, h, last)
MayOk(items, rs) == ~MustFail(items, rs)

(* the canonical admissible choice: max(held)+1 *)
RECURSIVE Canon(_, _, _, _)
Canon(items, i, h, last) ==
    IF i > Len(items) THEN <<>>
    ELSE IF items[i].id = N
         THEN LET g == MaxOf(h \cup {last}) + 1 IN <<g>> \o Canon(items, i + 1, h \cup {g}, g)
         ELSE Canon(items, i + 1, h \cup {items[i].id}, last)

RECURSIVE AllSeqs(_, _)
AllSeqs(S, n) == IF n = 0 THEN {<<>>} ELSE {<<x>> \o s : x \in S, s \in AllSeqs(S, n - 1)}
GenChoices(items, rs, h, last) ==
    IF FreeGen
    THEN {g \in AllSeqs(1..MaxId, NGen(items)) : Fold(items, g, 1, Acc0(rs, h, last)).genok}
    ELSE {Canon(items, 1, h, last)}

(* ------------------------------------------------ explicit id classes   *)
(* resolved against the state the statement starts in                      *)
Gone == held \ Ids(rows)                                  \* held once, not there now
Free == (1..MaxOf(held)) \ held                           \* below the high-water mark, never held
ExplicitId(c) == CASE c = "dup"  -> MaxOf(Ids(rows))      \* an id that is there: primary key violation
                   [] c = "gone" -> MaxOf(Gone)           \* re-use of a deleted / rolled back id, explicitly: legal
                   [] c = "low"  -> MaxOf(Free)           \* below the counter, never held
                   [] c = "next" -> MaxOf(held) + 1       \* exactly what a naive counter would generate next
                   [] c = "far"  -> MaxOf(held) + Far     \* far above the counter
ClassOk(c) == CASE c = "dup" -> rows # {} [] c = "gone" -> Gone # {} [] c = "low" -> Free # {} [] OTHER -> TRUE
Classes == {"dup", "gone", "low", "next", "far"}

Shapes == { <<"gen">>, <<"dup">>, <<"gone">>, <<"low">>, <<"next">>, <<"far">>,
            <<"gen", "gen">>, <<"gen", "far", "gen">>, <<"far", "gen">>, <<"next", "gen">>,
            <<"gen", "next">>,          \* ambiguous: fails iff the generated value is `next`
            <<"gen", "dup">>,           \* the failing multi-row insert
            <<"gen", "gone">> }
BulkShapes == { <<"gen", "gen">>, <<"next">>, <<"far", "gen">>, <<"gen", "far", "gen">> }
ShapeOk(sh) == \A i \in 1..Len(sh) : sh[i] = "gen" \/ ClassOk(sh[i])
\* ids of one statement are resolved at its start (no shape repeats an explicit class)
Items(sh) == [i \in 1..Len(sh) |->
                 [c |-> sh[i], id |-> IF sh[i] = "gen" THEN N ELSE ExplicitId(sh[i]), v |-> nv + i - 1]]

Init == rows = {} /\ held = {} /\ lastGen = 0 /\ txn = <<>> /\ nv = 1 /\ nops = 0 /\ hist = <<>>

Step(op, ok, amb, gens) ==
    /\ nops' = nops + 1
    /\ hist' = Append(hist, [op |-> op, ok |-> ok, amb |-> amb, gens |-> gens, rows |-> rows', intxn |-> txn' # <<>>])

DoInsert(k, api, form, sh) ==
    /\ nops < MaxOps /\ ShapeOk(sh)
    /\ LET items == Items(sh) IN
       \E gens \in GenChoices(items, rows, held, lastGen) :
          LET r == InsertRes(rows, held, lastGen, items, gens) IN
          /\ rows' = r.rows /\ held' = r.h /\ lastGen' = r.last /\ nv' = nv + Len(sh)
          /\ UNCHANGED txn
          /\ Step([k |-> k, api |-> api, form |-> form, items |-> items], r.ok,
                  MayFail(items, rows, held, lastGen) /\ MayOk(items, rows), gens)

Insert == \E sh \in Shapes : \E form \in (IF \A i \in 1..Len(sh) : sh[i] = "gen" THEN {"omit", "null"} ELSE {"null"}) :
              DoInsert("ins", "sql", form, sh)
Bulk == WithBulk /\ \E sh \in BulkShapes : \E api \in {"insert_batch", "insert_batch_into_schema", "insert_cached", "bulk_insert"} :
              DoInsert("bulk", api, "rows", sh)

Stmt(op, rs) == /\ nops < MaxOps /\ rows' = rs /\ UNCHANGED <<held, lastGen, txn, nv>> /\ Step(op, TRUE, FALSE, <<>>)
Delete == rows # {} /\ \E w \in {"max", "min", "all"} :
             LET hit == CASE w = "max" -> {r \in rows : r[1] = MaxOf(Ids(rows))}
                          [] w = "min" -> {r \in rows : r[1] = MinOf(Ids(rows))}
                          [] w = "all" -> rows
             IN Stmt([k |-> "del", w |-> w, ids |-> Ids(hit)], rows \ hit)
Truncate == txn = <<>> /\ Stmt([k |-> "trunc"], {})
\* UPDATE of the id column: the new value becomes a value the column has held
UpdateId == /\ WithUpdate /\ rows # {} /\ nops < MaxOps
            /\ \E c \in {"next", "far"} :
                 LET old == CHOOSE r \in rows : r[1] = MaxOf(Ids(rows))
                     new == ExplicitId(c)
                 IN /\ rows' = (rows \ {old}) \cup {<<new, old[2]>>} /\ held' = held \cup {new}
                    /\ UNCHANGED <<lastGen, txn, nv>>
                    /\ Step([k |-> "upd", from |-> old[1], to |-> new], TRUE, FALSE, <<>>)
Reopen == WithReopen /\ txn = <<>> /\ Stmt([k |-> "reopen"], rows)
Begin == /\ WithTxn /\ txn = <<>> /\ nops < MaxOps /\ txn' = <<rows>> /\ UNCHANGED <<rows, held, lastGen, nv>>
         /\ Step([k |-> "begin"], TRUE, FALSE, <<>>)
Commit == /\ txn # <<>> /\ nops < MaxOps /\ txn' = <<>> /\ UNCHANGED <<rows, held, lastGen, nv>>
          /\ Step([k |-> "commit"], TRUE, FALSE, <<>>)
\* ROLLBACK restores the rows; the ghosts stay: a rolled back value was held and was generated
Rollback == /\ txn # <<>> /\ nops < MaxOps /\ rows' = txn[1] /\ txn' = <<>> /\ UNCHANGED <<held, lastGen, nv>>
            /\ Step([k |-> "rollback"], TRUE, FALSE, <<>>)

Next == Insert \/ Bulk \/ Delete \/ Truncate \/ UpdateId \/ Reopen \/ Begin \/ Commit \/ Rollback
Spec == Init /\ [][Next]_vars

(* -------------------- what the reference itself guarantees (meta level) *)
PKUnique == Cardinality(Ids(rows)) = Cardinality(rows)
HeldSound == Ids(rows) \subseteq held /\ (lastGen = 0 \/ lastGen \in held) /\ N \notin held
\* re-derived from the recorded history, independently of GenOK: all generated values, in order of
\* generation, strictly increase, and none of them was in the table after any earlier step or given
\* explicitly before
AllGens == [i \in 1..Len(hist) |-> IF hist[i].ok THEN hist[i].gens ELSE <<>>]
RECURSIVE Flat(_, _)
Flat(ss, i) == IF i > Len(ss) THEN <<>> ELSE ss[i] \o Flat(ss, i + 1)
GensIncrease == LET f == Flat(AllGens, 1) IN \A i, j \in 1..Len(f) : i < j => f[i] < f[j]
GensNeverHeldBefore ==
    \A s \in 1..Len(hist) : hist[s].ok =>
        \A g \in SeqSet(hist[s].gens) :
            /\ \A p \in 1..(s - 1) : g \notin Ids(hist[p].rows)
            /\ \A p \in 1..(s - 1) : hist[p].op.k \in {"ins", "bulk"} /\ hist[p].ok =>
                   \A i \in 1..Len(hist[p].op.items) : hist[p].op.items[i].id # g
ErrLeavesStateAlone == [][(hist' # hist /\ ~hist'[Len(hist')].ok) => (rows' = rows /\ held' = held /\ lastGen' = lastGen)]_vars
=============================================================================

\* the pinned code before the two repairs: TLC must find the reopen/truncate counterexamples
CONSTANTS Files = {0, 1}  Pages = {0, 1}  MaxSeg = 2  MaxOps = 4  MaxFaults = 0
          FixSeekOnOpen = FALSE  FixSeekOnTruncate = FALSE
SPECIFICATION Spec
VIEW view
INVARIANTS NoOverwriteNoPhantom
CHECK_DEADLOCK FALSE

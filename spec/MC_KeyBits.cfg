SPECIFICATION Spec
INVARIANTS MasksAreXor IntOrderOK IntRoundTrip FlipOrderOK FlipRoundTrip FloatOrderOK FloatRoundTrip IntFloatOK
           VecOrderOKExceptNegZero VecRoundTripExcept
CHECK_DEADLOCK FALSE

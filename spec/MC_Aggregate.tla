---------------------------- MODULE MC_Aggregate ----------------------------
(* Generator for C16: TLC enumerates the aggregate queries of Aggregate.tla, checks the oracle's meta-invariants on   *)
(* each and prints the query, the expected bag of groups, and the answer under every applicable set of named          *)
(* deviations that changes the answer (so that the check compares values only and carries no semantics of its own).   *)
EXTENDS Aggregate, Json
VARIABLES part, q
NoQ == [src |-> "none"]
\* a part fixes source, table and WHERE (parallelism for TLC)
Parts == {<<q0.src, q0.tab, q0.w>> : q0 \in Queries}
Init == part \in Parts /\ q = NoQ
Next == q.src = "none" /\ q' \in {x \in Queries : <<x.src, x.tab, x.w>> = part} /\ part' = part
Spec == Init /\ [][Next]_<<part, q>>
Strip(G) == [i \in 1..Len(G) |-> [key |-> G[i].key, cnt |-> G[i].cnt, v |-> G[i].v, cls |-> G[i].cls]]
DevSets == {S \in SUBSET DevNames : S # {} /\ Cardinality(S) <= 3}
Describe(x) ==
    LET ref == Strip(Groups(x, {}))
        \* the LIMIT of the plan-shape variants: beyond the number of groups, whatever HAVING lets through
        lim == Len(Groups([x EXCEPT !.h = "none"], {})) + 1
        alts == {[devs |-> S, groups |-> Strip(Groups(x, S))] : S \in {T \in DevSets : Applicable(x, T)}}
    IN [q |-> x, groups |-> ref, input_rows |-> Len(Input(x)), lim |-> lim,
        alts |-> {a \in alts : a.groups # ref},
        \* the implementation-shaped answer of the hand-written join path, without and with the LIMIT of the variants
        hj |-> IF x.src = "join" THEN << >> \o HandJoinRows(x, NoLim, TRUE) ELSE << >>,
        hj_lim |-> IF x.src = "join" THEN << >> \o HandJoinRows(x, lim, TRUE) ELSE << >>,
        hj_topk |-> IF x.src = "join" THEN << >> \o HandJoinRows(x, lim, FALSE) ELSE << >>]
Emit == q'.src # "none" => PrintT(<<"T", ToJson(Describe(q'))>>)
OracleInv == q.src # "none" => OracleOK(q)
=============================================================================

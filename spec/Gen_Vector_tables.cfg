CONSTANTS MaxLen = 4  LawDim = 1  LawFull = FALSE  Rich = FALSE
INIT InitT
NEXT NextT
INVARIANTS TSound EmitT
CHECK_DEADLOCK FALSE

CONSTANTS MaxLen = 4  LawDim = 1  LawFull = FALSE
INIT InitT
NEXT NextT
INVARIANTS TSound EmitT
CHECK_DEADLOCK FALSE

\* quick generating config: tables of <= 2 rows (u <= 1), a seeded 1/Stride sample of the table triples, every query shape
CONSTANTS KeySeq <- MCKeySeq  ValSeq <- MCValSeq
CONSTANTS MaxRowsT = 2  MaxRowsS = 2  MaxRowsU = 1  Stride = 97  Seed = 1
SPECIFICATION Spec
INVARIANT SetAlgebra InAlgebra ScalarAlgebra
INVARIANT EmitInv
CHECK_DEADLOCK FALSE

----------------------------- MODULE MemBudget -----------------------------
(***************************************************************************)
(* Implementation-shaped spec of MemoryBudget::allocate / release          *)
(* (src/memory/budget.rs).  One action per region between two atomic       *)
(* operations of the code; the hook points `budget.alloc.*` /              *)
(* `budget.release.*` in the code are exactly the pc labels used here, so  *)
(* a TLC behaviour is a schedule the puppeteer can drive.                  *)
(*   units: 1 = 128 KiB; Limit = 32 (MIN_BUDGET_FLOOR 4 MiB)               *)
(***************************************************************************)
EXTENDS Integers, Sequences, FiniteSets, TLC

CONSTANTS Threads,        \* e.g. {1,2}
          PoolsOf,        \* [Threads -> SUBSET Pool] pools a thread allocates from
          Sizes,          \* allocation sizes (units)
          MaxOpsPerThread,
          Prefill,        \* units pre-allocated in Shared before the threads start
          Limit,
          CasOnTotal      \* FALSE: the code's CAS on the pool counter only. TRUE: hypothetical repaired design (check+add atomic)

Pool == {"cache", "query", "recovery", "schema", "shared"}
Reserved(p) == CASE p = "cache" -> 4 [] p = "query" -> 2 [] p = "recovery" -> 2 [] p = "schema" -> 1 [] OTHER -> 0
TotalReserved == 9

VARIABLES used,      \* [Pool -> Nat]
          pc,        \* [Threads -> label]
          op,        \* [Threads -> current call]
          lp, lt,    \* thread-local: loaded pool counter, loaded total
          held,      \* [Threads -> Seq(<<pool,n>>)] successful allocations not yet released (what the thread may release)
          nops,      \* [Threads -> Nat]
          granted, released,  \* ghost: per pool sums
          overlap,   \* ghost: TRUE once two allocate calls on different pools were in flight together
          hist       \* observation only

vars == <<used, pc, op, lp, lt, held, nops, granted, released, overlap, hist>>
view == <<used, pc, op, lp, lt, held, nops, granted, released, overlap>>

Sum(u) == u["cache"] + u["query"] + u["recovery"] + u["schema"] + u["shared"]
Max(a, b) == IF a >= b THEN a ELSE b
SatSub(a, b) == IF a >= b THEN a - b ELSE 0
SharedAvail(u) == SatSub(Limit - TotalReserved, Max(SatSub(Sum(u), TotalReserved), 0))

NoOp == [kind |-> "none", pool |-> "shared", n |-> 0]

Init == /\ used = [p \in Pool |-> IF p = "shared" THEN Prefill ELSE 0]
        /\ pc = [t \in Threads |-> "idle"] /\ op = [t \in Threads |-> NoOp]
        /\ lp = [t \in Threads |-> 0] /\ lt = [t \in Threads |-> 0]
        /\ held = [t \in Threads |-> <<>>] /\ nops = [t \in Threads |-> 0]
        /\ granted = [p \in Pool |-> IF p = "shared" THEN Prefill ELSE 0] /\ released = [p \in Pool |-> 0]
        /\ overlap = FALSE /\ hist = <<>>

InFlightAlloc(t) == pc[t] \in {"begin", "loaded_pool", "loaded_total", "before_cas"}

\* one schedule step: thread, action, the call it starts (if any), the result it returns (if it completes)
Log(t, a, o, r) == hist' = Append(hist, [t |-> t, a |-> a, op |-> o, res |-> r, next |-> pc'[t], used |-> used'])

StartAlloc(t, p, n) ==
    /\ pc[t] = "idle" /\ nops[t] < MaxOpsPerThread /\ p \in PoolsOf[t] /\ n \in Sizes
    /\ op' = [op EXCEPT ![t] = [kind |-> "alloc", pool |-> p, n |-> n]]
    /\ pc' = [pc EXCEPT ![t] = "begin"] /\ nops' = [nops EXCEPT ![t] = @ + 1]
    /\ overlap' = (overlap \/ \E s \in Threads \ {t} : InFlightAlloc(s) /\ op[s].pool # p)
    /\ UNCHANGED <<used, lp, lt, held, granted, released>>
    /\ Log(t, "start", op'[t], "-")

StartRelease(t, i) ==
    /\ pc[t] = "idle" /\ nops[t] < MaxOpsPerThread /\ i \in 1..Len(held[t])
    /\ op' = [op EXCEPT ![t] = [kind |-> "release", pool |-> held[t][i][1], n |-> held[t][i][2]]]
    /\ held' = [held EXCEPT ![t] = SubSeq(@, 1, i - 1) \o SubSeq(@, i + 1, Len(@))]
    /\ pc' = [pc EXCEPT ![t] = "r_begin"] /\ nops' = [nops EXCEPT ![t] = @ + 1]
    /\ UNCHANGED <<used, lp, lt, granted, released, overlap>>
    /\ Log(t, "start", op'[t], "-")

LoadPool(t) ==
    /\ pc[t] = "begin"
    /\ lp' = [lp EXCEPT ![t] = used[op[t].pool]]
    /\ pc' = [pc EXCEPT ![t] = "loaded_pool"]
    /\ UNCHANGED <<used, op, lt, held, nops, granted, released, overlap>>
    /\ Log(t, "load_pool", NoOp, "-")

LoadTotal(t) ==
    /\ pc[t] = "loaded_pool"
    /\ lt' = [lt EXCEPT ![t] = Sum(used)]
    /\ pc' = [pc EXCEPT ![t] = "loaded_total"]
    /\ UNCHANGED <<used, op, lp, held, nops, granted, released, overlap>>
    /\ Log(t, "load_total", NoOp, "-")

\* the two bail! conditions; shared_available() re-reads the counters inside this step
Check(t) ==
    /\ pc[t] = "loaded_total"
    /\ UNCHANGED <<used, lp, lt, held, nops, granted, released, overlap>>
    /\ LET p == op[t].pool  n == op[t].n
           newPool == lp[t] + n
           fail1 == lt[t] + n > Limit
           fail2 == p # "shared" /\ newPool > Reserved(p) /\ (newPool - Reserved(p)) > SharedAvail(used)
       IN IF fail1 \/ fail2
            THEN /\ pc' = [pc EXCEPT ![t] = "idle"] /\ op' = [op EXCEPT ![t] = NoOp]
                 /\ Log(t, "check", NoOp, "err")
            ELSE /\ pc' = [pc EXCEPT ![t] = "before_cas"] /\ op' = op
                 /\ Log(t, "check", NoOp, "-")

Cas(t) ==
    /\ pc[t] = "before_cas"
    /\ UNCHANGED <<lp, lt, nops, released, overlap>>
    /\ LET p == op[t].pool  n == op[t].n IN
       IF used[p] = lp[t] /\ (~CasOnTotal \/ Sum(used) = lt[t])
         THEN /\ used' = [used EXCEPT ![p] = lp[t] + n]
              /\ granted' = [granted EXCEPT ![p] = @ + n]
              /\ held' = [held EXCEPT ![t] = Append(@, <<p, n>>)]
              /\ pc' = [pc EXCEPT ![t] = "idle"] /\ op' = [op EXCEPT ![t] = NoOp]
              /\ Log(t, "cas", NoOp, "ok")
         ELSE /\ pc' = [pc EXCEPT ![t] = "begin"]
              /\ UNCHANGED <<used, granted, held, op>>
              /\ Log(t, "cas", NoOp, "-")

RLoad(t) ==
    /\ pc[t] = "r_begin"
    /\ lp' = [lp EXCEPT ![t] = used[op[t].pool]]
    /\ pc' = [pc EXCEPT ![t] = "r_loaded"]
    /\ UNCHANGED <<used, op, lt, held, nops, granted, released, overlap>>
    /\ Log(t, "r_load", NoOp, "-")

RCas(t) ==
    /\ pc[t] = "r_loaded"
    /\ UNCHANGED <<lp, lt, held, nops, granted, overlap>>
    /\ LET p == op[t].pool  n == op[t].n IN
       IF used[p] = lp[t]
         THEN /\ used' = [used EXCEPT ![p] = SatSub(lp[t], n)]
              /\ released' = [released EXCEPT ![p] = @ + n]
              /\ pc' = [pc EXCEPT ![t] = "idle"] /\ op' = [op EXCEPT ![t] = NoOp]
              /\ Log(t, "r_cas", NoOp, "ok")
         ELSE /\ pc' = [pc EXCEPT ![t] = "r_begin"]
              /\ UNCHANGED <<used, released, op>>
              /\ Log(t, "r_cas", NoOp, "-")

Next == \E t \in Threads :
          \/ \E p \in Pool, n \in Sizes : StartAlloc(t, p, n)
          \/ \E i \in 1..2 : StartRelease(t, i)
          \/ LoadPool(t) \/ LoadTotal(t) \/ Check(t) \/ Cas(t) \/ RLoad(t) \/ RCas(t)

Spec == Init /\ [][Next]_vars
FairSpec == Spec /\ \A t \in Threads : WF_vars(LoadPool(t) \/ LoadTotal(t) \/ Check(t) \/ Cas(t) \/ RLoad(t) \/ RCas(t))

(* ------------------------------ C39 ------------------------------ *)
HardLimit  == Sum(used) <= Limit
Accounting == \A p \in Pool : used[p] = granted[p] - released[p]
ZeroWhenReleased == ((\A t \in Threads : pc[t] = "idle" /\ held[t] = <<>>) => Sum(used) = Prefill)
\* the recorded finding: the limit can only be exceeded after allocations on DIFFERENT pools overlapped
HardLimitUnlessCrossPool == overlap \/ HardLimit
\* every call terminates (lock-free retry loops) when scheduled fairly
Terminates == \A t \in Threads : pc[t] # "idle" ~> pc[t] = "idle"
=============================================================================

\* generating config (template): lib/checks/c14.py and c19.py substitute Mode / Partners / Seed / EmitNodes / CheckLaws
CONSTANTS Mode = "bfs"  Partners = 6  Seed = 1  EmitNodes = FALSE  CheckLaws = TRUE
SPECIFICATION Spec
INVARIANT Visit
CHECK_DEADLOCK FALSE

\* generating config (template): lib/threevl.py substitutes the constants
\* Mode "bfs" | "walk" | "rw" | "opq";  CheckLaws "all" | "some" | "none"
CONSTANTS Mode = "bfs"  Partners = 4  Seed = 1  EmitNodes = FALSE  CheckLaws = "some"
CONSTANTS Walks = 100  WalkLen = 6  Stride = 1
SPECIFICATION Spec
INVARIANT Visit
CHECK_DEADLOCK FALSE

------------------------------ MODULE MC_Wal ------------------------------
EXTENDS Wal, Json
\* one line per explored transition: the (BFS-shortest) history to the source state plus this step,
\* and the model's observation of the target state
Emit == PrintT(<<"T", ToJson([hist |-> hist', obs |-> Obs'])>>)
=============================================================================

-------------------------- MODULE Trace_Durability --------------------------
(***************************************************************************)
(* Trace validation: the hook / system-call events recorded from a real    *)
(* execution (vharness crash-run) must form a behaviour of Durability.tla. *)
(* Every event is bound to the spec action of the same code step with its  *)
(* logged arguments; C01_kill, C01_power_logged and NoRegressionOfAcked    *)
(* are evaluated in every reconstructed state - each of them is a crash    *)
(* point of the real run judged by the model.                              *)
(*                                                                         *)
(* Events (ndjson, one per line):                                          *)
(*   {"e":"reset"}                 a new workload starts (fresh database)  *)
(*   {"e":"begin"}                 a statement starts                      *)
(*   {"e":"mut","f":F,"p":P}       MmapStorage::page_mut                   *)
(*   {"e":"flush"}                 first frame / log sync of the statement *)
(*   {"e":"frame","f":F,"p":P}     a frame for page P of table file F was  *)
(*                                 handed to the log writer                *)
(*   {"e":"walsync"}               fdatasync of the log segment            *)
(*   {"e":"msync","f":F}           msync of file F                         *)
(*   {"e":"trunc"}                 the log was truncated                   *)
(*   {"e":"ack"}                   the statement returned to the caller    *)
(***************************************************************************)
EXTENDS Durability, Json, IOUtils, TLCExt

Rec == ndJsonDeserialize(IOEnv.TRACE)
VARIABLE l
tvars == <<vars, l>>

Ev == Rec[l]
Is(e) == l <= Len(Rec) /\ Rec[l].e = e /\ l' = l + 1

TInit == Init /\ l = 1
TReset == Is("reset") /\ mem' = Zero /\ disk' = Zero /\ acked' = Zero /\ dirty' = {} /\ wbuf' = <<>> /\ wfile' = <<>>
          /\ wsync' = 0 /\ pc' = "idle" /\ touched' = {} /\ nstmt' = 0 /\ nmut' = 0
TBegin == Is("begin") /\ StmtBegin
TMut == Is("mut") /\ PageMut(Ev.f, Ev.p)
TFlush == Is("flush") /\ StmtFlush
TFrame == Is("frame") /\ FrameWritten(Ev.f, Ev.p)
TWalSync == Is("walsync") /\ WalSync
TMsync == Is("msync") /\ Msync(Ev.f)
TTrunc == Is("trunc") /\ CkptTruncate
TAck == Is("ack") /\ (Ack \/ AckIdle)

TNext == TReset \/ TBegin \/ TMut \/ TFlush \/ TFrame \/ TWalSync \/ TMsync \/ TTrunc \/ TAck
TSpec == TInit /\ [][TNext]_tvars

\* the whole trace was consumed; otherwise print the first event the specification does not allow
Accepted == LET d == TLCGet("stats").diameter IN
            IF d - 1 = Len(Rec) THEN TRUE
            ELSE Print(<<"REJECTED_AT", d, IF d <= Len(Rec) THEN ToJson(Rec[d]) ELSE "end">>, FALSE)
=============================================================================

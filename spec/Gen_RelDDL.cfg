\* behaviour generation: every explored transition is printed; Dev is rewritten by lib/checks/c21.py from the open findings
CONSTANTS MaxOps = 2  WithS1 = TRUE  WithReopen = TRUE  Starts = {"t2","empty"}
CONSTANTS Dev = {}
SPECIFICATION Spec
VIEW view
ACTION_CONSTRAINT Emit
CHECK_DEADLOCK FALSE

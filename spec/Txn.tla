-------------------------------- MODULE Txn --------------------------------
(***************************************************************************)
(* Transactions on several cloned Database handles (C08).                  *)
(*                                                                         *)
(* Table t(id INT, v INT) without declared keys, so every statement is a   *)
(* scan and rows are identified by their internal row key (allocated in    *)
(* insertion order: both models allocate the same keys). Every write       *)
(* stores a value that is unique in the history (Val), so a reader that    *)
(* sees it names the writing step and handle.                              *)
(*                                                                         *)
(* Two models run side by side on the SAME operation sequence:             *)
(*                                                                         *)
(*   REFERENCE  snapshot isolation, first committer wins: what C08 demands.*)
(*     cm       committed table: row key -> [id, v] or NoRow               *)
(*     cts      commit timestamp of the last committed change per row key  *)
(*     rt[h]    <<>> or <<[start, snap, ws]>>: BEGIN timestamp, snapshot   *)
(*              and write set of the handle's open transaction             *)
(*                                                                         *)
(*   IMPLEMENTATION-SHAPED  what TurDB does: one store written in place by *)
(*   every handle; DELETE leaves a tombstone; each handle with an open     *)
(*   transaction keeps an undo list; ROLLBACK (and dropping the handle)    *)
(*   replays it backwards BY ROW KEY; COMMIT forgets it. No visibility     *)
(*   check on any path.                                                    *)
(*     st       row key -> [id, v, live]                                   *)
(*     it[h]    <<>> (no transaction) or <<marker>> \o undo entries        *)
(*                                                                         *)
(* Each step records both outcomes. Where they differ the spec names the   *)
(* anomaly (Class): that is the signature of the known finding. Where they *)
(* agree TurDB must return exactly that. Anything TurDB does that is       *)
(* neither outcome is a violation.                                         *)
(***************************************************************************)
EXTENDS Integers, Sequences, FiniteSets, TLC

CONSTANTS Handles, Ids, MaxOps, MaxKeys, Starts,   \* Starts: initial configurations ("plain", "both_in_txn")
          Kinds                                   \* statement kinds that are generated (a subset focuses the exploration)
NoRow == [id |-> 0, v |-> 0]
Keys == 1..MaxKeys

VARIABLES cm, cts, ts, rt,        \* reference
          st, it,                 \* implementation-shaped
          nk,                     \* next row key (shared: INSERT always succeeds in both models)
          nops, start, hist,
          clog                    \* ghost: committed reference transactions [s, e, keys] (snapshot ts, commit ts, rows written)
vars == <<cm, cts, ts, rt, st, it, nk, nops, start, hist, clog>>
view == <<cm, cts, ts, rt, st, it, nk, nops, start>>

Val(h) == 100 * (h + 1) + nops + 1          \* unique per step; Val \div 100 - 1 is the writing handle

(* ------------------------------------------------------------------ reference *)
InTxnR(h) == rt[h] # <<>>
ViewR(h) == IF InTxnR(h) THEN [k \in Keys |-> IF k \in DOMAIN rt[h][1].ws THEN rt[h][1].ws[k] ELSE rt[h][1].snap[k]]
                         ELSE cm
RowsOf(f) == {<<f[k].id, f[k].v, k>> : k \in {j \in Keys : f[j] # NoRow}}
HitsR(h, i) == {k \in Keys : ViewR(h)[k] # NoRow /\ ViewR(h)[k].id = i}
\* handle h writes row images `w` (a function on a set of keys; NoRow = delete)
WriteR(h, w) ==
    IF InTxnR(h)
      THEN /\ rt' = [rt EXCEPT ![h] = <<[@[1] EXCEPT !.ws = w @@ @]>>]
           /\ UNCHANGED <<cm, cts, ts, clog>>
      ELSE /\ cm' = [k \in Keys |-> IF k \in DOMAIN w THEN w[k] ELSE cm[k]]
           /\ cts' = [k \in Keys |-> IF k \in DOMAIN w THEN ts + 1 ELSE cts[k]]
           /\ ts' = ts + 1
           /\ clog' = clog \cup {[s |-> ts, e |-> ts + 1, keys |-> DOMAIN w]}
           /\ UNCHANGED rt
ConflictR(h) == \E k \in DOMAIN rt[h][1].ws : cts[k] > rt[h][1].start

(* ------------------------------------------------------------------ implementation-shaped *)
InTxnI(h) == it[h] # <<>>
HitsI(i) == {k \in DOMAIN st : st[k].live /\ st[k].id = i}
RowsI(s) == {<<s[k].id, s[k].v, k>> : k \in {k2 \in DOMAIN s : s[k2].live}}
LogAll(h, es) == IF InTxnI(h) THEN [it EXCEPT ![h] = @ \o es] ELSE it
UndoOne(s, e) ==
    IF e.k = "ins" THEN [k \in DOMAIN s \ {e.key} |-> s[k]]          \* btree.delete(row key)
    ELSE (e.key :> e.old) @@ s                                        \* delete + insert of the old image
RECURSIVE UndoAll(_, _)
UndoAll(s, log) == IF Len(log) <= 1 THEN s ELSE UndoAll(UndoOne(s, log[Len(log)]), SubSeq(log, 1, Len(log) - 1))
\* a set of keys as a sequence in increasing order (the scan order of the table B-tree)
RECURSIVE Ordered(_)
Ordered(S) == IF S = {} THEN <<>> ELSE LET m == CHOOSE x \in S : \A y \in S : x <= y IN <<m>> \o Ordered(S \ {m})

(* ------------------------------------------------------------------ anomaly classes *)
\* ids of rows that other handles' open transactions have touched
DirtyIds(h) == UNION {{IF it[g][j].k = "ins" THEN (IF it[g][j].key \in DOMAIN st THEN st[it[g][j].key].id ELSE 0) ELSE it[g][j].old.id
                        : j \in 2..Len(it[g])} : g \in {g2 \in Handles \ {h} : InTxnI(g2)}}
IdsOf(rows) == {x[1] : x \in rows}
Class(h, op, r, m) ==
    IF r = m THEN "same"
    ELSE IF op = "commit" THEN "lost_update_commit_not_refused"
    ELSE IF op = "read" THEN
        (IF IdsOf((m.rows \ r.rows) \cup (r.rows \ m.rows)) \cap DirtyIds(h) # {} THEN "dirty_read"
         ELSE IF InTxnR(h) THEN "non_repeatable_read"
         ELSE "read_after_lost_or_clobbered_write")
    ELSE "write_decided_on_unisolated_state"

\* a write-write conflict exists for handle h writing `keys`: the property allows the statement (or the COMMIT) to be
\* refused instead of being carried out (the mechanism is left open: first committer wins, or first writer wins)
WWC(h, keys) == \/ \E g \in Handles \ {h} : InTxnR(g) /\ keys \cap DOMAIN rt[g][1].ws # {}
                \/ InTxnR(h) /\ \E k \in keys : cts[k] > rt[h][1].start
Res(ok, n, rows) == [ok |-> ok, n |-> n, rows |-> rows]
StepW(h, op, arg, r, m, wwc) ==
    /\ nops' = nops + 1
    /\ hist' = Append(hist, [h |-> h, op |-> op, id |-> arg, v |-> Val(h), ref |-> r, impl |-> m, class |-> Class(h, op, r, m), wwc |-> wwc,
                             intxn |-> InTxnI(h), implrows |-> RowsI(st')])
    /\ UNCHANGED start
Step(h, op, arg, r, m) == StepW(h, op, arg, r, m, FALSE)

Begin(h) == /\ nops < MaxOps
            /\ ~InTxnI(h)          \* BEGIN inside a transaction is an error in both models and is not generated
            /\ rt' = [rt EXCEPT ![h] = <<[start |-> ts, snap |-> cm, ws |-> <<>>]>>]
            /\ it' = [it EXCEPT ![h] = <<[k |-> "txn", key |-> 0, old |-> NoRow]>>]
            /\ UNCHANGED <<cm, cts, ts, st, nk, clog>>
            /\ Step(h, "begin", 0, Res(TRUE, 0, {}), Res(TRUE, 0, {}))

Commit(h) == /\ nops < MaxOps /\ InTxnI(h)
             /\ LET conflict == ConflictR(h)
                    w == rt[h][1].ws
                IN /\ IF conflict THEN UNCHANGED <<cm, cts, ts, clog>>
                      ELSE /\ cm' = [k \in Keys |-> IF k \in DOMAIN w THEN w[k] ELSE cm[k]]
                           /\ cts' = [k \in Keys |-> IF k \in DOMAIN w THEN ts + 1 ELSE cts[k]]
                           /\ ts' = ts + 1
                           /\ clog' = clog \cup {[s |-> rt[h][1].start, e |-> ts + 1, keys |-> DOMAIN w]}
                   /\ rt' = [rt EXCEPT ![h] = <<>>]
                   /\ it' = [it EXCEPT ![h] = <<>>]
                   /\ UNCHANGED <<st, nk>>
                   /\ StepW(h, "commit", 0, Res(~conflict, 0, {}), Res(TRUE, 0, {}), conflict)

\* ROLLBACK, and dropping a handle whose transaction is open (a fresh clone takes its place)
Abort(h, op) == /\ nops < MaxOps /\ InTxnI(h)
                /\ rt' = [rt EXCEPT ![h] = <<>>] /\ UNCHANGED <<cm, cts, ts, nk, clog>>
                /\ st' = UndoAll(st, it[h]) /\ it' = [it EXCEPT ![h] = <<>>]
                /\ Step(h, op, 0, Res(TRUE, 0, {}), Res(TRUE, 0, {}))

Read(h) == /\ nops < MaxOps
           /\ UNCHANGED <<cm, cts, ts, rt, st, it, nk, clog>>
           /\ Step(h, "read", 0, Res(TRUE, 0, RowsOf(ViewR(h))), Res(TRUE, 0, RowsI(st)))

Insert(h, i) ==
    /\ nops < MaxOps /\ nk <= MaxKeys
    /\ WriteR(h, nk :> [id |-> i, v |-> Val(h)])
    /\ st' = (nk :> [id |-> i, v |-> Val(h), live |-> TRUE]) @@ st
    /\ it' = LogAll(h, <<[k |-> "ins", key |-> nk, old |-> NoRow]>>)
    /\ nk' = nk + 1
    /\ Step(h, "insert", i, Res(TRUE, 1, {}), Res(TRUE, 1, {}))

Update(h, i) ==
    /\ nops < MaxOps
    /\ LET hr == HitsR(h, i)
           hi == HitsI(i)
           ks == Ordered(hi)
       IN /\ IF hr # {} THEN WriteR(h, [k \in hr |-> [id |-> i, v |-> Val(h)]]) ELSE UNCHANGED <<cm, cts, ts, rt, clog>>
          /\ st' = [k \in DOMAIN st |-> IF k \in hi THEN [st[k] EXCEPT !.v = Val(h)] ELSE st[k]]
          /\ it' = LogAll(h, [j \in 1..Len(ks) |-> [k |-> "upd", key |-> ks[j], old |-> st[ks[j]]]])
          /\ UNCHANGED nk
          /\ StepW(h, "update", i, Res(TRUE, Cardinality(hr), {}), Res(TRUE, Cardinality(hi), {}), WWC(h, hr \cup hi))

Delete(h, i) ==
    /\ nops < MaxOps
    /\ LET hr == HitsR(h, i)
           hi == HitsI(i)
           ks == Ordered(hi)
       IN /\ IF hr # {} THEN WriteR(h, [k \in hr |-> NoRow]) ELSE UNCHANGED <<cm, cts, ts, rt, clog>>
          /\ st' = [k \in DOMAIN st |-> IF k \in hi THEN [st[k] EXCEPT !.live = FALSE] ELSE st[k]]
          /\ it' = LogAll(h, [j \in 1..Len(ks) |-> [k |-> "del", key |-> ks[j], old |-> st[ks[j]]]])
          /\ UNCHANGED nk
          /\ StepW(h, "delete", i, Res(TRUE, Cardinality(hr), {}), Res(TRUE, Cardinality(hi), {}), WWC(h, hr \cup hi))

Init == /\ start \in Starts
        /\ cm = [k \in Keys |-> IF k = 1 THEN [id |-> 1, v |-> 1] ELSE NoRow] /\ cts = [k \in Keys |-> 0] /\ ts = 0
        /\ st = (1 :> [id |-> 1, v |-> 1, live |-> TRUE]) /\ nk = 2
        /\ rt = [h \in Handles |-> IF start = "both_in_txn" THEN <<[start |-> 0, snap |-> cm, ws |-> <<>>]>> ELSE <<>>]
        /\ it = [h \in Handles |-> IF start = "both_in_txn" THEN <<[k |-> "txn", key |-> 0, old |-> NoRow]>> ELSE <<>>]
        /\ nops = 0 /\ hist = <<>> /\ clog = {}

Next == \E h \in Handles :
           \/ Begin(h) \/ Commit(h) \/ Abort(h, "rollback")
           \/ ("drop" \in Kinds /\ Abort(h, "drop")) \/ ("read" \in Kinds /\ Read(h))
           \/ \E i \in Ids : \/ ("insert" \in Kinds /\ Insert(h, i))
                              \/ ("update" \in Kinds /\ Update(h, i))
                              \/ ("delete" \in Kinds /\ Delete(h, i))
Spec == Init /\ [][Next]_vars

(* ------------------------------------------------------------------ what the models guarantee *)
Classes == {hist[j].class : j \in 1..Len(hist)}
\* with autocommit statements only, the implementation-shaped model IS the sequential reference
AutocommitOnly == \A j \in 1..Len(hist) : hist[j].op \notin {"begin", "commit", "rollback", "drop"}
SequentialWhenAutocommit == (start = "plain" /\ AutocommitOnly) => Classes \subseteq {"same"}
\* with one handle the implementation-shaped model is the reference too (C07's territory)
OneHandleOnly == \A j \in 1..Len(hist) : hist[j].h = 0
SerialWhenAlone == (start = "plain" /\ OneHandleOnly) => Classes \subseteq {"same"}
\* a handle always sees its own writes, in both models
OwnWritesVisible == \A h \in Handles : InTxnR(h) => \A k \in DOMAIN rt[h][1].ws : ViewR(h)[k] = rt[h][1].ws[k]
\* the reference never shows a handle a value another handle has not committed
RefNoDirtyRead == \A h \in Handles : \A k \in Keys :
                     LET x == ViewR(h)[k] IN x # NoRow => \/ x = cm[k]
                                                          \/ InTxnR(h) /\ rt[h][1].snap[k] = x
                                                          \/ x.v \div 100 = h + 1
\* no lost update in the reference: two committed transactions that wrote the same row did not overlap in time
RefNoLostUpdate == \A t1, t2 \in clog : (t1 # t2 /\ t1.keys \cap t2.keys # {}) => (t1.e <= t2.s \/ t2.e <= t1.s)
=============================================================================

\* the pinned code's cleanup: TLC must find two writers on one page
CONSTANTS Threads = {1, 2}  Pages = {1}  Tables = {1}  MaxEntries = 4  MaxOpsPerThread = 3  CleanupUnderLock = FALSE
SPECIFICATION Spec
VIEW view
INVARIANTS MutexW
CHECK_DEADLOCK FALSE

---------------------------- MODULE CommitOrder ----------------------------
(***************************************************************************)
(* Concurrent COMMITs and the order of page images in the log (C38).       *)
(*                                                                         *)
(* Implementation-shaped model of Database::execute_commit /               *)
(* execute_small_commit for handles that modify rows on ONE shared table   *)
(* page:                                                                   *)
(*                                                                         *)
(*   Modify(t)   a statement of t's transaction rewrites the page in place *)
(*               (new version) and marks it in the SHARED dirty tracker    *)
(*   Capture(t)  COMMIT, first half, under the file-manager lock: drain    *)
(*               the dirty set of the table and copy the CURRENT image of  *)
(*               every drained page into t's payload (nothing drained =>   *)
(*               empty payload)                                            *)
(*   COMMIT, second half, after the lock was released, goes through the    *)
(*   group-commit queue (one action per critical section of its mutex):    *)
(*   Submit(t)   an empty payload returns at once; otherwise the payload   *)
(*               is appended to the queue of pending commits               *)
(*   Elect(t)    a waiter finds no flush in progress: it becomes the flush *)
(*               leader and takes EVERY pending commit as its batch        *)
(*   Flush(t)    the leader appends the payloads of its batch to the log   *)
(*               in queue order (and syncs), marks every commit of the     *)
(*               batch completed and returns                               *)
(*   Return(t)   a waiter finds its commit completed and returns           *)
(*   (a waiter whose commit is in a batch that is being flushed sleeps on  *)
(*   a condition variable: it has no step)                                 *)
(*                                                                         *)
(* Capture and Submit are separate steps - the code releases the lock in   *)
(* between (hook point commit.captured) - and that is where the anomalies  *)
(* live. `done[t]` = COMMIT returned OK. A batch may hold several images   *)
(* of the page (captured at different times): all of them are logged, in   *)
(* the order of submission.                                                *)
(*                                                                         *)
(*   Covered   when a COMMIT has returned, the log holds an image of the   *)
(*             page at least as new as the committer's last modification   *)
(*   LogOrder  the images of the page appear in the log in version order,  *)
(*             so replay ends with the newest logged one (never an older   *)
(*             image over a newer one)                                     *)
(*                                                                         *)
(* Both are violated by this protocol (TLC finds the schedules; the check  *)
(* replays them on the real handles). SerialOnly restricts to schedules in *)
(* which no COMMIT overlaps another handle's Modify..Write: there both     *)
(* must hold, and do.                                                      *)
(***************************************************************************)
EXTENDS Integers, Sequences, FiniteSets, TLC

CONSTANTS Threads, MaxMods

VARIABLES ver,        \* current version of the page image in the mapping
          dirty,      \* the page is marked in the shared dirty tracker
          pc,         \* [Threads -> "idle" | "txn" | "captured" | "queued" | "leader" | "done"]
          mine,       \* [Threads -> version written by t's last modification (0 = none)]
          payload,    \* [Threads -> version captured, 0 = empty payload]
          queue,      \* pending commits: sequence of [t, v]
          batch,      \* the commits the current flush leader took (<<>> = no flush in progress)
          log,        \* sequence of versions appended to the WAL
          overlap,    \* ghost: some COMMIT ran while another handle was between its first Modify and its Write
          hist
vars == <<ver, dirty, pc, mine, payload, queue, batch, log, overlap, hist>>
view == <<ver, dirty, pc, mine, payload, queue, batch, log, overlap>>

Init == /\ ver = 0 /\ dirty = FALSE /\ pc = [t \in Threads |-> "idle"] /\ mine = [t \in Threads |-> 0]
        /\ payload = [t \in Threads |-> 0] /\ queue = <<>> /\ batch = <<>> /\ log = <<>> /\ overlap = FALSE /\ hist = <<>>

Others(t) == Threads \ {t}
InCommit == {"captured", "queued", "leader"}
StepN(t, a, n) == hist' = Append(hist, [t |-> t, a |-> a, n |-> n])      \* n: size of the batch an Elect step takes
Step(t, a) == StepN(t, a, 0)

Modify(t) == /\ pc[t] \in {"idle", "txn"} /\ ver < MaxMods
             /\ ver' = ver + 1 /\ dirty' = TRUE
             /\ pc' = [pc EXCEPT ![t] = "txn"] /\ mine' = [mine EXCEPT ![t] = ver + 1]
             /\ overlap' = (overlap \/ \E u \in Others(t) : pc[u] \in InCommit)
             /\ UNCHANGED <<payload, queue, batch, log>> /\ Step(t, "modify")

Capture(t) == /\ pc[t] = "txn"
              /\ payload' = [payload EXCEPT ![t] = IF dirty THEN ver ELSE 0]
              /\ dirty' = FALSE
              /\ pc' = [pc EXCEPT ![t] = "captured"]
              /\ overlap' = (overlap \/ \E u \in Others(t) : pc[u] \in {"txn"} \cup InCommit)
              /\ UNCHANGED <<ver, mine, queue, batch, log>> /\ Step(t, "capture")

InQueue(t) == \E i \in 1..Len(queue) : queue[i].t = t
InBatch(t) == \E i \in 1..Len(batch) : batch[i].t = t
Submit(t) == /\ pc[t] = "captured"
             /\ IF payload[t] = 0 THEN pc' = [pc EXCEPT ![t] = "done"] /\ UNCHANGED queue
                ELSE pc' = [pc EXCEPT ![t] = "queued"] /\ queue' = Append(queue, [t |-> t, v |-> payload[t]])
             /\ UNCHANGED <<ver, dirty, mine, payload, batch, log, overlap>> /\ Step(t, "submit")
Elect(t) == /\ pc[t] = "queued" /\ InQueue(t) /\ batch = <<>>
            /\ batch' = queue /\ queue' = <<>>
            /\ pc' = [pc EXCEPT ![t] = "leader"]
            /\ UNCHANGED <<ver, dirty, mine, payload, log, overlap>> /\ StepN(t, "elect", Len(queue))
Flush(t) == /\ pc[t] = "leader"
            /\ log' = log \o [i \in 1..Len(batch) |-> batch[i].v]
            /\ batch' = <<>>
            /\ pc' = [pc EXCEPT ![t] = "done"]
            /\ UNCHANGED <<ver, dirty, mine, payload, queue, overlap>> /\ Step(t, "flush")
Return(t) == /\ pc[t] = "queued" /\ ~InQueue(t) /\ ~InBatch(t)
             /\ pc' = [pc EXCEPT ![t] = "done"]
             /\ UNCHANGED <<ver, dirty, mine, payload, queue, batch, log, overlap>> /\ Step(t, "return")

Next == \E t \in Threads : Modify(t) \/ Capture(t) \/ Submit(t) \/ Elect(t) \/ Flush(t) \/ Return(t)
Spec == Init /\ [][Next]_vars

MaxLogged == IF log = <<>> THEN 0 ELSE log[Len(log)]       \* what redo leaves on the page
Covered == \A t \in Threads : pc[t] = "done" => (\E i \in 1..Len(log) : log[i] >= mine[t])
LogOrder == \A i, j \in 1..Len(log) : i < j => log[i] <= log[j]
\* what C38 demands of the recovered page: the image of its most recent committed version
ReplayGivesNewestCommitted == \A t \in Threads : pc[t] = "done" => MaxLogged >= mine[t]

\* the queue itself: every submitted image is logged exactly once, in the order of submission; a commit returns only after
\* its image is in the log
Returned(t) == pc[t] = "done" /\ payload[t] # 0
AckAfterLogged == \A t \in Threads : Returned(t) => \E i \in 1..Len(log) : log[i] = payload[t]
BatchLogged == Len(log) + Len(batch) + Len(queue) = Cardinality({t \in Threads : pc[t] \in {"queued", "leader", "done"} /\ payload[t] # 0})

SerialCovered == ~overlap => Covered
SerialLogOrder == ~overlap => LogOrder
SerialReplay == ~overlap => ReplayGivesNewestCommitted
=============================================================================

---------------------------- MODULE CommitOrder ----------------------------
(***************************************************************************)
(* Concurrent COMMITs and the order of page images in the log (C38).       *)
(*                                                                         *)
(* Implementation-shaped model of Database::execute_commit /               *)
(* execute_small_commit for handles that modify rows on ONE shared table   *)
(* page:                                                                   *)
(*                                                                         *)
(*   Modify(t)   a statement of t's transaction rewrites the page in place *)
(*               (new version) and marks it in the SHARED dirty tracker    *)
(*   Capture(t)  COMMIT, first half, under the file-manager lock: drain    *)
(*               the dirty set of the table and copy the CURRENT image of  *)
(*               every drained page into t's payload (nothing drained =>   *)
(*               empty payload)                                            *)
(*   Write(t)    COMMIT, second half, after the lock was released: an      *)
(*               empty payload returns at once; otherwise the payload is   *)
(*               appended to the log (and synced)                          *)
(*                                                                         *)
(* Capture and Write are separate steps - the code releases the lock in    *)
(* between (hook point commit.captured) - and that is where the anomalies  *)
(* live. `done[t]` = COMMIT returned OK.                                   *)
(*                                                                         *)
(*   Covered   when a COMMIT has returned, the log holds an image of the   *)
(*             page at least as new as the committer's last modification   *)
(*   LogOrder  the images of the page appear in the log in version order,  *)
(*             so replay ends with the newest logged one (never an older   *)
(*             image over a newer one)                                     *)
(*                                                                         *)
(* Both are violated by this protocol (TLC finds the schedules; the check  *)
(* replays them on the real handles). SerialOnly restricts to schedules in *)
(* which no COMMIT overlaps another handle's Modify..Write: there both     *)
(* must hold, and do.                                                      *)
(***************************************************************************)
EXTENDS Integers, Sequences, FiniteSets, TLC

CONSTANTS Threads, MaxMods

VARIABLES ver,        \* current version of the page image in the mapping
          dirty,      \* the page is marked in the shared dirty tracker
          pc,         \* [Threads -> "idle" | "txn" | "captured" | "done"]
          mine,       \* [Threads -> version written by t's last modification (0 = none)]
          payload,    \* [Threads -> version captured, 0 = empty payload]
          log,        \* sequence of versions appended to the WAL
          overlap,    \* ghost: some COMMIT ran while another handle was between its first Modify and its Write
          hist
vars == <<ver, dirty, pc, mine, payload, log, overlap, hist>>
view == <<ver, dirty, pc, mine, payload, log, overlap>>

Init == /\ ver = 0 /\ dirty = FALSE /\ pc = [t \in Threads |-> "idle"] /\ mine = [t \in Threads |-> 0]
        /\ payload = [t \in Threads |-> 0] /\ log = <<>> /\ overlap = FALSE /\ hist = <<>>

Others(t) == Threads \ {t}
Step(t, a) == hist' = Append(hist, [t |-> t, a |-> a])

Modify(t) == /\ pc[t] \in {"idle", "txn"} /\ ver < MaxMods
             /\ ver' = ver + 1 /\ dirty' = TRUE
             /\ pc' = [pc EXCEPT ![t] = "txn"] /\ mine' = [mine EXCEPT ![t] = ver + 1]
             /\ overlap' = (overlap \/ \E u \in Others(t) : pc[u] = "captured")
             /\ UNCHANGED <<payload, log>> /\ Step(t, "modify")

Capture(t) == /\ pc[t] = "txn"
              /\ payload' = [payload EXCEPT ![t] = IF dirty THEN ver ELSE 0]
              /\ dirty' = FALSE
              /\ pc' = [pc EXCEPT ![t] = "captured"]
              /\ overlap' = (overlap \/ \E u \in Others(t) : pc[u] \in {"txn", "captured"})
              /\ UNCHANGED <<ver, mine, log>> /\ Step(t, "capture")

Write(t) == /\ pc[t] = "captured"
            /\ log' = IF payload[t] = 0 THEN log ELSE Append(log, payload[t])
            /\ pc' = [pc EXCEPT ![t] = "done"]
            /\ UNCHANGED <<ver, dirty, mine, payload, overlap>> /\ Step(t, "write")

Next == \E t \in Threads : Modify(t) \/ Capture(t) \/ Write(t)
Spec == Init /\ [][Next]_vars

MaxLogged == IF log = <<>> THEN 0 ELSE log[Len(log)]       \* what redo leaves on the page
Covered == \A t \in Threads : pc[t] = "done" => (\E i \in 1..Len(log) : log[i] >= mine[t])
LogOrder == \A i, j \in 1..Len(log) : i < j => log[i] <= log[j]
\* what C38 demands of the recovered page: the image of its most recent committed version
ReplayGivesNewestCommitted == \A t \in Threads : pc[t] = "done" => MaxLogged >= mine[t]

SerialCovered == ~overlap => Covered
SerialLogOrder == ~overlap => LogOrder
SerialReplay == ~overlap => ReplayGivesNewestCommitted
=============================================================================

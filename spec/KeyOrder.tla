------------------------------ MODULE KeyOrder ------------------------------
(***************************************************************************)
(* C26 - order and identity of the VALUES that TurDB turns into index keys *)
(* (src/encoding/key.rs).  This module says nothing about bytes: it        *)
(* defines, for every kind of value key.rs can encode,                     *)
(*    Cmp(x, y)   \in {-1, 0, 1}   the order the keys must have,           *)
(*    Canon(x)                     what decoding the key must return,      *)
(*    Open(x, y)                   pairs whose order the documentation     *)
(*                                 leaves open (only distinctness and      *)
(*                                 antisymmetry are required of the keys), *)
(* and TupCmp for composite keys (column by column).  TLC evaluates these  *)
(* on the representative points of MC_KeyOrder.tla; harness/src/codec.rs   *)
(* encodes the same points with key.rs and lib/checks/c26.py compares      *)
(* memcmp of the keys with Cmp.                                            *)
(*                                                                         *)
(* A value is a record [t |-> tag, p |-> <<integers>>, c |-> <<values>>]:   *)
(*   null     p = <<>>                                                     *)
(*   bool     p = <<0 | 1>>                                                *)
(*   int      p = <<neg, d3, d2, d1, d0>>   sign and magnitude in base     *)
(*            2^16 (TLC integers are 32-bit); also time, timestamp         *)
(*   float    p = <<cls, neg, e, m3, m2, m1, m0>>   IEEE-754 binary64:     *)
(*            cls 0 = -inf, 1 = finite, 2 = +inf, 3 = NaN; biased exponent *)
(*            e, 52-bit mantissa in base 2^16 (m3 has 4 bits)              *)
(*   f32      p = <<cls, neg, e, m1, m0>>   binary32 (vector elements)     *)
(*   text blob uuid macaddr    p = the bytes                               *)
(*   date     p = <<days>>                                                 *)
(*   timestamptz  p = <<neg, d3..d0, tz_minutes>>                          *)
(*   interval p = <<months, days, neg, d3..d0>>                            *)
(*   enum     p = <<type_hi, type_lo, ord_hi, ord_lo>>  (two u32)          *)
(*   inet     p = <<is_v6, prefix_len, addr bytes..>>                      *)
(*   vector   c = <<f32 ..>>        array, tuple   c = <<values ..>>       *)
(*   jnull jbool(p=<<0|1>>) jnum(p as float) jstr(p = bytes) jarr(c)       *)
(*   jobj  c = << [t |-> "jkv", p |-> key bytes, c |-> <<value>>] .. >>    *)
(*                                                                         *)
(* The documented type order (module header of key.rs, "Type Prefix        *)
(* Scheme"): NULL < booleans < numbers < strings (TEXT < BLOB) < date/time *)
(* < special (UUID, INET, MACADDR) < JSON < composite < VECTOR.  Inside a  *)
(* group the header gives ranges only; the order of the members is the     *)
(* order of the public constants turdb::encoding::key::type_prefix, which  *)
(* is what TypeRank records (the prefix value itself).                     *)
(***************************************************************************)
EXTENDS Integers, Sequences, FiniteSets

Sign(n) == IF n < 0 THEN -1 ELSE IF n > 0 THEN 1 ELSE 0
(* comparison without subtraction (i32 extremes would overflow TLC's integers) *)
CmpInt(a, b) == IF a < b THEN -1 ELSE IF a > b THEN 1 ELSE 0

(* lexicographic comparison of integer sequences; a proper prefix is smaller *)
RECURSIVE LexCmp(_, _)
LexCmp(a, b) ==
  IF a = <<>> THEN (IF b = <<>> THEN 0 ELSE -1)
  ELSE IF b = <<>> THEN 1
  ELSE IF Head(a) # Head(b) THEN CmpInt(Head(a), Head(b))
  ELSE LexCmp(Tail(a), Tail(b))

(* ------------------------------------------------------------------------ *)
(* signed 64-bit integers <<neg, d3, d2, d1, d0>>; zero has neg = 0          *)
MagOf(s)   == SubSeq(s, 2, 5)
IsZeroMag(m) == m = <<0, 0, 0, 0>>
I64Cmp(x, y) ==
  IF x[1] # y[1] THEN (IF x[1] = 1 THEN -1 ELSE 1)
  ELSE IF x[1] = 0 THEN LexCmp(MagOf(x), MagOf(y)) ELSE LexCmp(MagOf(y), MagOf(x))
I64OK(s) == /\ Len(s) = 5 /\ s[1] \in {0, 1} /\ \A i \in 2..5 : s[i] \in 0..65535
            /\ (s[1] = 1 => ~IsZeroMag(MagOf(s)) /\ LexCmp(MagOf(s), <<32768, 0, 0, 0>>) <= 0)
            /\ (s[1] = 0 => s[2] <= 32767)

(* ------------------------------------------------------------------------ *)
(* IEEE-754 values.  fl = <<cls, neg, e, mantissa digits..>>.  For finite    *)
(* values of one sign the numeric order is the order of (e, mantissa).      *)
FExpMant(fl) == SubSeq(fl, 3, Len(fl))
FIsZero(fl)  == fl[1] = 1 /\ \A i \in 3..Len(fl) : fl[i] = 0
(* class on the number line: 0 -inf, 1 negative, 2 zero, 3 positive, 4 +inf, 5 NaN *)
FClass(fl) == IF fl[1] = 0 THEN 0 ELSE IF fl[1] = 2 THEN 4 ELSE IF fl[1] = 3 THEN 5
              ELSE IF FIsZero(fl) THEN 2 ELSE IF fl[2] = 1 THEN 1 ELSE 3
(* IEEE comparison with -0 = +0, all NaNs one value placed above +inf (as documented for f64 keys) *)
FCmp(x, y) ==
  IF FClass(x) # FClass(y) THEN Sign(FClass(x) - FClass(y))
  ELSE IF FClass(x) = 1 THEN LexCmp(FExpMant(y), FExpMant(x))
  ELSE IF FClass(x) = 3 THEN LexCmp(FExpMant(x), FExpMant(y))
  ELSE 0
(* the refinement that also separates the two zeros (-0 below +0); used where key.rs documents no    *)
(* zero canonicalisation (JSON numbers, vector elements): there a key order that agrees with FCmp   *)
(* OR with FCmpZ is accepted                                                                          *)
FCmpZ(x, y, z) == IF z /\ FClass(x) = 2 /\ FClass(y) = 2 THEN Sign(y[2] - x[2]) ELSE FCmp(x, y)
F64OK(fl) == /\ Len(fl) = 7 /\ fl[1] \in 0..3 /\ fl[2] \in {0, 1}
             /\ (fl[1] = 1 => fl[3] \in 0..2046) /\ (fl[1] = 3 => fl[3] = 2047 /\ ~(\A i \in 4..7 : fl[i] = 0))
             /\ (fl[1] \in {0, 2} => fl[3] = 2047 /\ (\A i \in 4..7 : fl[i] = 0) /\ fl[2] = (IF fl[1] = 0 THEN 1 ELSE 0))
             /\ fl[4] \in 0..15 /\ \A i \in 5..7 : fl[i] \in 0..65535
F32OK(fl) == /\ Len(fl) = 5 /\ fl[1] \in 0..3 /\ fl[2] \in {0, 1}
             /\ (fl[1] = 1 => fl[3] \in 0..254) /\ (fl[1] = 3 => fl[3] = 255 /\ ~(fl[4] = 0 /\ fl[5] = 0))
             /\ (fl[1] \in {0, 2} => fl[3] = 255 /\ fl[4] = 0 /\ fl[5] = 0 /\ fl[2] = (IF fl[1] = 0 THEN 1 ELSE 0))
             /\ fl[4] \in 0..127 /\ fl[5] \in 0..65535

(* ------------------------------------------------------------------------ *)
(* numbers: integers and floats share the documented number line             *)
(*   NEG_INFINITY < negatives < ZERO < positives < POS_INFINITY < NAN        *)
(* and integer 0, +0.0 and -0.0 are ONE key (documented "Zero               *)
(* Canonicalization").  For an integer and a float of the same sign the     *)
(* header says nothing; the public prefix constants put negative integers   *)
(* before negative floats and positive floats before positive integers.     *)
NClass(v) == IF v.t = "int" THEN (IF IsZeroMag(MagOf(v.p)) THEN 2 ELSE IF v.p[1] = 1 THEN 1 ELSE 3)
             ELSE FClass(v.p)
NumCmp(x, y) ==
  IF NClass(x) # NClass(y) THEN Sign(NClass(x) - NClass(y))
  ELSE IF NClass(x) \notin {1, 3} THEN 0
  ELSE IF x.t = "int" /\ y.t = "int" THEN I64Cmp(x.p, y.p)
  ELSE IF x.t = "float" /\ y.t = "float" THEN FCmp(x.p, y.p)
  ELSE IF NClass(x) = 1 THEN (IF x.t = "int" THEN -1 ELSE 1)
  ELSE (IF x.t = "float" THEN -1 ELSE 1)

(* ------------------------------------------------------------------------ *)
TypeRank(t) ==
  CASE t = "null" -> 1  [] t = "bool" -> 2  [] t \in {"int", "float"} -> 16
    [] t = "text" -> 32 [] t = "blob" -> 33
    [] t = "date" -> 48 [] t = "time" -> 49 [] t = "timestamp" -> 50 [] t = "timestamptz" -> 51 [] t = "interval" -> 52
    [] t = "uuid" -> 64 [] t = "inet" -> 65 [] t = "macaddr" -> 66
    [] t \in {"jnull", "jbool", "jnum", "jstr", "jarr", "jobj"} -> 80
    [] t = "array" -> 96 [] t = "tuple" -> 97 [] t = "enum" -> 99
    [] t = "vector" -> 112
    [] t = "f32" -> 200 [] t = "jkv" -> 201      \* only inside vectors / JSON objects
JRank(v) == CASE v.t = "jnull" -> 0 [] v.t = "jbool" -> 1 + v.p[1] [] v.t = "jnum" -> 3 [] v.t = "jstr" -> 4
              [] v.t = "jarr" -> 5 [] v.t = "jobj" -> 6

RECURSIVE CmpZ(_, _, _), SeqCmp(_, _, _)
(* element-wise, a proper prefix first (ARRAY / TUPLE / JSON array / JSON object / same-length vectors) *)
SeqCmp(a, b, z) ==
  IF a = <<>> THEN (IF b = <<>> THEN 0 ELSE -1)
  ELSE IF b = <<>> THEN 1
  ELSE LET h == CmpZ(Head(a), Head(b), z) IN IF h # 0 THEN h ELSE SeqCmp(Tail(a), Tail(b), z)

CmpZ(x, y, z) ==
  IF TypeRank(x.t) # TypeRank(y.t) THEN Sign(TypeRank(x.t) - TypeRank(y.t))
  ELSE CASE x.t = "null" -> 0
    [] x.t \in {"int", "float"} -> NumCmp(x, y)
    [] x.t \in {"bool", "text", "blob", "uuid", "macaddr", "date", "enum", "inet"} -> LexCmp(x.p, y.p)
    [] x.t \in {"time", "timestamp"} -> I64Cmp(x.p, y.p)
    [] x.t = "timestamptz" ->
         LET m == I64Cmp(SubSeq(x.p, 1, 5), SubSeq(y.p, 1, 5)) IN IF m # 0 THEN m ELSE CmpInt(x.p[6], y.p[6])
    [] x.t = "interval" ->
         IF x.p[1] # y.p[1] THEN CmpInt(x.p[1], y.p[1]) ELSE IF x.p[2] # y.p[2] THEN CmpInt(x.p[2], y.p[2])
         ELSE I64Cmp(SubSeq(x.p, 3, 7), SubSeq(y.p, 3, 7))
    [] x.t = "f32" -> FCmpZ(x.p, y.p, z)
    [] x.t = "vector" -> IF Len(x.c) # Len(y.c) THEN Sign(Len(x.c) - Len(y.c)) ELSE SeqCmp(x.c, y.c, z)
    [] x.t \in {"array", "tuple"} -> SeqCmp(x.c, y.c, z)
    [] x.t = "jkv" -> LET k == LexCmp(x.p, y.p) IN IF k # 0 THEN k ELSE CmpZ(x.c[1], y.c[1], z)
    [] x.t \in {"jnull", "jbool", "jnum", "jstr", "jarr", "jobj"} ->
         IF JRank(x) # JRank(y) THEN Sign(JRank(x) - JRank(y))
         ELSE CASE x.t = "jnum" -> FCmpZ(x.p, y.p, z)
                [] x.t = "jstr" -> LexCmp(x.p, y.p)
                [] x.t \in {"jarr", "jobj"} -> SeqCmp(x.c, y.c, z)
                [] OTHER -> 0

Cmp(x, y)  == CmpZ(x, y, FALSE)     \* the value order (IEEE: -0 = +0)
CmpT(x, y) == CmpZ(x, y, TRUE)      \* the admissible refinement -0 < +0 inside JSON numbers / vectors

(* Pairs whose relative order the documentation does not fix.  The keys must still be distinct for  *)
(* distinct values and compare antisymmetrically.                                                    *)
(*   - two INET values (the header names the type only)                                              *)
(*   - vectors of different dimension, vectors containing NaN (IEEE leaves NaN unordered and the     *)
(*     header defines NaN's place for f64 keys only)                                                 *)
HasNaN(v) == \E i \in 1..Len(v.c) : v.c[i].p[1] = 3
Open(x, y) ==
  \/ x.t = "inet" /\ y.t = "inet"
  \/ x.t = "vector" /\ y.t = "vector" /\ (Len(x.c) # Len(y.c) \/ HasNaN(x) \/ HasNaN(y))

(* ------------------------------------------------------------------------ *)
(* what decode_key(encode(x)) must return: x itself, except that every zero *)
(* (integer, +0.0, -0.0) comes back as integer 0 ("Type information lost")  *)
(* and every NaN as the one NaN value.                                      *)
IntZero  == [t |-> "int", p |-> <<0, 0, 0, 0, 0>>, c |-> <<>>]
CanonNaN == [t |-> "float", p |-> <<3, 0, 2047, 8, 0, 0, 0>>, c |-> <<>>]
RECURSIVE Canon(_)
Canon(x) == IF x.t = "float" /\ FClass(x.p) = 2 THEN IntZero
            ELSE IF x.t = "float" /\ FClass(x.p) = 5 THEN CanonNaN
            ELSE IF x.t \in {"array", "tuple"} THEN [x EXCEPT !.c = [i \in 1..Len(x.c) |-> Canon(x.c[i])]]
            ELSE x
(* the same with every -0 inside JSON numbers and vectors turned into +0: also an acceptable decode   *)
(* result (an implementation may canonicalise these zeros as it does for f64 keys)                    *)
RECURSIVE CanonZ(_)
CanonZ(x) == IF x.t \in {"jnum", "f32"} /\ FClass(x.p) = 2 THEN [x EXCEPT !.p[2] = 0]
             ELSE IF x.t \in {"array", "tuple", "vector", "jarr", "jobj", "jkv"}
                  THEN [Canon(x) EXCEPT !.c = [i \in 1..Len(x.c) |-> CanonZ(x.c[i])]]
             ELSE Canon(x)

(* distinct values have distinct keys, except the documented shared zero: two values may have the    *)
(* same key exactly when their canonical forms are the same value (or differ only in the sign of a   *)
(* zero inside a JSON number / vector)                                                                *)
SameKeyAllowed(x, y) == Canon(x) = Canon(y) \/ CanonZ(x) = CanonZ(y)

(* first bytes decode_key understands (every other first byte must be rejected): the prefixes of the *)
(* header table except the reserved big-integer prefixes 0x11 / 0x17, the custom range and MAX_KEY    *)
Decodable == {1, 2, 3, 16, 18, 19, 20, 21, 22, 24, 25, 32, 33} \cup 48..52 \cup 64..66 \cup 80..86 \cup 96..101 \cup {112}

(* ------------------------------------------------------------------------ *)
(* composite keys: the columns' keys are concatenated; order is column by column *)
TupCmp(a, b)  == SeqCmp(a, b, FALSE)
TupCmpT(a, b) == SeqCmp(a, b, TRUE)

(* well-formedness of a value (the harness can build exactly these) *)
RECURSIVE WF(_)
WF(v) ==
  CASE v.t = "null" -> v.p = <<>> /\ v.c = <<>>
    [] v.t \in {"bool", "jbool"} -> v.p \in {<<0>>, <<1>>} /\ v.c = <<>>
    [] v.t \in {"int", "time", "timestamp"} -> I64OK(v.p) /\ v.c = <<>>
    [] v.t \in {"float", "jnum"} -> F64OK(v.p) /\ v.c = <<>>
    [] v.t = "f32" -> F32OK(v.p) /\ v.c = <<>>
    [] v.t \in {"text", "blob", "jstr"} -> (\A i \in 1..Len(v.p) : v.p[i] \in 0..255) /\ v.c = <<>>
    [] v.t = "uuid" -> Len(v.p) = 16 /\ (\A i \in 1..16 : v.p[i] \in 0..255) /\ v.c = <<>>
    [] v.t = "macaddr" -> Len(v.p) = 6 /\ (\A i \in 1..6 : v.p[i] \in 0..255) /\ v.c = <<>>
    [] v.t = "date" -> Len(v.p) = 1 /\ v.c = <<>>
    [] v.t = "timestamptz" -> Len(v.p) = 6 /\ I64OK(SubSeq(v.p, 1, 5)) /\ v.p[6] \in -32768..32767 /\ v.c = <<>>
    [] v.t = "interval" -> Len(v.p) = 7 /\ I64OK(SubSeq(v.p, 3, 7)) /\ v.c = <<>>
    [] v.t = "enum" -> Len(v.p) = 4 /\ (\A i \in 1..4 : v.p[i] \in 0..65535) /\ v.c = <<>>
    [] v.t = "inet" -> /\ v.p[1] \in {0, 1} /\ v.p[2] \in 0..255 /\ Len(v.p) = (IF v.p[1] = 1 THEN 18 ELSE 6)
                       /\ (\A i \in 3..Len(v.p) : v.p[i] \in 0..255) /\ v.c = <<>>
    [] v.t = "vector" -> v.p = <<>> /\ \A i \in 1..Len(v.c) : v.c[i].t = "f32" /\ WF(v.c[i])
    [] v.t \in {"array", "tuple"} -> v.p = <<>> /\ \A i \in 1..Len(v.c) : WF(v.c[i])
    [] v.t = "jnull" -> v.p = <<>> /\ v.c = <<>>
    [] v.t = "jarr" -> v.p = <<>> /\ \A i \in 1..Len(v.c) : TypeRank(v.c[i].t) = 80 /\ WF(v.c[i])
    [] v.t = "jobj" -> v.p = <<>> /\ \A i \in 1..Len(v.c) : v.c[i].t = "jkv" /\ WF(v.c[i])
    [] v.t = "jkv" -> (\A i \in 1..Len(v.p) : v.p[i] \in 0..255) /\ Len(v.c) = 1 /\ TypeRank(v.c[1].t) = 80 /\ WF(v.c[1])
=============================================================================

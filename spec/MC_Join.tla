------------------------------- MODULE MC_Join -------------------------------
(***************************************************************************)
(* Enumerates table contents x query shapes for Join.tla, checks the       *)
(* algebra of the oracle itself (meta-invariants) and prints, for every    *)
(* selected case, the expected bag of every query (plus the bag of every   *)
(* applicable deviation set, and the bags for tables scaled by RScale).    *)
(*                                                                         *)
(* phase 0: print the query catalogues; 1: table a chosen; 2: a and b      *)
(* chosen (2-way case, printed); 3: a, b, c chosen (3-way case, printed).  *)
(***************************************************************************)
EXTENDS Join, Json

CONSTANTS MaxRowsA, MaxRowsB, MaxRowsC,   \* table sizes
          Stride, Seed,                   \* a case is selected when its hash is 0 modulo Stride (1 = all)
          Stride3,                        \* same for the third table (0 = no 3-way cases)
          RScale,                         \* replication factor of the scaled runs
          RCheck,                         \* the scaling law is verified by evaluation for r in 2..RCheck
          MetaStride                      \* the expensive meta-invariants are evaluated on 1 case in MetaStride (1 = all)

VARIABLES phase, ta, tb, tc
vars == <<phase, ta, tb, tc>>

MCKeySeq == <<N, 1, 2>>
MCValSeq == <<0, 1>>

A(c) == ColOp(1, c)
B(c) == ColOp(2, c)
C(c) == ColOp(3, c)
K1 == ConstOp(1)

(* ---------------- 2-way catalogue ---------------- *)
Types2 == <<"inner", "left", "right", "full">>
On2 == << <<Atom("eq", A("k"), B("k"))>>,
          <<Atom("eq", A("k"), B("k")), Atom("eq", A("v"), B("v"))>>,
          <<Atom("eq", A("k"), B("k")), Atom("eq", B("v"), K1)>>,
          <<Atom("eq", A("k"), B("k")), Atom("eq", A("v"), K1)>>,
          <<Atom("eq", A("k"), B("k")), Atom("lt", A("v"), B("v"))>>,
          <<Atom("lt", A("k"), B("k"))>>,
          <<Atom("le", A("k"), B("k")), Atom("eq", B("v"), K1)>>,
          <<Atom("ne", A("k"), B("k"))>>,
          <<Atom("eq", A("v"), K1)>> >>
Where2 == << <<>>,
             <<Atom("eq", A("v"), K1)>>,
             <<Atom("eq", B("v"), K1)>>,
             <<Atom("le", A("v"), B("v"))>>,
             <<Atom("isnull", B("k"), K1)>>,
             <<Atom("isnull", A("k"), K1)>>,
             <<Atom("eq", A("v"), K1), Atom("eq", B("v"), K1)>>,
             <<Atom("notnull", B("v"), K1)>>,
             <<Atom("eq", A("k"), B("k"))>>,
             <<Atom("eq", A("k"), B("k")), Atom("eq", A("v"), K1)>> >>
Proj2 == << <<A("k"), A("v"), B("k"), B("v")>>,
            <<B("v"), A("k")>>,
            <<B("k"), B("v"), A("k"), A("v")>> >>
Q2(j, on, w, p) == [n |-> 2, j1 |-> j, on1 |-> on, j2 |-> "", on2 |-> <<>>, where |-> w, proj |-> p]
\* the catalogue is a SEQUENCE (a stable numbering the renderer can rely on), decoded by mixed radix from
\*   segment 1: type x ON x WHERE with the natural select list
\*   segment 2: type x ON x {no WHERE, a.v <= b.v} with the two permuted select lists
\*   segment 3: cross / comma x WHERE x all select lists
WhereP == <<1, 4>>
NSeg1 == Len(Types2) * Len(On2) * Len(Where2)
NSeg2 == Len(Types2) * Len(On2) * Len(WhereP) * 2
NSeg3 == 2 * Len(Where2) * Len(Proj2)
NQ2 == NSeg1 + NSeg2 + NSeg3
Query2(i) ==
    IF i <= NSeg1
    THEN LET x == i - 1
             w == (x % Len(Where2)) + 1
             z == x \div Len(Where2)
             o == (z % Len(On2)) + 1
             t == (z \div Len(On2)) + 1
         IN Q2(Types2[t], On2[o], Where2[w], Proj2[1])
    ELSE IF i <= NSeg1 + NSeg2
    THEN LET x == i - NSeg1 - 1
             p == (x % 2) + 2
             y == x \div 2
             w == (y % Len(WhereP)) + 1
             z == y \div Len(WhereP)
             o == (z % Len(On2)) + 1
             t == (z \div Len(On2)) + 1
         IN Q2(Types2[t], On2[o], Where2[WhereP[w]], Proj2[p])
    ELSE LET x == i - NSeg1 - NSeg2 - 1
             p == (x % Len(Proj2)) + 1
             y == x \div Len(Proj2)
             w == (y % Len(Where2)) + 1
             t == (y \div Len(Where2)) + 1
         IN Q2(IF t = 1 THEN "cross" ELSE "comma", <<>>, Where2[w], Proj2[p])

(* ---------------- 3-way catalogue ---------------- *)
Types3 == <<"inner", "left", "right", "full">>
On3a == << <<Atom("eq", A("k"), B("k"))>>, <<Atom("lt", A("k"), B("k"))>> >>
On3b == << <<Atom("eq", B("k"), C("k"))>>, <<Atom("eq", A("k"), C("k"))>>, <<Atom("lt", C("k"), B("k"))>> >>
Where3 == << <<>>, <<Atom("eq", C("v"), K1)>>, <<Atom("eq", A("v"), K1)>> >>
Proj3 == <<A("k"), A("v"), B("k"), B("v"), C("k"), C("v")>>
Q3(j1, o1, j2, o2, w) == [n |-> 3, j1 |-> j1, on1 |-> o1, j2 |-> j2, on2 |-> o2, where |-> w, proj |-> Proj3]
NJoin3 == Len(Types3) * Len(Types3) * Len(On3a) * Len(On3b) * Len(Where3)
NQ3 == NJoin3 + 4
Query3(i) ==
    IF i <= NJoin3
    THEN LET x == i - 1
             w == (x % Len(Where3)) + 1
             y == x \div Len(Where3)
             o2 == (y % Len(On3b)) + 1
             z == y \div Len(On3b)
             o1 == (z % Len(On3a)) + 1
             u == z \div Len(On3a)
             j2 == (u % Len(Types3)) + 1
             j1 == (u \div Len(Types3)) + 1
         IN Q3(Types3[j1], On3a[o1], Types3[j2], On3b[o2], Where3[w])
    ELSE CASE i = NJoin3 + 1 -> Q3("cross", <<>>, "cross", <<>>, <<>>)
           [] i = NJoin3 + 2 -> Q3("comma", <<>>, "comma", <<>>, <<Atom("eq", A("k"), B("k")), Atom("eq", B("k"), C("k"))>>)
           [] i = NJoin3 + 3 -> Q3("inner", On3a[1], "cross", <<>>, <<>>)
           [] i = NJoin3 + 4 -> Q3("cross", <<>>, "left", On3b[1], <<>>)

(* ---------------- cases ---------------- *)
H(s) == Len(s) * 101 + (IF Len(s) >= 1 THEN s[1] * 7 ELSE 0) + (IF Len(s) >= 2 THEN s[2] * 37 ELSE 0)
        + (IF Len(s) >= 3 THEN s[3] * 53 ELSE 0)
\* always selected: an empty side (against nothing, a NULL-key row, a plain row); the same table with a duplicated
\* key on both sides (duplicate rows / duplicate keys, NULL or not)
DupKeyTable(x) == Len(x) = 2 /\ RowK(x[1]) = RowK(x[2]) /\ x[1] <= 2 * NV
Tiny(y) == Len(y) = 0 \/ (Len(y) = 1 /\ y[1] \in {1, NV + 1})
Sel2(x, y) == \/ Stride = 1 \/ ((H(x) * 13 + H(y) * 29 + Seed * 17) % Stride = 0)
              \/ (Len(x) = 0 /\ Tiny(y)) \/ (Len(y) = 0 /\ Tiny(x))
              \/ (x = y /\ DupKeyTable(x))
Sel3(x, y, z) == Stride3 # 0 /\ (Stride3 = 1 \/ ((H(x) * 13 + H(y) * 29 + H(z) * 31 + Seed * 17) % Stride3 = 0))

Init == phase = 0 /\ ta = <<>> /\ tb = <<>> /\ tc = <<>>
Next == \/ phase = 0 /\ \E x \in TablesUpTo(MaxRowsA) : ta' = x /\ phase' = 1 /\ UNCHANGED <<tb, tc>>
        \/ phase = 1 /\ \E y \in TablesUpTo(MaxRowsB) : Sel2(ta, y) /\ tb' = y /\ phase' = 2 /\ UNCHANGED <<ta, tc>>
        \/ phase = 2 /\ \E z \in TablesUpTo(MaxRowsC) : Sel3(ta, tb, z) /\ tc' = z /\ phase' = 3 /\ UNCHANGED <<ta, tb>>
Spec == Init /\ [][Next]_vars

(* ---------------- what is printed ---------------- *)
RowsOf(t) == [i \in DOMAIN t |-> <<RowK(t[i]), RowV(t[i])>>]

\* deviations that can change the answer of q (keeps the enumeration of deviation sets small)
Applicable(q) ==
    LET jt == IF q.n = 2 THEN q.j1 ELSE q.j2
        ont == IF q.n = 2 THEN q.on1 ELSE q.on2
        lt == 1..(q.n - 1)
        outer == jt \in {"left", "right", "full"}
        wt == CmpTables(q.where)
        single == wt # {} /\ (wt \subseteq {q.n} \/ wt \subseteq lt)
        keycmp(s) == \E i \in DOMAIN s : s[i].op \in {"eq", "le"} /\ s[i].l.c = "k" /\ s[i].r.c = "k"
    IN (IF HasEqui(ont, lt, {q.n}) /\ Len(EquiOnly(ont, lt, {q.n})) < Len(ont) THEN {"on_residual_dropped"} ELSE {})
       \cup (IF q.n = 3 /\ HasEqui(q.on1, {1}, {2}) /\ Len(EquiOnly(q.on1, {1}, {2})) < Len(q.on1) THEN {"on_residual_dropped"} ELSE {})
       \cup (IF outer /\ single THEN {"where_pushed_below_outer"} ELSE {})
       \cup (IF outer /\ q.where # <<>> THEN {"where_as_on"} ELSE {})
       \cup (IF jt \in {"right", "full"} /\ (q.n = 3 \/ \E i \in DOMAIN q.proj : ByNameOp(q, i) # q.proj[i]) THEN {"right_unmatched_by_name"} ELSE {})
       \cup (IF keycmp(ont) \/ keycmp(q.where) \/ (q.n = 3 /\ keycmp(q.on1)) THEN {"null_eq_null"} ELSE {})
       \cup (IF ~outer /\ Len(SpanOnly(ont, lt, {q.n})) < Len(ont) THEN {"reorder_drops_single_side_on"} ELSE {})
       \cup (IF ~outer /\ single /\ ont # <<>> THEN {"reorder_drops_all_on"} ELSE {})
       \cup (IF q.where # <<>> THEN {"inl_filters_ignored"} ELSE {})
       \cup (IF jt = "right" THEN {"inl_right_as_inner"} ELSE {})
       \cup (IF q.n = 3 THEN {"join_input_empty"} ELSE {})
       \cup (IF q.n = 3 /\ q.j1 \in {"left", "right", "full"} THEN {"outer_input_as_inner"} ELSE {})
       \cup (IF q.n = 3 /\ wt # {} /\ wt \subseteq lt THEN {"input_where_lost"} ELSE {})
\* deviation sets that are evaluated: every single applicable deviation, and the complete behaviour of each code
\* path ("profile": everything the hash / nested-loop code does wrong at once, with or without the data-dependent
\* reordering, with or without an empty input; everything the index operator does wrong at once)
HNL0 == {"on_residual_dropped", "where_pushed_below_outer", "where_as_on", "right_unmatched_by_name", "null_eq_null",
         "outer_input_as_inner", "input_where_lost"}
Profiles == LET base == {HNL0 \cup r : r \in SUBSET {"reorder_drops_single_side_on", "reorder_drops_all_on"}}
                        \cup {KFIndex \cup {"outer_input_as_inner", "input_where_lost"}}
            IN base \cup {p \cup {"join_input_empty"} : p \in base}
DevSets(q) == LET ap == Applicable(q)
              IN ({p \cap ap : p \in Profiles} \cup {{k} : k \in ap}) \ {{}}

\* a bag with both multiplicities: n on the plain tables, s on the tables scaled by RScale
Bag2X(q, kf, S, tabs, lempty) ==
    LET rows == {ImplProjRow(q, kf, t, tabs, lempty) : t \in S}
        RECURSIVE Sum(_)
        Sum(T) == IF T = {} THEN 0 ELSE LET t == CHOOSE t \in T : TRUE IN Pow(RScale, Parts(t)) + Sum(T \ {t})
    IN {LET T == {t \in S : ImplProjRow(q, kf, t, tabs, lempty) = x} IN [r |-> x, n |-> Cardinality(T), s |-> Sum(T)] : x \in rows}
Bag2(q, kf, tabs) == LET e == ImplEval(q, kf, tabs) IN Bag2X(q, kf, e.S, tabs, e.lempty)

\* blame: a profile that changes the answer is reduced to a locally minimal deviation set with the same answer
\* (deviations are tried for removal in the fixed order KFOrder; removing any remaining one changes the answer)
KFOrder == <<"null_eq_null", "inl_filters_ignored", "inl_right_as_inner", "input_where_lost", "right_unmatched_by_name",
             "reorder_drops_single_side_on", "reorder_drops_all_on", "on_residual_dropped", "where_pushed_below_outer",
             "where_as_on", "outer_input_as_inner", "join_input_empty">>
RECURSIVE Prune(_, _, _, _, _)
Prune(q, tabs, P, bag, i) ==
    IF i > Len(KFOrder) THEN P
    ELSE IF KFOrder[i] \in P /\ Bag2(q, P \ {KFOrder[i]}, tabs) = bag THEN Prune(q, tabs, P \ {KFOrder[i]}, bag, i + 1)
    ELSE Prune(q, tabs, P, bag, i + 1)

ResOf(q, tabs) ==
    LET ref == Bag2(q, {}, tabs)
        ap == Applicable(q)
        singles == {[kf |-> {k}, bag |-> Bag2(q, {k}, tabs)] : k \in ap}
        profs == {[kf |-> p, bag |-> Bag2(q, p, tabs)] : p \in {x \cap ap : x \in Profiles} \ {{}}}
        pruned == {[kf |-> Prune(q, tabs, d.kf, d.bag, 1), bag |-> d.bag] : d \in {d \in profs : d.bag # ref /\ Cardinality(d.kf) > 1}}
        chain == IF IsInnerChain(q)
                 THEN {[kf |-> {"inner_chain_conjuncts_dropped"} \cup (IF nn THEN {"null_eq_null"} ELSE {}),
                        bag |-> Bag2X(q, {}, ChainTuples(q, D, nn, tabs), tabs, FALSE)]
                       : D \in (SUBSET DOMAIN ChainAtoms(q)) \ {{}}, nn \in BOOLEAN}
                 ELSE {}
    IN [exp |-> ref, dev |-> {d \in singles \cup pruned \cup chain : d.bag # ref}]

Case2 == [n |-> 2, a |-> RowsOf(ta), b |-> RowsOf(tb), res |-> [i \in 1..NQ2 |-> ResOf(Query2(i), <<ta, tb>>)]]
Case3 == [n |-> 3, a |-> RowsOf(ta), b |-> RowsOf(tb), c |-> RowsOf(tc),
          res |-> [i \in 1..NQ3 |-> ResOf(Query3(i), <<ta, tb, tc>>)]]
Catalogue == [n |-> 0, cat2 |-> [i \in 1..NQ2 |-> Query2(i)], cat3 |-> [i \in 1..NQ3 |-> Query3(i)], rscale |-> RScale]

EmitInv == /\ phase = 0 => PrintT(<<"T", ToJson(Catalogue)>>)
           /\ phase = 2 => PrintT(<<"T", ToJson(Case2)>>)
           /\ phase = 3 => PrintT(<<"T", ToJson(Case3)>>)

(* ---------------- meta-invariants: the algebra of the oracle ---------------- *)
T2 == <<ta, tb>>
MetaSel == MetaStride = 1 \/ ((H(ta) + 3 * H(tb) + 5 * H(tc) + Seed) % MetaStride = 0)
T3 == <<ta, tb, tc>>
P1 == Proj2[1]
J(j, on, w) == Ref(Q2(j, on, w, P1), T2)

\* exchanging the roles of the two tables in a condition / a row
SwapOp(o) == IF o.t = 0 THEN o ELSE [o EXCEPT !.t = 3 - o.t]
SwapAtoms(s) == [i \in DOMAIN s |-> [s[i] EXCEPT !.l = SwapOp(s[i].l), !.r = SwapOp(s[i].r)]]
SwapRow(r) == <<r[3], r[4], r[1], r[2]>>
SwapBag(b) == {[e EXCEPT !.r = SwapRow(e.r)] : e \in b}

\* Inner is contained in Left and in Right, those in Full; sizes add up
Containment == phase = 2 => \A o \in DOMAIN On2 :
    LET i == J("inner", On2[o], <<>>)  l == J("left", On2[o], <<>>)
        r == J("right", On2[o], <<>>)  f == J("full", On2[o], <<>>)
    IN /\ SubBag(i, l) /\ SubBag(i, r) /\ SubBag(l, f) /\ SubBag(r, f)
       /\ BagSize(f) = BagSize(l) + BagSize(r) - BagSize(i)
       /\ BagSize(l) >= Len(ta) /\ BagSize(r) >= Len(tb)
       \* the rows Left adds to Inner are NULL on the b side, and there is exactly one per unmatched a row
       /\ \A e \in l : e.n > BagCount(i, e.r) => (e.r[3] = N /\ e.r[4] = N)
       /\ \A e \in r : e.n > BagCount(i, e.r) => (e.r[1] = N /\ e.r[2] = N)
\* every row of a appears in a LEFT JOIN (projected on a's columns) at least as often as in a
LeftPreserves == phase = 2 => \A o \in DOMAIN On2 :
    LET l == Ref(Q2("left", On2[o], <<>>, <<A("k"), A("v")>>), T2)
    IN \A x \in 1..Len(ta) : BagCount(l, <<RowK(ta[x]), RowV(ta[x])>>) >= Cardinality({y \in 1..Len(ta) : ta[y] = ta[x]})
CrossSize == phase = 2 =>
    /\ BagSize(J("cross", <<>>, <<>>)) = Len(ta) * Len(tb)
    /\ J("comma", <<>>, <<>>) = J("cross", <<>>, <<>>)
    \* INNER JOIN ON c  =  CROSS JOIN WHERE c
    /\ \A o \in DOMAIN On2 : J("inner", On2[o], <<>>) = J("cross", <<>>, On2[o])
\* RIGHT JOIN is LEFT JOIN with the tables exchanged
Mirror == phase = 2 => \A o \in DOMAIN On2 :
    J("right", On2[o], <<>>) = SwapBag(Ref(Q2("left", SwapAtoms(On2[o]), <<>>, P1), <<tb, ta>>))
\* WHERE only removes rows; on an inner join it is the same as more ON
WhereFilters == (phase = 2 /\ MetaSel) => \A o \in DOMAIN On2, w \in DOMAIN Where2 :
    /\ \A j \in {"inner", "left", "right", "full"} : SubBag(J(j, On2[o], Where2[w]), J(j, On2[o], <<>>))
    /\ J("inner", On2[o], Where2[w]) = J("inner", On2[o] \o Where2[w], <<>>)
\* a NULL key never matches under an equality
NullNeverMatches == phase = 2 =>
    \A e \in J("inner", On2[1], <<>>) : e.r[1] # N /\ e.r[3] # N /\ e.r[1] = e.r[3]
\* Impl without deviations is the reference; the scaling law holds for the reference and for every deviation set
ImplIsRef == /\ (phase = 2 /\ MetaSel) => \A i \in 1..NQ2 : Impl(Query2(i), {}, T2, 1) = Ref(Query2(i), T2)
             /\ (phase = 3 /\ MetaSel) => \A i \in 1..NQ3 : Impl(Query3(i), {}, T3, 1) = Ref(Query3(i), T3)
ScaleLawHolds ==
    /\ (phase = 2 /\ MetaSel) => \A i \in 1..NQ2 : \A r \in 2..RCheck :
          /\ ScaleLaw(Query2(i), T2, r)
          /\ \A k \in DevSets(Query2(i)) : Impl(Query2(i), k, ScaleAll(T2, r), 1) = Impl(Query2(i), k, T2, r)
    /\ (phase = 3 /\ MetaSel) => \A i \in 1..NQ3 : \A r \in 2..RCheck : ScaleLaw(Query3(i), T3, r)
\* 3-way: joining c last with a cross join multiplies; an inner 3-way join is the filtered cross product
ThreeWay == (phase = 3 /\ MetaSel) =>
    /\ BagSize(Ref(Query3(NJoin3 + 1), T3)) = Len(ta) * Len(tb) * Len(tc)
    /\ BagSize(Ref(Query3(NJoin3 + 3), T3)) = BagSize(J("inner", On3a[1], <<>>)) * Len(tc)
    /\ \A o1 \in DOMAIN On3a, o2 \in DOMAIN On3b :
          Ref(Q3("inner", On3a[o1], "inner", On3b[o2], <<>>), T3) = Ref(Q3("cross", <<>>, "cross", <<>>, On3a[o1] \o On3b[o2]), T3)
    /\ \A o1 \in DOMAIN On3a, o2 \in DOMAIN On3b, j1 \in DOMAIN Types3 :
          SubBag(Ref(Q3(Types3[j1], On3a[o1], "inner", On3b[o2], <<>>), T3), Ref(Q3(Types3[j1], On3a[o1], "left", On3b[o2], <<>>), T3))
=============================================================================

\* single-operation histories with the real trunk size (no trunk ever fills): page identity level
CONSTANTS Pages = {1, 2, 3, 4, 5}  TrunkMax = 4090  MaxOps = 8  ReturnTrunk = TRUE
SPECIFICATION Spec
VIEW view
ACTION_CONSTRAINT Emit
CHECK_DEADLOCK FALSE

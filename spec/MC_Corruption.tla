--------------------------- MODULE MC_Corruption ---------------------------
EXTENDS Corruption, Json
\* generation: only the Apply transition is explored; one line per fault descriptor with the admissible outcome classes
GenSpec == Init /\ [][Apply]_vars
Emit == (phase = "picked" /\ phase' = "faulty") => PrintT(<<"T", ToJson([fault |-> fault, steps |-> (IF fault.mode = "file" THEN FileSteps ELSE <<"decode">>),
                                                                      allowed |-> (IF fault.kind = "none" THEN {"ok"} ELSE Allowed)])>>)
AllDecoders == Decoders
AllFileKinds == FileKinds
=============================================================================

\* the code as it is, fine-grained (get_or_insert = fast ; slow, clear = len ; shard* ; release), 2 threads, two shards:
\* every explored transition is a schedule for the puppeteer (hook points cache.goi.* / cache.clear.*)
CONSTANTS Threads = {t1, t2}  KA = {k1, k2, k3}  KB = {k4}  Cap = 2  MaxCalls = 2  MaxHeld = 2  Fine = TRUE  InitMayFail = FALSE
          BudgetPages = 3  Ballast = 30  ClearKeepsPinned = FALSE  ClearCountsUnderLock = TRUE  ReleaseOnInitError = TRUE
CONSTANT Keys <- KeysAll  ShardOf <- ShardsOneTwo
SYMMETRY Sym
SPECIFICATION Spec
VIEW view
INVARIANTS TypeOK DataIsLastWrite WithinCapacity PinnedStaysUnlessClear BudgetExplained BudgetMatchesUnless ConsequencesOnlyAfterClear
ACTION_CONSTRAINT Emit
CHECK_DEADLOCK FALSE

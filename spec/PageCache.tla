----------------------------- MODULE PageCache -----------------------------
(***************************************************************************)
(* Implementation-shaped spec of the sharded SIEVE page cache              *)
(* (src/storage/cache.rs: PageCache, PageRef, CacheShard::evict/remove)    *)
(* and of its use of the memory budget (Pool::Cache).                      *)
(*                                                                         *)
(* Two granularities, selected by the constant Fine:                       *)
(*   Fine = FALSE  every public call is ONE action (each call runs under   *)
(*                 the lock of the shard it touches): the interleaving     *)
(*                 space of whole calls of several logical threads.        *)
(*   Fine = TRUE   the windows the code really has:                        *)
(*                 get_or_insert = GoiFast (read lock: hit?) ; GoiSlow     *)
(*                 (write lock: re-check, budget loop, evict, init,        *)
(*                 insert);  clear = ClearLen (len() BEFORE any lock) ;    *)
(*                 ClearShard per shard (write lock) ; ClearRelease        *)
(*                 (budget.release(len * PAGE) after the locks).           *)
(*                 The pc labels are the hook points cache.goi.* /         *)
(*                 cache.clear.* (proposed/C35-cache-hooks.diff).          *)
(*                                                                         *)
(* Designs, selected by three constants (all FALSE = the code as it is,    *)
(* all TRUE = the repaired design, for which every property below is an    *)
(* invariant; one constant per proposed repair):                           *)
(*   ClearKeepsPinned     clear() leaves pinned entries alone (as is: it   *)
(*                        drops every entry, pinned or not)                *)
(*   ClearCountsUnderLock clear() releases the number of entries it        *)
(*                        removed, counted under the shard locks (as is:   *)
(*                        the len() it read before locking)                *)
(*   ReleaseOnInitError   an init error gives the allocated page back (as  *)
(*                        is: the page stays allocated)                    *)
(*                                                                         *)
(* Units: the budget counts pages. `used` is the Cache pool counter,       *)
(* Ballast pages of it belong to other consumers; can_allocate holds iff   *)
(* used < Ballast + BudgetPages.  release() saturates at 0.                *)
(* Pin counts are u32 and wrap: pins is an integer and "pinned" means      *)
(* pins # 0 (0 - 1 = -1 stands for u32::MAX).                              *)
(***************************************************************************)
EXTENDS Integers, Sequences, FiniteSets, TLC

CONSTANTS Threads,            \* logical threads, e.g. {1, 2}
          Keys,               \* page keys (integers)
          ShardOf,            \* [Keys -> Nat] shard of a key; shards are cleared in increasing order
          Cap,                \* capacity of every shard
          MaxCalls,           \* calls per thread
          MaxHeld,            \* PageRefs a thread holds at a time
          Fine,               \* granularity (see above)
          InitMayFail,        \* explore get_or_insert calls whose init closure returns an error
          BudgetPages, Ballast,
          ClearKeepsPinned, ClearCountsUnderLock, ReleaseOnInitError

VARIABLES ents,        \* [Shards -> Seq(entry)]   entry = [key, pins, vis, dirty, data]; the Vec of the shard, in order
          hand,        \* [Shards -> Nat]          0-based SIEVE hand
          used,        \* Cache pool counter (pages)
          held,        \* [Threads -> Seq(ref)]    ref = [key, lost]; lost = "" while the entry the ref pinned is in the cache
          nops,        \* [Threads -> Nat] calls started
          pc,          \* [Threads -> "idle" | "goi_slow" | "clear_shards" | "clear_release"]
          loc,         \* [Threads -> locals of the call in progress]
          lastWritten, \* ghost [Keys -> stamp]: what was last written for the key since it was (re)loaded; NoStamp when absent
          leaked,      \* ghost: pages allocated from the budget by calls that failed in init
          dev,         \* ghost: named deviations that happened so far
          hist         \* observation only

vars == <<ents, hand, used, held, nops, pc, loc, lastWritten, leaked, dev, hist>>
view == <<ents, hand, used, held, nops, pc, loc, lastWritten, leaked, dev>>

Shards   == {ShardOf[k] : k \in Keys}
NoStamp  == <<0, 0, 0>>
NoLoc    == [k |-> 0, f |-> FALSE, len |-> 0, shard |-> 0, removed |-> 0]
Max(a, b) == IF a >= b THEN a ELSE b
SatSub(a, b) == IF a >= b THEN a - b ELSE 0
MinOf(S) == CHOOSE x \in S : \A y \in S : x <= y

IsPinned(e) == e.pins # 0
IdxOf(es, k) == IF \E i \in 1..Len(es) : es[i].key = k THEN CHOOSE i \in 1..Len(es) : es[i].key = k ELSE 0
Present(k) == IdxOf(ents[ShardOf[k]], k) # 0
EntryOf(k) == ents[ShardOf[k]][IdxOf(ents[ShardOf[k]], k)]
RECURSIVE SumLen(_, _)
SumLen(e, S) == IF S = {} THEN 0 ELSE LET s == MinOf(S) IN Len(e[s]) + SumLen(e, S \ {s})
TotalEntries(e) == SumLen(e, Shards)
NewEntry(k, st) == [key |-> k, pins |-> 1, vis |-> TRUE, dirty |-> FALSE, data |-> st]
CanAllocate(u) == u < Ballast + BudgetPages

(* ------------------------- CacheShard::evict / remove ------------------------- *)
\* Vec::swap_remove + the index fix-up; i is 1-based
SwapRemove(es, i) == LET n == Len(es) IN [j \in 1..(n - 1) |-> IF j = i THEN es[n] ELSE es[j]]
\* `if self.hand >= self.entries.len() && !self.entries.is_empty() { self.hand = 0 }`
HandAfterRemove(h, newlen) == IF h >= newlen /\ newlen > 0 THEN 0 ELSE h

\* the SIEVE scan: pinned entries are skipped (two full rounds of pinned entries give up), a visited entry
\* loses its flag and is passed, the first unpinned unvisited entry is the victim. victim = 0: None.
RECURSIVE Sieve(_, _, _, _)
Sieve(es, h, start, chk) ==
    LET n == Len(es)  e == es[h + 1]  h2 == (h + 1) % n IN
    IF IsPinned(e)
      THEN IF h2 = start
             THEN IF chk THEN [es |-> es, hand |-> h2, victim |-> 0] ELSE Sieve(es, h2, start, TRUE)
             ELSE Sieve(es, h2, start, chk)
      ELSE IF e.vis THEN Sieve([es EXCEPT ![h + 1].vis = FALSE], h2, start, chk)
      ELSE [es |-> es, hand |-> h, victim |-> h + 1]

\* evict() followed by remove(idx) as get_or_insert uses them
EvictOne(es, h) ==
    IF Len(es) = 0 THEN [ok |-> FALSE, es |-> es, hand |-> h, key |-> 0]
    ELSE LET r == Sieve(es, h, h, FALSE) IN
         IF r.victim = 0 THEN [ok |-> FALSE, es |-> r.es, hand |-> r.hand, key |-> 0]
         ELSE [ok |-> TRUE, es |-> SwapRemove(r.es, r.victim), hand |-> HandAfterRemove(r.hand, Len(r.es) - 1),
               key |-> r.es[r.victim].key]

\* `while !budget.can_allocate(..) { evict one of THIS shard and release a page, or fail }`
RECURSIVE BudgetLoop(_, _, _, _)
BudgetLoop(es, h, u, rem) ==
    IF CanAllocate(u) THEN [ok |-> TRUE, es |-> es, hand |-> h, used |-> u, rem |-> rem]
    ELSE LET e == EvictOne(es, h) IN
         IF e.ok THEN BudgetLoop(e.es, e.hand, SatSub(u, 1), rem \cup {e.key})
         ELSE [ok |-> FALSE, es |-> e.es, hand |-> e.hand, used |-> u, rem |-> rem]

\* init + insert (the page has been allocated from the budget already)
InitInsert(es, h, u, rem, k, st, f) ==
    IF f THEN [res |-> "err_init", es |-> es, hand |-> h, used |-> IF ReleaseOnInitError THEN SatSub(u, 1) ELSE u,
               rem |-> rem, ref |-> FALSE, leak |-> IF ReleaseOnInitError THEN 0 ELSE 1]
    ELSE [res |-> "inserted", es |-> Append(es, NewEntry(k, st)), hand |-> h, used |-> u, rem |-> rem, ref |-> TRUE, leak |-> 0]

\* the write-locked half of get_or_insert on the shard (es, h) of key k
Slow(es, h, u, k, st, f) ==
    LET i == IdxOf(es, k) IN
    IF i # 0
      THEN [res |-> "hit", es |-> [es EXCEPT ![i].pins = @ + 1, ![i].vis = TRUE], hand |-> h, used |-> u, rem |-> {},
            ref |-> TRUE, leak |-> 0]
      ELSE LET b == BudgetLoop(es, h, u, {}) IN
           IF ~b.ok THEN [res |-> "err_budget", es |-> b.es, hand |-> b.hand, used |-> b.used, rem |-> b.rem, ref |-> FALSE, leak |-> 0]
           ELSE LET u1 == b.used + 1 IN      \* budget.allocate
                IF Len(b.es) >= Cap
                  THEN LET e == EvictOne(b.es, b.hand) IN
                       IF e.ok THEN InitInsert(e.es, e.hand, SatSub(u1, 1), b.rem \cup {e.key}, k, st, f)
                       ELSE [res |-> "err_full", es |-> e.es, hand |-> e.hand, used |-> SatSub(u1, 1), rem |-> b.rem,
                             ref |-> FALSE, leak |-> 0]
                  ELSE InitInsert(b.es, b.hand, u1, b.rem, k, st, f)

\* evict_all_unpinned on one shard: indices of unpinned entries removed in DEcreasing order
RECURSIVE RemoveUnpinned(_, _, _, _)
RemoveUnpinned(es, h, i, rem) ==
    IF i = 0 THEN [es |-> es, hand |-> h, rem |-> rem]
    ELSE IF IsPinned(es[i]) THEN RemoveUnpinned(es, h, i - 1, rem)
    ELSE RemoveUnpinned(SwapRemove(es, i), HandAfterRemove(h, Len(es) - 1), i - 1, rem \cup {es[i].key})

(* ------------------------------- ghost bookkeeping ------------------------------- *)
\* refs whose entry has just been removed from the cache by `why`
Invalidate(h, rem, why) ==
    [t \in Threads |-> [i \in 1..Len(h[t]) |-> IF h[t][i].key \in rem /\ h[t][i].lost = "" THEN [h[t][i] EXCEPT !.lost = why] ELSE h[t][i]]]
LiveRefs(h, k) == Cardinality({<<t, i>> \in Threads \X (1..MaxHeld) : i <= Len(h[t]) /\ h[t][i].key = k /\ h[t][i].lost = ""})
HasLiveRef(k) == LiveRefs(held, k) > 0
Forget(lw, rem) == [k \in Keys |-> IF k \in rem THEN NoStamp ELSE lw[k]]
RemoveAt(s, i) == SubSeq(s, 1, i - 1) \o SubSeq(s, i + 1, Len(s))

Init == /\ ents = [s \in Shards |-> <<>>] /\ hand = [s \in Shards |-> 0] /\ used = Ballast
        /\ held = [t \in Threads |-> <<>>] /\ nops = [t \in Threads |-> 0]
        /\ pc = [t \in Threads |-> "idle"] /\ loc = [t \in Threads |-> NoLoc]
        /\ lastWritten = [k \in Keys |-> NoStamp] /\ leaked = 0 /\ dev = {} /\ hist = <<>>

\* one step of the schedule: thread, action, its arguments, the result the call returns ("-": the call goes on)
Log(t, a, k, i, f, r) == hist' = Append(hist, [t |-> t, a |-> a, k |-> k, i |-> i, f |-> f, res |-> r, n |-> nops'[t]])

CanStart(t) == pc[t] = "idle" /\ nops[t] < MaxCalls
Started(t)  == nops' = [nops EXCEPT ![t] = @ + 1]

(* ------------------------------------ get ------------------------------------ *)
Get(t, k) ==
    /\ CanStart(t) /\ Len(held[t]) < MaxHeld /\ Started(t)
    /\ UNCHANGED <<hand, used, pc, loc, lastWritten, leaked, dev>>
    /\ LET s == ShardOf[k]  i == IdxOf(ents[s], k) IN
       IF i # 0
         THEN /\ ents' = [ents EXCEPT ![s][i].pins = @ + 1, ![s][i].vis = TRUE]
              /\ held' = [held EXCEPT ![t] = Append(@, [key |-> k, lost |-> ""])]
              /\ Log(t, "get", k, 0, FALSE, "hit")
         ELSE /\ UNCHANGED <<ents, held>> /\ Log(t, "get", k, 0, FALSE, "miss")

(* ------------------------------- get_or_insert ------------------------------- *)
\* effect of the write-locked half for thread t, logged as action a
ApplySlow(t, k, f, a) ==
    LET s == ShardOf[k]  r == Slow(ents[s], hand[s], used, k, <<k, t, nops'[t]>>, f) IN
    /\ ents' = [ents EXCEPT ![s] = r.es] /\ hand' = [hand EXCEPT ![s] = r.hand] /\ used' = r.used
    /\ held' = LET h1 == Invalidate(held, r.rem, "evict") IN
               IF r.ref THEN [h1 EXCEPT ![t] = Append(@, [key |-> k, lost |-> ""])] ELSE h1
    /\ lastWritten' = LET lw == Forget(lastWritten, r.rem) IN IF r.res = "inserted" THEN [lw EXCEPT ![k] = <<k, t, nops'[t]>>] ELSE lw
    /\ leaked' = leaked + r.leak
    /\ dev' = dev \cup (IF r.leak > 0 THEN {"init_error_leak"} ELSE {})
                  \cup (IF \E x \in r.rem : HasLiveRef(x) THEN {"evicted_live_ref"} ELSE {})
    /\ pc' = [pc EXCEPT ![t] = "idle"] /\ loc' = [loc EXCEPT ![t] = NoLoc]
    /\ Log(t, a, k, 0, f, r.res)

\* call start + read-locked fast path; at call level the slow path follows in the same step
Goi(t, k, f) ==
    /\ CanStart(t) /\ Len(held[t]) < MaxHeld /\ Started(t)
    /\ (f => InitMayFail)
    /\ LET s == ShardOf[k]  i == IdxOf(ents[s], k) IN
       IF i # 0
         THEN /\ ents' = [ents EXCEPT ![s][i].pins = @ + 1, ![s][i].vis = TRUE]
              /\ held' = [held EXCEPT ![t] = Append(@, [key |-> k, lost |-> ""])]
              /\ UNCHANGED <<hand, used, pc, loc, lastWritten, leaked, dev>>
              /\ Log(t, "goi", k, 0, f, "hit")
         ELSE IF Fine
           THEN /\ pc' = [pc EXCEPT ![t] = "goi_slow"] /\ loc' = [loc EXCEPT ![t] = [NoLoc EXCEPT !.k = k, !.f = f]]
                /\ UNCHANGED <<ents, hand, used, held, lastWritten, leaked, dev>>
                /\ Log(t, "goi", k, 0, f, "-")
           ELSE ApplySlow(t, k, f, "goi")

GoiSlow(t) == /\ pc[t] = "goi_slow" /\ UNCHANGED nops /\ ApplySlow(t, loc[t].k, loc[t].f, "goi_slow")

(* ------------------------- PageRef::data_mut / drop ------------------------- *)
\* writes the stamp <<key, thread, call number>> through the i-th PageRef the thread holds.
\* data_mut panics ("page not in cache") when the key is not cached; the ref stays with the thread.
Write(t, i) ==
    /\ CanStart(t) /\ i \in 1..Len(held[t]) /\ Started(t)
    /\ UNCHANGED <<hand, used, held, pc, loc, leaked, dev>>
    /\ LET k == held[t][i].key  s == ShardOf[k]  j == IdxOf(ents[s], k) IN
       IF j # 0
         THEN /\ ents' = [ents EXCEPT ![s][j].data = <<k, t, nops'[t]>>, ![s][j].dirty = TRUE]
              /\ lastWritten' = [lastWritten EXCEPT ![k] = <<k, t, nops'[t]>>]
              /\ Log(t, "write", k, i, FALSE, "ok")
         ELSE /\ UNCHANGED <<ents, lastWritten>> /\ Log(t, "write", k, i, FALSE, "panic")

\* drop(PageRef) = PageCache::unpin(key): fetch_sub on whatever entry the KEY maps to now
Unpin(t, i) ==
    /\ CanStart(t) /\ i \in 1..Len(held[t]) /\ Started(t)
    /\ UNCHANGED <<hand, used, pc, loc, lastWritten, leaked>>
    /\ LET k == held[t][i].key  s == ShardOf[k]  j == IdxOf(ents[s], k) IN
       /\ ents' = IF j # 0 THEN [ents EXCEPT ![s][j].pins = @ - 1] ELSE ents
       /\ held' = [held EXCEPT ![t] = RemoveAt(@, i)]
       /\ dev' = dev \cup (IF j # 0 /\ held[t][i].lost # "" THEN {"stale_unpin_hit_other_entry"} ELSE {})
       /\ Log(t, "unpin", k, i, FALSE, "ok")

(* --------------------------------- clear --------------------------------- *)
\* one shard of clear(): `entries.clear(); index.clear(); hand = 0` (ClearKeepsPinned: unpinned entries only)
ClearOne(es, h) ==
    IF ClearKeepsPinned
      THEN LET r == RemoveUnpinned(es, h, Len(es), {}) IN [es |-> r.es, hand |-> r.hand, rem |-> r.rem]
      ELSE [es |-> <<>>, hand |-> 0, rem |-> {es[i].key : i \in 1..Len(es)}]

ClearAll(t) ==   \* call level: the whole clear() in one step
    /\ CanStart(t) /\ ~Fine /\ Started(t)
    /\ LET c == [s \in Shards |-> ClearOne(ents[s], hand[s])]
           rem == UNION {c[s].rem : s \in Shards}
           n == TotalEntries(ents) IN
       /\ ents' = [s \in Shards |-> c[s].es] /\ hand' = [s \in Shards |-> c[s].hand]
       /\ used' = SatSub(used, IF ClearCountsUnderLock THEN Cardinality(rem) ELSE n)
       /\ held' = Invalidate(held, rem, "clear")
       /\ lastWritten' = Forget(lastWritten, rem)
       /\ dev' = dev \cup (IF \E x \in rem : HasLiveRef(x) THEN {"clear_dropped_pinned"} ELSE {})
       /\ Log(t, "clear", 0, 0, FALSE, "ok")
    /\ UNCHANGED <<pc, loc, leaked>>

ClearLen(t) ==   \* `let page_count = self.len();` - no lock is held afterwards
    /\ CanStart(t) /\ Fine /\ Started(t)
    /\ pc' = [pc EXCEPT ![t] = "clear_shards"]
    /\ loc' = [loc EXCEPT ![t] = [NoLoc EXCEPT !.len = TotalEntries(ents), !.shard = MinOf(Shards)]]
    /\ UNCHANGED <<ents, hand, used, held, lastWritten, leaked, dev>>
    /\ Log(t, "clear_len", 0, 0, FALSE, "-")

ClearShard(t) ==
    /\ pc[t] = "clear_shards" /\ UNCHANGED <<nops, leaked>>
    /\ LET s == loc[t].shard  c == ClearOne(ents[s], hand[s])  rest == {x \in Shards : x > s} IN
       /\ ents' = [ents EXCEPT ![s] = c.es] /\ hand' = [hand EXCEPT ![s] = c.hand]
       /\ used' = used
       /\ held' = Invalidate(held, c.rem, "clear")
       /\ lastWritten' = Forget(lastWritten, c.rem)
       /\ dev' = dev \cup (IF \E x \in c.rem : HasLiveRef(x) THEN {"clear_dropped_pinned"} ELSE {})
       /\ IF rest = {}
            THEN /\ pc' = [pc EXCEPT ![t] = "clear_release"]
                 /\ loc' = [loc EXCEPT ![t].removed = @ + Cardinality(c.rem), ![t].shard = 0]
            ELSE /\ pc' = pc
                 /\ loc' = [loc EXCEPT ![t].removed = @ + Cardinality(c.rem), ![t].shard = MinOf(rest)]
       /\ Log(t, "clear_shard", s, 0, FALSE, "-")

ClearRelease(t) ==   \* `budget.release(Pool::Cache, page_count * PAGE_SIZE)` with the count read at the start (as is)
    /\ pc[t] = "clear_release" /\ UNCHANGED <<nops, ents, hand, held, lastWritten, leaked>>
    /\ used' = SatSub(used, IF ClearCountsUnderLock THEN loc[t].removed ELSE loc[t].len)
    /\ dev' = dev \cup (IF ~ClearCountsUnderLock /\ loc[t].len # loc[t].removed THEN {"clear_stale_len"} ELSE {})
    /\ pc' = [pc EXCEPT ![t] = "idle"] /\ loc' = [loc EXCEPT ![t] = NoLoc]
    /\ Log(t, "clear_release", 0, 0, FALSE, "ok")

(* ---------------------------- evict_all_unpinned ---------------------------- *)
\* shard after shard under its write lock, one page released per removed entry; returns the number removed.
\* (one step in both granularities: there is no window in which its own accounting is inconsistent)
EvictAll(t) ==
    /\ CanStart(t) /\ Started(t)
    /\ LET c == [s \in Shards |-> RemoveUnpinned(ents[s], hand[s], Len(ents[s]), {})]
           rem == UNION {c[s].rem : s \in Shards} IN
       /\ ents' = [s \in Shards |-> c[s].es] /\ hand' = [s \in Shards |-> c[s].hand]
       /\ used' = SatSub(used, Cardinality(rem))
       /\ held' = Invalidate(held, rem, "evict_all")
       /\ lastWritten' = Forget(lastWritten, rem)
       /\ dev' = dev \cup (IF \E x \in rem : HasLiveRef(x) THEN {"evicted_live_ref"} ELSE {})
       /\ Log(t, "evict_all", Cardinality(rem), 0, FALSE, "ok")
    /\ UNCHANGED <<pc, loc, leaked>>

Next == \E t \in Threads :
          \/ \E k \in Keys : Get(t, k) \/ \E f \in BOOLEAN : Goi(t, k, f)
          \/ \E i \in 1..MaxHeld : Write(t, i) \/ Unpin(t, i)
          \/ ClearAll(t) \/ ClearLen(t) \/ ClearShard(t) \/ ClearRelease(t) \/ GoiSlow(t) \/ EvictAll(t)

Spec == Init /\ [][Next]_vars

(* ================================== C35 ================================== *)
Quiescent == \A t \in Threads : pc[t] = "idle"

\* a page pinned by a live PageRef is never removed from the cache: every PageRef a thread holds still
\* denotes the entry it pinned
PinnedStays == \A t \in Threads : \A i \in 1..Len(held[t]) : held[t][i].lost = ""
\* ... and the pin count of an entry is the number of PageRefs on it (so that "pinned" means what it says)
PinAccounting == \A k \in Keys : Present(k) => EntryOf(k).pins = LiveRefs(held, k)
\* each cached key holds what was last written for it (init of a (re)load counts as a write)
DataIsLastWrite == \A k \in Keys : IF Present(k) THEN EntryOf(k).data = lastWritten[k] /\ lastWritten[k][1] = k
                                   ELSE lastWritten[k] = NoStamp
WithinCapacity == \A s \in Shards : Len(ents[s]) <= Cap
\* budget accounting of cached pages, judged when no call is in progress
BudgetMatches == Quiescent => used = Ballast + TotalEntries(ents)
BudgetZeroWhenEmpty == (Quiescent /\ TotalEntries(ents) = 0) => used = Ballast

(* the code as it is: every violation is attributed to a named deviation *)
PinnedStaysUnlessClear == ("clear_dropped_pinned" \in dev) \/ (PinnedStays /\ PinAccounting)
BudgetExplained == ("clear_stale_len" \notin dev) => (Quiescent => used = Ballast + TotalEntries(ents) + leaked)
BudgetMatchesUnless == (dev \cap {"clear_stale_len", "init_error_leak"} = {}) => BudgetMatches
\* dropping pinned entries is the only way to a later eviction of a referenced page or a misdirected unpin
ConsequencesOnlyAfterClear == (dev \cap {"evicted_live_ref", "stale_unpin_hit_other_entry"} # {}) => "clear_dropped_pinned" \in dev

(* meta-invariants of the model itself *)
TypeOK == /\ \A s \in Shards : /\ hand[s] \in 0..Cap /\ (hand[s] < Len(ents[s]) \/ hand[s] = 0)
                               /\ \A i, j \in 1..Len(ents[s]) : ents[s][i].key = ents[s][j].key => i = j
                               /\ \A i \in 1..Len(ents[s]) : ShardOf[ents[s][i].key] = s
          /\ \A t \in Threads : Len(held[t]) <= MaxHeld /\ nops[t] <= MaxCalls
          /\ used >= 0 /\ leaked >= 0
\* an entry just inserted is pinned by its inserter, visited and clean
FreshEntryShape == [][\A k \in Keys : (~Present(k) /\ Present(k)') => (EntryOf(k)'.pins = 1 /\ EntryOf(k)'.vis /\ ~EntryOf(k)'.dirty)]_vars
=============================================================================

---------------------------- MODULE GroupCommit ----------------------------
(***************************************************************************)
(* GroupCommitQueue (src/database/group_commit.rs) together with the       *)
(* caller protocol of execute_small_commit (src/database/transaction.rs):  *)
(*                                                                         *)
(*   submit_and_wait(payload)   = Push ; Check* (leader election inside    *)
(*                                wait_for_completion: a waiter that sees  *)
(*                                ~fip /\ pending # <<>> sets fip and      *)
(*                                RETURNS Ok although not completed)       *)
(*   on Ok: take_pending()      = Take  (None if pending is empty)         *)
(*          if Some(batch): write the batch to the WAL = Write / WriteFail *)
(*                          complete_batch / fail_batch = Complete / Fail  *)
(*   return                                                                *)
(* One action per critical section of the queue's mutex.                   *)
(***************************************************************************)
EXTENDS Integers, Sequences, FiniteSets, TLC

CONSTANTS Threads, MaxCommitsPerThread, MayFail,
          TakeOnlyAsLeader   \* FALSE = pinned caller protocol (every Ok caller calls take_pending). TRUE = hypothetical repair

VARIABLES pending,    \* queue of commit ids
          nextId, fip,
          completed, failed,   \* sets of commit ids
          log,        \* sequence of ids written to the WAL
          pc, mine, batch, leader, ncommits,
          acked,      \* ghost: [id -> "none"|"ok"|"err"] what the submitter was told
          badBatch,   \* ghost: ids that were in a batch whose write failed
          hist

vars == <<pending, nextId, fip, completed, failed, log, pc, mine, batch, leader, ncommits, acked, badBatch, hist>>
view == <<pending, nextId, fip, completed, failed, log, pc, mine, batch, leader, ncommits, acked, badBatch>>

MaxId == Cardinality(Threads) * MaxCommitsPerThread
Ids == 1..MaxId

Init == /\ pending = <<>> /\ nextId = 1 /\ fip = FALSE /\ completed = {} /\ failed = {} /\ log = <<>>
        /\ pc = [t \in Threads |-> "idle"] /\ mine = [t \in Threads |-> 0] /\ batch = [t \in Threads |-> <<>>]
        /\ leader = [t \in Threads |-> FALSE] /\ ncommits = [t \in Threads |-> 0]
        /\ acked = [i \in Ids |-> "none"] /\ badBatch = {} /\ hist = <<>>

Log(t, a, r) == hist' = Append(hist, [t |-> t, a |-> a, res |-> r, id |-> mine'[t], next |-> pc'[t], fip |-> fip', npending |-> Len(pending')])

SeqToSet(s) == {s[i] : i \in 1..Len(s)}

(* submit_and_wait, first critical section *)
Push(t) ==
    /\ pc[t] = "idle" /\ ncommits[t] < MaxCommitsPerThread
    /\ mine' = [mine EXCEPT ![t] = nextId] /\ nextId' = nextId + 1
    /\ pending' = Append(pending, nextId)
    /\ pc' = [pc EXCEPT ![t] = "check"] /\ ncommits' = [ncommits EXCEPT ![t] = @ + 1]
    /\ leader' = [leader EXCEPT ![t] = FALSE]
    /\ UNCHANGED <<fip, completed, failed, log, batch, acked, badBatch>>
    /\ Log(t, "push", "-")

(* one iteration of the loop in wait_for_completion *)
Check(t) ==
    /\ pc[t] = "check"
    /\ UNCHANGED <<pending, nextId, completed, failed, log, mine, batch, ncommits, badBatch>>
    /\ IF mine[t] \in completed
         THEN \* completed: Ok or the batch's error
              IF mine[t] \in failed
                THEN /\ pc' = [pc EXCEPT ![t] = "idle"] /\ acked' = [acked EXCEPT ![mine[t]] = "err"]
                     /\ UNCHANGED <<fip, leader>> /\ Log(t, "check", "err")
                ELSE /\ pc' = [pc EXCEPT ![t] = "take"] /\ UNCHANGED <<fip, leader, acked>> /\ Log(t, "check", "completed")
         ELSE IF ~fip /\ pending # <<>>
                THEN /\ fip' = TRUE /\ leader' = [leader EXCEPT ![t] = TRUE]
                     /\ pc' = [pc EXCEPT ![t] = "take"] /\ UNCHANGED acked /\ Log(t, "check", "leader")
                ELSE /\ pc' = [pc EXCEPT ![t] = "waiting"] /\ UNCHANGED <<fip, leader, acked>> /\ Log(t, "check", "wait")

(* caller: take_pending() *)
Take(t) ==
    /\ pc[t] = "take"
    /\ UNCHANGED <<nextId, completed, failed, log, mine, leader, ncommits, badBatch>>
    /\ IF (TakeOnlyAsLeader /\ ~leader[t]) \/ pending = <<>>
         THEN \* nothing to flush: the caller returns Ok
              /\ pc' = [pc EXCEPT ![t] = "idle"] /\ acked' = [acked EXCEPT ![mine[t]] = "ok"]
              /\ UNCHANGED <<pending, fip, batch>> /\ Log(t, "take", "none")
         ELSE /\ batch' = [batch EXCEPT ![t] = pending] /\ pending' = <<>> /\ fip' = TRUE
              /\ pc' = [pc EXCEPT ![t] = "write"] /\ UNCHANGED acked /\ Log(t, "take", "some")

Write(t) ==
    /\ pc[t] = "write"
    /\ log' = log \o batch[t]
    /\ pc' = [pc EXCEPT ![t] = "complete"]
    /\ UNCHANGED <<pending, nextId, fip, completed, failed, mine, batch, leader, ncommits, acked, badBatch>>
    /\ Log(t, "write", "ok")

WriteFail(t) ==
    /\ MayFail /\ pc[t] = "write"
    /\ badBatch' = badBatch \cup SeqToSet(batch[t])
    /\ pc' = [pc EXCEPT ![t] = "fail"]
    /\ UNCHANGED <<pending, nextId, fip, completed, failed, log, mine, batch, leader, ncommits, acked>>
    /\ Log(t, "write", "fail")

Wake == [s \in Threads |-> IF pc[s] = "waiting" THEN "check" ELSE pc[s]]

(* complete_batch; then the caller returns Ok *)
Complete(t) ==
    /\ pc[t] = "complete"
    /\ completed' = completed \cup SeqToSet(batch[t]) /\ fip' = FALSE
    /\ pc' = [Wake EXCEPT ![t] = "idle"] /\ acked' = [acked EXCEPT ![mine[t]] = "ok"]
    /\ batch' = [batch EXCEPT ![t] = <<>>]
    /\ UNCHANGED <<pending, nextId, failed, log, mine, leader, ncommits, badBatch>>
    /\ Log(t, "complete", "ok")

(* fail_batch; then the caller returns the error *)
Fail(t) ==
    /\ pc[t] = "fail"
    /\ completed' = completed \cup SeqToSet(batch[t]) /\ failed' = failed \cup SeqToSet(batch[t]) /\ fip' = FALSE
    /\ pc' = [Wake EXCEPT ![t] = "idle"] /\ acked' = [acked EXCEPT ![mine[t]] = "err"]
    /\ batch' = [batch EXCEPT ![t] = <<>>]
    /\ UNCHANGED <<pending, nextId, log, mine, leader, ncommits, badBatch>>
    /\ Log(t, "fail", "err")

Next == \E t \in Threads : Push(t) \/ Check(t) \/ Take(t) \/ Write(t) \/ WriteFail(t) \/ Complete(t) \/ Fail(t)
Spec == Init /\ [][Next]_vars
Work(t) == Check(t) \/ Take(t) \/ Write(t) \/ Complete(t) \/ Fail(t)
FairSpec == Spec /\ \A t \in Threads : WF_vars(Work(t))

(* --------------------------------- C37 --------------------------------- *)
InLog(i) == \E k \in 1..Len(log) : log[k] = i
\* a submitter is told "ok" only after its payload is in the log
AckAfterWrite == \A i \in Ids : acked[i] = "ok" => InLog(i)
\* no payload is written twice
AtMostOnce == \A j, k \in 1..Len(log) : j # k => log[j] # log[k]
\* failures reach every commit of the failed batch
FailureReachesAll == \A i \in badBatch : acked[i] # "ok"
\* when everybody is back, the flush flag is clear and nothing is left in the queue
Quiescent == \A t \in Threads : pc[t] = "idle"
NoStuckFlag == Quiescent => (~fip /\ pending = <<>>)
\* no committer waits for a flush nobody performs
AllReturn == <>[](\A t \in Threads : pc[t] = "idle")
NoLostWakeup == \A t \in Threads : pc[t] = "waiting" ~> pc[t] # "waiting"
=============================================================================

--------------------------- MODULE MC_GroupCommit ---------------------------
EXTENDS GroupCommit, Json
\* the recorded finding: a commit's entry was drained by a thread that was not elected leader for it
Emit == PrintT(<<"T", ToJson([hist |-> hist', ackok |-> AckAfterWrite', failall |-> FailureReachesAll'])>>)
=============================================================================

---------------------------- MODULE FreelistBulk ----------------------------
(***************************************************************************)
(* Count-level abstraction of Freelist.tla used to generate BULK histories *)
(* for the real trunk size (4090 entries): the chain of trunks is a        *)
(* sequence of entry counts (head first). It predicts, for n releases or n *)
(* allocations in a row, how many allocations succeed and the free count;  *)
(* WHICH page comes out is judged by the abstract set semantics.           *)
(***************************************************************************)
EXTENDS Integers, Sequences, TLC
CONSTANTS TrunkMax, Sizes, MaxOps, MaxPages
VARIABLES chain, fc, outstanding, nops, hist
vars == <<chain, fc, outstanding, nops, hist>>
view == <<chain, fc, outstanding, nops>>

Init == chain = <<>> /\ fc = 0 /\ outstanding = MaxPages /\ nops = 0 /\ hist = <<>>

Min(a, b) == IF a <= b THEN a ELSE b
\* whole runs inside one trunk are taken in one step (recursion depth ~ number of trunks touched)
RECURSIVE Rel(_, _)
Rel(c, n) == IF n = 0 THEN c
             ELSE IF c = <<>> \/ Head(c) >= TrunkMax THEN Rel(<<0>> \o c, n - 1)
             ELSE LET k == Min(TrunkMax - Head(c), n) IN Rel(<<Head(c) + k>> \o Tail(c), n - k)
\* <<chain, number of successful allocations>>
RECURSIVE Alc(_, _, _)
Alc(c, n, k) == IF n = 0 \/ c = <<>> THEN <<c, k>>
                ELSE IF Head(c) = 0 THEN Alc(Tail(c), n - 1, k + 1)
                ELSE LET j == Min(Head(c), n) IN Alc(<<Head(c) - j>> \o Tail(c), n - j, k + j)

ReleaseN(n) == /\ nops < MaxOps /\ n <= outstanding
               /\ chain' = Rel(chain, n) /\ fc' = fc + n /\ outstanding' = outstanding - n
               /\ nops' = nops + 1
               /\ hist' = Append(hist, [op |-> "release", n |-> n, some |-> 0, count |-> fc'])
AllocN(n) == /\ nops < MaxOps
             /\ LET r == Alc(chain, n, 0) IN
                /\ chain' = r[1] /\ fc' = fc - r[2] /\ outstanding' = outstanding + r[2]
                /\ hist' = Append(hist, [op |-> "alloc", n |-> n, some |-> r[2], count |-> fc'])
             /\ nops' = nops + 1
Next == \E n \in Sizes : ReleaseN(n) \/ AllocN(n)
Spec == Init /\ [][Next]_vars

Sum(c) == LET RECURSIVE S(_) S(x) == IF x = <<>> THEN 0 ELSE Head(x) + 1 + S(Tail(x)) IN S(c)
CountMatchesChain == fc = Sum(chain)
=============================================================================

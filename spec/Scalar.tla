------------------------------- MODULE Scalar -------------------------------
(***************************************************************************)
(* Exact definitions of TurDB's scalar functions, CAST and arithmetic over *)
(* finite domains (property C20).                                          *)
(*                                                                         *)
(* Values (all records, so that heterogeneous sets are enumerable):        *)
(*   Null                 SQL NULL                                         *)
(*   IntV(k, o)            the integer k*2^62 + o, |o| small ("boundary     *)
(*                        relative": TLC integers are 32 bit, i64 range is *)
(*                        IntV(-2,0) .. IntV(2,-1)); overflow is decided     *)
(*                        EXACTLY on the pair                              *)
(*   Str(cp)              a string as a sequence of Unicode code points    *)
(*   Rat(n, d)            the exact rational n/d, d > 0 (a float result)   *)
(*   Err(kind)            the statement must fail (kind: overflow, div0,   *)
(*                        invalid)                                         *)
(* An expectation is a SET of admissible values: where SQL / the function's*)
(* documentation leaves a choice (division by zero: NULL or error) every   *)
(* admissible outcome is in the set.                                       *)
(* NOT specified (no exact definition over TLC's integers): SQRT, POW,     *)
(* EXP, LOG*, trigonometry, RAND, NOW/CUR*, DATE_FORMAT and other locale   *)
(* formatting.                                                             *)
(***************************************************************************)
EXTENDS Integers, Sequences, FiniteSets, TLC

Null       == [t |-> "null"]
IntV(k, o)  == [t |-> "int", k |-> k, o |-> o]
Small(n)   == IntV(0, n)
Str(cp)    == [t |-> "str", cp |-> cp]
Rat(n, d)  == [t |-> "rat", n |-> n, d |-> d]
Err(kind)  == [t |-> "err", kind |-> kind]
IsNull(v)  == v.t = "null"

Min2(a, b) == IF a < b THEN a ELSE b
Max2(a, b) == IF a > b THEN a ELSE b
AbsN(n)    == IF n < 0 THEN -n ELSE n
SignN(n)   == IF n > 0 THEN 1 ELSE IF n < 0 THEN -1 ELSE 0

(* ======================================================================= strings *)
Take(s, n) == SubSeq(s, 1, Min2(Max2(n, 0), Len(s)))
Drop(s, n) == SubSeq(s, Min2(Max2(n, 0), Len(s)) + 1, Len(s))
Rev(s)     == [i \in 1..Len(s) |-> s[Len(s) + 1 - i]]

Utf8Len(c) == IF c < 128 THEN 1 ELSE IF c < 2048 THEN 2 ELSE IF c < 65536 THEN 3 ELSE 4
Utf8First(c) == IF c < 128 THEN c ELSE IF c < 2048 THEN 192 + (c \div 64)
                ELSE IF c < 65536 THEN 224 + (c \div 4096) ELSE 240 + (c \div 262144)
RECURSIVE ByteLen(_)
ByteLen(s) == IF s = <<>> THEN 0 ELSE Utf8Len(Head(s)) + ByteLen(Tail(s))

CharLength(s) == Len(s)                       \* CHAR_LENGTH: characters
Length(s)     == ByteLen(s)                   \* LENGTH: documented "Byte length"

Left(s, n)  == Take(s, n)                     \* n <= 0 -> ''
Right(s, n) == IF n <= 0 THEN <<>> ELSE Drop(s, Len(s) - n)

(* SUBSTR(str, pos [, len]) (MySQL family, which the module documents): pos > 0 counts from the left (1-based),
   pos < 0 from the right, pos = 0 gives ''.  A negative pos reaching before the start is not documented and the
   dialects differ ('' in MySQL, clamped to the start in SQLite): both are admitted. *)
SubstrFrom(s, pos) ==
    IF pos > 0 THEN {Drop(s, pos - 1)}
    ELSE IF pos = 0 THEN {<<>>}
    ELSE IF -pos <= Len(s) THEN {Drop(s, Len(s) + pos)} ELSE {<<>>, s}
Substr3(s, pos, n) == IF n <= 0 THEN {<<>>} ELSE { Take(r, n) : r \in SubstrFrom(s, pos) }

(* 1-based position of the first occurrence of sub in s at or after position from; 0 when there is none *)
OccursAt(sub, s, i) == i >= 1 /\ i + Len(sub) - 1 <= Len(s) /\ SubSeq(s, i, i + Len(sub) - 1) = sub
Position(sub, s, from) ==
    IF from < 1 THEN 0
    ELSE LET hits == { i \in from..(Len(s) + 1) : OccursAt(sub, s, i) }
         IN IF hits = {} THEN 0 ELSE CHOOSE i \in hits : \A j \in hits : i <= j
(* the same position counted in bytes (named deviation: byte offsets instead of characters) *)
BytePosition(sub, s) == LET p == Position(sub, s, 1) IN IF p = 0 THEN 0 ELSE ByteLen(Take(s, p - 1)) + 1

RECURSIVE Replace(_, _, _)
Replace(s, f, t) ==                           \* f non-empty; leftmost, non-overlapping
    IF Len(s) < Len(f) THEN s
    ELSE IF SubSeq(s, 1, Len(f)) = f THEN t \o Replace(Drop(s, Len(f)), f, t)
    ELSE <<Head(s)>> \o Replace(Tail(s), f, t)

PadSeq(p, k) == [i \in 1..k |-> p[((i - 1) % Len(p)) + 1]]
Lpad(s, n, p) == IF n <= Len(s) THEN Take(s, n) ELSE PadSeq(p, n - Len(s)) \o s      \* n >= 0, p non-empty when padding
Rpad(s, n, p) == IF n <= Len(s) THEN Take(s, n) ELSE s \o PadSeq(p, n - Len(s))

RECURSIVE Repeat(_, _)
Repeat(s, n) == IF n <= 0 THEN <<>> ELSE s \o Repeat(s, n - 1)

RECURSIVE Ltrim(_)
Ltrim(s) == IF s # <<>> /\ Head(s) = 32 THEN Ltrim(Tail(s)) ELSE s
Rtrim(s) == Rev(Ltrim(Rev(s)))
Trim(s)  == Rtrim(Ltrim(s))

UpperC(c) == IF c \in 97..122 THEN c - 32 ELSE c          \* ASCII part only
LowerC(c) == IF c \in 65..90 THEN c + 32 ELSE c
Upper(s) == [i \in 1..Len(s) |-> UpperC(s[i])]
Lower(s) == [i \in 1..Len(s) |-> LowerC(s[i])]

(* ASCII(str): code of the first character, 0 for ''.  For a non-ASCII first character the documentation ("ASCII
   code of first character") does not decide between the code point and the first UTF-8 byte: both admitted. *)
AsciiOf(s) == IF s = <<>> THEN {0} ELSE IF Head(s) < 128 THEN {Head(s)} ELSE {Head(s), Utf8First(Head(s))}

RECURSIVE CmpSeq(_, _)
CmpSeq(a, b) == IF a = <<>> /\ b = <<>> THEN 0
                ELSE IF a = <<>> THEN -1 ELSE IF b = <<>> THEN 1
                ELSE IF Head(a) < Head(b) THEN -1 ELSE IF Head(a) > Head(b) THEN 1
                ELSE CmpSeq(Tail(a), Tail(b))

RECURSIVE JoinSeq(_, _)
JoinSeq(parts, sep) == IF parts = <<>> THEN <<>>
                       ELSE IF Len(parts) = 1 THEN parts[1]
                       ELSE parts[1] \o sep \o JoinSeq(Tail(parts), sep)
(* CONCAT: NULL if any argument is NULL.  CONCAT_WS: NULL if the separator is NULL, NULL arguments are skipped. *)
ConcatV(args) == IF \E i \in 1..Len(args) : IsNull(args[i]) THEN Null
                 ELSE Str(JoinSeq([i \in 1..Len(args) |-> args[i].cp], <<>>))
ConcatWsV(sep, args) ==
    IF IsNull(sep) THEN Null
    ELSE LET nn == SelectSeq(args, LAMBDA v : ~IsNull(v))
         IN Str(JoinSeq([i \in 1..Len(nn) |-> nn[i].cp], sep.cp))

(* ======================================================================= integers near the i64 boundary *)
(* IntV(k,o) = k*2^62 + o with |o| < 2^31; i64 = [-2^63, 2^63-1] = [IntV(-2,0), IntV(2,-1)] *)
InRange(k, o) == \/ k \in -1..1
                 \/ (k = 2 /\ o <= -1)
                 \/ (k = -2 /\ o >= 0)
I64Min == IntV(-2, 0)
I64Max == IntV(2, -1)

(* two's-complement wrap of k*2^62+o into the i64 range (named deviation "wrapped"): 2^64 = 4 * 2^62 *)
WrapPair(k, o) == LET kk == ((k + 2) % 4) - 2                       \* in -2..1
                  IN IF kk = -2 /\ o < 0 THEN IntV(2, o) ELSE IntV(kk, o)

(* exact results as pairs (possibly out of range) *)
AddP(a, b) == <<a.k + b.k, a.o + b.o>>
SubP(a, b) == <<a.k - b.k, a.o - b.o>>
NegP(a)    == <<-a.k, -a.o>>
(* product: k1*k2*2^124 + (k1*o2 + k2*o1)*2^62 + o1*o2; when both k are non-zero the magnitude is >= 2^123 *)
MulHuge(a, b) == a.k # 0 /\ b.k # 0
MulLowP(a, b) == <<a.k * b.o + b.k * a.o, a.o * b.o>>                \* the product modulo 2^124

Checked(p) == IF InRange(p[1], p[2]) THEN IntV(p[1], p[2]) ELSE Err("overflow")
AddV(a, b) == Checked(AddP(a, b))
SubV(a, b) == Checked(SubP(a, b))
NegV(a)    == Checked(NegP(a))
MulV(a, b) == IF MulHuge(a, b) THEN Err("overflow") ELSE Checked(MulLowP(a, b))
SignP(a)   == IF a.k # 0 THEN SignN(a.k) ELSE SignN(a.o)
AbsV(a)    == IF SignP(a) < 0 THEN NegV(a) ELSE a
WrapOf(p)  == WrapPair(p[1], p[2])
CmpInt(a, b) == IF a.k # b.k THEN SignN(a.k - b.k) ELSE SignN(a.o - b.o)

(* truncating division / remainder on ordinary integers (sign of the remainder = sign of the dividend) *)
TruncDiv(a, b) == SignN(a) * SignN(b) * (AbsN(a) \div AbsN(b))
TruncMod(a, b) == a - b * TruncDiv(a, b)

RECURSIVE PowMod(_, _, _)
PowMod(b, e, m) == IF e = 0 THEN 1 % m ELSE (b * PowMod(b, e - 1, m)) % m
(* (k*2^62 + o) rem m, truncated, for a small modulus m # 0 *)
ModBig(a, m) == LET am == AbsN(m)
                    r  == (a.k * PowMod(2, 62, am) + a.o) % am          \* mathematical residue 0..am-1
                IN IF r = 0 THEN 0 ELSE IF SignP(a) >= 0 THEN r ELSE r - am
(* what a computation through IEEE doubles gives: 2^62*k + o rounds to 2^62*k for k # 0, |o| < 512 *)
ModViaFloat(a, m) == IF a.k = 0 THEN TruncMod(a.o, m)
                     ELSE LET am == AbsN(m)  r == (AbsN(a.k) * PowMod(2, 62, am)) % am IN SignN(a.k) * r

(* x / d and x % d for d in {1, -1, 0} on boundary values, any d on small values.
   Division by zero: NULL or an error.  i64::MIN / -1 overflows; i64::MIN % -1 = 0. *)
DivZero == {Null, Err("div0")}
DivV(a, b) ==
    IF b.k = 0 /\ b.o = 0 THEN DivZero
    ELSE IF b.k = 0 /\ b.o = 1 THEN {a}
    ELSE IF b.k = 0 /\ b.o = -1 THEN {NegV(a)}
    ELSE \* both small: integer (truncating) division; the exact quotient is admitted too (MySQL's "/")
         LET q == TruncDiv(a.o, b.o)
         IN IF q * b.o = a.o THEN {Small(q)} ELSE {Small(q), Rat(SignN(b.o) * a.o, AbsN(b.o))}
ModV(a, b) ==
    IF b.k = 0 /\ b.o = 0 THEN DivZero
    ELSE {Small(ModBig(a, b.o))}

(* ======================================================================= rationals n/d, d > 0 *)
FloorR(n, d) == n \div d
CeilR(n, d)  == -((-n) \div d)
TruncR(n, d) == IF n >= 0 THEN n \div d ELSE -((-n) \div d)
RoundR(n, d) == IF n >= 0 THEN (2 * n + d) \div (2 * d) ELSE -((-2 * n + d) \div (2 * d))     \* half away from zero
RoundEvenR(n, d) == LET f == FloorR(n, d)  twice == 2 * (n - f * d)
                    IN IF twice < d THEN f ELSE IF twice > d THEN f + 1 ELSE IF f % 2 = 0 THEN f ELSE f + 1
Pow10(e) == IF e = 0 THEN 1 ELSE IF e = 1 THEN 10 ELSE 100
RoundTo(n, d, e)  == Rat(RoundR(n * Pow10(e), d), Pow10(e))            \* ROUND(x, e), e in 0..2
TruncTo(n, d, e)  == Rat(TruncR(n * Pow10(e), d), Pow10(e))            \* TRUNCATE(x, e)
RatEq(a, b) == a.n * b.d = b.n * a.d
RatLt(a, b) == a.n * b.d < b.n * a.d

(* ======================================================================= control flow *)
ValEq(a, b) == ~IsNull(a) /\ ~IsNull(b) /\ a = b          \* SQL "=" is never true on NULL
RECURSIVE CoalesceV(_)
CoalesceV(args) == IF args = <<>> THEN Null ELSE IF IsNull(args[1]) THEN CoalesceV(Tail(args)) ELSE args[1]
IfNullV(a, b) == IF IsNull(a) THEN b ELSE a
NullIfV(a, b) == IF ValEq(a, b) THEN Null ELSE a
Truthy(c)     == ~IsNull(c) /\ c.t = "int" /\ ~(c.k = 0 /\ c.o = 0)
IfV(c, x, y)  == IF Truthy(c) THEN x ELSE y
(* CASE v WHEN w1 THEN r1 WHEN w2 THEN r2 ELSE e END *)
CaseSimple(v, w1, r1, w2, r2, e) == IF ValEq(v, w1) THEN r1 ELSE IF ValEq(v, w2) THEN r2 ELSE e
(* the named deviation "null_equals_null": NULL operand matches a NULL WHEN *)
LooseEq(a, b) == a = b
CaseSimpleLoose(v, w1, r1, w2, r2, e) == IF LooseEq(v, w1) THEN r1 ELSE IF LooseEq(v, w2) THEN r2 ELSE e
(* CASE WHEN c1 THEN r1 WHEN c2 THEN r2 ELSE e END *)
CaseSearched(c1, r1, c2, r2, e) == IF Truthy(c1) THEN r1 ELSE IF Truthy(c2) THEN r2 ELSE e

(* GREATEST / LEAST: a NULL argument gives NULL (MySQL, Oracle) or is ignored (PostgreSQL): both admitted *)
RECURSIVE MaxInt(_)
MaxInt(vs) == IF Len(vs) = 1 THEN vs[1] ELSE LET m == MaxInt(Tail(vs)) IN IF CmpInt(vs[1], m) >= 0 THEN vs[1] ELSE m
RECURSIVE MinInt(_)
MinInt(vs) == IF Len(vs) = 1 THEN vs[1] ELSE LET m == MinInt(Tail(vs)) IN IF CmpInt(vs[1], m) <= 0 THEN vs[1] ELSE m
RECURSIVE MaxStr(_)
MaxStr(vs) == IF Len(vs) = 1 THEN vs[1] ELSE LET m == MaxStr(Tail(vs)) IN IF CmpSeq(vs[1].cp, m.cp) >= 0 THEN vs[1] ELSE m
RECURSIVE MinStr(_)
MinStr(vs) == IF Len(vs) = 1 THEN vs[1] ELSE LET m == MinStr(Tail(vs)) IN IF CmpSeq(vs[1].cp, m.cp) <= 0 THEN vs[1] ELSE m
Extreme(args, pick(_)) ==
    LET nn == SelectSeq(args, LAMBDA v : ~IsNull(v))
    IN IF nn = <<>> THEN {Null}
       ELSE IF Len(nn) = Len(args) THEN {pick(nn)} ELSE {Null, pick(nn)}

(* ======================================================================= meta-theorems about the oracle
   (checked by TLC over the same domains the cases are generated from) *)
StringLaws(s, t, n) ==
    /\ Rev(Rev(s)) = s
    /\ CharLength(s \o t) = CharLength(s) + CharLength(t)
    /\ Length(s \o t) = Length(s) + Length(t)
    /\ Length(s) >= CharLength(s)
    /\ Left(s, n) \o Right(s, Len(s) - Max2(Min2(n, Len(s)), 0)) = s
    /\ (n >= 0) => Left(s, n) \o Drop(s, n) = s
    /\ (n >= 1) => SubstrFrom(s, n) = {Drop(s, n - 1)}
    /\ (n >= 0 /\ t # <<>>) => Len(Lpad(s, n, t)) = n /\ Len(Rpad(s, n, t)) = n
    /\ (n >= Len(s) /\ t # <<>>) => Right(Lpad(s, n, t), Len(s)) = s /\ Left(Rpad(s, n, t), Len(s)) = s
    /\ Len(Repeat(s, n)) = Len(s) * Max2(n, 0)
    /\ Trim(s) = Ltrim(Rtrim(s))
    /\ Upper(Lower(Upper(s))) = Upper(s)
    /\ LET p == Position(t, s, 1)
       IN /\ p \in 0..(Len(s) + 1)
          /\ (p > 0) => OccursAt(t, s, p) /\ \A j \in 1..(p - 1) : ~OccursAt(t, s, j)
          /\ (p = 0) => \A j \in 1..(Len(s) + 1) : ~OccursAt(t, s, j)
          /\ BytePosition(t, s) >= p
    /\ CmpSeq(s, t) = -CmpSeq(t, s)
    /\ (CmpSeq(s, t) = 0) = (s = t)
    /\ (t # <<>>) => Replace(s, t, t) = s
    /\ (t # <<>>) => Position(t, Replace(s, t, <<>>), 1) = 0 \/ Len(t) > 1     \* single-character needles vanish completely

(* pair arithmetic agrees with ordinary integer arithmetic when 2^62 is replaced by a small base B (a scaled-down
   word of range [-2B, 2B-1]); B = 4096 keeps every product below 2^31 *)
ScaleB == 4096
Scaled(a) == a.k * ScaleB + a.o
ScaledInRange(n) == -2 * ScaleB <= n /\ n <= 2 * ScaleB - 1
ScaledWrap(n) == ((n + 2 * ScaleB) % (4 * ScaleB)) - 2 * ScaleB
Ovf == 99999999                         \* sentinel outside the scaled range
ScaledOf(v) == IF v.t = "err" THEN Ovf ELSE Scaled(v)
IntLaws(a, b) ==
    /\ InRange(a.k, a.o) = ScaledInRange(Scaled(a))
    /\ ScaledOf(AddV(a, b)) = (IF ScaledInRange(Scaled(a) + Scaled(b)) THEN Scaled(a) + Scaled(b) ELSE Ovf)
    /\ ScaledOf(SubV(a, b)) = (IF ScaledInRange(Scaled(a) - Scaled(b)) THEN Scaled(a) - Scaled(b) ELSE Ovf)
    /\ ScaledOf(MulV(a, b)) = (IF ScaledInRange(Scaled(a) * Scaled(b)) THEN Scaled(a) * Scaled(b) ELSE Ovf)
    /\ ScaledOf(NegV(a)) = (IF ScaledInRange(-Scaled(a)) THEN -Scaled(a) ELSE Ovf)
    /\ Scaled(WrapOf(AddP(a, b))) = ScaledWrap(Scaled(a) + Scaled(b))
    /\ Scaled(WrapOf(SubP(a, b))) = ScaledWrap(Scaled(a) - Scaled(b))
    /\ Scaled(WrapOf(MulLowP(a, b))) = ScaledWrap(Scaled(a) * Scaled(b))
    /\ Scaled(WrapOf(NegP(a))) = ScaledWrap(-Scaled(a))
    /\ InRange(WrapOf(AddP(a, b)).k, WrapOf(AddP(a, b)).o)
    /\ AddV(a, b) = AddV(b, a) /\ MulV(a, b) = MulV(b, a)
    /\ CmpInt(a, b) = SignN(Scaled(a) - Scaled(b))
    /\ SignP(a) = SignN(Scaled(a))
    /\ (AbsV(a).t = "int") => SignP(AbsV(a)) >= 0
    /\ (AbsV(a).t = "err") = (a = I64Min)
    /\ (NegV(a).t = "err") = (a = I64Min)
DivLaws(x, y) ==                 \* ordinary integers, y # 0
    /\ x = y * TruncDiv(x, y) + TruncMod(x, y)
    /\ AbsN(TruncMod(x, y)) < AbsN(y)
    /\ TruncMod(x, y) = 0 \/ SignN(TruncMod(x, y)) = SignN(x)
    /\ ModBig(Small(x), y) = TruncMod(x, y)
    /\ ModViaFloat(Small(x), y) = TruncMod(x, y)
(* residues of the scaled word agree with the power computation: B = 2^12 *)
ModLaws(a, m) == (((a.k * PowMod(2, 12, AbsN(m)) + a.o) % AbsN(m)) = (Scaled(a) % AbsN(m)))
RoundLaws(n, d) ==
    /\ FloorR(n, d) * d <= n /\ n < (FloorR(n, d) + 1) * d
    /\ CeilR(n, d) = -FloorR(-n, d)
    /\ RoundR(-n, d) = -RoundR(n, d)
    /\ TruncR(-n, d) = -TruncR(n, d)
    /\ FloorR(n, d) <= TruncR(n, d) /\ TruncR(n, d) <= CeilR(n, d)
    /\ AbsN(2 * (RoundR(n, d) * d - n)) <= d                   \* never more than one half away
    /\ RoundEvenR(n, d) \in {FloorR(n, d), CeilR(n, d)}
    /\ (n % d = 0) => FloorR(n, d) = CeilR(n, d) /\ RoundR(n, d) = FloorR(n, d)
=============================================================================

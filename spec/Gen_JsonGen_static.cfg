CONSTANTS Mode = "static"  MaxDepth = 0  GrowModes = {}
SPECIFICATION Spec
INVARIANT LawsThenEmit
CHECK_DEADLOCK FALSE

CONSTANTS Mode = "static"  MaxDepth = 0  FlatWidth = 3  LeafMode = "full"  GrowModes = {}
SPECIFICATION Spec
INVARIANT LawsThenEmit
CHECK_DEADLOCK FALSE

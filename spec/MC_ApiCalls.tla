---------------------------- MODULE MC_ApiCalls ----------------------------
EXTENDS ApiCalls, Json
\* breadth-first: per-transition emission; the view hides the history so that every abstract situation is extended by
\* every call once
view == <<closed, txn, sps, h1, uExists, uCols, marked, Len(hist), fin>>
Emit == (hist' # hist) => PrintT(<<"T", ToJson([hist |-> hist'])>>)
\* random walks: the complete sequence is emitted once, when it is handed over
EmitFin == (fin' /\ ~fin) => PrintT(<<"T", ToJson([hist |-> hist])>>)
=============================================================================

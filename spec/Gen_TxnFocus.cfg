CONSTANTS Ids = {1, 2, 3}  MaxOps = 8  WithTxn = TRUE  WithReopen = FALSE  Configs = {}
CONSTANTS AVals <- MCAVals  BVals <- MCBVals
SPECIFICATION TSpec
VIEW view
INVARIANT ConstraintsHold
ACTION_CONSTRAINT Emit
CHECK_DEADLOCK FALSE

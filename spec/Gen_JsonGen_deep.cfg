CONSTANTS Mode = "grow"  MaxDepth = 8  FlatWidth = 3  LeafMode = "full"  GrowModes = {"bare", "sib", "dupl", "dupf", "twin"}
SPECIFICATION Spec
INVARIANT DepthOK
INVARIANT LawsThenEmit
CHECK_DEADLOCK FALSE

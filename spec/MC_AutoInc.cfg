\* model checking of the reference itself: generated values range over EVERY admissible value up to MaxId
CONSTANTS MaxOps = 3  Far = 2  MaxId = 5  FreeGen = TRUE  WithTxn = TRUE  WithReopen = TRUE  WithBulk = FALSE  WithUpdate = TRUE
SPECIFICATION Spec
VIEW view
INVARIANTS PKUnique HeldSound GensIncrease GensNeverHeldBefore
PROPERTY ErrLeavesStateAlone
CHECK_DEADLOCK FALSE

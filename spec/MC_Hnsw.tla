------------------------------ MODULE MC_Hnsw ------------------------------
(* TLC models for Hnsw.tla:                                                                                   *)
(*   Gen_Hnsw_bfs.cfg    every transition of the reference up to MaxOps over 5 ids (one line per transition,  *)
(*                       history to the source state + the step; VIEW hides the history); PredicateSound      *)
(*   Walk_Hnsw.tla + Gen_Hnsw_walk.cfg  -simulate walks over 40 ids; one line per finished walk, expectations for every step *)
(*   Trace_Hnsw.tla/.cfg observed search results judged by FailedClausesIn (cross-check of the Rust mirror)   *)
EXTENDS Hnsw, Json

CONSTANTS Walk      \* TRUE: walk model (40 ids, emit finished walks), FALSE: exhaustive model (5 ids, emit transitions)

\* layout constants of the implementation that define the regimes (src/hnsw/mod.rs, storage.rs):
MCNeighborCap == 32                 \* MAX_L0_NEIGHBORS: a node keeps at most 32 level-0 neighbours
MCSlotBytes(l) == 202 + 97 * l      \* HnswNode::max_serialized_size(l) = 10 + 32*6 + l*(1 + 16*6)
MCPageBudget == 8128                \* 2^13 (13-bit slot offsets) - 64 (page header); every slot also takes 4 directory bytes

MCIds == IF Walk THEN 1..40 ELSE 1..5
MCPointsOf(id) ==
    IF Walk THEN {<<id % 7, id \div 7>>, <<id % 5, id % 3>>}          \* grid points; the second choice collides (duplicates, ties)
    ELSE CASE id = 1 -> {<<0, 0>>, <<2, 2>>} [] id = 2 -> {<<0, 0>>, <<1, 0>>} [] id = 3 -> {<<2, 1>>, <<0, 2>>}
           [] id = 4 -> {<<1, 2>>, <<2, 1>>} [] id = 5 -> {<<2, 0>>}
QuerySeq == IF Walk THEN << <<0, 0>>, <<3, 3>>, <<6, 5>>, <<-2, 7>> >>
            ELSE << <<0, 0>>, <<1, 1>>, <<2, 1>>, <<3, 3>>, <<-1, 2>> >>

ExpOf(ls, p) == [j \in 1..Len(QuerySeq) |->
                    [q |-> QuerySeq[j], d |-> [i \in 1..Len(ls) |-> <<ls[i], L2sq(p.vec[ls[i]], QuerySeq[j])>>]]]
OutEntry(e, withExp) == LET ls == SetToSeq(e.post.live) IN
                        [a |-> e.a, id |-> e.id, v |-> e.v, lvl |-> e.lvl, live |-> ls,
                         vecs |-> IF withExp THEN [i \in 1..Len(ls) |-> e.post.vec[ls[i]]] ELSE << >>,
                         nodes |-> e.post.nodes, regime |-> e.post.regime, reopened |-> e.post.reopened,
                         exp |-> IF withExp THEN ExpOf(ls, e.post) ELSE << >>]
Out(h) == [i \in 1..Len(h) |-> OutEntry(h[i], Walk \/ i = Len(h))]
EmitStep == PrintT(<<"T", ToJson([hist |-> Out(hist')])>>)
(* the predicate accepts the exact answer and rejects each kind of broken answer *)
Reverse(s) == [i \in 1..Len(s) |-> s[Len(s) + 1 - i]]
Ks == {1, 2, Cardinality(live), Cardinality(live) + 1} \ {0}
PredicateSound ==
    \A j \in {1, 3} : \A k \in Ks :          \* two of the queries keep this affordable
        LET q == QuerySeq[j]
            ex == ExactTopK(q, k)
            all == ExactTopK(q, Cardinality(live))
        IN  /\ ValidSearch(ex, q, k, MaxNodes)
            /\ (live # {} => FailedClauses(<< >>, q, k, MaxNodes) = {"nonempty", "topk"})
            /\ \A d \in Ids \ live : "live" \in FailedClauses(ex \o << d >>, q, k + 1, MaxNodes)
            /\ (Len(ex) > 0 => "distinct" \in FailedClauses(ex \o << ex[1] >>, q, k + 1, MaxNodes))
            /\ (Len(ex) > k - 1 /\ Len(ex) > 0 => "size" \in FailedClauses(ex, q, Len(ex) - 1, MaxNodes))
            /\ ((Len(ex) >= 2 /\ L2sq(vec[ex[1]], q) # L2sq(vec[ex[Len(ex)]], q))
                    => "sorted" \in FailedClauses(Reverse(ex), q, k, MaxNodes))
            \* swapping the last result for a strictly farther row breaks topk (and only topk) when the index is small
            /\ ((Len(ex) >= 1 /\ Len(all) > Len(ex) /\ L2sq(vec[all[Len(all)]], q) > L2sq(vec[ex[Len(ex)]], q))
                    => /\ FailedClauses([ex EXCEPT ![Len(ex)] = all[Len(all)]], q, k, MaxNodes) = {"topk"}
                       /\ FailedClauses([ex EXCEPT ![Len(ex)] = all[Len(all)]], q, k, 0) = {})
=============================================================================

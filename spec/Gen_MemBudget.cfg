CONSTANTS Threads = {1, 2}  Sizes = {2, 8}  MaxOpsPerThread = 2  Prefill = 22  Limit = 32  CasOnTotal = FALSE
CONSTANT PoolsOf <- PoolsMixed
SPECIFICATION Spec
VIEW view
ACTION_CONSTRAINT Emit
CHECK_DEADLOCK FALSE

CONSTANTS Threads = {1, 2}  Sizes = {5, 8}  MaxOpsPerThread = 2  Prefill = 20  Limit = 32  CasOnTotal = FALSE
CONSTANT PoolsOf <- PoolsMixed
SPECIFICATION Spec
VIEW view
ACTION_CONSTRAINT Emit
CHECK_DEADLOCK FALSE

\* the reference model checked against itself: scans / lookups / laws of a map, byte order (U6, exhaustive to MaxOps)
CONSTANTS NKeys = 6  KB <- KB_U6  Vals = {1, 3, 6, 8}  VLen <- VLen8  InsVals <- AllVals8  AllowUnsafe = TRUE
CONSTANTS MaxOps = 3  Preloads <- Pre_U6  Motifs = {"bfs"}  PhaseLen = 1  OpVals <- OpVals_U6
SPECIFICATION SpecBfs
VIEW view
INVARIANTS TypeOK ScansConsistent MapLaws OrderOk PreloadsOk
CHECK_DEADLOCK FALSE

CONSTANTS Names = {"u", "w"}  Protocol = "temp_rename"  MaxOps = 4
SPECIFICATION Spec
VIEW view
ACTION_CONSTRAINT Emit
CHECK_DEADLOCK FALSE

--------------------------- MODULE MC_CommitOrder ---------------------------
EXTENDS CommitOrder, Json
\* one line per explored transition: the schedule, and what the model says about it
Emit == PrintT(<<"T", ToJson([hist |-> hist', overlap |-> overlap', log |-> log', ver |-> ver',
                              done |-> {t \in Threads : pc'[t] = "done"}, mine |-> mine', payload |-> payload',
                              killok |-> \A t \in Threads : pc'[t] = "done" => (IF log' = <<>> THEN ver' ELSE log'[Len(log')]) >= mine'[t],
                              covered |-> \A t \in Threads : pc'[t] = "done" => (\E i \in 1..Len(log') : log'[i] >= mine'[t]),
                              newest |-> \A t \in Threads : pc'[t] = "done" => (IF log' = <<>> THEN 0 ELSE log'[Len(log')]) >= mine'[t]])>>)
=============================================================================

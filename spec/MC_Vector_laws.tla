-------------------------- MODULE MC_Vector_laws --------------------------
(* Laws of the metrics of Vector.tla: arithmetic helpers once (ASSUME), metric laws over all small vectors. *)
EXTENDS MC_Vector
ASSUME LawArith
=============================================================================

------------------------------ MODULE RecordGen ------------------------------
(* C31 - row records round-trip through the record format.

   WHAT THIS MODULE IS.  An abstract record store and a generator of record SHAPES.
     * a schema is a sequence of column types, each either fixed-width ("F") or variable-width ("V");
     * a row is a function column -> value-or-NULL;
     * Build(schema,row) produces an abstract record image (null set, offset table, fixed slots, payload
       geometry) the way the documented layout of src/records/mod.rs does it; Read(rec,i) decodes column i
       from that image alone;
     * the PROPERTY is the algebraic law   Read(Build(s,r), i) = r[i]   for every column, NULLs included, and
       BuildAfterReset = BuildFresh  (the builder is a small state machine: new / set / set_null / reset / build).
   WHAT IT IS NOT.  It is not a model of the bytes.  A value is a (class, length) pair, the payload is a sequence
   of such values, and offsets are natural numbers.  The expected read-back the harness compares with is the
   identity on the generated row (with the per-type equality below); the TLA+ content is the enumeration of shapes
   (which schemas, which NULL patterns, which value-size classes, which concrete DataTypes) and the laws checked on
   the abstract model, so that the enumeration itself is validated by TLC (RecordGen invariants in MC_RecordGen).

   Per-type equality (the harness implements exactly this):
     - fixed-width types: the same value; floats compare by bits, except that every NaN equals every NaN;
       Float4 read through the OwnedValue glue is the f32 widened to f64;
     - CHAR(n): equal after blank-padding to n characters (SQL CHAR semantics, documented in set_char);
     - everything else: the same bytes / the same elements. *)
EXTENDS Naturals, Sequences, FiniteSets, TLC

NULL  == [null |-> TRUE]
Empty == [cls |-> "e0", len |-> 0]          \* THE zero-length variable value (there is only one)
Zero(w) == [cls |-> "zerofill", len |-> w]   \* content of a fixed slot that was never set / was reset

(* ------------------------------------------------------------------ type table
   Every DataType of src/types/data_type.rs with the storage class the record format gives it.  The harness
   cross-checks `k`/`w` against DataType::fixed_size() (a disagreement is a tool error, not a verdict). *)
FixedTypes == <<
  [ty |-> "Bool",           k |-> "F", w |-> 1,  fam |-> "bool"],
  [ty |-> "Int2",           k |-> "F", w |-> 2,  fam |-> "int"],
  [ty |-> "Int4",           k |-> "F", w |-> 4,  fam |-> "int"],
  [ty |-> "Int8",           k |-> "F", w |-> 8,  fam |-> "int"],
  [ty |-> "Float4",         k |-> "F", w |-> 4,  fam |-> "float"],
  [ty |-> "Float8",         k |-> "F", w |-> 8,  fam |-> "float"],
  [ty |-> "Date",           k |-> "F", w |-> 4,  fam |-> "int"],
  [ty |-> "Time",           k |-> "F", w |-> 8,  fam |-> "int"],
  [ty |-> "Timestamp",      k |-> "F", w |-> 8,  fam |-> "int"],
  [ty |-> "TimestampTz",    k |-> "F", w |-> 12, fam |-> "tstz"],
  [ty |-> "Uuid",           k |-> "F", w |-> 16, fam |-> "bytes"],
  [ty |-> "MacAddr",        k |-> "F", w |-> 6,  fam |-> "bytes"],
  [ty |-> "Inet4",          k |-> "F", w |-> 4,  fam |-> "bytes"],
  [ty |-> "Inet6",          k |-> "F", w |-> 16, fam |-> "bytes"],
  [ty |-> "Interval",       k |-> "F", w |-> 16, fam |-> "triple"],
  [ty |-> "Int4Range",      k |-> "F", w |-> 9,  fam |-> "range"],
  [ty |-> "Int8Range",      k |-> "F", w |-> 17, fam |-> "range"],
  [ty |-> "DateRange",      k |-> "F", w |-> 9,  fam |-> "range"],
  [ty |-> "TimestampRange", k |-> "F", w |-> 17, fam |-> "range"],
  [ty |-> "Enum",           k |-> "F", w |-> 4,  fam |-> "triple"],
  [ty |-> "Point",          k |-> "F", w |-> 16, fam |-> "geo"],
  [ty |-> "Box",            k |-> "F", w |-> 32, fam |-> "geo"],
  [ty |-> "Circle",         k |-> "F", w |-> 24, fam |-> "geo"] >>

VarTypes == <<
  [ty |-> "Text",      k |-> "V", w |-> 0, fam |-> "text"],
  [ty |-> "Blob",      k |-> "V", w |-> 0, fam |-> "blob"],
  [ty |-> "Vector",    k |-> "V", w |-> 0, fam |-> "vector"],
  [ty |-> "Jsonb",     k |-> "V", w |-> 0, fam |-> "jsonb"],
  [ty |-> "Varchar",   k |-> "V", w |-> 0, fam |-> "text"],
  [ty |-> "Char",      k |-> "V", w |-> 0, fam |-> "char"],
  [ty |-> "Decimal",   k |-> "V", w |-> 0, fam |-> "decimal"],
  [ty |-> "Composite", k |-> "V", w |-> 0, fam |-> "composite"],
  [ty |-> "Array",     k |-> "V", w |-> 0, fam |-> "array"] >>

NF == Len(FixedTypes)
NV == Len(VarTypes)
AllTypes == FixedTypes \o VarTypes
TypeNamed(name) == CHOOSE t \in {AllTypes[j] : j \in 1..Len(AllTypes)} : t.ty = name

(* ------------------------------------------------------------------ value classes
   Fixed families: the class names only (the harness owns the concrete constant of each class).
   Variable families: class name and BYTE LENGTH of the stored value - the lengths are what the offset table is
   made of: 0 and 1, 127/128 (one-byte varint boundary), 16383/16384 (two-byte boundary = one page), "large". *)
FixedClasses(fam) ==
  CASE fam = "bool"   -> <<"false", "true">>
    [] fam = "int"    -> <<"zero", "one", "neg1", "min", "max">>
    [] fam = "float"  -> <<"zero", "negzero", "one", "negfrac", "max", "tiny", "inf", "neginf", "nan">>
    [] fam = "tstz"   -> <<"zero", "maxplus", "minminus">>
    [] fam = "bytes"  -> <<"zeros", "ones", "pattern">>
    [] fam = "triple" -> <<"zero", "mixed", "extreme">>
    [] fam = "geo"    -> <<"zero", "mixed", "extreme">>
    [] fam = "range"  -> <<"empty", "closed", "halfopen", "unbounded", "loweronly", "extreme">>

VarClasses(fam) ==
  CASE fam = "text"      -> << Empty, [cls |-> "e1", len |-> 1], [cls |-> "e127", len |-> 127], [cls |-> "e128", len |-> 128],
                               [cls |-> "utf8", len |-> 130], [cls |-> "e16383", len |-> 16383], [cls |-> "e16384", len |-> 16384],
                               [cls |-> "large", len |-> 40000] >>
    [] fam = "blob"      -> << Empty, [cls |-> "e1", len |-> 1], [cls |-> "toast17", len |-> 17], [cls |-> "e127", len |-> 127],
                               [cls |-> "e128", len |-> 128], [cls |-> "e16383", len |-> 16383], [cls |-> "e16384", len |-> 16384],
                               [cls |-> "large", len |-> 40000] >>
    (* CHAR(8): the stored value is blank-padded to 8 characters *)
    [] fam = "char"      -> << [cls |-> "cempty", len |-> 8], [cls |-> "cshort", len |-> 8], [cls |-> "cexact", len |-> 8],
                               [cls |-> "cutf8", len |-> 14] >>
    (* 4-byte dimension + 4 bytes per element *)
    [] fam = "vector"    -> << [cls |-> "d0", len |-> 4], [cls |-> "d1", len |-> 8], [cls |-> "d31", len |-> 128],
                               [cls |-> "d70", len |-> 284], [cls |-> "d4095", len |-> 16384] >>
    [] fam = "jsonb"     -> << [cls |-> "jnull", len |-> 4], [cls |-> "jnum", len |-> 12], [cls |-> "jobj", len |-> 37],
                               [cls |-> "jbigobj", len |-> 2204] >>
    [] fam = "decimal"   -> << [cls |-> "dzero", len |-> 19], [cls |-> "dpos", len |-> 19], [cls |-> "dneg", len |-> 19],
                               [cls |-> "dmax", len |-> 19], [cls |-> "dmin", len |-> 19] >>
    (* a nested record (Int4, Text) built with the same builder *)
    [] fam = "composite" -> << [cls |-> "cpair", len |-> 11], [cls |-> "cnulls", len |-> 9] >>
    [] fam = "array"     -> << [cls |-> "aempty", len |-> 8], [cls |-> "aint4x3", len |-> 21], [cls |-> "atextx3", len |-> 25],
                               [cls |-> "aint8x100", len |-> 821] >>

IsSmall(v) == v.len <= 130
SmallVarClasses(fam) == SelectSeq(VarClasses(fam), IsSmall)

ValueOf(t, j) ==      \* the j-th class of type t (j counted cyclically from 0)
  IF t.k = "F" THEN LET cs == FixedClasses(t.fam) IN [cls |-> cs[(j % Len(cs)) + 1], len |-> t.w]
               ELSE LET cs == VarClasses(t.fam)   IN cs[(j % Len(cs)) + 1]
SmallValueOf(t, j) ==
  IF t.k = "F" THEN ValueOf(t, j)
               ELSE LET cs == SmallVarClasses(t.fam) IN cs[(j % Len(cs)) + 1]
NClasses(t) == IF t.k = "F" THEN Len(FixedClasses(t.fam)) ELSE Len(VarClasses(t.fam))

(* ------------------------------------------------------------------ the abstract record store *)
Idx(s)    == [i \in 1..Len(s) |-> i]
IsVarAt(s) == [i \in 1..Len(s) |-> s[i].k = "V"]
VarIdx(s) == SelectSeq(Idx(s), LAMBDA i : s[i].k = "V")     \* columns that own an offset-table entry, in order
FixIdx(s) == SelectSeq(Idx(s), LAMBDA i : s[i].k = "F")
PosIn(seq, x) == CHOOSE j \in 1..Len(seq) : seq[j] = x

RECURSIVE SumLen(_, _)
SumLen(vals, j) == IF j = 0 THEN 0 ELSE SumLen(vals, j - 1) + vals[j].len
RECURSIVE Cum(_, _, _, _)
Cum(vals, j, acc, out) == IF j > Len(vals) THEN out ELSE Cum(vals, j + 1, acc + vals[j].len, Append(out, acc + vals[j].len))
CumEnds(vals) == Cum(vals, 1, 0, <<>>)       \* running end offsets of a sequence of values

(* builder state: which columns are NULL, the content of every fixed slot, the content of every variable buffer *)
BNew(s) == LET fi == FixIdx(s)  vi == VarIdx(s) IN
           [nulls |-> 1..Len(s),
            fix   |-> [i \in {fi[j] : j \in 1..Len(fi)} |-> Zero(s[i].w)],
            var   |-> [i \in {vi[j] : j \in 1..Len(vi)} |-> Empty]]
BReset(s, b) == [nulls |-> b.nulls \cup (1..Len(s)),
                 fix   |-> [i \in DOMAIN b.fix |-> Zero(s[i].w)],
                 var   |-> [i \in DOMAIN b.var |-> Empty]]
(* set_null only sets the bit: the slot / buffer keep whatever they held (this is why reset matters) *)
BSet(s, b, i, v) ==
  IF v = NULL THEN [b EXCEPT !.nulls = @ \cup {i}]
  ELSE IF s[i].k = "F" THEN [b EXCEPT !.nulls = @ \ {i}, !.fix[i] = v]
  ELSE [b EXCEPT !.nulls = @ \ {i}, !.var[i] = v]
RECURSIVE BSetAll(_, _, _, _)
BSetAll(s, b, row, i) == IF i > Len(s) THEN b ELSE BSetAll(s, BSet(s, b, i, row[i]), row, i + 1)

(* the record image.  ends[j] is the END offset of the j-th variable column relative to the payload start, as the
   offset table stores it; `wrap` = 65536 is the documented width of an offset-table entry (u16), wrap = 0 means
   unbounded offsets.  geom[j] is where the j-th payload element REALLY ends (the geometry of the payload). *)
Image(s, b, wrap) ==
  LET vi == VarIdx(s)  fi == FixIdx(s)
      payload == [j \in 1..Len(vi) |-> b.var[vi[j]]]
      geom == CumEnds(payload)
  IN [ncols   |-> Len(s),
      hdr     |-> 2 + ((Len(s) + 7) \div 8) + 2 * Len(vi),
      bitmap  |-> b.nulls,
      ends    |-> [j \in 1..Len(vi) |-> IF wrap = 0 THEN geom[j] ELSE geom[j] % wrap],
      fixed   |-> [j \in 1..Len(fi) |-> b.fix[fi[j]]],
      payload |-> payload,
      geom    |-> geom]

Build(s, row)      == Image(s, BSetAll(s, BNew(s), row, 1), 0)
BuildU16(s, row)   == Image(s, BSetAll(s, BNew(s), row, 1), 65536)
BuildAfterReset(s, prev, row) == Image(s, BSetAll(s, BReset(s, BSetAll(s, BNew(s), prev, 1)), row, 1), 0)
BuildNoReset(s, prev, row)    == Image(s, BSetAll(s, BSetAll(s, BNew(s), prev, 1), row, 1), 0)

Garbage == [cls |-> "garbage", len |-> 0]
(* the value occupying [from, to) of the payload, judged from the payload geometry alone *)
Slice(img, from, to) ==
  IF to = from THEN Empty
  ELSE LET hits == {j \in 1..Len(img.payload) : (IF j = 1 THEN 0 ELSE img.geom[j - 1]) = from /\ img.payload[j].len = to - from}
       IN IF to > from /\ hits # {} THEN img.payload[CHOOSE j \in hits : TRUE] ELSE Garbage

(* vi / fi: VarIdx(s) / FixIdx(s), passed in so that they are computed once per record *)
ReadX(s, vi, fi, img, i) ==
  IF i \in img.bitmap THEN NULL
  ELSE IF s[i].k = "F" THEN img.fixed[PosIn(fi, i)]
  ELSE LET j == PosIn(vi, i)
           from == IF j = 1 THEN 0 ELSE img.ends[j - 1]
       IN Slice(img, from, img.ends[j])
Read(s, img, i) == ReadX(s, VarIdx(s), FixIdx(s), img, i)

(* ------------------------------------------------------------------ the laws (checked by TLC on every shape) *)
VarBytes(s, row) == LET vi == VarIdx(s) IN SumLen([j \in 1..Len(vi) |-> IF row[vi[j]] = NULL THEN Empty ELSE row[vi[j]]], Len(vi))
FixedBytes(s)    == LET fi == FixIdx(s) IN SumLen([j \in 1..Len(fi) |-> [len |-> s[fi[j]].w]], Len(fi))
Fits(s, row)     == VarBytes(s, row) <= 65535                 \* what a u16 offset table can address
ZeroPayload(s, row) == FixedBytes(s) = 0 /\ VarBytes(s, row) = 0   \* the record is its header and nothing else

LawRead(s, row)  == LET img == Build(s, row)  vi == VarIdx(s)  fi == FixIdx(s) IN \A i \in 1..Len(s) : ReadX(s, vi, fi, img, i) = row[i]
LawReset(s, prev, row) == BuildAfterReset(s, prev, row) = Build(s, row)
(* with the documented 16-bit offsets the read law holds exactly for the rows that fit; FirstBadU16 is the first
   column a reader of such a record gets wrong (0 = none) *)
FirstBadU16(s, row) ==
  IF Fits(s, row) THEN 0       \* LawU16 below checks that this shortcut is sound on every generated case
  ELSE LET img == BuildU16(s, row)  vi == VarIdx(s)  fi == FixIdx(s)
           bad == {i \in 1..Len(s) : ReadX(s, vi, fi, img, i) # row[i]}
       IN IF bad = {} THEN 0 ELSE CHOOSE i \in bad : \A j \in bad : i <= j
LawU16(s, row)   == LET img == BuildU16(s, row)  vi == VarIdx(s)  fi == FixIdx(s) IN
                    Fits(s, row) <=> \A i \in 1..Len(s) : ReadX(s, vi, fi, img, i) = row[i]

(* two predicates about the OwnedValue glue (src/types/owned_value.rs), which stores CHAR values unpadded and writes
   every OwnedValue::Float with the 8-byte setter:
     ZeroPayloadGlue  the record built by the glue is its header and nothing else
     Float4Overrun    a non-NULL Float4 column has fewer than 4 bytes of fixed area behind its slot, so that an 8-byte
                      write starting at the slot does not fit the fixed area *)
ZeroPayloadGlue(s, row) ==
  /\ FixedBytes(s) = 0
  /\ \A i \in 1..Len(s) : row[i] = NULL \/ row[i].len = 0 \/ (s[i].ty = "Char" /\ row[i].cls = "cempty")
FixedAfter(s, i) == LET fi == FixIdx(s) IN SumLen([j \in 1..Len(fi) |-> [len |-> IF fi[j] > i THEN s[fi[j]].w ELSE 0]], Len(fi))
Float4Overrun(s, row) == \E i \in 1..Len(s) : s[i].ty = "Float4" /\ row[i] # NULL /\ FixedAfter(s, i) < 4

ShapeClass(n) == IF n = 1 THEN "n1" ELSE IF n <= 6 THEN "n2_6" ELSE IF n <= 9 THEN "n7_9" ELSE IF n <= 17 THEN "n15_17"
                 ELSE IF n <= 33 THEN "n31_33" ELSE "n63_64"

(* ------------------------------------------------------------------ the generator of shapes *)
CONSTANTS Salts,     \* rotation offsets (from the seed) for the assignment of DataTypes and value classes
          MaxExh,    \* every {F,V} x {NULL, value} pattern is enumerated up to this many columns
          EdgeN      \* column counts sampled beyond MaxExh (null-bitmap byte boundaries)

FixedAt(i, n, salt) == FixedTypes[((i * 7 + n * 3 + salt) % NF) + 1]
VarAt(i, n, salt)   == VarTypes[((i * 2 + n + salt) % NV) + 1]
TypeAt(k, i, n, salt) == IF k = "F" THEN FixedAt(i, n, salt) ELSE VarAt(i, n, salt)

KindPats == {"allF", "allV", "altFV", "altVF", "halves", "lastV", "firstV"}
NullPats == {"none", "all", "even", "odd", "first", "last", "byteedge", "allbutlast"}
KindAt(p, i, n) ==
  CASE p = "allF" -> "F" [] p = "allV" -> "V"
    [] p = "altFV" -> IF i % 2 = 1 THEN "F" ELSE "V"
    [] p = "altVF" -> IF i % 2 = 1 THEN "V" ELSE "F"
    [] p = "halves" -> IF 2 * i <= n THEN "F" ELSE "V"
    [] p = "lastV" -> IF i = n THEN "V" ELSE "F"
    [] p = "firstV" -> IF i = 1 THEN "V" ELSE "F"
NullAt(p, i, n) ==
  CASE p = "none" -> FALSE [] p = "all" -> TRUE
    [] p = "even" -> i % 2 = 0 [] p = "odd" -> i % 2 = 1
    [] p = "first" -> i = 1 [] p = "last" -> i = n
    [] p = "byteedge" -> (i % 8) \in {0, 1}          \* last bit of a bitmap byte and first bit of the next
    [] p = "allbutlast" -> i < n

(* a case: schema, row, and the row that was in the builder before the reset *)
MkCase(grp, n, salt, kindOf(_), nullOf(_), valOf(_, _), extra) ==
  LET s    == [i \in 1..n |-> TypeAt(kindOf(i), i, n, salt)]
      row  == [i \in 1..n |-> IF nullOf(i) THEN NULL ELSE valOf(s[i], i)]
      (* previous occupant of the builder: complementary NULL pattern, next value class *)
      prev == [i \in 1..n |-> IF nullOf(i) THEN ValueOf(s[i], i + salt + 1) ELSE IF i % 3 = 0 THEN NULL ELSE ValueOf(s[i], i + salt + 2)]
  IN [grp |-> grp, n |-> n, salt |-> salt, s |-> s, row |-> row, prev |-> prev, x |-> extra]

ExhCases(n, salt) ==
  { MkCase("exh", n, salt, LAMBDA i : ks[i], LAMBDA i : ns[i], LAMBDA t, i : ValueOf(t, i * 3 + n + salt * 5), <<>>)
      : ks \in [1..n -> {"F", "V"}], ns \in [1..n -> BOOLEAN] }

EdgeCases(n, salt) ==
  { MkCase("edge", n, salt, LAMBDA i : KindAt(kp, i, n), LAMBDA i : NullAt(np, i, n),
           LAMBDA t, i : IF i = (n + 1) \div 2 THEN ValueOf(t, n + salt) ELSE SmallValueOf(t, i + salt),
           <<kp, np>>)
      : kp \in KindPats, np \in NullPats }

(* every DataType x every value class (and NULL) x a few neighbourhoods *)
Layouts == {"alone", "after", "before", "between", "nullnbrs"}
TypeCase(t, j, isnull, lay) ==
  LET I4 == TypeNamed("Int4")  TX == TypeNamed("Text")  I8 == TypeNamed("Int8")
      v  == IF isnull THEN NULL ELSE ValueOf(t, j)
      pv == IF isnull THEN ValueOf(t, j) ELSE ValueOf(t, j + 1)
      sv == [cls |-> "max", len |-> 4]   tv == [cls |-> "e1", len |-> 1]
      s  == CASE lay = "alone"    -> <<t>>
              [] lay = "after"    -> <<I4, t>>
              [] lay = "before"   -> <<t, I4>>
              [] lay = "between"  -> <<TX, t, TX>>
              [] lay = "nullnbrs" -> <<TX, t, I8>>
      row == CASE lay = "alone"    -> <<v>>
               [] lay = "after"    -> <<sv, v>>
               [] lay = "before"   -> <<v, sv>>
               [] lay = "between"  -> <<tv, v, tv>>
               [] lay = "nullnbrs" -> <<NULL, v, NULL>>
      prev == CASE lay = "alone"    -> <<pv>>
                [] lay = "after"    -> <<NULL, pv>>
                [] lay = "before"   -> <<pv, [cls |-> "min", len |-> 4]>>
                [] lay = "between"  -> <<[cls |-> "e128", len |-> 128], pv, NULL>>
                [] lay = "nullnbrs" -> <<tv, pv, [cls |-> "max", len |-> 8]>>
  IN [grp |-> "type", n |-> Len(s), salt |-> 0, s |-> s, row |-> row, prev |-> prev, x |-> <<t.ty, lay>>]
TypeCases ==
  { TypeCase(AllTypes[a], j, FALSE, lay) : a \in 1..Len(AllTypes), j \in 0..8, lay \in Layouts } \cup
  { TypeCase(AllTypes[a], 0, TRUE, lay)  : a \in 1..Len(AllTypes), lay \in Layouts }

(* rows whose variable payload does not fit the 16-bit offset table (outside the documented domain of the format:
   the expectation is "identity or a refusal", never a silently different row) *)
OverflowCases ==
  LET TX == TypeNamed("Text")  BL == TypeNamed("Blob")  I4 == TypeNamed("Int4")
      L == [cls |-> "large", len |-> 40000]  P == [cls |-> "e16384", len |-> 16384]  S == [cls |-> "e1", len |-> 1]
      mk(s, row) == [grp |-> "overflow", n |-> Len(s), salt |-> 0, s |-> s, row |-> row, prev |-> [i \in 1..Len(s) |-> NULL], x |-> <<>>]
  IN { mk(<<TX, BL>>, <<L, L>>), mk(<<TX, I4, BL, TX>>, <<L, [cls |-> "one", len |-> 4], L, S>>),
       mk(<<BL, BL, BL, BL, TX>>, <<P, P, P, P, S>>), mk(<<TX, TX, TX, TX, TX>>, <<P, P, P, P, P>>) }

CaseLaws(c) == /\ LawRead(c.s, c.row)
               /\ LawReset(c.s, c.prev, c.row)
               /\ LawU16(c.s, c.row)
               /\ (c.grp = "overflow") => ~Fits(c.s, c.row)

(* what the harness needs to know about a case *)
Describe(c) ==
  [grp |-> c.grp, n |-> c.n, salt |-> c.salt, shape |-> ShapeClass(c.n), x |-> c.x,
   fits |-> Fits(c.s, c.row), zero_payload |-> ZeroPayload(c.s, c.row), zero_payload_glue |-> ZeroPayloadGlue(c.s, c.row),
   float4_overrun |-> Float4Overrun(c.s, c.row),
   var_bytes |-> VarBytes(c.s, c.row), fixed_bytes |-> FixedBytes(c.s), hdr |-> 2 + ((c.n + 7) \div 8) + 2 * Len(VarIdx(c.s)),
   first_bad_u16 |-> FirstBadU16(c.s, c.row),
   cols |-> [i \in 1..c.n |->
               [ty |-> c.s[i].ty, k |-> c.s[i].k, fam |-> c.s[i].fam, w |-> c.s[i].w,
                null |-> c.row[i] = NULL, cls |-> IF c.row[i] = NULL THEN "NULL" ELSE c.row[i].cls,
                len |-> IF c.row[i] = NULL THEN 0 ELSE c.row[i].len,
                pnull |-> c.prev[i] = NULL, pcls |-> IF c.prev[i] = NULL THEN "NULL" ELSE c.prev[i].cls]]]
=============================================================================

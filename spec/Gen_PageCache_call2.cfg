\* the code as it is, call level, 2 threads: every explored transition (up to renaming of threads and of the keys of a
\* shard) is emitted as a call sequence with the expected results and the expected final observation; the "unless"
\* invariants attribute every violation of the as-is design to a named deviation
CONSTANTS Threads = {t1, t2}  KA = {k1, k2, k3}  KB = {}  Cap = 2  MaxCalls = 3  MaxHeld = 2  Fine = FALSE  InitMayFail = TRUE
          BudgetPages = 3  Ballast = 30  ClearKeepsPinned = FALSE  ClearCountsUnderLock = TRUE  ReleaseOnInitError = TRUE
CONSTANT Keys <- KeysAll  ShardOf <- ShardsOneTwo
SYMMETRY Sym
SPECIFICATION Spec
VIEW view
INVARIANTS TypeOK DataIsLastWrite WithinCapacity PinnedStaysUnlessClear BudgetExplained BudgetMatchesUnless ConsequencesOnlyAfterClear
ACTION_CONSTRAINT Emit
CHECK_DEADLOCK FALSE

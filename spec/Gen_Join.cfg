\* quick generating config: tables of <= 2 rows, a seeded 1/Stride sample of the table pairs, every query shape
CONSTANTS KeySeq <- MCKeySeq  ValSeq <- MCValSeq
CONSTANTS MaxRowsA = 2  MaxRowsB = 2  MaxRowsC = 1
CONSTANTS Stride = 41  Seed = 1  Stride3 = 11  RScale = 20  RCheck = 2  MetaStride = 5
SPECIFICATION Spec
INVARIANT Containment LeftPreserves CrossSize Mirror WhereFilters NullNeverMatches ImplIsRef ScaleLawHolds ThreeWay
INVARIANT EmitInv
CHECK_DEADLOCK FALSE

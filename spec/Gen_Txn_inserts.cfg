CONSTANTS Handles = {0, 1}  Ids = {2}  MaxOps = 6  MaxKeys = 6  Starts = {"plain", "both_in_txn"}  Kinds = {"insert", "read"}
SPECIFICATION Spec
VIEW view
INVARIANT SequentialWhenAutocommit SerialWhenAlone OwnWritesVisible RefNoDirtyRead RefNoLostUpdate
ACTION_CONSTRAINT Emit
CHECK_DEADLOCK FALSE

CONSTANTS Files = {0, 1}  Pages = {0, 1}  MaxSeg = 2  MaxOps = 4  MaxFaults = 1
          FixSeekOnOpen = TRUE  FixSeekOnTruncate = TRUE
SPECIFICATION Spec
VIEW view
ACTION_CONSTRAINT Emit
CHECK_DEADLOCK FALSE

---------------------------- MODULE MC_Calendar ----------------------------
(* TLC model for Calendar.tla: enumerates (year, month) pairs, checks the meta-invariants of the oracle for every
   day of every month, and emits the per-month table the C41/C20 checks expand linearly.

   State graph (three levels so that the work is spread over TLC's workers):
     <<"root",0,0>>  ->  <<"blk",b,0>> for every block of 100 years  ->  <<"ym",y,m>> for the years of the block
   Gen_Calendar.cfg      table of every month (Years = 1..9999), all invariants
   Gen_CalendarTime.cfg  every second of a day + boundary instants + timestamp composition at year ends
   The quick tier runs the same module with a sample of Years (a generated cfg) and compares with the cached table. *)
EXTENDS Calendar, Json

CONSTANTS Years,        \* set of years to enumerate
          Mode          \* "dates" | "times"

VARIABLE st

AllYears == MinYear..MaxYear
(* years whose ends are used for TIMESTAMP composition: extremes, epoch neighbourhood, leap / century / 400-year cases *)
TsYears == {1, 2, 4, 99, 100, 101, 400, 1582, 1600, 1899, 1900, 1969, 1970, 1971, 1999, 2000, 2001, 2024, 2038, 2100, 2400, 9996, 9998, 9999}

Blocks == { y \div 100 : y \in Years }

Init == st = <<"root", 0, 0>>

NextDates ==
    \/ /\ st[1] = "root"
       /\ \E b \in Blocks : st' = <<"blk", b, 0>>
    \/ /\ st[1] = "blk"
       /\ \E y \in { yy \in Years : yy \div 100 = st[2] }, m \in 1..12 : st' = <<"ym", y, m>>

(* times: <<"hm", h, mi>> states, each emits its 60 seconds *)
NextTimes ==
    \/ /\ st[1] = "root"
       /\ \E h \in 0..23 : st' = <<"blk", h, 0>>
    \/ /\ st[1] = "blk"
       /\ \E mi \in 0..59 : st' = <<"hm", st[2], mi>>

Next == IF Mode = "dates" THEN NextDates ELSE NextTimes
Spec == Init /\ [][Next]_st

(* ---------------- invariants on the oracle itself *)
MonthInv == st[1] = "ym" => MonthOK(st[2], st[3])
YearInv  == (st[1] = "ym" /\ st[3] = 1) => YearOK(st[2])
TimeInv  == st[1] = "hm" =>
              LET h == st[2]  mi == st[3] IN
              /\ \A s \in 0..59 : ValidTime(h, mi, s, 0) /\ SecOfDay(h, mi, s) \in 0..86399
              /\ \A s \in 0..58 : SecOfDay(h, mi, s + 1) = SecOfDay(h, mi, s) + 1
              /\ SecOfDay(h, mi, 59) + 1 = (IF mi = 59 THEN (IF h = 23 THEN 86400 ELSE SecOfDay(h + 1, 0, 0)) ELSE SecOfDay(h, mi + 1, 0))

(* ---------------- emission *)
EmitMonth == st[1] = "ym" =>
    LET y == st[2]  m == st[3] IN
    PrintT(<<"T", ToJson([k |-> "month", y |-> y, m |-> m, first |-> DaysFromCivil(y, m, 1), len |-> DaysInMonth(y, m),
                          dow |-> Dow(DaysFromCivil(y, m, 1)), doy |-> DayOfYear(y, m, 1), q |-> Quarter(m),
                          ym |-> YearMonthText(y, m)])>>)

(* invalid field combinations of the year, emitted once per year (with the January state) *)
EmitInvalid == (st[1] = "ym" /\ st[3] = 1) =>
    PrintT(<<"T", ToJson([k |-> "invalid", y |-> st[2], bad |-> InvalidDatesOfYear(st[2])])>>)

EmitTime == st[1] = "hm" =>
    LET h == st[2]  mi == st[3] IN
    PrintT(<<"T", ToJson([k |-> "minute", h |-> h, mi |-> mi, sec0 |-> SecOfDay(h, mi, 0), hm |-> Pad2(h) \o ":" \o Pad2(mi)])>>)

(* boundary instants and timestamp composition, emitted from the root state of the "times" mode *)
BoundaryTimes == { <<0, 0, 0, 0>>, <<0, 0, 0, 1>>, <<0, 0, 0, 999999>>, <<12, 0, 0, 500000>>, <<23, 59, 59, 0>>, <<23, 59, 59, 999999>>,
                   <<11, 59, 59, 999999>>, <<12, 0, 0, 0>>, <<0, 59, 59, 999999>>, <<1, 0, 0, 0>> }
InvalidTimes  == { <<24, 0, 0>>, <<23, 60, 0>>, <<23, 59, 60>>, <<24, 59, 59>>, <<99, 0, 0>> }
(* well-formed dates whose year is outside 1..9999 *)
OutOfRangeYears == { <<0, 1, 1>>, <<0, 6, 15>>, <<0, 12, 31>>, <<10000, 1, 1>>, <<10000, 12, 31>> }
TsDates == { <<y, 12, 31>> : y \in Years } \cup { <<y, 1, 1>> : y \in Years } \cup { <<y, 2, 28>> : y \in Years }
             \cup { <<y, 3, 1>> : y \in Years } \cup { <<y, 2, 29>> : y \in { yy \in Years : IsLeap(yy) } }
TsTimes == { <<0, 0, 0, 0>>, <<23, 59, 59, 0>>, <<23, 59, 59, 999999>>, <<0, 0, 0, 1>>, <<12, 30, 15, 250000>> }
EmitBoundary == (Mode = "times" /\ st[1] = "root") =>
    /\ PrintT(<<"T", ToJson([k |-> "tbound", ok |-> { [h |-> t[1], mi |-> t[2], s |-> t[3], us |-> t[4], v |-> TimeValue(t[1], t[2], t[3], t[4]),
                                                       txt |-> TimeText(t[1], t[2], t[3])] : t \in BoundaryTimes },
                             bad |-> InvalidTimes, badyears |-> OutOfRangeYears])>>)
    /\ \A dt \in TsDates : PrintT(<<"T", ToJson([k |-> "ts", y |-> dt[1], m |-> dt[2], d |-> dt[3], dtxt |-> DateText(dt[1], dt[2], dt[3]),
             at |-> { [h |-> t[1], mi |-> t[2], s |-> t[3], us |-> t[4], v |-> TimestampValue(dt[1], dt[2], dt[3], t[1], t[2], t[3], t[4]),
                       txt |-> TimeText(t[1], t[2], t[3])] : t \in TsTimes }])>>)

ASSUME \A t \in BoundaryTimes : ValidTime(t[1], t[2], t[3], t[4])
ASSUME \A t \in InvalidTimes : ~ValidTime(t[1], t[2], t[3], 0)
ASSUME \A d \in OutOfRangeYears : ~ValidDate(d[1], d[2], d[3]) /\ d[2] \in 1..12 /\ d[3] \in 1..31
=============================================================================

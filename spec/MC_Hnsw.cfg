CONSTANTS Walk = FALSE  Levels = {0, 1}  MaxOps = 3  MaxNodes = 5  WithDelete = TRUE
CONSTANTS Ids <- MCIds  PointsOf <- MCPointsOf  NeighborCap <- MCNeighborCap  PageBudget <- MCPageBudget  SlotBytes <- MCSlotBytes
SPECIFICATION Spec
VIEW view
INVARIANTS TypeOK PredicateSound
CHECK_DEADLOCK FALSE

--------------------------- MODULE MC_FreelistBulk ---------------------------
EXTENDS FreelistBulk, Json
Emit == PrintT(<<"T", ToJson([hist |-> hist'])>>)
=============================================================================

\* the pinned caller protocol (everybody who got Ok drains the queue): TLC must find the early acknowledgement
CONSTANTS Threads = {1, 2}  MaxCommitsPerThread = 2  MayFail = TRUE  TakeOnlyAsLeader = FALSE
SPECIFICATION Spec
VIEW view
INVARIANTS AckAfterWrite
CHECK_DEADLOCK FALSE

CONSTANTS Names = {"u", "w"}  Protocol = "in_place"  MaxOps = 3
SPECIFICATION Spec
VIEW view
INVARIANT NoLoss NoTableLost
CHECK_DEADLOCK FALSE

\* repaired cleanup: exclusion, empty tables when idle, and progress under weak fairness
CONSTANTS Threads = {1, 2}  Pages = {1, 2}  Tables = {1}  MaxEntries = 6  MaxOpsPerThread = 3  CleanupUnderLock = TRUE
SPECIFICATION FairSpec
VIEW view
INVARIANTS MutexW NoRW TablesEmptyWhenIdle RcNonNegative
PROPERTY AcquireSucceeds
CHECK_DEADLOCK FALSE

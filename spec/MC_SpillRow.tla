----------------------------- MODULE MC_SpillRow -----------------------------
(* TLC model for SpillRow.tla: <<root>> -> block (universe, group) -> cases.  Every case state is checked against the
   laws (round trip, sequence framing, size table = encoding table) and printed.  ModelFacts pins what the documented
   encoding predicts: it is lossless on every item except the signed zeros of Float, which it decodes as Int(0). *)
EXTENDS SpillRow, Json

CONSTANTS MaxSeq        \* longest row sequence per buffer

VARIABLE st

Universes == {"F1", "F2"}
Blocks == {[blk |-> g, u |-> u] : g \in {"single", "pair", "wide", "seq"}, u \in Universes}

Init == st = [blk |-> "root"]
Next == \/ /\ st = [blk |-> "root"]
           /\ \E b \in Blocks : st' = b
        \/ /\ "blk" \in DOMAIN st /\ st.blk \in {"single", "pair", "wide"}
           /\ \E r \in (CASE st.blk = "single" -> SingleRows(st.u) [] st.blk = "pair" -> PairRows(st.u) [] st.blk = "wide" -> WideRows(st.u)) :
                st' = [case |-> "row", u |-> st.u, grp |-> st.blk, row |-> r]
        \/ /\ "blk" \in DOMAIN st /\ st.blk = "seq"
           /\ \E q \in SeqsOver(st.u, MaxSeq) : st' = [case |-> "seq", u |-> st.u, idxs |-> q]
Spec == Init /\ [][Next]_st

IsRow == "case" \in DOMAIN st /\ st.case = "row"
IsSeq == "case" \in DOMAIN st /\ st.case = "seq"

Laws == /\ IsRow => (LawRoundTrip(st.row) /\ LawSequence(<<st.row>>) /\ (st.u = "F1" => LawSize(st.row)))
        /\ IsSeq => LET rows == [j \in 1..Len(st.idxs) |-> Pool(st.u)[st.idxs[j]]] IN
                    LawSequence(rows) /\ (st.u = "F1" => \A j \in 1..Len(rows) : LawSize(rows[j]))

ModelFacts == (st = [blk |-> "root"]) =>
                /\ DocLossy = {It("Float", "zero", 0), It("Float", "negzero", 0)}
                /\ \A i \in DocLossy : DocRoundTrip(i) = It("Int", "zero", 0)
                /\ \A i \in ItemsF1 : SizeOf(i) = 1 + Enc(i).w
                /\ RepsCommon \subseteq ItemsF1 /\ RepsOwned \subseteq ItemsF2
                /\ {i.v : i \in RepsCommon} = VariantsF1 /\ {i.v : i \in RepsOwned} = VariantsF2

Emit == /\ IsRow => PrintT(<<"T", ToJson(DescribeRow(st.u, st.grp, st.row))>>)
        /\ IsSeq => PrintT(<<"T", ToJson(DescribeSeq(st.u, st.idxs))>>)
        /\ (st = [blk |-> "root"]) => PrintT(<<"T", ToJson([grp |-> "facts", lossy |-> DocLossy, f1 |-> VariantsF1, f2 |-> VariantsF2])>>)
=============================================================================

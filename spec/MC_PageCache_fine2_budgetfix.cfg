\* only the two proposed budget repairs (release on init error, count under the shard locks) with clear() still dropping
\* pinned entries: the budget properties hold at both granularities (fine-grained run, 2 threads, two shards)
CONSTANTS Threads = {t1, t2}  KA = {k1, k2, k3}  KB = {k4}  Cap = 2  MaxCalls = 2  MaxHeld = 2  Fine = TRUE  InitMayFail = TRUE
          BudgetPages = 3  Ballast = 30  ClearKeepsPinned = FALSE  ClearCountsUnderLock = TRUE  ReleaseOnInitError = TRUE
CONSTANT Keys <- KeysAll  ShardOf <- ShardsOneTwo
SYMMETRY Sym
SPECIFICATION Spec
VIEW view
INVARIANTS TypeOK DataIsLastWrite WithinCapacity BudgetMatches BudgetZeroWhenEmpty PinnedStaysUnlessClear ConsequencesOnlyAfterClear
CHECK_DEADLOCK FALSE

CONSTANTS MaxKeys = 3  FullWindows = TRUE  Rich = TRUE
SPECIFICATION Spec
INVARIANT Judge
CHECK_DEADLOCK FALSE

CONSTANTS Budget = 7  VBudget = 3  JunkTokens <- Junk  MaxMut = 2  Starts = {"<Stmt>"}  DeepN = {64}  MutMaxLen = 80  MaxLen = 400
SPECIFICATION Spec
INVARIANT TypeOK Balanced KeywordLed Bounded
ACTION_CONSTRAINT Emit
CHECK_DEADLOCK FALSE

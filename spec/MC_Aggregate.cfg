\* model-only run: every meta-invariant of the oracle on the thorough query space, nothing printed
CONSTANTS Rich = TRUE
SPECIFICATION Spec
INVARIANT OracleInv
CHECK_DEADLOCK FALSE

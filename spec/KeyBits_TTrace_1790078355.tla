---- MODULE KeyBits_TTrace_1790078355 ----
EXTENDS KeyBits, Sequences, TLCExt, Toolbox, Naturals, TLC

_expression ==
    LET KeyBits_TEExpression == INSTANCE KeyBits_TEExpression
    IN KeyBits_TEExpression!expression
----

_trace ==
    LET KeyBits_TETrace == INSTANCE KeyBits_TETrace
    IN KeyBits_TETrace!trace
----

_inv ==
    ~(
        TLCGet("level") = Len(_TETrace)
        /\
        a = (128)
        /\
        b = (0)
    )
----

_init ==
    /\ a = _TETrace[1].a
    /\ b = _TETrace[1].b
----

_next ==
    /\ \E i,j \in DOMAIN _TETrace:
        /\ \/ /\ j = i + 1
              /\ i = TLCGet("level")
        /\ a  = _TETrace[i].a
        /\ a' = _TETrace[j].a
        /\ b  = _TETrace[i].b
        /\ b' = _TETrace[j].b

\* Uncomment the ASSUME below to write the states of the error trace
\* to the given file in Json format. Note that you can pass any tuple
\* to `JsonSerialize`. For example, a sub-sequence of _TETrace.
    \* ASSUME
    \*     LET J == INSTANCE Json
    \*         IN J!JsonSerialize("KeyBits_TTrace_1790078355.json", _TETrace)

=============================================================================

 Note that you can extract this module `KeyBits_TEExpression`
  to a dedicated file to reuse `expression` (the module in the 
  dedicated `KeyBits_TEExpression.tla` file takes precedence 
  over the module `KeyBits_TEExpression` below).

---- MODULE KeyBits_TEExpression ----
EXTENDS KeyBits, Sequences, TLCExt, Toolbox, Naturals, TLC

expression == 
    [
        \* To hide variables of the `KeyBits` spec from the error trace,
        \* remove the variables below.  The trace will be written in the order
        \* of the fields of this record.
        a |-> a
        ,b |-> b
        
        \* Put additional constant-, state-, and action-level expressions here:
        \* ,_stateNumber |-> _TEPosition
        \* ,_aUnchanged |-> a = a'
        
        \* Format the `a` variable as Json value.
        \* ,_aJson |->
        \*     LET J == INSTANCE Json
        \*     IN J!ToJson(a)
        
        \* Lastly, you may build expressions over arbitrary sets of states by
        \* leveraging the _TETrace operator.  For example, this is how to
        \* count the number of times a spec variable changed up to the current
        \* state in the trace.
        \* ,_aModCount |->
        \*     LET F[s \in DOMAIN _TETrace] ==
        \*         IF s = 1 THEN 0
        \*         ELSE IF _TETrace[s].a # _TETrace[s-1].a
        \*             THEN 1 + F[s-1] ELSE F[s-1]
        \*     IN F[_TEPosition - 1]
    ]

=============================================================================



Parsing and semantic processing can take forever if the trace below is long.
 In this case, it is advised to uncomment the module below to deserialize the
 trace from a generated binary file.

\*
\*---- MODULE KeyBits_TETrace ----
\*EXTENDS KeyBits, IOUtils, TLC
\*
\*trace == IODeserialize("KeyBits_TTrace_1790078355.bin", TRUE)
\*
\*=============================================================================
\*

---- MODULE KeyBits_TETrace ----
EXTENDS KeyBits, TLC

trace == 
    <<
    ([a |-> 128,b |-> -1]),
    ([a |-> 128,b |-> 0])
    >>
----


=============================================================================

---- CONFIG KeyBits_TTrace_1790078355 ----

INVARIANT
    _inv

CHECK_DEADLOCK
    \* CHECK_DEADLOCK off because of PROPERTY or INVARIANT above.
    FALSE

INIT
    _init

NEXT
    _next

CONSTANT
    _TETrace <- _trace

ALIAS
    _expression
=============================================================================
\* Generated on Tue Sep 22 11:59:54 UTC 2026
------------------------------ MODULE Calendar ------------------------------
(***************************************************************************)
(* The proleptic Gregorian calendar for the years 1..9999 and the internal *)
(* values TurDB stores for DATE / TIME / TIMESTAMP (properties C41, C20).  *)
(*                                                                         *)
(*   DATE      = days since 1970-01-01 (negative before)            (i32)  *)
(*   TIME      = microseconds since midnight                        (i64)  *)
(*   TIMESTAMP = microseconds since 1970-01-01 00:00:00             (i64)  *)
(*                                                                         *)
(* TLC integers are 32 bit, so a TIME is the pair <<secs, micros>> meaning *)
(* secs*10^6 + micros and a TIMESTAMP is <<days, secs, micros>> meaning    *)
(* (days*86400 + secs)*10^6 + micros; the check composes the big integer.  *)
(*                                                                         *)
(* The day number is defined by COUNTING (days of whole years before the   *)
(* year + days of whole months before the month + day-1); the closed form  *)
(* used for "leap years before y" is justified by the invariants below     *)
(* (every year starts YearLen days after the previous one), which TLC      *)
(* checks for every year, so an error in the oracle shows up in TLC and    *)
(* not as an alarm against the code.                                       *)
(***************************************************************************)
EXTENDS Integers, Sequences, TLC

MinYear == 1
MaxYear == 9999

IsLeap(y) == (y % 4 = 0 /\ y % 100 # 0) \/ (y % 400 = 0)

DaysInMonth(y, m) ==
    CASE m \in {1, 3, 5, 7, 8, 10, 12} -> 31
      [] m \in {4, 6, 9, 11}           -> 30
      [] m = 2                         -> IF IsLeap(y) THEN 29 ELSE 28

YearLen(y) == IF IsLeap(y) THEN 366 ELSE 365

ValidDate(y, m, d) == /\ y \in MinYear..MaxYear
                      /\ m \in 1..12
                      /\ d \in 1..DaysInMonth(y, m)

(* number of leap years among 1..y-1 *)
LeapsBefore(y) == ((y - 1) \div 4) - ((y - 1) \div 100) + ((y - 1) \div 400)

(* days from 0001-01-01 to y-01-01 *)
DaysBeforeYear(y) == 365 * (y - 1) + LeapsBefore(y)

RECURSIVE DaysBeforeMonth(_, _)
DaysBeforeMonth(y, m) == IF m = 1 THEN 0 ELSE DaysBeforeMonth(y, m - 1) + DaysInMonth(y, m - 1)

Epoch == DaysBeforeYear(1970)            \* 719162 = day index of 1970-01-01 counted from 0001-01-01

(* the internal DATE value: days since 1970-01-01 *)
DaysFromCivil(y, m, d) == DaysBeforeYear(y) + DaysBeforeMonth(y, m) + (d - 1) - Epoch

DayOfYear(y, m, d) == DaysBeforeMonth(y, m) + d

(* inverse, written declaratively: the unique year/month whose span contains the day *)
CivilFromDays(n) ==
    LET r  == n + Epoch                               \* 0-based day index from 0001-01-01
        y0 == (r * 400) \div 146097 + 1               \* estimate, off by at most one (r*400 < 2^31 for years <= 10000)
        y  == CHOOSE yy \in {y0 - 1, y0, y0 + 1} :
                  yy >= 1 /\ DaysBeforeYear(yy) <= r /\ r < DaysBeforeYear(yy + 1)
        doy == r - DaysBeforeYear(y)                  \* 0-based
        m  == CHOOSE mm \in 1..12 :
                  DaysBeforeMonth(y, mm) <= doy /\ doy < DaysBeforeMonth(y, mm) + DaysInMonth(y, mm)
    IN <<y, m, doy - DaysBeforeMonth(y, m) + 1>>

(* day of week, 0 = Sunday .. 6 = Saturday; 1970-01-01 was a Thursday *)
Dow(n) == (n + 4) % 7

Quarter(m) == ((m - 1) \div 3) + 1

(* first / last valid day numbers *)
MinDay == DaysFromCivil(MinYear, 1, 1)          \* -719162
MaxDay == DaysFromCivil(MaxYear, 12, 31)        \* 2932896

(* ------------------------------------------------------------ canonical text *)
Pad2(n) == IF n < 10 THEN "0" \o ToString(n) ELSE ToString(n)
Pad4(n) == IF n < 10 THEN "000" \o ToString(n)
           ELSE IF n < 100 THEN "00" \o ToString(n)
           ELSE IF n < 1000 THEN "0" \o ToString(n) ELSE ToString(n)
YearMonthText(y, m) == Pad4(y) \o "-" \o Pad2(m)
DateText(y, m, d) == YearMonthText(y, m) \o "-" \o Pad2(d)
TimeText(h, mi, s) == Pad2(h) \o ":" \o Pad2(mi) \o ":" \o Pad2(s)

(* ------------------------------------------------------------ TIME / TIMESTAMP *)
ValidTime(h, mi, s, us) == h \in 0..23 /\ mi \in 0..59 /\ s \in 0..59 /\ us \in 0..999999
SecOfDay(h, mi, s) == (h * 60 + mi) * 60 + s
TimeValue(h, mi, s, us) == <<SecOfDay(h, mi, s), us>>                    \* secs*10^6 + us
TimestampValue(y, m, d, h, mi, s, us) == <<DaysFromCivil(y, m, d), SecOfDay(h, mi, s), us>>

(* ------------------------------------------------------------ fixed anchors *)
ASSUME Epoch = 719162
ASSUME DaysFromCivil(1970, 1, 1) = 0
ASSUME DaysFromCivil(2000, 3, 1) = 11017          \* well-known day number
ASSUME DaysFromCivil(1, 1, 1) = -719162
ASSUME DaysFromCivil(9999, 12, 31) = 2932896
ASSUME MaxDay - MinDay + 1 = 3652059              \* number of dates in years 1..9999
ASSUME Dow(DaysFromCivil(2000, 1, 1)) = 6         \* a Saturday
ASSUME Dow(DaysFromCivil(1582, 10, 15)) = 5       \* first day of the Gregorian calendar: a Friday
ASSUME Dow(DaysFromCivil(2024, 2, 29)) = 4        \* a Thursday
ASSUME CivilFromDays(0) = <<1970, 1, 1>>
ASSUME CivilFromDays(MinDay) = <<1, 1, 1>> /\ CivilFromDays(MaxDay) = <<9999, 12, 31>>

(* ------------------------------------------------------------ per-month meta-invariants
   Everything the check relies on, stated for one (year, month) and all its days.  *)
NextMonth(y, m) == IF m = 12 THEN <<y + 1, 1>> ELSE <<y, m + 1>>

MonthOK(y, m) ==
    LET len   == DaysInMonth(y, m)
        first == DaysFromCivil(y, m, 1)
        nm    == NextMonth(y, m)
    IN /\ len \in 28..31
       \* round trip for every day of the month
       /\ \A d \in 1..len : CivilFromDays(DaysFromCivil(y, m, d)) = <<y, m, d>>
       \* consecutive dates differ by exactly one day, inside the month and across its end
       /\ \A d \in 1..(len - 1) : DaysFromCivil(y, m, d + 1) = DaysFromCivil(y, m, d) + 1
       /\ DaysFromCivil(nm[1], nm[2], 1) = DaysFromCivil(y, m, len) + 1
       \* the weekday advances by one (mod 7) every day
       /\ \A d \in 1..len : Dow(DaysFromCivil(y, m, d) + 1) = (Dow(DaysFromCivil(y, m, d)) + 1) % 7
       /\ Dow(first) \in 0..6
       \* day-of-year is consistent with the day number
       /\ DayOfYear(y, m, 1) = first - DaysFromCivil(y, 1, 1) + 1

YearOK(y) ==
    /\ DaysFromCivil(y + 1, 1, 1) - DaysFromCivil(y, 1, 1) = YearLen(y)
    /\ YearLen(y) \in {365, 366}
    /\ DayOfYear(y, 12, 31) = YearLen(y)
    \* leap rule: every 4th year, except centuries not divisible by 400
    /\ (YearLen(y) = 366) = (y % 4 = 0 /\ (y % 100 # 0 \/ y % 400 = 0))
    \* the calendar repeats every 400 years = 146097 days = 20871 weeks exactly
    /\ (y + 400 <= MaxYear + 1) => DaysFromCivil(y + 400, 1, 1) - DaysFromCivil(y, 1, 1) = 146097
    /\ (y + 400 <= MaxYear + 1) => Dow(DaysFromCivil(y + 400, 1, 1)) = Dow(DaysFromCivil(y, 1, 1))

(* ------------------------------------------------------------ invalid field combinations
   the rejection cases the property names, for one year *)
InvalidDatesOfYear(y) ==
    { <<y, m, DaysInMonth(y, m) + 1>> : m \in 1..12 } \cup { <<y, 0, 1>>, <<y, 13, 1>>, <<y, 1, 0>>, <<y, 12, 32>> }
=============================================================================

----------------------------- MODULE WideTable -----------------------------
(***************************************************************************)
(* Reference model of a table that is large enough for its B-trees to have *)
(* several leaves and an interior level (C10, C05 at scale):               *)
(*                                                                         *)
(*     w(id INT PRIMARY KEY, a INT, pad TEXT, c INT)  with an index on a   *)
(*     (c = 100000 - id, never updated: a second, unique-valued key space  *)
(*      whose index can only be created late, see WithDDL)                 *)
(*                                                                         *)
(* The small-domain model Relational.tla never puts more than three keys   *)
(* into a leaf; leaf search, splits, emptied leaves and the rightmost-leaf *)
(* hint only show with hundreds of keys. Here the state is the set of      *)
(* present ids with their `a` value; statements work on RUNS of ids, so a  *)
(* behaviour of a dozen steps moves hundreds of rows. After every step the *)
(* model states what a fixed family of probes must return (point lookups   *)
(* around powers of two and run boundaries, range counts, equality counts  *)
(* on the secondary index, row count).                                      *)
(***************************************************************************)
EXTENDS Integers, Sequences, FiniteSets, TLC

CONSTANTS N, MaxOps, WithTxn,
          WithPad,     \* TRUE: UPDATEs that switch the pad of runs of rows between 200 bytes and 3000 bytes (out-of-line / TOAST values)
          WithDDL      \* TRUE: the table starts WITHOUT secondary indexes; CREATE INDEX / DROP INDEX are steps (C10, C21 at scale)
Ids == 1..N
NoRow == -1

VARIABLES a,        \* [Ids -> NoRow or the row's a value]
          txn,      \* <<>> or <<snapshot of a at BEGIN>> (one handle, no savepoints)
          idx,      \* secondary indexes that exist: a subset of {"a", "pad", "c"}
          big,      \* ids of the rows whose pad is the 3000-byte value (stored out of line); a subset of the present ids
          nops, hist
vars == <<a, txn, idx, big, nops, hist>>
view == <<a, txn, idx, big, nops>>

Present == {i \in Ids : a[i] # NoRow}
InRange(lo, hi) == {i \in Present : lo <= i /\ i <= hi}
Card(S) == Cardinality(S)

ProbeIds == {1, 2, 7, 8, 9, 31, 32, 33, 63, 64, 65, 127, 128, 129, 200, 255, 256, 257, N - 1, N}
Probes == [count |-> Card(Present),
           pts |-> [i \in ProbeIds \cap Ids |-> a[i]],
           eq0 |-> Card({i \in Present : a[i] = 0}), eq3 |-> Card({i \in Present : a[i] = 3}), eq11 |-> Card({i \in Present : a[i] = 11}),
           r1 |-> Card(InRange(60, 70)), r2 |-> Card(InRange(120, 260)), r3 |-> Card(InRange(N - 5, N)),
           min |-> IF Present = {} THEN NoRow ELSE CHOOSE i \in Present : \A j \in Present : i <= j,
           max |-> IF Present = {} THEN NoRow ELSE CHOOSE i \in Present : \A j \in Present : i >= j]

\* with WithDDL the table already holds rows 1..600 (inserted in ascending order before the first step), so that every
\* CREATE INDEX of a behaviour builds an index of several leaves from existing rows
Prefilled == IF WithDDL THEN 600 ELSE 0
ProbesOf(f) == [count |-> Card({i \in Ids : f[i] # NoRow}),
                pts |-> [i \in ProbeIds \cap Ids |-> f[i]],
                eq0 |-> Card({i \in Ids : f[i] = 0}), eq3 |-> Card({i \in Ids : f[i] = 3}),
                eq11 |-> Card({i \in Ids : f[i] = 11}),
                r1 |-> Card({i \in 60..70 : i \in Ids /\ f[i] # NoRow}),
                r2 |-> Card({i \in 120..260 : i \in Ids /\ f[i] # NoRow}),
                r3 |-> Card({i \in (N - 5)..N : f[i] # NoRow})]
A0 == [i \in Ids |-> IF i <= Prefilled THEN i % 10 ELSE NoRow]
\* with WithDDL every behaviour begins with the CREATE INDEX of one of the three indexes on the prefilled table (one initial
\* state per index; the step is the first entry of hist, so the replay issues it after the prefill)
FirstDDL(c) == [op |-> [k |-> "create_index", col |-> c], n |-> 0, intxn |-> FALSE, idx |-> {c},
                rows |-> {<<i, A0[i]>> : i \in {j \in Ids : A0[j] # NoRow}}, nbig |-> 0, bigpts |-> [i \in {1, 64, 129} |-> FALSE], probes |-> ProbesOf(A0)]
Init == /\ a = A0 /\ txn = <<>> /\ big = {}
        /\ IF WithDDL THEN \E c \in {"a", "pad", "c"} : idx = {c} /\ hist = <<FirstDDL(c)>> /\ nops = 1
                      ELSE idx = {"a"} /\ hist = <<>> /\ nops = 0

StepY(op, n, newa, newtxn, newidx, newbig) ==
                     /\ nops < MaxOps /\ a' = newa /\ txn' = newtxn /\ idx' = newidx /\ big' = newbig /\ nops' = nops + 1
                     /\ hist' = Append(hist, [op |-> op, n |-> n, intxn |-> newtxn # <<>>, idx |-> newidx,
                                             rows |-> {<<i, newa[i]>> : i \in {j \in Ids : newa[j] # NoRow}},
                                             nbig |-> Card(newbig), bigpts |-> [i \in {1, 64, 129} |-> i \in newbig],
                                             probes |-> ProbesOf(newa)])
\* a deleted row is no longer big; a re-inserted row has the 200-byte pad
StepX(op, n, newa, newtxn, newidx) == StepY(op, n, newa, newtxn, newidx, {i \in big : newa[i] # NoRow})
StepT(op, n, newa, newtxn) == StepX(op, n, newa, newtxn, idx)
Step(op, n, newa) == StepT(op, n, newa, txn)

Lens == {1, 7, 8, 9, 40, 100, 150}
\* INSERT of the run lo..lo+len-1 (all absent), ascending / descending / interleaved order; a = id % 10
InsertRunOf(LenSet) == \E lo \in {1, 2, 50, 64, 100, 129, 200, 250, 300, 350, 450, 601, 650, 800}, len \in LenSet, ord \in {"asc", "desc", "evens_then_odds"} :
                LET run == lo..(lo + len - 1) IN
                /\ run \subseteq Ids /\ \A i \in run : a[i] = NoRow
                /\ Step([k |-> "insert_run", lo |-> lo, len |-> len, ord |-> ord], len, [i \in Ids |-> IF i \in run THEN i % 10 ELSE a[i]])
InsertRun == InsertRunOf(Lens)
\* inside a transaction long runs are preferred, so that walks contain COMMITs of several hundred rows (many dirty pages)
InsertBigInTxn == txn # <<>> /\ \E w \in 1..20 : InsertRunOf({150})
DeleteRange == \E lo \in {1, 8, 60, 64, 100, 128, 200, 256}, len \in Lens :
                LET hit == InRange(lo, lo + len - 1) IN
                /\ hit # {}
                /\ Step([k |-> "delete_range", lo |-> lo, hi |-> lo + len - 1], Card(hit), [i \in Ids |-> IF i \in hit THEN NoRow ELSE a[i]])
DeleteEq == \E v \in {0, 3, 7, 11} :
                LET hit == {i \in Present : a[i] = v} IN
                /\ hit # {}
                /\ Step([k |-> "delete_eq", v |-> v], Card(hit), [i \in Ids |-> IF i \in hit THEN NoRow ELSE a[i]])
\* UPDATE w SET a = a + 1 WHERE id BETWEEN lo AND hi : moves every hit row to another place of the secondary index
UpdateRange == \E lo \in {1, 8, 60, 64, 100, 128, 200, 256}, len \in Lens :
                LET hit == InRange(lo, lo + len - 1) IN
                /\ hit # {}
                /\ Step([k |-> "update_range", lo |-> lo, hi |-> lo + len - 1], Card(hit), [i \in Ids |-> IF i \in hit THEN a[i] + 1 ELSE a[i]])
Reopen == txn = <<>> /\ Step([k |-> "reopen"], 0, a)
Begin == WithTxn /\ txn = <<>> /\ StepT([k |-> "begin"], 0, a, <<[a |-> a, big |-> big]>>)
Commit == txn # <<>> /\ StepT([k |-> "commit"], 0, a, <<>>)
Rollback == txn # <<>> /\ StepY([k |-> "rollback"], 0, txn[1].a, <<>>, idx, txn[1].big)
\* UPDATE w SET pad = <3000 bytes> / <200 bytes> WHERE id BETWEEN lo AND hi: the value moves out of line / back (C05, large values);
\* not while an index on pad exists (a 3000-byte index key is another matter)
PadGrow == WithPad /\ "pad" \notin idx /\ \E lo \in {1, 8, 60, 64, 100, 128, 200, 256}, len \in {1, 8, 40, 150} :
                LET hit == InRange(lo, lo + len - 1) IN
                /\ hit # {} /\ ~(hit \subseteq big)
                /\ StepY([k |-> "pad_grow", lo |-> lo, hi |-> lo + len - 1], Card(hit), a, txn, idx, big \cup hit)
PadShrink == WithPad /\ "pad" \notin idx /\ \E lo \in {1, 8, 60, 64, 100, 128, 200, 256}, len \in {1, 8, 40, 150} :
                LET hit == InRange(lo, lo + len - 1) IN
                /\ hit \cap big # {}
                /\ StepY([k |-> "pad_shrink", lo |-> lo, hi |-> lo + len - 1], Card(hit), a, txn, idx, big \ hit)

\* DDL on the populated table: no row, no count and no query result changes (the model state is untouched); what
\* changes is the access path the implementation may take from then on - and the new index must hold every row
\* DELETE FROM w WHERE LENGTH(pad) > 1000: a predicate over the out-of-line values decides which rows go
DeleteBig == WithPad /\ big # {} /\ StepX([k |-> "delete_big"], Card(big), [i \in Ids |-> IF i \in big THEN NoRow ELSE a[i]], txn, idx)
CreateIndex(c) == WithDDL /\ txn = <<>> /\ c \notin idx /\ (c = "pad" => big = {}) /\ StepX([k |-> "create_index", col |-> c], 0, a, txn, idx \cup {c})
DropIndex(c) == WithDDL /\ txn = <<>> /\ c \in idx /\ StepX([k |-> "drop_index", col |-> c], 0, a, txn, idx \ {c})
DDL == \E c \in {"a", "pad", "c"} : (\E w \in 1..4 : CreateIndex(c)) \/ (\E w \in 1..2 : DropIndex(c))
FillRun == FALSE

Next == DDL \/ FillRun \/ (\E w \in 1..3 : PadGrow) \/ PadShrink \/ DeleteBig \/ InsertRun \/ InsertRun \/ DeleteRange \/ DeleteEq \/ UpdateRange \/ (\E w \in 1..(IF WithDDL THEN 6 ELSE 40) : Reopen)
        \/ (\E w \in 1..160 : Begin) \/ (\E w \in 1..40 : Commit) \/ (\E w \in 1..40 : Rollback) \/ InsertBigInTxn
Spec == Init /\ [][Next]_vars

\* the model's own sanity: counts are consistent with the point view
CountsConsistent == Card(Present) >= Card({i \in Present : a[i] = 0}) + Card({i \in Present : a[i] = 3})
=============================================================================

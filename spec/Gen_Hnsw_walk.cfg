CONSTANTS Walk = TRUE  Levels = {0, 1}  MaxOps = 60  MaxNodes = 60  WithDelete = TRUE
CONSTANTS Ids <- MCIds  PointsOf <- MCPointsOf  NeighborCap <- MCNeighborCap  PageBudget <- MCPageBudget  SlotBytes <- MCSlotBytes
SPECIFICATION WSpec
INVARIANTS TypeOK EmitWalk
CHECK_DEADLOCK FALSE

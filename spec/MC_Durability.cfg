CONSTANTS Files = {"T", "I"}  Pages = {0, 1}  LoggedFiles = {"T"}  MaxStmts = 3  MaxMut = 5  SyncMode = "FULL"
SPECIFICATION Spec
INVARIANT C01_kill C01_power_logged NoRegressionOfAcked
CHECK_DEADLOCK FALSE

CONSTANTS PIds = {1, 2}  CIds = {1, 2}  Acts = {"noaction", "restrict", "cascade"}  MaxOps = 4  WithTxn = TRUE
SPECIFICATION Spec
VIEW view
INVARIANT ReferencesHold FailureIsNoOp
ACTION_CONSTRAINT Emit
CHECK_DEADLOCK FALSE

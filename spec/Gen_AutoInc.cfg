\* schedule enumeration: canonical generated values; every explored transition is printed
CONSTANTS MaxOps = 3  Far = 10  MaxId = 0  FreeGen = FALSE  WithTxn = TRUE  WithReopen = TRUE  WithBulk = TRUE  WithUpdate = TRUE
SPECIFICATION Spec
VIEW view
INVARIANTS PKUnique HeldSound GensIncrease GensNeverHeldBefore
ACTION_CONSTRAINT Emit
CHECK_DEADLOCK FALSE

----------------------------- MODULE PageLocks -----------------------------
(***************************************************************************)
(* Implementation-shaped spec of PageLockManager (src/database/            *)
(* page_locks.rs): a sharded map page -> lock entry with a reference       *)
(* count; guards unlock the entry and then clean the map up.               *)
(* pc labels = hook points `plock.*` in the code.                          *)
(*                                                                         *)
(* CleanupUnderLock = FALSE is the pinned code: the reference count is     *)
(* decremented OUTSIDE the shard lock and the map entry is removed BY PAGE *)
(* ID after re-checking the caller's own entry; TRUE is the repaired code  *)
(* (decrement and removal in one critical section).                        *)
(***************************************************************************)
EXTENDS Integers, Sequences, FiniteSets, TLC

CONSTANTS Threads, Pages, Tables, MaxEntries, MaxOpsPerThread, CleanupUnderLock

VARIABLES map,      \* [Pages -> 0..MaxEntries]  0 = no entry
          rc,       \* [1..MaxEntries -> Int]
          rd,       \* [1..MaxEntries -> SUBSET Threads] threads holding the RwLock for reading
          wr,       \* [1..MaxEntries -> SUBSET Threads] threads holding it for writing
          nextEnt,  \* next unused entry id
          tbl,      \* [Tables -> [is, ix]] intent counters; record absent = <<0,0>> and not in tblPresent
          tblPresent,
          pc, page, mode, ent,   \* per thread
          holdsTbl, \* [Threads -> Seq(<<table, kind>>)]
          nops,
          hist

vars == <<map, rc, rd, wr, nextEnt, tbl, tblPresent, pc, page, mode, ent, holdsTbl, nops, hist>>
view == <<map, rc, rd, wr, nextEnt, tbl, tblPresent, pc, page, mode, ent, holdsTbl, nops>>

Ent == 1..MaxEntries
NoPage == CHOOSE p : p \notin Pages

Init == /\ map = [p \in Pages |-> 0] /\ rc = [e \in Ent |-> 0]
        /\ rd = [e \in Ent |-> {}] /\ wr = [e \in Ent |-> {}] /\ nextEnt = 1
        /\ tbl = [t \in Tables |-> <<0, 0>>] /\ tblPresent = {}
        /\ pc = [t \in Threads |-> "idle"] /\ page = [t \in Threads |-> 0]
        /\ mode = [t \in Threads |-> "-"] /\ ent = [t \in Threads |-> 0]
        /\ holdsTbl = [t \in Threads |-> <<>>] /\ nops = [t \in Threads |-> 0] /\ hist = <<>>

Log(t, a, arg, blocked) == hist' = Append(hist, [t |-> t, a |-> a, arg |-> arg, next |-> pc'[t],
                                   entries |-> Cardinality({p \in Pages : map'[p] # 0}), tables |-> Cardinality(tblPresent')])

(* page_read / page_write, first critical section: shard.get_or_create *)
StartLock(t, p, m) ==
    /\ pc[t] = "idle" /\ nops[t] < MaxOpsPerThread
    /\ IF map[p] # 0
         THEN /\ rc' = [rc EXCEPT ![map[p]] = @ + 1] /\ ent' = [ent EXCEPT ![t] = map[p]]
              /\ UNCHANGED <<map, nextEnt>>
         ELSE /\ nextEnt <= MaxEntries
              /\ map' = [map EXCEPT ![p] = nextEnt] /\ rc' = [rc EXCEPT ![nextEnt] = 1]
              /\ ent' = [ent EXCEPT ![t] = nextEnt] /\ nextEnt' = nextEnt + 1
    /\ page' = [page EXCEPT ![t] = p] /\ mode' = [mode EXCEPT ![t] = m]
    /\ pc' = [pc EXCEPT ![t] = "got_entry"] /\ nops' = [nops EXCEPT ![t] = @ + 1]
    /\ UNCHANGED <<rd, wr, tbl, tblPresent, holdsTbl>>
    /\ Log(t, "lock", [page |-> p, mode |-> m], FALSE)

(* entry.lock.read() / write(): blocking is disabledness *)
CanAcquire(t) == IF mode[t] = "w" THEN rd[ent[t]] = {} /\ wr[ent[t]] = {} ELSE wr[ent[t]] = {}
Acquire(t) ==
    /\ pc[t] = "got_entry" /\ CanAcquire(t)
    /\ IF mode[t] = "w" THEN wr' = [wr EXCEPT ![ent[t]] = @ \cup {t}] /\ rd' = rd
                        ELSE rd' = [rd EXCEPT ![ent[t]] = @ \cup {t}] /\ wr' = wr
    /\ pc' = [pc EXCEPT ![t] = "held"]
    /\ UNCHANGED <<map, rc, nextEnt, tbl, tblPresent, page, mode, ent, holdsTbl, nops>>
    /\ Log(t, "acquire", [page |-> page[t], mode |-> mode[t]], FALSE)

(* guard drop, part 1: force_unlock_* *)
Unlock(t) ==
    /\ pc[t] = "held"
    /\ rd' = [rd EXCEPT ![ent[t]] = @ \ {t}] /\ wr' = [wr EXCEPT ![ent[t]] = @ \ {t}]
    /\ pc' = [pc EXCEPT ![t] = "unlocked"]
    /\ UNCHANGED <<map, rc, nextEnt, tbl, tblPresent, page, mode, ent, holdsTbl, nops>>
    /\ Log(t, "unlock", [page |-> page[t], mode |-> mode[t]], FALSE)

Finish(t) == /\ page' = [page EXCEPT ![t] = 0] /\ mode' = [mode EXCEPT ![t] = "-"] /\ ent' = [ent EXCEPT ![t] = 0]

(* guard drop, part 2 (pinned code): entry.release() outside the shard lock *)
RcDec(t) ==
    /\ ~CleanupUnderLock /\ pc[t] = "unlocked"
    /\ rc' = [rc EXCEPT ![ent[t]] = @ - 1]
    /\ IF rc[ent[t]] = 1
         THEN pc' = [pc EXCEPT ![t] = "cleanup_pending"] /\ UNCHANGED <<page, mode, ent>>
         ELSE pc' = [pc EXCEPT ![t] = "idle"] /\ Finish(t)
    /\ UNCHANGED <<map, rd, wr, nextEnt, tbl, tblPresent, holdsTbl, nops>>
    /\ Log(t, "rc_dec", [page |-> page[t]], FALSE)

(* guard drop, part 3 (pinned code): lock the map; if OWN entry's count is 0 remove BY PAGE ID *)
CleanupPinned(t) ==
    /\ ~CleanupUnderLock /\ pc[t] = "cleanup_pending"
    /\ map' = IF rc[ent[t]] = 0 THEN [map EXCEPT ![page[t]] = 0] ELSE map
    /\ pc' = [pc EXCEPT ![t] = "idle"] /\ Finish(t)
    /\ UNCHANGED <<rc, rd, wr, nextEnt, tbl, tblPresent, holdsTbl, nops>>
    /\ Log(t, "cleanup", [page |-> page[t]], FALSE)

(* guard drop, parts 2+3 (repaired code): one critical section *)
CleanupRepaired(t) ==
    /\ CleanupUnderLock /\ pc[t] = "unlocked"
    /\ rc' = [rc EXCEPT ![ent[t]] = @ - 1]
    /\ map' = IF rc[ent[t]] = 1 /\ map[page[t]] = ent[t] THEN [map EXCEPT ![page[t]] = 0] ELSE map
    /\ pc' = [pc EXCEPT ![t] = "idle"] /\ Finish(t)
    /\ UNCHANGED <<rd, wr, nextEnt, tbl, tblPresent, holdsTbl, nops>>
    /\ Log(t, "cleanup", [page |-> page[t]], FALSE)

(* table intent locks: one critical section each *)
TableAcquire(t, tb, k) ==
    /\ pc[t] = "idle" /\ nops[t] < MaxOpsPerThread /\ Len(holdsTbl[t]) < 1
    /\ tbl' = [tbl EXCEPT ![tb] = IF k = "is" THEN <<@[1] + 1, @[2]>> ELSE <<@[1], @[2] + 1>>]
    /\ tblPresent' = tblPresent \cup {tb}
    /\ holdsTbl' = [holdsTbl EXCEPT ![t] = Append(@, <<tb, k>>)]
    /\ nops' = [nops EXCEPT ![t] = @ + 1]
    /\ UNCHANGED <<map, rc, rd, wr, nextEnt, pc, page, mode, ent>>
    /\ Log(t, "table_acquire", [table |-> tb, kind |-> k], FALSE)

TableRelease(t) ==
    /\ pc[t] = "idle" /\ holdsTbl[t] # <<>>
    /\ LET tb == holdsTbl[t][1][1]  k == holdsTbl[t][1][2]
           new == IF k = "is" THEN <<tbl[tb][1] - 1, tbl[tb][2]>> ELSE <<tbl[tb][1], tbl[tb][2] - 1>>
       IN /\ tbl' = [tbl EXCEPT ![tb] = new]
          /\ tblPresent' = IF new = <<0, 0>> THEN tblPresent \ {tb} ELSE tblPresent
    /\ holdsTbl' = [holdsTbl EXCEPT ![t] = Tail(@)]
    /\ UNCHANGED <<map, rc, rd, wr, nextEnt, pc, page, mode, ent, nops>>
    /\ Log(t, "table_release", [table |-> 0, kind |-> "-"], FALSE)

Next == \E t \in Threads :
          \/ \E p \in Pages, m \in {"r", "w"} : StartLock(t, p, m)
          \/ Acquire(t) \/ Unlock(t) \/ RcDec(t) \/ CleanupPinned(t) \/ CleanupRepaired(t)
          \/ \E tb \in Tables, k \in {"is", "ix"} : TableAcquire(t, tb, k)
          \/ TableRelease(t)

Spec == Init /\ [][Next]_vars
Progress(t) == Acquire(t) \/ Unlock(t) \/ RcDec(t) \/ CleanupPinned(t) \/ CleanupRepaired(t) \/ TableRelease(t)
FairSpec == Spec /\ \A t \in Threads : WF_vars(Progress(t))

(* ------------------------------- C36 ------------------------------- *)
HoldersW(p) == {t \in Threads : pc[t] = "held" /\ page[t] = p /\ mode[t] = "w"}
HoldersR(p) == {t \in Threads : pc[t] = "held" /\ page[t] = p /\ mode[t] = "r"}
\* exclusion is per PAGE, whatever entry objects the holders went through
MutexW == \A p \in Pages : Cardinality(HoldersW(p)) <= 1
NoRW   == \A p \in Pages : HoldersW(p) = {} \/ HoldersR(p) = {}
AllIdle == \A t \in Threads : pc[t] = "idle" /\ holdsTbl[t] = <<>>
TablesEmptyWhenIdle == AllIdle => (\A p \in Pages : map[p] = 0) /\ tblPresent = {}
RcNonNegative == \A e \in Ent : rc[e] >= 0
\* every acquisition eventually succeeds once conflicting holders release
AcquireSucceeds == \A t \in Threads : pc[t] = "got_entry" ~> pc[t] = "held"
=============================================================================

CONSTANTS Budget = 1  VBudget = 1  JunkTokens = {"-"}  MaxMut = 0  Starts = {"<QExpr>", "<Pragma>", "<Set>"}  DeepN = {8}  MutMaxLen = 60  MaxLen = 200
SPECIFICATION Spec
INVARIANT TypeOK Balanced KeywordLed Bounded
ACTION_CONSTRAINT Emit
CHECK_DEADLOCK FALSE

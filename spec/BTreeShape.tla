----------------------------- MODULE BTreeShape -----------------------------
(***************************************************************************)
(* C29 - B-tree pages stay structurally valid.                             *)
(*                                                                         *)
(* WellFormed(t) over an ABSTRACT TREE RECORD projected from the real      *)
(* pages (harness/src/btree.rs `project`, through the public LeafNode /    *)
(* InteriorNode accessors):                                                *)
(*                                                                         *)
(*   t = [root |-> page number,                                            *)
(*        pages |-> << [no, kind, keys, children, next,                    *)
(*                      freeStart, freeEnd, cells], ... >>]                *)
(*                                                                         *)
(*   kind       "leaf" | "interior" | "other" (any other page type)        *)
(*   keys       slot order; each key an RLE byte string (ByteKeys)         *)
(*   children   interior: child of slot 1..n, then the right child         *)
(*   next       leaf: next_leaf (0 = none)                                 *)
(*   cells      slot order; <<off, len>> extent of the cell in the page    *)
(*              (leaf: key + value length varint + value; interior: key)   *)
(*   pages      every page reachable from the root through child pointers  *)
(*              and next_leaf pointers that lies inside the file           *)
(*                                                                         *)
(* Every clause of the property is a separate named conjunct, so that a    *)
(* violation names the clause.  All clauses are total: they evaluate on    *)
(* arbitrarily broken trees (dangling pointers, cycles) without a TLC      *)
(* error; recursion is bounded by the number of pages.                     *)
(***************************************************************************)
EXTENDS ByteKeys

PageSize == 16384
LeafContentStart == 24     \* page header 16 + leaf header 8 (leaf.rs LEAF_CONTENT_START)
LeafSlotSize == 8
IntContentStart == 16      \* interior.rs INTERIOR_CONTENT_START
IntSlotSize == 12

Nos(t) == {t.pages[i].no : i \in DOMAIN t.pages}
Has(t, n) == n \in Nos(t)
Page(t, n) == t.pages[CHOOSE i \in DOMAIN t.pages : t.pages[i].no = n]
Fuel(t) == Len(t.pages) + 1
IsLeaf(t, n) == Has(t, n) /\ Page(t, n).kind = "leaf"
IsInt(t, n) == Has(t, n) /\ Page(t, n).kind = "interior"
SeqToSet(s) == {s[i] : i \in DOMAIN s}

\* ---- traversal by child pointers, bounded by fuel (cycles / dangling pointers end the descent)
RECURSIVE SubKeys(_, _, _)        \* every key stored in the subtree of page n (separators included)
SubKeys(t, n, fuel) ==
  IF fuel = 0 \/ ~Has(t, n) THEN {}
  ELSE LET p == Page(t, n) IN
       SeqToSet(p.keys) \cup
       (IF p.kind = "interior" THEN UNION {SubKeys(t, p.children[i], fuel - 1) : i \in DOMAIN p.children} ELSE {})

RECURSIVE LeafDepths(_, _, _, _)  \* depths at which the descent ends (leaf, or anything that is not interior)
LeafDepths(t, n, d, fuel) ==
  IF fuel = 0 \/ ~IsInt(t, n) THEN {d}
  ELSE UNION {LeafDepths(t, Page(t, n).children[i], d + 1, fuel - 1) : i \in DOMAIN Page(t, n).children}

RECURSIVE InOrderLeaves(_, _, _)  \* leaf page numbers left to right
InOrderLeaves(t, n, fuel) ==
  IF fuel = 0 \/ ~Has(t, n) THEN <<>>
  ELSE LET p == Page(t, n) IN
       IF p.kind = "leaf" THEN <<n>>
       ELSE IF p.kind = "interior"
            THEN Flatten([i \in DOMAIN p.children |-> InOrderLeaves(t, p.children[i], fuel - 1)])
            ELSE <<>>

RECURSIVE Chain(_, _, _)          \* pages visited by following next_leaf from page n (a pointer out of the file ends
Chain(t, n, fuel) ==              \* the chain: that is KindsOk's business; a page that is not a leaf is visited and ends it)
  IF n = 0 \/ fuel = 0 \/ ~Has(t, n) THEN <<>>
  ELSE IF ~IsLeaf(t, n) THEN <<n>>
  ELSE <<n>> \o Chain(t, Page(t, n).next, fuel - 1)

RECURSIVE Dedup(_, _)             \* first occurrences, in order
Dedup(s, seen) ==
  IF s = <<>> THEN <<>>
  ELSE IF s[1] \in seen THEN Dedup(Tail(s), seen) ELSE <<s[1]>> \o Dedup(Tail(s), seen \cup {s[1]})

ChildRefs(t) ==   \* all child pointers as <<parent, index, child>>
  UNION { {<<t.pages[i].no, j, t.pages[i].children[j]>> : j \in DOMAIN t.pages[i].children}
          : i \in {x \in DOMAIN t.pages : t.pages[x].kind = "interior"} }

\* ---------------------------------------------------------------- the clauses of C29
\* every reachable page is a B-tree page and every pointer leads to a page of the file
KindsOk(t) ==
  /\ Has(t, t.root)
  /\ \A i \in DOMAIN t.pages :
       LET p == t.pages[i] IN
       /\ p.kind \in {"leaf", "interior"}
       /\ p.kind = "interior" => \A j \in DOMAIN p.children : Has(t, p.children[j])
       /\ p.kind = "leaf" => (p.next = 0 \/ Has(t, p.next))

\* the slot area starts right after the header(s), holds exactly the slots, and ends before the cell area
SlotAreaOk(t) ==
  \A i \in DOMAIN t.pages :
    LET p == t.pages[i]
        n == Len(p.keys) IN
    p.kind \in {"leaf", "interior"} =>
      /\ Len(p.cells) = n
      /\ p.freeStart = (IF p.kind = "leaf" THEN LeafContentStart + n * LeafSlotSize ELSE IntContentStart + n * IntSlotSize)
      /\ p.freeStart <= p.freeEnd
      /\ p.freeEnd <= PageSize
      /\ p.kind = "interior" => Len(p.children) = n + 1

\* every cell lies in the cell area [freeEnd, PageSize)
CellsInside(t) ==
  \A i \in DOMAIN t.pages :
    \A c \in DOMAIN t.pages[i].cells :
      LET cell == t.pages[i].cells[c] IN
      /\ cell[2] >= 0
      /\ t.pages[i].freeEnd <= cell[1]
      /\ cell[1] + cell[2] <= PageSize

\* cells of one page do not overlap
CellsDisjoint(t) ==
  \A i \in DOMAIN t.pages :
    \A a, b \in DOMAIN t.pages[i].cells :
      a < b => LET x == t.pages[i].cells[a]  y == t.pages[i].cells[b] IN
               x[1] + x[2] <= y[1] \/ y[1] + y[2] <= x[1]

\* keys within a node are strictly increasing
KeysIncreasing(t) ==
  \A i \in DOMAIN t.pages :
    \A a \in 1..(Len(t.pages[i].keys) - 1) : RleLess(t.pages[i].keys[a], t.pages[i].keys[a + 1])

\* separator j of an interior page is a strict upper bound of child j and a lower bound of child j+1
SeparatorsBound(t) ==
  \A i \in DOMAIN t.pages :
    LET p == t.pages[i] IN
    p.kind = "interior" =>
      \A j \in DOMAIN p.keys :
        /\ j \in DOMAIN p.children => \A k \in SubKeys(t, p.children[j], Fuel(t)) : RleLess(k, p.keys[j])
        /\ (j + 1) \in DOMAIN p.children => \A k \in SubKeys(t, p.children[j + 1], Fuel(t)) : RleLeq(p.keys[j], k)

\* all leaves at the same depth
UniformDepth(t) == Cardinality(LeafDepths(t, t.root, 0, Fuel(t))) <= 1

\* the leaf chain from the leftmost leaf visits exactly the leaves of the tree, each once, in key (left to right) order
\* (a leaf hanging under two parents is NoSharing's business: it counts once here)
LeafChain(t) ==
  LET inorder == Dedup(InOrderLeaves(t, t.root, Fuel(t)), {}) IN
  IF inorder = <<>> THEN TRUE ELSE Chain(t, inorder[1], Fuel(t) + 1) = inorder

\* no page is reachable twice: every page has at most one parent pointer, the root has none
NoSharing(t) ==
  /\ \A r1, r2 \in ChildRefs(t) : r1[3] = r2[3] => r1 = r2
  /\ \A r \in ChildRefs(t) : r[3] # t.root

ClauseNames == {"KindsOk", "SlotAreaOk", "CellsInside", "CellsDisjoint", "KeysIncreasing",
                "SeparatorsBound", "UniformDepth", "LeafChain", "NoSharing"}

Holds(c, t) ==
  CASE c = "KindsOk" -> KindsOk(t)
    [] c = "SlotAreaOk" -> SlotAreaOk(t)
    [] c = "CellsInside" -> CellsInside(t)
    [] c = "CellsDisjoint" -> CellsDisjoint(t)
    [] c = "KeysIncreasing" -> KeysIncreasing(t)
    [] c = "SeparatorsBound" -> SeparatorsBound(t)
    [] c = "UniformDepth" -> UniformDepth(t)
    [] c = "LeafChain" -> LeafChain(t)
    [] c = "NoSharing" -> NoSharing(t)

WellFormed(t) == \A c \in ClauseNames : Holds(c, t)
Failed(t) == {c \in ClauseNames : ~Holds(c, t)}

\* the ordered content of a well-formed tree: entries of the leaves in chain order (used to tie C29 to C28)
LeafKeysInOrder(t) == Flatten([i \in DOMAIN InOrderLeaves(t, t.root, Fuel(t)) |-> Page(t, InOrderLeaves(t, t.root, Fuel(t))[i]).keys])
=============================================================================

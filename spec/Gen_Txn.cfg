CONSTANTS Handles = {0, 1}  Ids = {1, 2}  MaxOps = 4  MaxKeys = 4  Starts = {"plain", "both_in_txn"}
SPECIFICATION Spec
VIEW view
INVARIANT SequentialWhenAutocommit SerialWhenAlone OwnWritesVisible RefNoDirtyRead RefNoLostUpdate
ACTION_CONSTRAINT Emit
CHECK_DEADLOCK FALSE

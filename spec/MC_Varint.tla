----------------------------- MODULE MC_Varint -----------------------------
(***************************************************************************)
(* C27 conformance vectors.  TLC evaluates Enc / Dec / LenOf of Varint.tla *)
(* (the definitions proved correct in proofs/Varint_proofs.tla) on          *)
(*   - every branch boundary -2..+2 and every power of two (+-1),           *)
(*   - every value below 2^16 (thorough) / below 4096 plus one residue     *)
(*     class (quick),                                                      *)
(*   - a seeded stride through the whole 64-bit range,                      *)
(*   - every first byte 0..255 x every length 0..10 x five fillers,         *)
(* checks the property predicates on each vector itself (an oracle bug     *)
(* shows up here, not as an alarm) and prints value, expected bytes,       *)
(* expected length / decode result.  harness/src/codec.rs runs the same    *)
(* inputs through encode_varint / varint_len / decode_varint.              *)
(***************************************************************************)
EXTENDS Varint, TLC, Json

CONSTANTS Seed,       \* from VERIF_SEED: moves the stride and the random filler
          StrideN,    \* number of stride points
          SmallMod    \* 1: every value below 2^16; m > 1: all below 4096 plus the residue class Seed mod m

Zero == <<0, 0, 0, 0>>
None == <<>>

(* d + k for a small integer k (possibly negative); None when outside 0..2^64-1.  TLC's \div and % *)
(* are floor division / non-negative remainder, which is what borrow propagation needs.            *)
AddK(d, k) ==
  LET s4 == d[4] + k
      s3 == d[3] + (s4 \div 65536)
      s2 == d[2] + (s3 \div 65536)
      s1 == d[1] + (s2 \div 65536)
  IN IF s1 < 0 \/ s1 > 65535 THEN None
     ELSE <<s1, s2 % 65536, s3 % 65536, s4 % 65536>>

(* the thresholds of the case split, the digit borders and the ends of the range *)
Boundaries == { Zero,
                <<0, 0, 0, 240>>, <<0, 0, 0, 241>>, <<0, 0, 0, 2287>>, <<0, 0, 0, 2288>>,
                <<0, 0, 0, 65535>>, <<0, 0, 1, 0>>, <<0, 0, 1, 2287>>, <<0, 0, 1, 2288>>,
                <<0, 0, 255, 65535>>, <<0, 0, 256, 0>>, <<0, 0, 65535, 65535>>, <<0, 1, 0, 0>>,
                <<0, 65535, 65535, 65535>>, <<1, 0, 0, 0>>, <<32767, 65535, 65535, 65535>>,
                <<32768, 0, 0, 0>>, <<65535, 65535, 65535, 65535>> }
BoundaryCases == { AddK(b, k) : b \in Boundaries, k \in -2..2 } \ {None}

RECURSIVE Pow2(_)
Pow2(i) == IF i = 0 THEN 1 ELSE 2 * Pow2(i - 1)
Bit(p, i) == [j \in 1..4 |-> IF j = p THEN Pow2(i) ELSE 0]
PowerCases == { AddK(Bit(p, i), k) : p \in 1..4, i \in 0..15, k \in {-1, 0, 1} } \ {None}

(* alternating / repeated byte patterns: catch byte-order and shift mistakes *)
PatternCases == { <<258, 772, 1286, 1800>>,         \* 0x0102030405060708
                  <<65280, 65280, 65280, 65280>>,   \* 0xFF00FF00FF00FF00
                  <<255, 255, 255, 255>>,           \* 0x00FF00FF00FF00FF
                  <<0, 0, 258, 772>>,               \* 0x01020304
                  <<0, 0, 1, 515>>,                 \* 0x010203
                  <<0, 0, 43981, 61185>>,           \* 0xABCDEF01
                  <<4660, 22136, 39612, 57072>> }   \* 0x123456789ABCDEF0

SmallVals == { y \in 0..65535 : y < 4096 \/ y % SmallMod = Seed % SmallMod }
Small16Cases == { <<0, 0, 0, x>> : x \in SmallVals }

(* seeded stride: the four digits advance with different odd multipliers, so all byte positions vary *)
StrideAt(i) == << (i * 40503 + Seed * 7919 + 11) % 65536, (i * 30011 + Seed * 104729 + 7) % 65536,
                  (i * 12345 + Seed * 1299709 + 3) % 65536, (i * 54321 + Seed * 15485863 + 1) % 65536 >>
(* and a second family with 0, 1 or 2 leading zero digits (the 5-byte and small 9-byte values) *)
StrideLow(i) == LET s == StrideAt(i) IN
                  IF i % 3 = 0 THEN <<0, 0, s[3], s[4]>> ELSE IF i % 3 = 1 THEN <<0, s[2] % 256, s[3], s[4]>>
                  ELSE <<0, 0, s[3] % 512, s[4]>>
StrideCases == { StrideAt(i) : i \in 0..(StrideN - 1) } \cup { StrideLow(i) : i \in 0..(StrideN - 1) }

EncCases == BoundaryCases \cup PowerCases \cup PatternCases \cup StrideCases
EncCasesAll == EncCases \cup Small16Cases

(* ---------------------------------------------------------------- decode inputs *)
Filler(kind, i, f) ==
  CASE kind = "00"   -> 0
    [] kind = "7F"   -> 127
    [] kind = "FF"   -> 255
    [] kind = "ramp" -> (17 * i + f) % 256                         \* every position different
    [] kind = "rand" -> ((i * 197 + f * 31 + Seed * 101) * 73 + 41) % 256
Fillers == {"00", "7F", "FF", "ramp", "rand"}
Str(f, len, kind) == [i \in 1..len |-> IF i = 1 THEN f ELSE Filler(kind, i, f)]
DecCases == { Str(f, len, kind) : f \in 0..255, len \in 1..10, kind \in Fillers } \cup { <<>> }

(* tails appended to a complete encoding: the decoder must stop after LenOf(d) bytes *)
Tails == { <<>>, <<0>>, <<255>>, <<255, 255, 255, 255, 255, 255, 255, 255, 255>>, <<1, 2, 3>> }

(* ---------------------------------------------------------------- meta-checks on the oracle itself *)
EncOK(d) == d \in U64 /\ RoundTripAt(d) /\ CanonicalLenAt(d) /\ (d[4] % 16 = 0 \/ d[1] > 0 => \A t \in Tails : EncThenTailAt(d, t))
DecOK(b) == DecTotalAt(b) /\ DecPrefixAt(b)
             /\ (Dec(b).ok => /\ Enc(Dec(b).val) \in Seq(Byte)
                              /\ RoundTripAt(Dec(b).val))

(* ---------------------------------------------------------------- emission *)
EncRec(d) == [k |-> "enc", d |-> d, bytes |-> Enc(d), len |-> LenOf(d)]
DecRec(b) == [k |-> "dec", b |-> b, r |-> Dec(b)]

(* The work is cut into independent parts (one initial state each) so that TLC's workers share it. *)
Parts == 0..12
EncPart(p) == IF p = 0 THEN EncCases ELSE { <<0, 0, 0, x>> : x \in { y \in SmallVals : (y \div 16) % 8 = p - 1 } }
DecPart(p) == { Str(f, len, kind) : f \in { g \in 0..255 : g % 4 = p - 9 }, len \in 1..10, kind \in Fillers }
                \cup (IF p = 9 THEN { <<>> } ELSE {})

VARIABLES part, done
Init == part \in Parts /\ done = FALSE
Next == /\ done = FALSE /\ done' = TRUE /\ part' = part
        /\ IF part <= 8
           THEN \A d \in EncPart(part) : Assert(EncOK(d), <<"oracle meta-check failed (enc)", d>>) /\ PrintT(<<"T", ToJson(EncRec(d))>>)
           ELSE \A b \in DecPart(part) : Assert(DecOK(b), <<"oracle meta-check failed (dec)", b>>) /\ PrintT(<<"T", ToJson(DecRec(b))>>)
Spec == Init /\ [][Next]_<<part, done>>

(* non-vacuity, checked by TLC: every encoded length and every decode outcome class is generated *)
LenClasses == { LenOf(d) : d \in EncCases }
DecClasses == { IF Dec(b).ok THEN <<"ok", Dec(b).n>> ELSE <<Dec(b).err, Dec(b).need>> : b \in DecCases }
ASSUME LenClasses = {1, 2, 3, 4, 5, 9}
ASSUME {c \in DecClasses : c[1] = "ok"} = {<<"ok", n>> : n \in {1, 2, 3, 4, 5, 9}}
ASSUME {<<"empty", 1>>, <<"truncated", 2>>, <<"truncated", 3>>, <<"truncated", 4>>, <<"truncated", 5>>, <<"truncated", 9>>,
        <<"marker", 252>>, <<"marker", 253>>, <<"marker", 254>>} \subseteq DecClasses
=============================================================================

CONSTANTS Threads = {1, 2}  MaxCommitsPerThread = 2  MayFail = TRUE  TakeOnlyAsLeader = TRUE
SPECIFICATION FairSpec
VIEW view
INVARIANTS AtMostOnce NoStuckFlag AckAfterWrite FailureReachesAll
PROPERTY NoLostWakeup
CHECK_DEADLOCK FALSE

CONSTANTS Ids = {1, 2, 3}  MaxOps = 12  WithTxn = TRUE  WithReopen = TRUE  Configs = {}
CONSTANTS AVals <- MCAVals  BVals <- MCBVals
SPECIFICATION WSpec
VIEW view
INVARIANT ConstraintsHold
ACTION_CONSTRAINT Emit
CHECK_DEADLOCK FALSE

CONSTANTS Bound = 3  Ns = {}  Ls = {}  Dense = FALSE  MetaMax = 0
SPECIFICATION SpecSub
INVARIANTS EmitSet MetaSet
CHECK_DEADLOCK FALSE

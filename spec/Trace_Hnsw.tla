----------------------------- MODULE Trace_Hnsw -----------------------------
(* Observed search results (ndjson file named by the environment variable OBS; one record                   *)
(* {live:[ids], vecs:[[..]..], nodes, R, q, k, ef} per line) judged by the predicate of Hnsw.tla.          *)
(* Used to cross-check the Rust mirror of ValidSearch: TLC prints the failed clauses of every observation. *)
EXTENDS Hnsw, Json, IOUtils
VARIABLE c
TPointsOf(i) == {}
TSlotBytes(l) == 0
Obs == ndJsonDeserialize(IOEnv.OBS)
Grp(k) == [g |-> TRUE, key |-> k]
Case(x) == [g |-> FALSE, v |-> x]
\* the variables of Hnsw.tla are not used here: they stay at their initial values
InitO == Init /\ c \in {Grp(i) : i \in 0..((Len(Obs) - 1) \div 50)}
NextO == c.g /\ c' \in {Case(i) : i \in {j \in 1..Len(Obs) : (j - 1) \div 50 = c.key}} /\ UNCHANGED <<abstract, ghost, hist>>
Judge(o) == LET L == Range(o.live)
                V == [i \in L |-> o.vecs[CHOOSE j \in 1..Len(o.live) : o.live[j] = i]]
            IN  FailedClausesIn(L, V, o.nodes, o.R, o.q, o.k, o.ef)
EmitO == c.g \/ PrintT(<<"T", ToJson([i |-> c.v, failed |-> Judge(Obs[c.v])])>>)
=============================================================================

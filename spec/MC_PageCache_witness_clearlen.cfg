\* witness: the code as it is must violate BudgetZeroWhenEmpty in the fine-grained model without any init error
\* (get_or_insert between clear's len() and its budget.release)
CONSTANTS Threads = {t1, t2}  KA = {k1, k2}  KB = {}  Cap = 2  MaxCalls = 2  MaxHeld = 2  Fine = TRUE  InitMayFail = FALSE
          BudgetPages = 3  Ballast = 30  ClearKeepsPinned = FALSE  ClearCountsUnderLock = FALSE  ReleaseOnInitError = FALSE
CONSTANT Keys <- KeysAll  ShardOf <- ShardsOneTwo
SYMMETRY Sym
SPECIFICATION Spec
VIEW view
INVARIANTS BudgetZeroWhenEmpty
CHECK_DEADLOCK FALSE

------------------------------ MODULE Subquery ------------------------------
(***************************************************************************)
(* C18 - subqueries and set operations, as SQL defines them.               *)
(*                                                                         *)
(* Tables t, s, u are bags of rows <<k, v>> over a tiny universe with NULL *)
(* (N), duplicates and empty tables.  A query is a tree:                   *)
(*                                                                         *)
(*   Sel(from, where, proj, agg)   SELECT proj FROM from WHERE where       *)
(*       from  = Base(name) | Derived(query, alias)                        *)
(*       where = conjunction (sequence) of predicates                      *)
(*       agg   = "none" | "max" | "min" | "count" (one output row)         *)
(*   SetOp(op, all, l, r)          l UNION|INTERSECT|EXCEPT [ALL] r        *)
(*                                                                         *)
(* predicates: comparison, IS NULL, [NOT] IN (query), [NOT] EXISTS (query) *)
(* expressions: column of any enclosing query (correlation), constant,     *)
(*   scalar subquery, and - in a select list - a predicate as a value.     *)
(*                                                                         *)
(* Eval(q, env) gives [err, rows]: rows is a sequence (a bag; order is not *)
(* part of the meaning); err = "no" | "must" | "may".  "must": SQL demands *)
(* an error (a scalar subquery returned more than one row in a context     *)
(* that is evaluated); "may": the offending subquery does not depend on    *)
(* the outer row and the outer query has no row, so an implementation may  *)
(* or may not evaluate it - both outcomes are admissible.                  *)
(*                                                                         *)
(* Three-valued logic: x IN S is TRUE if some element equals x, else       *)
(* UNKNOWN if x is NULL and S is not empty or S contains a NULL, else      *)
(* FALSE; NOT IN is its negation (UNKNOWN stays UNKNOWN); EXISTS is never  *)
(* UNKNOWN; a scalar subquery with no row is NULL.  Set operations treat   *)
(* NULLs as not distinct.                                                  *)
(***************************************************************************)
EXTENDS Integers, Sequences, FiniteSets, TLC

N == -99
CONSTANTS KeySeq, ValSeq
NK == Len(KeySeq)
NV == Len(ValSeq)
NR == NK * NV
RowK(x) == KeySeq[((x - 1) \div NV) + 1]
RowV(x) == ValSeq[((x - 1) % NV) + 1]
TablesOfLen(n) == {s \in [1..n -> 1..NR] : \A i \in 1..(n - 1) : s[i] <= s[i + 1]}
TablesUpTo(n) == UNION {TablesOfLen(m) : m \in 0..n}
RowsOf(tab) == [i \in DOMAIN tab |-> <<RowK(tab[i]), RowV(tab[i])>>]

(* ---------------- syntax ---------------- *)
Col(a, c) == [e |-> "col", a |-> a, c |-> c]              \* column c (1 = k, 2 = v) of the row bound to alias a
K(v) == [e |-> "const", v |-> v]
SQ(q) == [e |-> "sq", q |-> q]                            \* scalar subquery
PV(p) == [e |-> "pred", p |-> p]                          \* a predicate used as a value (select list)
Cmp(op, l, r) == [p |-> "cmp", op |-> op, l |-> l, r |-> r]
IsNull(l) == [p |-> "isnull", l |-> l]
In(neg, l, q) == [p |-> "in", neg |-> neg, l |-> l, q |-> q]
Exists(neg, q) == [p |-> "exists", neg |-> neg, q |-> q]
Base(name) == [t |-> "base", name |-> name, a |-> name, q |-> <<>>]
BaseAs(name, alias) == [t |-> "base", name |-> name, a |-> alias, q |-> <<>>]
Derived(q, alias) == [t |-> "derived", name |-> "", q |-> q, a |-> alias]
Sel(from, where, proj, agg) == [f |-> "sel", from |-> from, where |-> where, proj |-> proj, agg |-> agg]
SetOp(op, all, l, r) == [f |-> "setop", op |-> op, all |-> all, l |-> l, r |-> r]

(* ---------------- bags as sequences ---------------- *)
Range(s) == {s[i] : i \in DOMAIN s}
Count(s, x) == Cardinality({i \in DOMAIN s : s[i] = x})
RECURSIVE SetToSeq(_)
SetToSeq(S) == IF S = {} THEN <<>> ELSE LET x == CHOOSE x \in S : TRUE IN <<x>> \o SetToSeq(S \ {x})
RECURSIVE Repeat(_, _)
Repeat(x, n) == IF n <= 0 THEN <<>> ELSE <<x>> \o Repeat(x, n - 1)
RECURSIVE Flatten(_)
Flatten(ss) == IF ss = <<>> THEN <<>> ELSE Head(ss) \o Flatten(Tail(ss))
\* sequence with x repeated F(x) times for every x of S
Expand(S, F(_)) == Flatten([i \in 1..Cardinality(S) |-> LET x == SetToSeq(S)[i] IN Repeat(x, F(x))])
Min(a, b) == IF a < b THEN a ELSE b
Distinct(s) == SetToSeq(Range(s))
BagSetOp(op, all, l, r) ==
    CASE op = "union" /\ all      -> l \o r
      [] op = "union" /\ ~all     -> Distinct(l \o r)
      [] op = "intersect" /\ ~all -> SetToSeq(Range(l) \cap Range(r))
      [] op = "intersect" /\ all  -> Expand(Range(l) \cap Range(r), LAMBDA x : Min(Count(l, x), Count(r, x)))
      [] op = "except" /\ ~all    -> SetToSeq(Range(l) \ Range(r))
      [] op = "except" /\ all     -> Expand(Range(l), LAMBDA x : Count(l, x) - Count(r, x))
BagEq(s1, s2) == \A x \in Range(s1) \cup Range(s2) : Count(s1, x) = Count(s2, x)

(* ---------------- three-valued logic ---------------- *)
Not3(x) == CASE x = "T" -> "F" [] x = "F" -> "T" [] OTHER -> x
CmpVal(op, x, y) ==
    IF x = N \/ y = N THEN "U"
    ELSE CASE op = "eq" -> IF x = y THEN "T" ELSE "F"
           [] op = "ne" -> IF x # y THEN "T" ELSE "F"
           [] op = "lt" -> IF x < y THEN "T" ELSE "F"
           [] op = "gt" -> IF x > y THEN "T" ELSE "F"
InVal(x, vals) ==    \* vals: the sequence of values of the one-column subquery
    IF \E i \in DOMAIN vals : x # N /\ vals[i] = x THEN "T"
    ELSE IF vals = <<>> THEN "F"
    ELSE IF x = N \/ (\E i \in DOMAIN vals : vals[i] = N) THEN "U"
    ELSE "F"
And3(ts) == IF "F" \in ts THEN "F" ELSE IF "U" \in ts THEN "U" ELSE "T"
\* value of a predicate shown in a select list
BoolVal(t) == CASE t = "T" -> 1 [] t = "F" -> 0 [] OTHER -> N

(* ---------------- evaluation ---------------- *)
\* error levels: "no" < "may" < "must"
ErrMax(es) == IF "must" \in es THEN "must" ELSE IF "may" \in es THEN "may" ELSE "no"
Lookup(env, a) == LET i == CHOOSE i \in DOMAIN env : env[i].a = a /\ \A j \in 1..(i - 1) : env[j].a # a IN env[i].r

(* named deviations (kf is a set of names; {} is the reference semantics).  They describe defects found in TurDB
   and listed in known_findings.d/C18.json:
     in_two_valued           [NOT] IN is decided by "some non-NULL element equals x": never UNKNOWN, so NOT IN is
                             TRUE for a NULL left side and in spite of NULLs in the subquery
     select_subquery_null    a subquery (scalar, IN, EXISTS) in a select list always yields NULL
     scalar_first_row        a scalar subquery with more than one row yields its first row instead of an error
     null_eq_null            comparing two NULLs with = is TRUE (a scalar subquery without rows "equals" a NULL column)
     except_all_as_except    EXCEPT ALL is computed as EXCEPT (distinct)
     setop_right_assoc       a chain l op1 m op2 r is evaluated as l op1 (m op2 r) whatever the operators
     in_setop_first_branch   x IN (q1 UNION .. q2) only looks at q1
     in_derived_ignored      x [NOT] IN (SELECT .. FROM (derived table)) is TRUE for every row
     extra_conjunct_ignored  when a WHERE contains IN / EXISTS predicates, only the first of them is evaluated and
                             every other conjunct of that WHERE is ignored
     semi_join_residual_dropped  the WHERE of a subquery used by [NOT] IN is ignored; of the WHERE of a subquery used
                             by [NOT] EXISTS only the equalities with columns of enclosing queries are kept (when
                             there is at least one)
     intersect_all_left_multiplicity  INTERSECT ALL returns every left row that occurs on the right, as often as it
                             occurs on the left
     nested_pred_in_exists_ignored  in the subquery of an EXISTS that has no equality with an enclosing query, IN /
                             EXISTS conjuncts are ignored (comparisons are evaluated)
     agg_over_subquery_pred_null  MAX / MIN of a query whose WHERE contains IN / EXISTS is NULL *)
InVal2(x, vals) == IF \E i \in DOMAIN vals : x # N /\ vals[i] = x THEN "T" ELSE "F"
HasSubPred(w) == \E j \in DOMAIN w : w[j].p \in {"in", "exists"}
FirstSubPred(w) == LET j == CHOOSE j \in DOMAIN w : w[j].p \in {"in", "exists"} /\ \A i \in 1..(j - 1) : w[i].p \notin {"in", "exists"}
                   IN <<w[j]>>
\* equality between a column of the subquery's own table (alias a) and a column of an enclosing query
IsCorrEq(p, a) == /\ p.p = "cmp" /\ p.op = "eq" /\ p.l.e = "col" /\ p.r.e = "col"
                  /\ ((p.l.a = a /\ p.r.a # a) \/ (p.l.a # a /\ p.r.a = a))
\* the subquery as the semi-join code sees it
SemiIn(q) == IF q.f = "sel" THEN [q EXCEPT !.where = <<>>] ELSE q
HasCorrEq(q) == q.f = "sel" /\ (\E j \in DOMAIN q.where : IsCorrEq(q.where[j], q.from.a))
SemiExists(q) == IF HasCorrEq(q) THEN [q EXCEPT !.where = SelectSeq(q.where, LAMBDA p : IsCorrEq(p, q.from.a))] ELSE q
PlainExists(q) == IF q.f = "sel" /\ ~HasCorrEq(q) THEN [q EXCEPT !.where = SelectSeq(q.where, LAMBDA p : p.p \notin {"in", "exists"})] ELSE q
\* the tree a right-associating parser builds for a left-deep chain
RECURSIVE RightAssoc(_)
RightAssoc(q) == IF q.f = "setop" /\ q.l.f = "setop"
                 THEN RightAssoc([q.l EXCEPT !.r = [q EXCEPT !.l = q.l.r]])
                 ELSE q

RECURSIVE Eval(_, _, _, _), ExprVal(_, _, _, _, _), PredVal(_, _, _, _)
\* tabs: [t |-> .., s |-> .., u |-> ..] sequences of rows; env: sequence of [a |-> alias, r |-> row], innermost first
ExprVal(x, env, tabs, kf, insel) ==     \* -> [err, v]; insel: the expression stands in a select list
    CASE x.e = "col"   -> [err |-> "no", v |-> Lookup(env, x.a)[x.c]]
      [] x.e = "const" -> [err |-> "no", v |-> x.v]
      [] x.e = "sq"    -> IF insel /\ "select_subquery_null" \in kf THEN [err |-> "no", v |-> N]
                          ELSE LET r == Eval(x.q, env, tabs, kf)
                               IN IF r.err # "no" THEN [err |-> r.err, v |-> N]
                                  ELSE IF Len(r.rows) > 1
                                       THEN (IF "scalar_first_row" \in kf THEN [err |-> "no", v |-> r.rows[1][1]]
                                             ELSE [err |-> "must", v |-> N])
                                  ELSE IF Len(r.rows) = 0 THEN [err |-> "no", v |-> N]
                                  ELSE [err |-> "no", v |-> r.rows[1][1]]
      [] x.e = "pred"  -> IF insel /\ "select_subquery_null" \in kf THEN [err |-> "no", v |-> N]
                          ELSE LET r == PredVal(x.p, env, tabs, kf) IN [err |-> r.err, v |-> BoolVal(r.t)]
PredVal(p, env, tabs, kf) ==     \* -> [err, t]
    CASE p.p = "cmp" -> LET l == ExprVal(p.l, env, tabs, kf, FALSE)  r == ExprVal(p.r, env, tabs, kf, FALSE)
                        IN [err |-> ErrMax({l.err, r.err}),
                            t |-> IF "null_eq_null" \in kf /\ l.v = N /\ r.v = N /\ p.op = "eq" THEN "T" ELSE CmpVal(p.op, l.v, r.v)]
      [] p.p = "isnull" -> LET l == ExprVal(p.l, env, tabs, kf, FALSE) IN [err |-> l.err, t |-> IF l.v = N THEN "T" ELSE "F"]
      [] p.p = "in" -> LET l == ExprVal(p.l, env, tabs, kf, FALSE)
                           q0 == IF "in_setop_first_branch" \in kf /\ p.q.f = "setop" THEN p.q.l ELSE p.q
                           q1 == IF "semi_join_residual_dropped" \in kf THEN SemiIn(q0) ELSE q0
                           r == Eval(q1, env, tabs, kf)
                           vals == [i \in DOMAIN r.rows |-> r.rows[i][1]]
                           t0 == IF "in_two_valued" \in kf THEN InVal2(l.v, vals) ELSE InVal(l.v, vals)
                       IN IF "in_derived_ignored" \in kf /\ q1.f = "sel" /\ q1.from.t = "derived" THEN [err |-> "no", t |-> "T"]
                          ELSE [err |-> ErrMax({l.err, r.err}), t |-> IF p.neg THEN Not3(t0) ELSE t0]
      [] p.p = "exists" -> LET qa == IF "semi_join_residual_dropped" \in kf THEN SemiExists(p.q) ELSE p.q
                               qb == IF "nested_pred_in_exists_ignored" \in kf THEN PlainExists(qa) ELSE qa
                               r == Eval(qb, env, tabs, kf)
                               t == IF r.rows # <<>> THEN "T" ELSE "F"
                           IN [err |-> r.err, t |-> IF p.neg THEN Not3(t) ELSE t]
Eval(q0, env, tabs, kf) ==        \* -> [err, rows]
    IF q0.f = "setop"
    THEN LET q == IF "setop_right_assoc" \in kf THEN RightAssoc(q0) ELSE q0
             l == Eval(q.l, env, tabs, kf)  r == Eval(q.r, env, tabs, kf)
             all == IF "except_all_as_except" \in kf /\ q.op = "except" THEN FALSE ELSE q.all
             rows == IF "intersect_all_left_multiplicity" \in kf /\ q.op = "intersect" /\ q.all
                     THEN SelectSeq(l.rows, LAMBDA x : x \in Range(r.rows))
                     ELSE BagSetOp(q.op, all, l.rows, r.rows)
         IN [err |-> ErrMax({l.err, r.err}), rows |-> rows]
    ELSE LET q == q0
             src == IF q.from.t = "base" THEN [err |-> "no", rows |-> tabs[q.from.name]] ELSE Eval(q.from.q, env, tabs, kf)
             where == IF "extra_conjunct_ignored" \in kf /\ HasSubPred(q.where)
                      THEN FirstSubPred(q.where) ELSE q.where
             Env(i) == <<[a |-> q.from.a, r |-> src.rows[i]]>> \o env
             W(i) == [j \in DOMAIN where |-> PredVal(where[j], Env(i), tabs, kf)]
             \* conjuncts are evaluated for every input row (no short-circuit is assumed: the catalogue never puts a
             \* subquery that can fail behind another conjunct)
             werr == ErrMax(UNION {{W(i)[j].err : j \in DOMAIN where} : i \in DOMAIN src.rows})
             keep == SelectSeq([i \in DOMAIN src.rows |-> i], LAMBDA i : And3({W(i)[j].t : j \in DOMAIN where}) = "T")
             P(i) == [j \in DOMAIN q.proj |-> ExprVal(q.proj[j], Env(i), tabs, kf, TRUE)]
             perr == ErrMax(UNION {{P(keep[x])[j].err : j \in DOMAIN q.proj} : x \in DOMAIN keep})
             plain == [x \in DOMAIN keep |-> [j \in DOMAIN q.proj |-> P(keep[x])[j].v]]
             vals == {plain[x][1] : x \in DOMAIN plain} \ {N}
             aggrow == CASE q.agg = "count" -> <<Len(plain)>>
                         [] q.agg = "max" -> <<IF vals = {} THEN N ELSE CHOOSE m \in vals : \A y \in vals : y <= m>>
                         [] q.agg = "min" -> <<IF vals = {} THEN N ELSE CHOOSE m \in vals : \A y \in vals : y >= m>>
                         [] OTHER -> <<N>>
             \* a failing subquery that does not depend on the row: with no input row it is unspecified whether it is
             \* evaluated at all (probed with an all-NULL row)
             probe == IF src.rows = <<>> /\ q.from.t = "base"
                      THEN LET e == <<[a |-> q.from.a, r |-> <<N, N>>]>> \o env
                           IN ErrMax({PredVal(where[j], e, tabs, kf).err : j \in DOMAIN where}
                                     \cup {ExprVal(q.proj[j], e, tabs, kf, TRUE).err : j \in DOMAIN q.proj})
                      ELSE "no"
             err == ErrMax({src.err, werr, perr, IF probe = "no" THEN "no" ELSE "may"})
             aggdev == "agg_over_subquery_pred_null" \in kf /\ q.agg \in {"max", "min"} /\ HasSubPred(q.where)
         IN [err |-> err, rows |-> IF q.agg = "none" THEN plain ELSE IF aggdev THEN << <<N>> >> ELSE <<aggrow>>]
Ref(q, tabs) == Eval(q, <<>>, tabs, {})
=============================================================================

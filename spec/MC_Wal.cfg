\* exhaustive check of the repaired design; faults carved out only where the recorded findings apply
CONSTANTS Files = {0, 1}  Pages = {0, 1}  MaxSeg = 2  MaxOps = 4  MaxFaults = 1
          FixSeekOnOpen = TRUE  FixSeekOnTruncate = TRUE
SPECIFICATION Spec
VIEW view
INVARIANTS NoOverwriteNoPhantom ReplayExactOutsideKF CursorIsOffset
CHECK_DEADLOCK FALSE

----------------------------- MODULE MC_Lexical -----------------------------
EXTENDS Lexical, Json
Emit == done => PrintT(<<"T", ToJson([lex |-> case.lex, mut |-> case.mut, n |-> case.n, ctx |-> case.ctx, pieces |-> case.pieces, allowed |-> Allowed])>>)
=============================================================================

------------------------------ MODULE Freelist ------------------------------
(***************************************************************************)
(* The freelist of src/storage/freelist.rs.                                *)
(*   abstract state : free (set of pages released and not handed out)      *)
(*   trunk-shaped   : head, trunk[pg] = [next, ents], freeCount            *)
(* Release(p) / Allocate are the two public calls. ReturnTrunk selects the *)
(* treatment of an EMPTY head trunk in allocate():                         *)
(*   FALSE (pinned code): skip it (head := next) - the trunk page itself   *)
(*         is counted in freeCount but never handed out; with head = 0 and *)
(*         freeCount > 0 the next allocate reads page 0 as a trunk         *)
(*   TRUE  (repaired code): the empty trunk page is itself handed out.     *)
(***************************************************************************)
EXTENDS Integers, Sequences, FiniteSets, TLC

CONSTANTS Pages,       \* page numbers that may be released, e.g. 1..6 (0 is the file header, never free)
          TrunkMax,    \* entries per trunk (4090 in the code)
          MaxOps,
          ReturnTrunk

VARIABLES free, head, trunk, freeCount, outstanding, garbage, nops, hist
vars == <<free, head, trunk, freeCount, outstanding, garbage, nops, hist>>
view == <<free, head, trunk, freeCount, outstanding, garbage, nops>>

NoTrunk == [next |-> 0, ents |-> <<>>]

Init == /\ free = {} /\ head = 0 /\ trunk = [p \in Pages |-> NoTrunk] /\ freeCount = 0
        /\ outstanding = Pages      \* pages the client owns and may release
        /\ garbage = FALSE /\ nops = 0 /\ hist = <<>>

Release(p) ==
    /\ nops < MaxOps /\ p \in outstanding /\ ~garbage
    /\ IF head = 0 \/ Len(trunk[head].ents) >= TrunkMax
         THEN \* initialize_trunk / create_new_trunk: the released page becomes the new head trunk
              /\ trunk' = [trunk EXCEPT ![p] = [next |-> head, ents |-> <<>>]]
              /\ head' = p
         ELSE /\ trunk' = [trunk EXCEPT ![head].ents = Append(@, p)]
              /\ head' = head
    /\ freeCount' = freeCount + 1
    /\ free' = free \cup {p} /\ outstanding' = outstanding \ {p}
    /\ nops' = nops + 1 /\ garbage' = garbage
    /\ hist' = Append(hist, [op |-> "release", p |-> p, res |-> 0, count |-> freeCount'])

\* result 0 = None
Allocate ==
    /\ nops < MaxOps /\ ~garbage
    /\ nops' = nops + 1
    /\ IF freeCount = 0
         THEN /\ UNCHANGED <<free, head, trunk, freeCount, outstanding, garbage>>
              /\ hist' = Append(hist, [op |-> "alloc", p |-> 0, res |-> 0, count |-> freeCount])
       ELSE IF head = 0
         THEN \* pinned code only: page 0 is read as a trunk
              /\ garbage' = TRUE /\ UNCHANGED <<free, head, trunk, freeCount, outstanding>>
              /\ hist' = Append(hist, [op |-> "alloc", p |-> 0, res |-> -1, count |-> freeCount])
       ELSE IF trunk[head].ents = <<>>
         THEN IF ReturnTrunk
                THEN /\ head' = trunk[head].next /\ freeCount' = freeCount - 1
                     /\ free' = free \ {head} /\ outstanding' = outstanding \cup {head}
                     /\ UNCHANGED <<trunk, garbage>>
                     /\ hist' = Append(hist, [op |-> "alloc", p |-> 0, res |-> head, count |-> freeCount'])
                ELSE IF trunk[head].next = 0
                       THEN /\ head' = 0 /\ freeCount' = 0 /\ UNCHANGED <<free, trunk, outstanding, garbage>>
                            /\ hist' = Append(hist, [op |-> "alloc", p |-> 0, res |-> 0, count |-> 0])
                       ELSE \* skip the empty trunk and retry on the next one (which is full, hence non-empty)
                            LET h2 == trunk[head].next  e == trunk[h2].ents  r == e[Len(e)] IN
                            /\ trunk' = [trunk EXCEPT ![h2].ents = SubSeq(e, 1, Len(e) - 1)]
                            /\ head' = IF Len(e) = 1 THEN trunk[h2].next ELSE h2
                            /\ freeCount' = freeCount - 1
                            /\ free' = free \ {r} /\ outstanding' = outstanding \cup {r} /\ garbage' = garbage
                            /\ hist' = Append(hist, [op |-> "alloc", p |-> 0, res |-> r, count |-> freeCount'])
       ELSE LET e == trunk[head].ents  r == e[Len(e)] IN
            /\ trunk' = [trunk EXCEPT ![head].ents = SubSeq(e, 1, Len(e) - 1)]
            /\ head' = IF ~ReturnTrunk /\ Len(e) = 1 THEN trunk[head].next ELSE head
            /\ freeCount' = freeCount - 1
            /\ free' = free \ {r} /\ outstanding' = outstanding \cup {r} /\ garbage' = garbage
            /\ hist' = Append(hist, [op |-> "alloc", p |-> 0, res |-> r, count |-> freeCount'])

Next == Allocate \/ \E p \in Pages : Release(p)
Spec == Init /\ [][Next]_vars

(* -------------------------------- C34 -------------------------------- *)
\* pages reachable through the trunk chain (trunk pages and their entries)
RECURSIVE Chain(_)
Chain(h) == IF h = 0 THEN {} ELSE {h} \cup {trunk[h].ents[i] : i \in 1..Len(trunk[h].ents)} \cup Chain(trunk[h].next)
Conservation      == ~garbage => Chain(head) = free          \* nothing lost, nothing invented
CountIsAllocatable == ~garbage => freeCount = Cardinality(free)
NoDoubleAlloc     == free \cap outstanding = {}
NeverGarbage      == ~garbage
=============================================================================

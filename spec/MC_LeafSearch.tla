---------------------------- MODULE MC_LeafSearch ----------------------------
(***************************************************************************)
(* Generators for C30.  Every printed case carries the keys (sorted by the *)
(* spec) and, for every probe, the answer of LeafSearch!Search.            *)
(*   subsets  every subset of U26 with at most Bound keys, each once (BFS: *)
(*            keys are added in increasing order)                          *)
(*   walk     -simulate: keys are added in random order, one subset of     *)
(*            every size 0..26 per walk                                    *)
(*   desc     descriptors of pages with n in Ns keys: one run of L keys    *)
(*            sharing a 4-byte prefix at offset o (runs straddle the 8-    *)
(*            and 4-slot batch windows of the narrowing loops), two        *)
(*            adjacent runs, all keys equal-prefixed, all distinct         *)
(***************************************************************************)
EXTENDS LeafSearch, Json

CONSTANTS Bound, Ns, Ls, Dense, MetaMax

VARIABLES keys, hi, runs       \* keys: the page's keys as a sorted sequence
gvars == <<keys, hi, runs>>

Pick(X) == IF X = {} THEN {} ELSE {RandomElement(X)}
InsertSorted(ks, k) == LET c == Cardinality({i \in DOMAIN ks : LtU(ks[i], k)})
                       IN SubSeq(ks, 1, c) \o <<k>> \o SubSeq(ks, c + 1, Len(ks))
KeySet == {keys[i] : i \in DOMAIN keys}

\* ---- subsets
InitSub == keys = <<>> /\ hi = 0 /\ runs = <<>>
NextSub == /\ Len(keys) < Bound
           /\ \E i \in (hi + 1)..Len(UOrder26) : keys' = Append(keys, UOrder26[i]) /\ hi' = i
           /\ UNCHANGED runs
SpecSub == InitSub /\ [][NextSub]_gvars
\* ---- random subsets of every size
NextWalk == /\ \E k \in Pick(U26 \ KeySet) : keys' = InsertSorted(keys, k)
            /\ UNCHANGED <<hi, runs>>
SpecWalk == InitSub /\ [][NextWalk]_gvars
EmitSet == PrintT(<<"T", ToJson(Case(keys))>>)
MetaSet == SearchIsBinarySearch(keys) /\ (Len(keys) = 0 => UniverseOk)

\* ---- descriptors
OneRun(n, L, o) == [r \in 1..(n - L + 1) |-> <<r, IF r = o + 1 THEN L ELSE 1>>]
TwoRuns(n, L1, L2, o) == [r \in 1..(n - L1 - L2 + 2) |-> <<r, IF r = o + 1 THEN L1 ELSE IF r = o + 2 THEN L2 ELSE 1>>]
Offs(n, L) == LET h == n \div 2
                  cand == IF Dense THEN {0, 1, 3, 4, 5, 7, 8, 9} \cup ((h - 10)..(h + 5)) \cup {n - L - 1, n - L}
                          ELSE {0, 4, h - 7, h - 4, h - 1, h + 3, n - L}
              IN {o \in cand : o >= 0 /\ o + L <= n}
DescsFor(n) == {OneRun(n, L, o) : <<L, o>> \in {t \in (Ls \cup {1}) \X (0..400) : t[1] <= n /\ t[2] \in Offs(n, t[1])}}
               \cup {OneRun(n, n, 0)}
               \cup (IF n >= 17 THEN {TwoRuns(n, 8, 9, o) : o \in Offs(n, 17)} ELSE {})
\* one initial state per page size, its descriptors as successors (so that several workers share the work)
InitDesc == keys = <<>> /\ hi \in Ns /\ runs = <<>>
NextDesc == runs = <<>> /\ runs' \in DescsFor(hi) /\ UNCHANGED <<keys, hi>>
SpecDesc == InitDesc /\ [][NextDesc]_gvars
DescCase == LET n == NKeysOf(runs) IN
            [runs |-> runs, n |-> n, keys |-> IF n <= MetaMax THEN ExpandRuns(runs) ELSE <<>>, answers |-> DescAnswers(runs)]
EmitDesc == runs # <<>> => PrintT(<<"T", ToJson(DescCase)>>)
MetaDesc == (runs # <<>> /\ NKeysOf(runs) <= MetaMax) => DescriptorAgrees(runs)
=============================================================================

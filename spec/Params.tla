------------------------------- MODULE Params -------------------------------
(***************************************************************************)
(* C13 - bound parameters behave like the equivalent literals.             *)
(*                                                                         *)
(* In the relational reference a parameter IS a value: a statement has     *)
(* value positions ("slots", numbered in textual order); a placeholder     *)
(* form says which bound parameter each slot denotes; the meaning of       *)
(*        ExecP(stmt, form, ps)  ==  Exec(stmt, Subst(form, ps, n))        *)
(* is the meaning of the statement with every slot replaced by the value   *)
(* - there is one semantics, Exec, defined on literal statements only.     *)
(* Bound text is an opaque atom: nothing in Exec looks inside a value, so  *)
(* text that looks like SQL is data by construction.                       *)
(*                                                                         *)
(* The table (PRIMARY KEY + UNIQUE + secondary index so that a path that   *)
(* skips a constraint check or index maintenance is visible):              *)
(*   t(id INT PRIMARY KEY, u INT UNIQUE, d DATE, k INT, s TEXT, b BLOB,    *)
(*     f DOUBLE PRECISION);  CREATE INDEX ik ON t (k)                      *)
(*                                                                         *)
(* A case = one statement template, a placeholder form and slot values,    *)
(* executed ONCE and TWICE from the initial rows; TLC emits result, row    *)
(* count, post-state and index probes for both (MC_Params.Emit).           *)
(***************************************************************************)
EXTENDS Integers, Sequences, FiniteSets, TLC

(* ------------------------------------------------------------------ values: [t type, n name, r rank inside the type] *)
Null == [t |-> "null", n |-> "null", r |-> 0]
IntV(x) == [t |-> "int", n |-> ToString(x), r |-> x]
RECURSIVE IndexOf(_, _, _)
IndexOf(seq, x, i) == IF i > Len(seq) THEN 0 ELSE IF seq[i] = x THEN i ELSE IndexOf(seq, x, i + 1)
\* floats in ascending numeric order; the names are rendered by lib/values.py (F) - they need exponents / 17 digits /
\* print as integers when formatted naively
FloatSeq == <<"f_1e_7", "f_tenth", "f_sum", "f_one_half", "f_two_half", "f_five", "f_1e22">>
FloatV(nm) == [t |-> "float", n |-> nm, r |-> IndexOf(FloatSeq, nm, 1)]
FloatNaN == [t |-> "float", n |-> "f_nan", r |-> 0]            \* never used in a comparison
\* texts in ascending BYTE order (the check verifies the order of the concrete strings against these ranks)
TextSeq == <<"p_empty", "p_dollar1", "p_quote2", "p_dashes", "p_comment", "p_sqlish", "p_colon_a", "p_qmark", "p_null_word",
             "p_backslash", "p_a", "p_semicolon", "p_its", "p_newline", "p_or_1_1", "p_z">>
TextV(nm) == [t |-> "text", n |-> nm, r |-> IndexOf(TextSeq, nm, 1)]
BlobV(nm) == [t |-> "blob", n |-> nm, r |-> 0]
DateV(nm) == [t |-> "date", n |-> nm, r |-> 0]

Cols == <<"id", "u", "d", "k", "s", "b", "f">>
ColSet == {Cols[i] : i \in 1..Len(Cols)}
ColType(c) == CASE c \in {"id", "u", "k"} -> "int" [] c = "s" -> "text" [] c = "f" -> "float" [] c = "d" -> "date" [] c = "b" -> "blob"

\* parameter value classes per column (type-correct values and NULL)
IdVals == {IntV(1), IntV(2), IntV(3), IntV(4), Null}
UVals  == {IntV(10), IntV(20), IntV(30), Null}
KVals  == {IntV(5), IntV(7), IntV(-1), IntV(2147483647), Null}
SVals  == {TextV(TextSeq[i]) : i \in 1..Len(TextSeq)} \cup {Null}
FVals  == {FloatV(FloatSeq[i]) : i \in 1..Len(FloatSeq)} \cup {Null}
FStore == FVals \cup {FloatNaN}                                 \* values that are only stored, never compared
DVals  == {DateV("d_leap"), DateV("d_epoch"), DateV("d_pre_epoch"), Null}
BVals  == {BlobV("b_bin"), BlobV("b_utf8"), BlobV("b_empty"), BlobV("b_quote"), Null}
StoreVals(c) == CASE c = "id" -> IdVals [] c = "u" -> UVals [] c = "k" -> KVals [] c = "s" -> SVals [] c = "f" -> FStore
                  [] c = "d" -> DVals [] c = "b" -> BVals
CmpVals(c) == CASE c = "id" -> IdVals [] c = "u" -> UVals [] c = "k" -> KVals [] c = "s" -> SVals [] c = "f" -> FVals

Row(i, u, d, k, s, b, f) == [id |-> i, u |-> u, d |-> d, k |-> k, s |-> s, b |-> b, f |-> f]
InitRows == { Row(IntV(1), IntV(10), DateV("d_leap"), IntV(5), TextV("p_a"), BlobV("b_bin"), FloatV("f_one_half")),
              Row(IntV(2), IntV(20), DateV("d_epoch"), IntV(5), TextV("p_its"), BlobV("b_utf8"), FloatV("f_two_half")),
              Row(IntV(3), Null, Null, Null, Null, Null, Null) }
\* the row an INSERT template writes where it has no placeholder
Base == Row(IntV(4), IntV(30), DateV("d_epoch"), IntV(7), TextV("p_z"), BlobV("b_bin"), FloatV("f_tenth"))

(* ------------------------------------------------------------------ SQL comparisons: three-valued, NULL never matches *)
Comparable(x, y) == x.t # "null" /\ y.t # "null" /\ x.t = y.t
EqV(x, y) == Comparable(x, y) /\ x.n = y.n
LeV(x, y) == Comparable(x, y) /\ x.r <= y.r

(* ------------------------------------------------------------------ constraints *)
TableOk(rs) == /\ \A r \in rs : r.id # Null
               /\ \A r1, r2 \in rs : (r1 # r2) => r1.id # r2.id
               /\ \A r1, r2 \in rs : (r1 # r2 /\ r1.u # Null) => r1.u # r2.u

(* ------------------------------------------------------------------ statements; sv = the values of the slots, in textual order *)
Res(ok, n, sel, rs) == [ok |-> ok, n |-> n, sel |-> sel, rows |-> rs]
IdsOf(rs) == {r.id.r : r \in rs}

\* INSERT INTO t (all columns) VALUES (..): the columns in ph are slots, the others take Base's literals
InsertRow(ph, sv) == [c \in ColSet |-> LET j == IndexOf(ph, c, 1) IN IF j = 0 THEN Base[c] ELSE sv[j]]
InsertOne(row, rs) == LET after == rs \cup {row}
                      IN IF row \notin rs /\ Cardinality(after) = Cardinality(rs) + 1 /\ TableOk(after) /\ (\A r \in rs : r.id # row.id)
                           THEN Res(TRUE, 1, {}, after) ELSE Res(FALSE, 0, {}, rs)
\* VALUES (..), (..), ..: st.nrows tuples of Len(st.ph) slots each, numbered on in textual order ACROSS the tuples; the rows
\* are inserted one after the other and the statement is atomic (one refused row refuses the statement)
RECURSIVE InsertFrom(_, _, _, _)
InsertFrom(st, sv, rs, k) == IF k > st.nrows THEN Res(TRUE, st.nrows, {}, rs)
                             ELSE LET w == Len(st.ph)
                                      one == InsertOne(InsertRow(st.ph, SubSeq(sv, (k - 1) * w + 1, k * w)), rs)
                                  IN IF one.ok THEN InsertFrom(st, sv, one.rows, k + 1) ELSE one
ExecInsert(st, sv, rs) == LET r == InsertFrom(st, sv, rs, 1) IN IF r.ok THEN r ELSE Res(FALSE, 0, {}, rs)
\* UPDATE t SET c = sv[1] WHERE c2 = sv[2]
ExecUpdate(st, sv, rs) == LET hit == {r \in rs : EqV(r[st.wh], sv[2])}
                              img == {[r EXCEPT ![st.set] = sv[1]] : r \in hit}
                              after == (rs \ hit) \cup img
                          IN IF Cardinality(after) = Cardinality(rs) /\ TableOk(after)
                               THEN Res(TRUE, Cardinality(hit), {}, after) ELSE Res(FALSE, 0, {}, rs)
ExecDelete(st, sv, rs) == LET hit == {r \in rs : EqV(r[st.wh], sv[1])} IN Res(TRUE, Cardinality(hit), {}, rs \ hit)
\* SELECT id FROM t WHERE ..
ExecSelEq(st, sv, rs) == Res(TRUE, 0, IdsOf({r \in rs : EqV(r[st.wh], sv[1])}), rs)
ExecSelIn(st, sv, rs) == Res(TRUE, 0, IdsOf({r \in rs : EqV(r[st.wh], sv[1]) \/ EqV(r[st.wh], sv[2])}), rs)
ExecSelBetween(st, sv, rs) == Res(TRUE, 0, IdsOf({r \in rs : LeV(sv[1], r[st.wh]) /\ LeV(r[st.wh], sv[2])}), rs)
\* SELECT id FROM t LIMIT n: ANY n rows (no ORDER BY); n = the number of rows returned, sel = the ids they are drawn from
ExecSelLimit(st, sv, rs) == Res(TRUE, IF sv[1].r < Cardinality(rs) THEN sv[1].r ELSE Cardinality(rs), IdsOf(rs), rs)

Exec(st, sv, rs) == CASE st.kind = "insert" -> ExecInsert(st, sv, rs)
                      [] st.kind = "update" -> ExecUpdate(st, sv, rs)
                      [] st.kind = "delete" -> ExecDelete(st, sv, rs)
                      [] st.kind = "sel_eq" -> ExecSelEq(st, sv, rs)
                      [] st.kind = "sel_in" -> ExecSelIn(st, sv, rs)
                      [] st.kind = "sel_between" -> ExecSelBetween(st, sv, rs)
                      [] st.kind = "sel_limit" -> ExecSelLimit(st, sv, rs)

(* ------------------------------------------------------------------ placeholder forms *)
\* anon  ?, ?, ?        the j-th placeholder is the j-th parameter
\* dollar $1, $2, $3    explicit positions in textual order
\* rev    $3, $2, $1    explicit positions out of order
\* rep    $1, $1        one parameter used in every slot (only when all slot values are equal)
\* named  :a, :b, :c    TurDB binds named placeholders by order of occurrence
Forms == {"anon", "dollar", "rev", "rep", "named"}
NParams(form, n) == IF form = "rep" THEN 1 ELSE n
PIndex(form, j, n) == CASE form \in {"anon", "dollar", "named"} -> j [] form = "rev" -> n + 1 - j [] form = "rep" -> 1
Subst(form, ps, n) == [j \in 1..n |-> ps[PIndex(form, j, n)]]
\* the parameters to bind so that the statement means sv
ParamsFor(form, sv) == LET n == Len(sv) IN [i \in 1..NParams(form, n) |-> sv[CHOOSE j \in 1..n : PIndex(form, j, n) = i]]
FormOk(form, sv) == /\ (form = "rep") => (Len(sv) >= 2 /\ \A j \in 1..Len(sv) : sv[j] = sv[1])
                    /\ (form = "rev") => Len(sv) >= 2

\* THE PROPERTY: executing with bound parameters is executing the substituted statement
ExecP(st, form, ps, rs) == Exec(st, Subst(form, ps, st.nslots), rs)

(* ------------------------------------------------------------------ templates and the slot values explored for each *)
Ins(ph) == [kind |-> "insert", ph |-> ph, nslots |-> Len(ph), set |-> "-", wh |-> "-", nrows |-> 1]
InsN(ph, n) == [kind |-> "insert", ph |-> ph, nslots |-> n * Len(ph), set |-> "-", wh |-> "-", nrows |-> n]
Upd(c, c2) == [kind |-> "update", ph |-> <<>>, nslots |-> 2, set |-> c, wh |-> c2, nrows |-> 0]
Del(c) == [kind |-> "delete", ph |-> <<>>, nslots |-> 1, set |-> "-", wh |-> c, nrows |-> 0]
Sel(kind, c, n) == [kind |-> kind, ph |-> <<>>, nslots |-> n, set |-> "-", wh |-> c, nrows |-> 0]

BaseSeq(ph) == [j \in 1..Len(ph) |-> Base[ph[j]]]
Perm == <<"u", "id", "d", "k", "s", "b", "f">>
\* vary one slot of an INSERT over its column's values, the others keep Base's values (still bound as parameters)
VaryOne(ph) == UNION {{[BaseSeq(ph) EXCEPT ![j] = v] : v \in StoreVals(ph[j])} : j \in 1..Len(ph)}
InsertCases ==
    LET all == Cols
        one(c) == <<c>>
        three == <<"id", "u", "s">>
    IN  {<<Ins(all), sv>> : sv \in VaryOne(all)}
        \cup {<<Ins(all), [BaseSeq(all) EXCEPT ![1] = i, ![2] = u]>> : i \in IdVals, u \in UVals}
        \cup UNION {{<<Ins(one(c)), <<v>> >> : v \in StoreVals(c)} : c \in ColSet}
        \cup {<<Ins(three), <<i, u, s>> >> : i \in {IntV(2), IntV(4)}, u \in {IntV(20), IntV(30), Null}, s \in {TextV("p_sqlish"), TextV("p_its"), Null}}
        \cup {<<Ins(<<"id", "u">>), <<IntV(4), IntV(4)>> >>, <<Ins(<<"u", "k">>), <<IntV(7), IntV(7)>> >>}    \* equal values: the "rep" form
        \* the column list in another order than the table's: INSERT INTO t (u, id, d, ..) VALUES (?, ?, ?, ..)
        \* several VALUES tuples in one statement: the placeholders run on across the tuples
        \cup {<<InsN(<<"id", "u", "s">>, 2), <<IntV(4), u1, TextV("p_sqlish"), i2, u2, s2>> >> :
                   u1 \in {IntV(30), Null}, i2 \in {IntV(5), IntV(4), IntV(2)}, u2 \in {IntV(40), IntV(30), Null}, s2 \in {TextV("p_its"), Null}}
        \cup {<<InsN(<<"id">>, 3), <<IntV(4), IntV(5), i3>> >> : i3 \in {IntV(6), IntV(5), IntV(1)}}
        \cup {<<InsN(<<"id", "k">>, 2), <<IntV(7), IntV(7), IntV(7), IntV(7)>> >>}          \* equal values: the "rep" form (refused: same id twice)
        \cup {<<Ins(Perm), BaseSeq(Perm)>>, <<Ins(Perm), [BaseSeq(Perm) EXCEPT ![1] = IntV(20)]>>, <<Ins(Perm), [BaseSeq(Perm) EXCEPT ![2] = IntV(30)]>>}

SetCols == {"u", "k", "s", "f", "d", "b"}
WhCols == {"id", "u", "k", "s"}
WhFixed(c2) == CASE c2 = "id" -> IntV(2) [] c2 = "u" -> IntV(20) [] c2 = "k" -> IntV(5) [] c2 = "s" -> TextV("p_its")
SetFixed(c) == CASE c = "u" -> IntV(30) [] c = "k" -> IntV(7) [] c = "s" -> TextV("p_sqlish") [] c = "f" -> FloatV("f_sum")
                 [] c = "d" -> DateV("d_pre_epoch") [] c = "b" -> BlobV("b_quote")
UpdateCases ==
    UNION {{<<Upd(c, c2), <<v, WhFixed(c2)>> >> : v \in StoreVals(c)} \cup {<<Upd(c, c2), <<SetFixed(c), w>> >> : w \in CmpVals(c2)}
           : c \in SetCols, c2 \in WhCols}
    \cup {<<Upd("u", "k"), <<IntV(5), IntV(5)>> >>, <<Upd("k", "id"), <<IntV(3), IntV(3)>> >>}     \* equal values: the "rep" form

DelCols == {"id", "u", "k", "s", "f"}
DeleteCases == UNION {{<<Del(c), <<v>> >> : v \in CmpVals(c)} : c \in DelCols}

SelEqCases == UNION {{<<Sel("sel_eq", c, 1), <<v>> >> : v \in CmpVals(c)} : c \in DelCols}
Second(c) == CASE c = "id" -> {IntV(3), Null} [] c = "u" -> {IntV(20), Null} [] c = "k" -> {IntV(5), IntV(-1)}
               [] c = "s" -> {TextV("p_its"), TextV("p_sqlish"), Null} [] c = "f" -> {FloatV("f_two_half"), FloatV("f_1e22")}
SelInCases == UNION {{<<Sel("sel_in", c, 2), <<v, w>> >> : v \in CmpVals(c), w \in Second(c)} : c \in DelCols}
              \cup UNION {{<<Sel("sel_in", c, 2), <<v, v>> >> : v \in CmpVals(c)} : c \in {"id", "s"}}
SelBetweenCases == UNION {UNION {{<<Sel("sel_between", c, 2), <<lo, hi>> >> : hi \in Second(c) \cup {lo}} : lo \in CmpVals(c)} : c \in {"id", "k", "s", "f"}}
SelLimitCases == {<<Sel("sel_limit", "-", 1), <<IntV(n)>> >> : n \in {0, 1, 2, 3, 5}}

AllCases == InsertCases \cup UpdateCases \cup DeleteCases \cup SelEqCases \cup SelInCases \cup SelBetweenCases \cup SelLimitCases

(* ------------------------------------------------------------------ the enumeration as a state machine *)
\* The reference knows only the rows: the check runs every case from two physical histories of the same logical rows
\* ("fresh": just inserted; "aged": after deletes, re-inserts and updates) and expects the same outcome from both.
VARIABLES kind, cas, form, done
vars == <<kind, cas, form, done>>
Kinds == {"insert", "update", "delete", "sel_eq", "sel_in", "sel_between", "sel_limit"}
CasesOf(k) == CASE k = "insert" -> InsertCases [] k = "update" -> UpdateCases [] k = "delete" -> DeleteCases [] k = "sel_eq" -> SelEqCases
                [] k = "sel_in" -> SelInCases [] k = "sel_between" -> SelBetweenCases [] k = "sel_limit" -> SelLimitCases
NoCase == <<Sel("none", "-", 0), <<>> >>
MultiRowInsertExplored == \E c \in InsertCases : c[1].nrows > 1
\* one initial state per (kind, form) so that TLC's workers share the enumeration; the case is chosen by the step
Init == /\ kind \in Kinds /\ form \in Forms /\ cas = NoCase /\ done = FALSE
Next == /\ done = FALSE /\ done' = TRUE
        /\ cas' \in {c \in CasesOf(kind) : FormOk(form, c[2])}
        /\ UNCHANGED <<kind, form>>
Spec == Init /\ [][Next]_vars

St == cas[1]
Sv == cas[2]
Ps == ParamsFor(form, Sv)
Once == ExecP(St, form, Ps, InitRows)
Twice == ExecP(St, form, Ps, Once.rows)

\* a SECOND binding of the same prepared statement: the slot values of another case of the same template, executed after
\* the first (a plan that bakes its first binding in would repeat the first statement)
Others == {c \in CasesOf(kind) : c[1] = St /\ c[2] # Sv /\ FormOk(form, c[2])}
Sv2 == IF Others = {} THEN Sv ELSE (CHOOSE c \in Others : TRUE)[2]
Ps2 == ParamsFor(form, Sv2)
Other == ExecP(St, form, Ps2, Once.rows)

(* ------------------------------------------------------------------ meta-invariants of the reference itself *)
\* binding the parameters ParamsFor computes gives back the intended slot values, for every form
SubstRoundTrip == done => Subst(form, Ps, St.nslots) = Sv
\* the forms that number slots in textual order bind the slot values themselves; rev is an involution
FormLaws == done => /\ (form \in {"anon", "dollar", "named"} => Ps = Sv)
            /\ (form = "rev" => ParamsFor("rev", Ps) = Sv)
            /\ Len(Ps) = NParams(form, St.nslots)
\* the property proper, on the model: one semantics (this is what the implementation is compared with)
ParamIsLiteral == done => ExecP(St, form, Ps, InitRows) = Exec(St, Sv, InitRows) /\ Other = Exec(St, Sv2, Once.rows)
ConstraintsHold == done => TableOk(InitRows) /\ TableOk(Once.rows) /\ TableOk(Twice.rows)
ErrLeavesStateAlone == done => (~Once.ok => Once.rows = InitRows) /\ (~Twice.ok => Twice.rows = Once.rows)
\* queries do not change the state; a repeated INSERT fails; a repeated UPDATE / DELETE is idempotent on the rows
RepeatLaws == done => /\ (St.kind \in {"sel_eq", "sel_in", "sel_between", "sel_limit"} => Once.rows = InitRows /\ Twice = Once)
              /\ (St.kind = "insert" /\ Once.ok => ~Twice.ok)
              /\ (St.kind = "delete" => Twice.n = 0)
              /\ (St.kind = "update" /\ Once.ok /\ Twice.ok => Twice.rows = Once.rows)
\* IN (x, x) is = x; BETWEEN x AND x is = x; NULL never matches
SelectLaws == done => /\ (St.kind = "sel_in" /\ Sv[1] = Sv[2] => Once.sel = ExecSelEq(St, <<Sv[1]>>, InitRows).sel)
              /\ (St.kind = "sel_between" /\ Sv[1] = Sv[2] => Once.sel = ExecSelEq(St, <<Sv[1]>>, InitRows).sel)
              /\ (St.kind \in {"sel_eq", "delete"} /\ Sv[1] = Null => (Once.sel = {} /\ Once.n = 0))
\* ranks are a total order inside each type (distinct names have distinct ranks)
ASSUME \A i, j \in 1..Len(TextSeq) : (i # j) => TextSeq[i] # TextSeq[j]
ASSUME \A i, j \in 1..Len(FloatSeq) : (i # j) => FloatSeq[i] # FloatSeq[j]
ASSUME TableOk(InitRows) /\ Base \notin InitRows /\ TableOk(InitRows \cup {Base})
=============================================================================

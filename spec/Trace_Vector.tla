---------------------------- MODULE Trace_Vector ----------------------------
(* Observed SQL results (ndjson file named by the environment variable OBS, one record                *)
(* {tab, q, op, k, R} per line) judged by the predicate of Vector.tla: TLC prints the failed clauses. *)
EXTENDS MC_Vector, IOUtils
Obs == ndJsonDeserialize(IOEnv.OBS)
InitO == c \in {Grp(i) : i \in 0..((Len(Obs) - 1) \div 50)}
NextO == c.g /\ c' \in {Case(i) : i \in {j \in 1..Len(Obs) : (j - 1) \div 50 = c.key}}
EmitO == c.g \/ LET o == Obs[c.v] IN
         PrintT(<<"T", ToJson([i |-> c.v, failed |-> FailedClauses(o.R, Tab(o.tab), o.q, o.op, o.k)])>>)
=============================================================================

------------------------------ MODULE ApiCalls ------------------------------
(***************************************************************************)
(* C22, second generator: SEQUENCES OF PUBLIC API CALLS on one database.   *)
(*                                                                         *)
(* The state is a small abstraction of what the calls are about (is the    *)
(* handle closed, is a transaction open, which savepoints exist, is there  *)
(* a second handle, does table u still exist); it is used ONLY to label    *)
(* each call with the situation it is made in (`sit`), so that TLC can     *)
(* show that the generated sequences reach the situations C22 names:       *)
(* execute on a closed handle, nested BEGIN, ROLLBACK without transaction, *)
(* unknown / duplicate savepoints, too few / too many / mistyped           *)
(* parameters, prepared statements re-used, DDL inside a transaction ...   *)
(*                                                                         *)
(* The property is the same trace property as in Grammar.tla:              *)
(*      every Call is followed by a Return with outcome \in Allowed        *)
(* The model does not predict WHICH of ok / err a call returns.            *)
(***************************************************************************)
EXTENDS Naturals, Sequences, FiniteSets, TLC

CONSTANTS MaxCalls,     \* length of a call sequence
          ParamTypes    \* which parameter value classes are used

Allowed == {"ok", "err"}

VARIABLES closed, txn, sps, h1, uExists, uCols, marked, hist, fin
vars == <<closed, txn, sps, h1, uExists, uCols, marked, hist, fin>>

Null == [null |-> TRUE]
PVal(ty, i) == CASE ty = "int"   -> 100 + i
                 [] ty = "text"  -> "p"
                 [] ty = "null"  -> Null
                 [] ty = "float" -> [f |-> "1.5"]
                 [] ty = "nan"   -> [f |-> "NaN"]
                 [] ty = "blob"  -> [b |-> "00ff"]
                 [] ty = "vec"   -> [vec |-> <<1, 2, 3>>]
                 [] ty = "vec2"  -> [vec |-> <<1, 2>>]
                 [] ty = "bool"  -> [bool |-> TRUE]
                 [] ty = "huge"  -> [i64 |-> "9223372036854775807"]
                 [] ty = "uuid"  -> [uuid |-> "550e8400e29b41d4a716446655440000"]
                 [] ty = "date"  -> [date |-> 2147483647]
                 [] ty = "ts"    -> [ts |-> (0 - 1)]

Exec(sql)        == [k |-> "exec", sql |-> sql, h |-> 0]
ExecH1(sql)      == [k |-> "exec", sql |-> sql, h |-> 1]
Query(sql)       == [k |-> "query", sql |-> sql, h |-> 0]
Op(k)            == [k |-> k, h |-> 0]

\* statements with 0, 1, 2 placeholders in the three placeholder styles
PhSql(style, n) ==
  CASE n = 0 -> "SELECT id FROM u WHERE id = 1"
    [] n = 1 -> (CASE style = "q" -> "SELECT id FROM u WHERE id = ?"
                   [] style = "d" -> "SELECT id FROM u WHERE id = $1"
                   [] style = "n" -> "SELECT id FROM u WHERE id = :a"
                   [] style = "gap" -> "SELECT id FROM u WHERE id = $2"
                   [] style = "ins" -> "INSERT INTO u (id, i, tx, tid) VALUES (?, 777, 'p', 1)"
                   [] style = "upd" -> "UPDATE u SET tid = ? WHERE id = 1")
    [] n = 2 -> (CASE style = "q" -> "SELECT id FROM u WHERE id = ? AND i = ?"
                   [] style = "d" -> "SELECT id FROM u WHERE id = $1 AND i = $2"
                   [] style = "n" -> "SELECT id FROM u WHERE id = :a AND i = :b"
                   [] style = "gap" -> "SELECT id FROM u WHERE id = $1 AND i = $3"
                   [] style = "ins" -> "INSERT INTO u (id, i, tx, tid) VALUES (?, ?, 'p', 1)"
                   [] style = "upd" -> "UPDATE u SET tid = ? WHERE id = ?")
Styles == {"q", "d", "n", "gap", "ins", "upd"}

ParamCalls ==
  { [k |-> "params", sql |-> PhSql(st, n), params |-> [i \in 1..m |-> PVal(ty, i)], h |-> 0, ph |-> n, np |-> m, ty |-> ty]
      : st \in Styles, n \in 0..2, m \in 0..3, ty \in ParamTypes }
PreparedCalls ==
  { [k |-> "prepared", sql |-> PhSql(st, n), params |-> [i \in 1..m |-> PVal(ty, i)], mode |-> md, times |-> 2, h |-> 0, ph |-> n, np |-> m, ty |-> ty]
      : st \in Styles, n \in 0..2, m \in 0..3, ty \in ParamTypes, md \in {"execute", "query"} }
      \cup { [k |-> "prepare", sql |-> s, h |-> 0] : s \in {"SELECT", "SELECT ? ? ?", "", ";", "SELECT 1; SELECT 2", "SELECT '?' , \"?\" , ? -- ?"} }

LongName == "sp_aaaaaaaaaaaaaaaaaaaaaaaaaaaaaaaaaaaaaaaaaaaaaaaaaaaaaaaaaaaaaaaaaaaaaaaaaaaaaaaaaaaaaaaaaaaaaaaaaaaaaaaaaaaaaaaaaaaaaaaaaaaaaaaaaaaaaaaa"
TxnCalls == { Exec("BEGIN"), Exec("COMMIT"), Exec("ROLLBACK"), Exec("SAVEPOINT a"), Exec("SAVEPOINT b"), Exec("ROLLBACK TO a"), Exec("ROLLBACK TO SAVEPOINT b"),
              Exec("RELEASE a"), Exec("RELEASE SAVEPOINT b"), Exec("SAVEPOINT " \o LongName), Exec("ROLLBACK TO " \o LongName),
              Exec("BEGIN ISOLATION LEVEL SERIALIZABLE, READ ONLY") }
DmlCalls == { Exec("INSERT INTO u (id, i, tx, tid) VALUES (100, 100, 'n', 1)"), Exec("INSERT INTO u (id, i, tx, tid) VALUES (101, 100, 'dup', 1)"),
              Exec("UPDATE u SET tid = tid + 1"), Exec("UPDATE u SET id = id + 1"), Exec("DELETE FROM u WHERE id = 1"), Exec("DELETE FROM u"),
              Query("SELECT COUNT(*) FROM u"), Query("SELECT * FROM u ORDER BY id"), Query("SELECT * FROM u WHERE tx = 'x'"), Exec("INSERT INTO e VALUES (100, '[1,1,1]')"),
              Query("SELECT id FROM e ORDER BY v <-> '[1,2,3]' LIMIT 2"),
              [k |-> "batch", api |-> "insert_batch", table |-> "u", rows |-> <<<<200, 200, "b", 1>>, <<201, 201, "b", 1>>>>, h |-> 0],
              [k |-> "batch", api |-> "insert_batch", table |-> "u", rows |-> <<<<200>>, <<201, 201, "b", 1, 5>>>>, h |-> 0],
              [k |-> "batch", api |-> "insert_batch", table |-> "u", rows |-> <<<<"x", Null, 5, [vec |-> <<1>>]>>>>, h |-> 0],
              [k |-> "batch", api |-> "insert_batch", table |-> "nosuch", rows |-> <<<<1>>>>, h |-> 0],
              [k |-> "batch", api |-> "bulk_insert", table |-> "u", rows |-> <<<<1, 10, "dup", 1>>>>, h |-> 0],
              [k |-> "batch", api |-> "bulk_insert", table |-> "e", rows |-> <<<<300, [vec |-> <<1, 2>>]>>, <<301>>>>, h |-> 0],
              [k |-> "batch", api |-> "insert_batch", table |-> "u", rows |-> <<>>, h |-> 0] }
DdlCalls == { Exec("CREATE TABLE nt (id INT PRIMARY KEY, c TEXT)"), Exec("DROP TABLE u"), Exec("DROP TABLE nt"), Exec("ALTER TABLE u ADD COLUMN z INT"),
              Exec("ALTER TABLE u DROP COLUMN tid"), Exec("ALTER TABLE u RENAME TO u9"), Exec("CREATE INDEX nx ON u (tid)"), Exec("DROP INDEX u_tx"), Exec("TRUNCATE TABLE u"),
              Exec("CREATE TABLE u (id INT PRIMARY KEY, i INT UNIQUE, tx TEXT NOT NULL, tid BIGINT)"), Exec("CREATE SCHEMA ns"), Exec("DROP SCHEMA root"),
              Exec("CREATE INDEX ev2 ON e USING HNSW (v)"), Exec("DROP INDEX e_v") }
AdminCalls == { Exec("PRAGMA wal = OFF"), Exec("PRAGMA wal = ON"), Exec("PRAGMA synchronous = 9"), Exec("PRAGMA wal_checkpoint"), Exec("PRAGMA recover_wal"),
                Exec("PRAGMA wal_checkpoint_threshold = 0"), Exec("PRAGMA wal_checkpoint_threshold = 1"), Exec("PRAGMA join_memory_budget = 0"),
                Exec("PRAGMA join_memory_budget = 18446744073709551615"), Exec("PRAGMA database_mode"), Exec("PRAGMA memory_stats"), Exec("PRAGMA wal_autoflush = OFF"),
                Exec("SET foreign_keys = ON") }
\* a stored value that LOOKS like an internal encoding (a 17-byte blob starting with the TOAST marker 0xFE) and the reads of it;
\* `marked` remembers that it was stored, so that the reads are generated after the write (the view distinguishes it)
MarkWrite == Exec("INSERT INTO t (id, b) VALUES (100, x'FE0102030405060708090A0B0C0D0E0F10')")
MarkCalls == { MarkWrite, Exec("SELECT id, b FROM t"), Exec("SELECT LENGTH(b) FROM t WHERE id = 100"), Exec("UPDATE t SET i = 1 WHERE id = 100"),
               Exec("DELETE FROM t WHERE id = 100"), Exec("UPDATE t SET b = x'FE' WHERE id = 1") }

HandleCalls == { Op("close"), Op("reopen"), Op("close_reopen"), Op("checkpoint"), [k |-> "clone", h |-> 1], [k |-> "drop_handle", h |-> 1],
                 ExecH1("INSERT INTO u (id, i, tx, tid) VALUES (150, 150, 'h1', 1)"), ExecH1("COMMIT"), ExecH1("BEGIN"), ExecH1("SELECT COUNT(*) FROM u"),
                 [k |-> "close", h |-> 1], [k |-> "checkpoint", h |-> 1] }

Calls == TxnCalls \cup DmlCalls \cup DdlCalls \cup AdminCalls \cup HandleCalls \cup MarkCalls \cup ParamCalls \cup PreparedCalls

IsSql(c, s) == "sql" \in DOMAIN c /\ c.sql = s
OnH0(c) == c.h = 0

\* the situation a call is made in (labels; several may apply)
Sit(c) ==
     (IF closed /\ c.k \in {"exec", "query", "params", "prepared", "batch", "checkpoint"} /\ OnH0(c) THEN {"use_after_close"} ELSE {})
  \cup (IF closed /\ c.k = "close" /\ OnH0(c) THEN {"double_close"} ELSE {})
  \cup (IF c.h = 1 /\ h1 = "none" /\ c.k \notin {"clone", "drop_handle"} THEN {"no_such_handle"} ELSE {})
  \cup (IF c.h = 1 /\ h1 = "open" /\ closed /\ c.k = "exec" THEN {"clone_after_close"} ELSE {})
  \cup (IF txn /\ IsSql(c, "BEGIN") /\ OnH0(c) THEN {"nested_begin"} ELSE {})
  \cup (IF ~txn /\ IsSql(c, "COMMIT") /\ OnH0(c) THEN {"commit_without_txn"} ELSE {})
  \cup (IF ~txn /\ IsSql(c, "ROLLBACK") THEN {"rollback_without_txn"} ELSE {})
  \cup (IF ~txn /\ (IsSql(c, "SAVEPOINT a") \/ IsSql(c, "SAVEPOINT b")) THEN {"savepoint_without_txn"} ELSE {})
  \cup (IF txn /\ IsSql(c, "SAVEPOINT a") /\ \E i \in 1..Len(sps) : sps[i] = "a" THEN {"duplicate_savepoint"} ELSE {})
  \cup (IF IsSql(c, "ROLLBACK TO a") /\ ~\E i \in 1..Len(sps) : sps[i] = "a" THEN {"rollback_to_unknown_savepoint"} ELSE {})
  \cup (IF IsSql(c, "RELEASE a") /\ ~\E i \in 1..Len(sps) : sps[i] = "a" THEN {"release_unknown_savepoint"} ELSE {})
  \cup (IF IsSql(c, "ROLLBACK TO a") /\ \E i \in 1..Len(sps) : sps[i] = "a" THEN {"rollback_to_savepoint"} ELSE {})
  \cup (IF txn /\ c \in DdlCalls THEN {"ddl_in_txn"} ELSE {})
  \cup (IF txn /\ c.k \in {"reopen", "close_reopen", "close"} THEN {"close_in_txn"} ELSE {})
  \cup (IF txn /\ c.k = "checkpoint" THEN {"checkpoint_in_txn"} ELSE {})
  \cup (IF txn /\ c.h = 1 /\ h1 = "open" /\ c.k = "exec" THEN {"second_handle_in_txn"} ELSE {})
  \cup (IF ~uExists /\ c \in DmlCalls THEN {"dml_on_dropped_table"} ELSE {})
  \cup (IF c.k \in {"params", "prepared"} /\ c.np < c.ph THEN {"too_few_params"} ELSE {})
  \cup (IF c.k \in {"params", "prepared"} /\ c.np > c.ph THEN {"too_many_params"} ELSE {})
  \cup (IF c.k \in {"params", "prepared"} /\ c.np = c.ph /\ c.np > 0 /\ c.ty # "int" THEN {"param_type_mismatch"} ELSE {})
  \cup (IF c.k = "prepared" THEN {"prepared_reuse"} ELSE {})
  \cup (IF c.k = "batch" THEN {"batch_api"} ELSE {})
  \cup (IF c \in AdminCalls THEN {"pragma"} ELSE {})
  \cup (IF marked /\ c \in MarkCalls \ {MarkWrite} THEN {"read_of_marker_like_value"} ELSE {})
  \cup (IF uCols # "orig" /\ uExists /\ (c \in DmlCalls \/ c.k \in {"params", "prepared"}) THEN {"rows_older_than_schema"} ELSE {})

Without(s, name) == LET idx == {i \in 1..Len(s) : s[i] = name} IN
                    IF idx = {} THEN s ELSE SubSeq(s, 1, (CHOOSE i \in idx : \A k \in idx : k <= i) - 1)

Init == closed = FALSE /\ txn = FALSE /\ sps = <<>> /\ h1 = "none" /\ uExists = TRUE /\ uCols = "orig" /\ marked = FALSE /\ hist = <<>> /\ fin = FALSE

Call(c) ==
  /\ Len(hist) < MaxCalls /\ UNCHANGED fin
  /\ hist' = Append(hist, [call |-> c, sit |-> Sit(c), allowed |-> Allowed])
  /\ closed' = (IF c.k = "close" /\ OnH0(c) THEN TRUE ELSE IF c.k \in {"reopen", "close_reopen"} THEN FALSE ELSE closed)
  /\ txn' = (IF c.k \in {"reopen", "close_reopen"} \/ (c.k = "close" /\ OnH0(c)) THEN FALSE
             ELSE IF IsSql(c, "BEGIN") \/ IsSql(c, "BEGIN ISOLATION LEVEL SERIALIZABLE, READ ONLY") THEN TRUE
             ELSE IF IsSql(c, "COMMIT") \/ IsSql(c, "ROLLBACK") THEN FALSE ELSE txn)
  /\ sps' = (IF c.k \in {"reopen", "close_reopen", "close"} \/ IsSql(c, "COMMIT") \/ IsSql(c, "ROLLBACK") \/ IsSql(c, "BEGIN") THEN <<>>
             ELSE IF txn /\ IsSql(c, "SAVEPOINT a") THEN Append(sps, "a")
             ELSE IF txn /\ IsSql(c, "SAVEPOINT b") THEN Append(sps, "b")
             ELSE IF IsSql(c, "RELEASE a") THEN Without(sps, "a")
             ELSE IF IsSql(c, "RELEASE SAVEPOINT b") THEN Without(sps, "b")
             ELSE sps)
  /\ h1' = (IF c.k = "clone" THEN "open" ELSE IF c.k = "drop_handle" \/ c.k \in {"reopen", "close_reopen"} THEN "none" ELSE h1)
  /\ marked' = (marked \/ c = MarkWrite)
  \* rows written before a column was added / dropped are read with the new schema afterwards
  /\ uCols' = (IF IsSql(c, "ALTER TABLE u ADD COLUMN z INT") /\ uCols = "orig" THEN "added"
               ELSE IF IsSql(c, "ALTER TABLE u DROP COLUMN tid") /\ uCols = "orig" THEN "dropped"
               ELSE IF c.k \in {"reopen", "close_reopen"} \/ IsSql(c, "DROP TABLE u") THEN uCols ELSE uCols)
  /\ uExists' = (IF IsSql(c, "DROP TABLE u") \/ IsSql(c, "ALTER TABLE u RENAME TO u9") \/ IsSql(c, "DROP SCHEMA root") THEN FALSE
                 ELSE IF IsSql(c, "CREATE TABLE u (id INT PRIMARY KEY, i INT UNIQUE, tx TEXT NOT NULL, tid BIGINT)") THEN TRUE ELSE uExists)

\* the sequence is complete and is handed over for execution
Finish == /\ Len(hist) = MaxCalls /\ ~fin /\ fin' = TRUE
          /\ UNCHANGED <<closed, txn, sps, h1, uExists, uCols, marked, hist>>
Next == (\E c \in Calls : Call(c)) \/ Finish
Spec == Init /\ [][Next]_vars

\* meta-properties of the model
TypeOK == /\ closed \in BOOLEAN /\ txn \in BOOLEAN /\ uExists \in BOOLEAN /\ marked \in BOOLEAN /\ uCols \in {"orig", "added", "dropped"} /\ h1 \in {"none", "open"}
          /\ Len(hist) <= MaxCalls /\ Len(sps) <= MaxCalls
          /\ \A i \in 1..Len(sps) : sps[i] \in {"a", "b"}
SavepointsOnlyInTxn == (sps # <<>>) => txn
=============================================================================

---------------------------- MODULE MC_PageCache ----------------------------
EXTENDS PageCache, Json
CONSTANTS KA, KB      \* keys of shard 1 / of shard 2 (clear() visits shard 2 later); model values
KeysAll == KA \cup KB
ShardsOneTwo == [k \in KeysAll |-> IF k \in KA THEN 1 ELSE 2]
\* the cache treats the keys of one shard alike, and the threads alike
Sym == Permutations(Threads) \cup Permutations(KA) \cup Permutations(KB)

\* what the harness can observe after a step, plus the model's ghosts that name the deviation
ObsKey(k) == IF Present(k)' THEN [k |-> k, p |-> TRUE, data |-> EntryOf(k)'.data, dirty |-> EntryOf(k)'.dirty]
             ELSE [k |-> k, p |-> FALSE, data |-> NoStamp, dirty |-> FALSE]
Obs == [keys |-> {ObsKey(k) : k \in Keys}, len |-> TotalEntries(ents'), used |-> used' - Ballast,
        held |-> held', dev |-> dev', leaked |-> leaked', quiescent |-> Quiescent']
Cfg == [budget |-> BudgetPages, ballast |-> Ballast, cap |-> Cap, fine |-> Fine, nthreads |-> Cardinality(Threads),
        shards |-> {<<k, ShardOf[k]>> : k \in Keys}]
\* keys whose entry the last step removed (eviction / clear): for the coverage counts
Removed == {k \in Keys : Present(k) /\ ~Present(k)'}
Emit == PrintT(<<"T", ToJson([cfg |-> Cfg, hist |-> hist', obs |-> Obs, removed |-> Removed])>>)
=============================================================================

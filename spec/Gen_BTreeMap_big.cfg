\* cells that fit a page but are not SplitSafe (mayfail steps): every transition to depth MaxOps over UBig
CONSTANTS NKeys = 3  KB <- KB_UBig  Vals = {1, 8}  VLen <- VLen8  InsVals <- AllVals8  AllowUnsafe = TRUE
CONSTANTS MaxOps = 4  Preloads <- NoPreload  Motifs = {"bfs"}  PhaseLen = 1  OpVals <- OpVals_Big
SPECIFICATION SpecBfs
VIEW view
ACTION_CONSTRAINT EmitBfs
CHECK_DEADLOCK FALSE

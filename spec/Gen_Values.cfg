CONSTANTS ColTypes <- AllColTypes  Shapes <- AllShapes  WithReopen = TRUE
SPECIFICATION Spec
INVARIANT ReadBack
INVARIANT WitnessUntouched
INVARIANT TypeOk
PROPERTY ReopenStutters
ACTION_CONSTRAINT Emit
CHECK_DEADLOCK FALSE

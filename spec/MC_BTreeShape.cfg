CONSTANT Only = "all"
INIT Init
NEXT Next
INVARIANTS Exact GoodIsWellFormed EveryClauseSeeded
CHECK_DEADLOCK FALSE

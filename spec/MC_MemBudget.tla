---------------------------- MODULE MC_MemBudget ----------------------------
EXTENDS MemBudget, Json
PoolsCross == [t \in Threads |-> IF t = 1 THEN {"cache"} ELSE IF t = 2 THEN {"query"} ELSE {"shared", "cache"}]
PoolsSame  == [t \in Threads |-> {"cache"}]
PoolsMixed == [t \in Threads |-> IF t = 1 THEN {"cache", "shared"} ELSE {"cache", "query"}]
Emit == PrintT(<<"T", ToJson([hist |-> hist', overlap |-> overlap', hard |-> HardLimit'])>>)
=============================================================================

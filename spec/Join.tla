-------------------------------- MODULE Join --------------------------------
(***************************************************************************)
(* C17 - what a join query returns, as SQL defines it.                     *)
(*                                                                         *)
(* Tables are bags of rows <<k, v>> (k is the join key, v a payload), both *)
(* columns range over a tiny universe that contains NULL (N), duplicates   *)
(* are allowed, tables may be empty.  A query is                           *)
(*                                                                         *)
(*    SELECT proj FROM t1 <j1> JOIN t2 ON on1 [<j2> JOIN t3 ON on2]        *)
(*    [WHERE where]                                                        *)
(*                                                                         *)
(* with j in {inner, left, right, full, cross, comma}; ON and WHERE are    *)
(* conjunctions of atoms evaluated in SQL's three-valued logic.            *)
(*                                                                         *)
(* A result is represented WITHOUT loss as a set of index tuples           *)
(* <<i1, .., im>>: ij is the position of the contributing row of table j,  *)
(* 0 when table j is NULL-extended.  Distinct tuples are distinct result   *)
(* rows, so the set is the bag; `BagOf` projects it to (row, count) pairs. *)
(*                                                                         *)
(* The memory budget and the join algorithm do not occur anywhere in this  *)
(* module: that IS the property (the answer is a function of the tables    *)
(* and the query only).  The check runs every query under every budget     *)
(* and physical design and demands this answer each time.                  *)
(*                                                                         *)
(* `Impl(q, kf, tabs)` is the same evaluator with named deviations         *)
(* switched on (kf is a set of names).  Impl(q, {}, tabs) = Ref(q, tabs).  *)
(* The deviations describe defects that were found in TurDB by this check  *)
(* and are listed in known_findings.d/C17.json; an observed answer that is *)
(* neither the reference answer nor the answer of a deviation set is a     *)
(* violation.                                                              *)
(***************************************************************************)
EXTENDS Integers, Sequences, FiniteSets, TLC

N == -99                      \* SQL NULL

CONSTANTS KeySeq,             \* sequence of key values, e.g. <<N, 1, 2>>
          ValSeq              \* sequence of payload values, e.g. <<0, 1>>

NK == Len(KeySeq)
NV == Len(ValSeq)
NR == NK * NV                 \* size of the row universe; a row is a number in 1..NR
RowK(x) == KeySeq[((x - 1) \div NV) + 1]
RowV(x) == ValSeq[((x - 1) % NV) + 1]

\* a table is a non-decreasing sequence of row numbers (a canonical bag; this is also the insertion order)
TablesOfLen(n) == {s \in [1..n -> 1..NR] : \A i \in 1..(n - 1) : s[i] <= s[i + 1]}
TablesUpTo(n) == UNION {TablesOfLen(m) : m \in 0..n}

(* ------------------------------------------------------------------ *)
(* values, atoms, three-valued logic                                   *)
(* ------------------------------------------------------------------ *)
\* operand: a column of table t (1-based position in FROM) or a constant (t = 0)
ColOp(t, c) == [t |-> t, c |-> c, v |-> 0]
ConstOp(v) == [t |-> 0, c |-> "", v |-> v]
Atom(op, l, r) == [op |-> op, l |-> l, r |-> r]

\* value of column c of table t in the combined row described by index tuple tup
ColVal(tup, tabs, t, c) ==
    IF tup[t] = 0 THEN N
    ELSE IF c = "k" THEN RowK(tabs[t][tup[t]]) ELSE RowV(tabs[t][tup[t]])
OpVal(o, tup, tabs) == IF o.t = 0 THEN o.v ELSE ColVal(tup, tabs, o.t, o.c)

\* SQL comparison: UNKNOWN as soon as one side is NULL
Truth(a, tup, tabs) ==
    LET x == OpVal(a.l, tup, tabs)
        y == OpVal(a.r, tup, tabs)
    IN CASE a.op = "isnull"  -> IF x = N THEN "T" ELSE "F"
         [] a.op = "notnull" -> IF x = N THEN "F" ELSE "T"
         [] x = N \/ y = N   -> "U"
         [] a.op = "eq" -> IF x = y THEN "T" ELSE "F"
         [] a.op = "ne" -> IF x # y THEN "T" ELSE "F"
         [] a.op = "lt" -> IF x < y THEN "T" ELSE "F"
         [] a.op = "le" -> IF x <= y THEN "T" ELSE "F"
\* conjunction of a sequence of atoms (empty = TRUE)
Conj(atoms, tup, tabs) ==
    LET ts == {Truth(atoms[i], tup, tabs) : i \in DOMAIN atoms}
    IN IF "F" \in ts THEN "F" ELSE IF "U" \in ts THEN "U" ELSE "T"
\* ON and WHERE keep a row only when the condition is TRUE (not FALSE, not UNKNOWN)
Holds(atoms, tup, tabs) == Conj(atoms, tup, tabs) = "T"

(* ------------------------------------------------------------------ *)
(* one join step                                                       *)
(* ------------------------------------------------------------------ *)
Zeros(m) == [i \in 1..m |-> 0]
\* L: set of index tuples of length m (left input); R: set of row positions of table m+1 (right input)
JoinStep(L, R, m, type, cond, tabs) ==
    LET M == {p \in L \X R : Holds(cond, Append(p[1], p[2]), tabs)}
        inner == {Append(p[1], p[2]) : p \in M}
        lun == {Append(l, 0) : l \in {l \in L : \A j \in R : <<l, j>> \notin M}}
        run == {Append(Zeros(m), j) : j \in {j \in R : \A l \in L : <<l, j>> \notin M}}
    IN CASE type \in {"inner", "cross", "comma"} -> inner
         [] type = "left"  -> inner \cup lun
         [] type = "right" -> inner \cup run
         [] type = "full"  -> inner \cup lun \cup run

AllRows(tabs, t) == 1..Len(tabs[t])
Base(tabs) == {<<i>> : i \in AllRows(tabs, 1)}

(* ------------------------------------------------------------------ *)
(* queries                                                             *)
(*   [n |-> 2, j1, on1, where, proj]   or   [n |-> 3, j1, on1, j2, on2, *)
(*   where, proj];  on*, where: sequences of atoms; proj: sequence of  *)
(*   column operands                                                   *)
(* ------------------------------------------------------------------ *)
RefTuples(q, tabs) ==
    LET s1 == JoinStep(Base(tabs), AllRows(tabs, 2), 1, q.j1, q.on1, tabs)
        s2 == IF q.n = 2 THEN s1 ELSE JoinStep(s1, AllRows(tabs, 3), 2, q.j2, q.on2, tabs)
    IN {t \in s2 : Holds(q.where, t, tabs)}

ProjRow(q, tup, tabs) == [i \in DOMAIN q.proj |-> OpVal(q.proj[i], tup, tabs)]
\* the bag of result rows as a set of [r |-> row, n |-> multiplicity]
BagOf(q, S, tabs) ==
    LET rows == {ProjRow(q, t, tabs) : t \in S}
    IN {[r |-> x, n |-> Cardinality({t \in S : ProjRow(q, t, tabs) = x})] : x \in rows}
Ref(q, tabs) == BagOf(q, RefTuples(q, tabs), tabs)

BagSize(bag) == LET RECURSIVE Sum(_)
                    Sum(S) == IF S = {} THEN 0 ELSE LET e == CHOOSE e \in S : TRUE IN e.n + Sum(S \ {e})
                IN Sum(bag)
BagCount(bag, x) == IF \E e \in bag : e.r = x THEN (CHOOSE e \in bag : e.r = x).n ELSE 0
SubBag(b1, b2) == \A e \in b1 : e.n <= BagCount(b2, e.r)

(* ------------------------------------------------------------------ *)
(* scaling law (used to run the same query on big tables)              *)
(*                                                                     *)
(* Scale(tab, r) repeats every row r times (the replica number is an   *)
(* extra column no query mentions).  No condition can tell replicas    *)
(* apart, so a result tuple in which s tables take part (are not       *)
(* NULL-extended) appears r^s times in the scaled answer.              *)
(* ------------------------------------------------------------------ *)
Scale(tab, r) == [i \in 1..(Len(tab) * r) |-> tab[((i - 1) \div r) + 1]]
ScaleAll(tabs, r) == [t \in DOMAIN tabs |-> Scale(tabs[t], r)]
Pow(r, s) == IF s = 0 THEN 1 ELSE IF s = 1 THEN r ELSE IF s = 2 THEN r * r ELSE r * r * r
Parts(tup) == Cardinality({t \in DOMAIN tup : tup[t] # 0})
ScaledBagOf(q, S, tabs, r) ==
    LET rows == {ProjRow(q, t, tabs) : t \in S}
        RECURSIVE Sum(_)
        Sum(T) == IF T = {} THEN 0 ELSE LET t == CHOOSE t \in T : TRUE IN Pow(r, Parts(t)) + Sum(T \ {t})
    IN {[r |-> x, n |-> Sum({t \in S : ProjRow(q, t, tabs) = x})] : x \in rows}
ScaledRef(q, tabs, r) == ScaledBagOf(q, RefTuples(q, tabs), tabs, r)
\* the law itself, checked by TLC by really evaluating the query on the scaled tables
ScaleLaw(q, tabs, r) == Ref(q, ScaleAll(tabs, r)) = ScaledRef(q, tabs, r)

(* ------------------------------------------------------------------ *)
(* named deviations (defects found in TurDB; see known_findings.d)     *)
(*                                                                     *)
(*  on_residual_dropped   when ON contains an equality between columns *)
(*                        of the two inputs, every other ON conjunct   *)
(*                        is ignored                                   *)
(*  where_pushed_below_outer  a WHERE whose comparisons mention only   *)
(*                        one input is applied to that input before    *)
(*                        the join, also on the NULL-supplying side    *)
(*  where_as_on           a WHERE that stays above an outer join is    *)
(*                        evaluated as part of the match condition:    *)
(*                        unmatched rows are NULL-extended and emitted *)
(*                        without being filtered                       *)
(*  right_unmatched_by_name  the NULL-extended rows of RIGHT/FULL      *)
(*                        joins are projected by column NAME in table  *)
(*                        order (first k, first v, second k, ...)      *)
(*                        instead of by the select list                *)
(*  inner_input_empty     (3-way) an inner equi-join used as the left  *)
(*                        input of another join contributes no rows    *)
(*  outer_input_as_inner  (3-way) an outer join used as the left input *)
(*                        of another join is evaluated as an inner     *)
(*                        join                                         *)
(* ------------------------------------------------------------------ *)
KFNames == {"on_residual_dropped", "where_pushed_below_outer", "where_as_on", "right_unmatched_by_name",
            "inner_input_empty", "outer_input_as_inner", "input_where_lost"}

IsEqui(a, lt, rt) == /\ a.op = "eq" /\ a.l.t # 0 /\ a.r.t # 0
                     /\ ((a.l.t \in lt /\ a.r.t \in rt) \/ (a.l.t \in rt /\ a.r.t \in lt))
HasEqui(on, lt, rt) == \E i \in DOMAIN on : IsEqui(on[i], lt, rt)
EquiOnly(on, lt, rt) == SelectSeq(on, LAMBDA a : IsEqui(a, lt, rt))
\* tables mentioned by the comparisons of a conjunction (IS [NOT] NULL is not looked into: that is what the code does)
CmpTables(atoms) == UNION {IF atoms[i].op \in {"isnull", "notnull"} THEN {}
                           ELSE ({atoms[i].l.t, atoms[i].r.t} \ {0}) : i \in DOMAIN atoms}
OnOf(on, kf, lt, rt) == IF "on_residual_dropped" \in kf /\ HasEqui(on, lt, rt) THEN EquiOnly(on, lt, rt) ELSE on

\* a tuple that has only table t populated with row i (to evaluate a single-table condition on an input row)
Solo(m, t, i) == [x \in 1..m |-> IF x = t THEN i ELSE 0]

ImplTuples(q, kf, tabs) ==
    LET wt == CmpTables(q.where)
        last == q.n                               \* the table joined by the top-level join
        lts == 1..(last - 1)
        \* WHERE goes below the top-level join when it only mentions its right input or only its left input
        pushR == "where_pushed_below_outer" \in kf /\ wt # {} /\ wt \subseteq {last}
        pushL == "where_pushed_below_outer" \in kf /\ wt # {} /\ wt \subseteq lts
        whereTop == IF pushR \/ pushL THEN <<>> ELSE q.where
        asOn == "where_as_on" \in kf
        Rtop == IF pushR THEN {j \in AllRows(tabs, last) : Holds(q.where, Solo(q.n, last, j), tabs)}
                ELSE AllRows(tabs, last)
        \* first join of a 3-way query = the left input of the top-level join
        j1eff == IF q.n = 3 /\ "outer_input_as_inner" \in kf /\ q.j1 \in {"left", "right", "full"} THEN "inner" ELSE q.j1
        s1raw == JoinStep(Base(tabs), AllRows(tabs, 2), 1, j1eff, OnOf(q.on1, kf, {1}, {2}), tabs)
        s1 == IF q.n = 3 /\ "inner_input_empty" \in kf /\ q.j1 \in {"inner", "comma"} /\ HasEqui(q.on1, {1}, {2})
                THEN {} ELSE s1raw
        Ltop == IF q.n = 2
                  THEN (IF pushL THEN {t \in Base(tabs) : Holds(q.where, <<t[1], 0>>, tabs)} ELSE Base(tabs))
                  ELSE (IF pushL /\ "input_where_lost" \notin kf THEN {t \in s1 : Holds(q.where, Append(t, 0), tabs)} ELSE s1)
        jt == IF q.n = 2 THEN q.j1 ELSE q.j2
        ont == IF q.n = 2 THEN OnOf(q.on1, kf, {1}, {2}) ELSE OnOf(q.on2, kf, {1, 2}, {3})
        cond == IF asOn THEN ont \o whereTop ELSE ont
        top == JoinStep(Ltop, Rtop, q.n - 1, jt, cond, tabs)
    IN IF asOn THEN top ELSE {t \in top : Holds(whereTop, t, tabs)}

\* projection of the deviation right_unmatched_by_name: the i-th output column takes the value of the
\* occ-th column with that NAME in table order, occ = number of earlier output columns with the same name
NameOcc(q, i) == Cardinality({j \in 1..(i - 1) : q.proj[j].c = q.proj[i].c})
ByNameOp(q, i) == ColOp(NameOcc(q, i) + 1, q.proj[i].c)
ImplProjRow(q, kf, tup, tabs) ==
    IF /\ "right_unmatched_by_name" \in kf
       /\ (IF q.n = 2 THEN q.j1 ELSE q.j2) \in {"right", "full"}
       /\ \A t \in 1..(q.n - 1) : tup[t] = 0
    THEN [i \in DOMAIN q.proj |-> IF NameOcc(q, i) + 1 <= q.n THEN OpVal(ByNameOp(q, i), tup, tabs) ELSE N]
    ELSE ProjRow(q, tup, tabs)
ImplBagOf(q, kf, S, tabs, r) ==
    LET rows == {ImplProjRow(q, kf, t, tabs) : t \in S}
        RECURSIVE Sum(_)
        Sum(T) == IF T = {} THEN 0 ELSE LET t == CHOOSE t \in T : TRUE IN Pow(r, Parts(t)) + Sum(T \ {t})
    IN {[r |-> x, n |-> Sum({t \in S : ImplProjRow(q, kf, t, tabs) = x})] : x \in rows}
\* answer with deviations kf on tables scaled by r (r = 1: the plain tables)
Impl(q, kf, tabs, r) == ImplBagOf(q, kf, ImplTuples(q, kf, tabs), tabs, r)
=============================================================================

-------------------------------- MODULE Join --------------------------------
(***************************************************************************)
(* C17 - what a join query returns, as SQL defines it.                     *)
(*                                                                         *)
(* Tables are bags of rows <<k, v>> (k is the join key, v a payload), both *)
(* columns range over a tiny universe that contains NULL (N), duplicates   *)
(* are allowed, tables may be empty.  A query is                           *)
(*                                                                         *)
(*    SELECT proj FROM t1 <j1> JOIN t2 ON on1 [<j2> JOIN t3 ON on2]        *)
(*    [WHERE where]                                                        *)
(*                                                                         *)
(* with j in {inner, left, right, full, cross, comma}; ON and WHERE are    *)
(* conjunctions of atoms evaluated in SQL's three-valued logic.            *)
(*                                                                         *)
(* A result is represented WITHOUT loss as a set of index tuples           *)
(* <<i1, .., im>>: ij is the position of the contributing row of table j,  *)
(* 0 when table j is NULL-extended.  Distinct tuples are distinct result   *)
(* rows, so the set is the bag; `BagOf` projects it to (row, count) pairs. *)
(*                                                                         *)
(* The memory budget and the join algorithm do not occur anywhere in this  *)
(* module: that IS the property (the answer is a function of the tables    *)
(* and the query only).  The check runs every query under every budget     *)
(* and physical design and demands this answer each time.                  *)
(*                                                                         *)
(* `Impl(q, kf, tabs, r)` is the same evaluator with named deviations      *)
(* switched on (kf is a set of names), on tables scaled by r.              *)
(* Impl(q, {}, tabs, 1) = Ref(q, tabs) (checked by TLC, ImplIsRef).        *)
(* The deviations describe defects that were found in TurDB by this check  *)
(* and are listed in known_findings.d/C17.json; an observed answer that is *)
(* neither the reference answer nor the answer of a deviation set is a     *)
(* violation.                                                              *)
(***************************************************************************)
EXTENDS Integers, Sequences, FiniteSets, TLC

N == -99                      \* SQL NULL

CONSTANTS KeySeq,             \* sequence of key values, e.g. <<N, 1, 2>>
          ValSeq              \* sequence of payload values, e.g. <<0, 1>>

NK == Len(KeySeq)
NV == Len(ValSeq)
NR == NK * NV                 \* size of the row universe; a row is a number in 1..NR
RowK(x) == KeySeq[((x - 1) \div NV) + 1]
RowV(x) == ValSeq[((x - 1) % NV) + 1]

\* a table is a non-decreasing sequence of row numbers (a canonical bag; this is also the insertion order)
TablesOfLen(n) == {s \in [1..n -> 1..NR] : \A i \in 1..(n - 1) : s[i] <= s[i + 1]}
TablesUpTo(n) == UNION {TablesOfLen(m) : m \in 0..n}

(* ------------------------------------------------------------------ *)
(* values, atoms, three-valued logic                                   *)
(* ------------------------------------------------------------------ *)
\* operand: a column of table t (1-based position in FROM) or a constant (t = 0)
ColOp(t, c) == [t |-> t, c |-> c, v |-> 0]
ConstOp(v) == [t |-> 0, c |-> "", v |-> v]
Atom(op, l, r) == [op |-> op, l |-> l, r |-> r]

\* value of column c of table t in the combined row described by index tuple tup
ColVal(tup, tabs, t, c) ==
    IF tup[t] = 0 THEN N
    ELSE IF c = "k" THEN RowK(tabs[t][tup[t]]) ELSE RowV(tabs[t][tup[t]])
OpVal(o, tup, tabs) == IF o.t = 0 THEN o.v ELSE ColVal(tup, tabs, o.t, o.c)

\* SQL comparison: UNKNOWN as soon as one side is NULL.
\* (nn = TRUE is the deviation null_eq_null: two NULLs compare as equal values; nn = FALSE everywhere in the reference)
Truth(a, tup, tabs, nn) ==
    LET x == OpVal(a.l, tup, tabs)
        y == OpVal(a.r, tup, tabs)
    IN CASE a.op = "isnull"  -> IF x = N THEN "T" ELSE "F"
         [] a.op = "notnull" -> IF x = N THEN "F" ELSE "T"
         [] nn /\ x = N /\ y = N -> IF a.op \in {"eq", "le"} THEN "T" ELSE "F"
         [] x = N \/ y = N   -> "U"
         [] a.op = "eq" -> IF x = y THEN "T" ELSE "F"
         [] a.op = "ne" -> IF x # y THEN "T" ELSE "F"
         [] a.op = "lt" -> IF x < y THEN "T" ELSE "F"
         [] a.op = "le" -> IF x <= y THEN "T" ELSE "F"
\* conjunction of a sequence of atoms (empty = TRUE)
Conj(atoms, tup, tabs, nn) ==
    LET ts == {Truth(atoms[i], tup, tabs, nn) : i \in DOMAIN atoms}
    IN IF "F" \in ts THEN "F" ELSE IF "U" \in ts THEN "U" ELSE "T"
\* ON and WHERE keep a row only when the condition is TRUE (not FALSE, not UNKNOWN)
HoldsX(atoms, tup, tabs, nn) == Conj(atoms, tup, tabs, nn) = "T"
Holds(atoms, tup, tabs) == HoldsX(atoms, tup, tabs, FALSE)

(* ------------------------------------------------------------------ *)
(* one join step                                                       *)
(* ------------------------------------------------------------------ *)
Zeros(m) == [i \in 1..m |-> 0]
\* L: set of index tuples of length m (left input); R: set of row positions of table m+1 (right input)
JoinStepP(L, R, m, type, Match(_)) ==
    LET M == {p \in L \X R : Match(Append(p[1], p[2]))}
        inner == {Append(p[1], p[2]) : p \in M}
        lun == {Append(l, 0) : l \in {l \in L : \A j \in R : <<l, j>> \notin M}}
        run == {Append(Zeros(m), j) : j \in {j \in R : \A l \in L : <<l, j>> \notin M}}
    IN CASE type \in {"inner", "cross", "comma"} -> inner
         [] type = "left"  -> inner \cup lun
         [] type = "right" -> inner \cup run
         [] type = "full"  -> inner \cup lun \cup run
JoinStep(L, R, m, type, cond, tabs) == JoinStepP(L, R, m, type, LAMBDA t : Holds(cond, t, tabs))

AllRows(tabs, t) == 1..Len(tabs[t])
Base(tabs) == {<<i>> : i \in AllRows(tabs, 1)}

(* ------------------------------------------------------------------ *)
(* queries                                                             *)
(*   [n |-> 2, j1, on1, where, proj]   or   [n |-> 3, j1, on1, j2, on2, *)
(*   where, proj];  on*, where: sequences of atoms; proj: sequence of  *)
(*   column operands                                                   *)
(* ------------------------------------------------------------------ *)
RefTuples(q, tabs) ==
    LET s1 == JoinStep(Base(tabs), AllRows(tabs, 2), 1, q.j1, q.on1, tabs)
        s2 == IF q.n = 2 THEN s1 ELSE JoinStep(s1, AllRows(tabs, 3), 2, q.j2, q.on2, tabs)
    IN {t \in s2 : Holds(q.where, t, tabs)}

ProjRow(q, tup, tabs) == [i \in DOMAIN q.proj |-> OpVal(q.proj[i], tup, tabs)]
\* the bag of result rows as a set of [r |-> row, n |-> multiplicity]
BagOf(q, S, tabs) ==
    LET rows == {ProjRow(q, t, tabs) : t \in S}
    IN {[r |-> x, n |-> Cardinality({t \in S : ProjRow(q, t, tabs) = x})] : x \in rows}
Ref(q, tabs) == BagOf(q, RefTuples(q, tabs), tabs)

BagSize(bag) == LET RECURSIVE Sum(_)
                    Sum(S) == IF S = {} THEN 0 ELSE LET e == CHOOSE e \in S : TRUE IN e.n + Sum(S \ {e})
                IN Sum(bag)
BagCount(bag, x) == IF \E e \in bag : e.r = x THEN (CHOOSE e \in bag : e.r = x).n ELSE 0
SubBag(b1, b2) == \A e \in b1 : e.n <= BagCount(b2, e.r)

(* ------------------------------------------------------------------ *)
(* scaling law (used to run the same query on big tables)              *)
(*                                                                     *)
(* Scale(tab, r) repeats every row r times (the replica number is an   *)
(* extra column no query mentions).  No condition can tell replicas    *)
(* apart, so a result tuple in which s tables take part (are not       *)
(* NULL-extended) appears r^s times in the scaled answer.              *)
(* ------------------------------------------------------------------ *)
Scale(tab, r) == [i \in 1..(Len(tab) * r) |-> tab[((i - 1) \div r) + 1]]
ScaleAll(tabs, r) == [t \in DOMAIN tabs |-> Scale(tabs[t], r)]
Pow(r, s) == IF s = 0 THEN 1 ELSE IF s = 1 THEN r ELSE IF s = 2 THEN r * r ELSE r * r * r
Parts(tup) == Cardinality({t \in DOMAIN tup : tup[t] # 0})
ScaledBagOf(q, S, tabs, r) ==
    LET rows == {ProjRow(q, t, tabs) : t \in S}
        RECURSIVE Sum(_)
        Sum(T) == IF T = {} THEN 0 ELSE LET t == CHOOSE t \in T : TRUE IN Pow(r, Parts(t)) + Sum(T \ {t})
    IN {[r |-> x, n |-> Sum({t \in S : ProjRow(q, t, tabs) = x})] : x \in rows}
ScaledRef(q, tabs, r) == ScaledBagOf(q, RefTuples(q, tabs), tabs, r)
\* the law itself, checked by TLC by really evaluating the query on the scaled tables
ScaleLaw(q, tabs, r) == Ref(q, ScaleAll(tabs, r)) = ScaledRef(q, tabs, r)

(* ------------------------------------------------------------------ *)
(* named deviations (defects found in TurDB; see known_findings.d)     *)
(*                                                                     *)
(* hash / nested-loop operators                                        *)
(*  on_residual_dropped   when ON contains an equality between columns *)
(*                        of the two inputs (hash join), every other   *)
(*                        ON conjunct is ignored                       *)
(*  where_pushed_below_outer  a WHERE whose comparisons mention only   *)
(*                        one input is applied to that input before    *)
(*                        the join, also on the NULL-supplying side    *)
(*  where_as_on           a WHERE that stays above an outer join is    *)
(*                        evaluated as part of the match condition:    *)
(*                        unmatched rows are NULL-extended and emitted *)
(*                        without being filtered                       *)
(*  right_unmatched_by_name  the NULL-extended rows of RIGHT/FULL      *)
(*                        joins are projected by column NAME in table  *)
(*                        order (first k, first v, second k, ...)      *)
(*                        instead of by the select list                *)
(*  null_eq_null          conditions evaluated row by row (nested-loop *)
(*                        ON, WHERE) treat two NULLs as equal values:  *)
(*                        NULL = NULL and NULL <= NULL are TRUE        *)
(*  reorder_drops_single_side_on  when an INNER/CROSS join is          *)
(*                        reordered, ON conjuncts that mention only    *)
(*                        one input are lost                           *)
(*  reorder_drops_all_on  when an INNER join is reordered after a      *)
(*                        one-sided WHERE was pushed into an input,    *)
(*                        the whole ON is lost (cross product)         *)
(* index nested-loop operator                                          *)
(*  inl_filters_ignored   WHERE is not applied at all                  *)
(*  inl_right_as_inner    RIGHT JOIN drops the unmatched right rows    *)
(* left input of a 3-way join (evaluated by a separate routine)        *)
(*  join_input_empty      the input join contributes no rows           *)
(*  outer_input_as_inner  an outer join is evaluated as an inner join  *)
(*  input_where_lost      a WHERE pushed onto the input join is lost   *)
(* ------------------------------------------------------------------ *)
KFHashNL == {"on_residual_dropped", "where_pushed_below_outer", "where_as_on", "right_unmatched_by_name", "null_eq_null",
             "reorder_drops_single_side_on", "reorder_drops_all_on"}
KFIndex == {"inl_filters_ignored", "inl_right_as_inner"}
KFInput == {"join_input_empty", "outer_input_as_inner", "input_where_lost", "inner_chain_conjuncts_dropped"}
KFNames == KFHashNL \cup KFIndex \cup KFInput

\* tables whose columns a comparison mentions (IS [NOT] NULL is not looked into: that is what the optimizer rules do)
AtomTables(a) == IF a.op \in {"isnull", "notnull"} THEN {} ELSE ({a.l.t, a.r.t} \ {0})
Spans(a, lt, rt) == AtomTables(a) \cap lt # {} /\ AtomTables(a) \cap rt # {}
IsEqui(a, lt, rt) == a.op = "eq" /\ a.l.t # 0 /\ a.r.t # 0 /\ Spans(a, lt, rt)
HasEqui(on, lt, rt) == \E i \in DOMAIN on : IsEqui(on[i], lt, rt)
EquiOnly(on, lt, rt) == SelectSeq(on, LAMBDA a : IsEqui(a, lt, rt))
SpanOnly(on, lt, rt) == SelectSeq(on, LAMBDA a : Spans(a, lt, rt))
CmpTables(atoms) == UNION {AtomTables(atoms[i]) : i \in DOMAIN atoms}
OnOf(on, kf, lt, rt) == IF "on_residual_dropped" \in kf /\ HasEqui(on, lt, rt) THEN EquiOnly(on, lt, rt) ELSE on

\* a tuple that has only table t populated with row i (to evaluate a single-table condition on an input row)
Solo(m, t, i) == [x \in 1..m |-> IF x = t THEN i ELSE 0]

\* what the optimizer does first, and rightly so (the reference gives the same answer for both forms, see CrossSize):
\* equalities between the two sides found in the WHERE of a CROSS / comma join become the ON of an INNER join
Norm(q0) ==
    LET top(q) == IF q.n = 2 THEN q.j1 ELSE q.j2
        lts(q) == 1..(q.n - 1)
        q1 == IF top(q0) \in {"cross", "comma"} /\ HasEqui(q0.where, lts(q0), {q0.n})
              THEN (IF q0.n = 2
                    THEN [q0 EXCEPT !.j1 = "inner", !.on1 = EquiOnly(q0.where, {1}, {2}),
                                    !.where = SelectSeq(q0.where, LAMBDA a : ~IsEqui(a, {1}, {2}))]
                    ELSE [q0 EXCEPT !.j2 = "inner", !.on2 = EquiOnly(q0.where, {1, 2}, {3}),
                                    !.where = SelectSeq(q0.where, LAMBDA a : ~IsEqui(a, {1, 2}, {3}))])
              ELSE q0
    IN IF q1.n = 3 /\ q1.j1 \in {"cross", "comma"} /\ CmpTables(q1.where) \subseteq {1, 2} /\ HasEqui(q1.where, {1}, {2})
       THEN [q1 EXCEPT !.j1 = "inner", !.on1 = EquiOnly(q1.where, {1}, {2}),
                       !.where = SelectSeq(q1.where, LAMBDA a : ~IsEqui(a, {1}, {2}))]
       ELSE q1

ImplEval(q0, kf, tabs) ==
    LET q == Norm(q0)
        nn == "null_eq_null" \in kf
        last == q.n                               \* the table joined by the top-level join
        lts == 1..(last - 1)
        jt0 == IF q.n = 2 THEN q.j1 ELSE q.j2
        on0 == IF q.n = 2 THEN q.on1 ELSE q.on2
        innerish == jt0 \in {"inner", "cross", "comma"}
        where0 == IF "inl_filters_ignored" \in kf THEN <<>> ELSE q.where
        wt == CmpTables(where0)
        single == wt # {} /\ (wt \subseteq {last} \/ wt \subseteq lts)
        \* a one-sided WHERE goes below the top-level join (harmless for inner joins, a deviation below outer joins)
        pushed == single /\ (innerish \/ "where_pushed_below_outer" \in kf)
        pushR == pushed /\ wt \subseteq {last}
        pushL == pushed /\ wt \subseteq lts
        whereTop == IF pushed THEN <<>> ELSE where0
        asOn == "where_as_on" \in kf
        Rtop == IF pushR THEN {j \in AllRows(tabs, last) : HoldsX(where0, Solo(q.n, last, j), tabs, nn)}
                ELSE AllRows(tabs, last)
        \* ---- first join of a 3-way query = the left input of the top-level join
        j1eff == IF "outer_input_as_inner" \in kf /\ q.j1 \in {"left", "right", "full"} THEN "inner" ELSE q.j1
        on1eff == OnOf(q.on1, kf, {1}, {2})
        nn1 == nn /\ ~HasEqui(on1eff, {1}, {2})
        s1 == IF "join_input_empty" \in kf THEN {}
              ELSE JoinStepP(Base(tabs), AllRows(tabs, 2), 1, j1eff, LAMBDA t : HoldsX(on1eff, t, tabs, nn1))
        Ltop == IF q.n = 2
                  THEN (IF pushL THEN {t \in Base(tabs) : HoldsX(where0, <<t[1], 0>>, tabs, nn)} ELSE Base(tabs))
                  ELSE (IF pushL /\ "input_where_lost" \notin kf THEN {t \in s1 : HoldsX(where0, Append(t, 0), tabs, nn)} ELSE s1)
        \* ---- the top-level join
        reorderAll == "reorder_drops_all_on" \in kf /\ innerish /\ single
        onA == IF reorderAll THEN <<>>
               ELSE IF "reorder_drops_single_side_on" \in kf /\ innerish THEN SpanOnly(on0, lts, {last}) ELSE on0
        onB == OnOf(onA, kf, lts, {last})
        nnOn == nn /\ ~HasEqui(onB, lts, {last})      \* hash keys never match on NULL; row-by-row evaluation does
        jt == IF "inl_right_as_inner" \in kf /\ jt0 = "right" THEN "inner" ELSE jt0
        top == JoinStepP(Ltop, Rtop, q.n - 1, jt,
                         LAMBDA t : HoldsX(onB, t, tabs, nnOn) /\ (asOn => HoldsX(whereTop, t, tabs, nn)))
    IN [lempty |-> Ltop = {}, S |-> IF asOn THEN top ELSE {t \in top : HoldsX(whereTop, t, tabs, nn)}]
ImplTuples(q, kf, tabs) == ImplEval(q, kf, tabs).S

\* projection of the deviation right_unmatched_by_name: for the NULL-extended rows of a RIGHT / FULL join the i-th
\* output column takes the value of the occ-th column with that NAME in table order (occ = number of earlier output
\* columns with the same name).  In a 3-way join whose left input came out empty the positions are computed as if the
\* left input had no columns: with a column map of the input (nested-loop / grace-hash input) the first and third
\* occurrence of a name read the third table and the second reads nothing; without one (input not evaluated at all)
\* the first occurrence reads the third table and every other output column reads its first column.
NameOcc(q, i) == Cardinality({j \in 1..(i - 1) : q.proj[j].c = q.proj[i].c})
ByNameOp(q, i) == ColOp(NameOcc(q, i) + 1, q.proj[i].c)
ImplProjRow(q, kf, tup, tabs, lempty) ==
    IF /\ "right_unmatched_by_name" \in kf
       /\ (IF q.n = 2 THEN q.j1 ELSE q.j2) \in {"right", "full"}
       /\ \A t \in 1..(q.n - 1) : tup[t] = 0
    THEN IF q.n = 3 /\ lempty
         THEN [i \in DOMAIN q.proj |->
                 LET occ == NameOcc(q, i)
                 IN IF "join_input_empty" \in kf
                    THEN (IF occ = 0 THEN ColVal(tup, tabs, 3, q.proj[i].c) ELSE ColVal(tup, tabs, 3, "k"))
                    ELSE (IF occ \in {0, 2} THEN ColVal(tup, tabs, 3, q.proj[i].c) ELSE IF occ = 1 THEN N ELSE ColVal(tup, tabs, 3, "k"))]
         ELSE [i \in DOMAIN q.proj |-> IF NameOcc(q, i) + 1 <= q.n THEN OpVal(ByNameOp(q, i), tup, tabs) ELSE N]
    ELSE ProjRow(q, tup, tabs)
\* bag with multiplicities on tables scaled by r (a tuple in which s tables take part counts r^s times)
BagOfX(q, kf, S, tabs, r, lempty) ==
    LET rows == {ImplProjRow(q, kf, t, tabs, lempty) : t \in S}
        RECURSIVE Sum(_)
        Sum(T) == IF T = {} THEN 0 ELSE LET t == CHOOSE t \in T : TRUE IN Pow(r, Parts(t)) + Sum(T \ {t})
    IN {[r |-> x, n |-> Sum({t \in S : ImplProjRow(q, kf, t, tabs, lempty) = x})] : x \in rows}
\* answer with deviations kf on tables scaled by r (r = 1: the plain tables)
Impl(q, kf, tabs, r) == LET e == ImplEval(q, kf, tabs) IN BagOfX(q, kf, e.S, tabs, r, e.lempty)

\* inner_chain_conjuncts_dropped (3-way chains of INNER / CROSS / comma joins): the answer is that of the query with
\* the set D of its ON / WHERE conjuncts removed (which ones depends on the order the optimizer picks from the table
\* sizes and on where it pushed the WHERE)
ChainAtoms(q) == q.on1 \o q.on2 \o q.where
ChainTuples(q, D, nn, tabs) ==
    LET at == ChainAtoms(q)
    IN {t \in {<<i, j, l>> : i \in AllRows(tabs, 1), j \in AllRows(tabs, 2), l \in AllRows(tabs, 3)} :
           \A x \in (DOMAIN at) \ D : Truth(at[x], t, tabs, nn) = "T"}
IsInnerChain(q) == q.n = 3 /\ q.j1 \in {"inner", "cross", "comma"} /\ q.j2 \in {"inner", "cross", "comma"}
=============================================================================

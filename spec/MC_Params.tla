------------------------------ MODULE MC_Params ------------------------------
(* TLC model for Params.tla: one state per (template, slot values, placeholder form, age); the invariants are the
   reference's own laws; Emit prints the case with the expected outcome of executing it once and twice. *)
EXTENDS Params, Json

ProbesOf(rs) == {[c |-> "id", v |-> x, ids |-> IdsOf({r \in rs : EqV(r.id, x)})] : x \in IdVals \ {Null}}
                \cup {[c |-> "u", v |-> x, ids |-> IdsOf({r \in rs : EqV(r.u, x)})] : x \in UVals \ {Null}}
                \cup {[c |-> "k", v |-> x, ids |-> IdsOf({r \in rs : EqV(r.k, x)})] : x \in KVals \ {Null}}
Out(res) == [ok |-> res.ok, n |-> res.n, sel |-> res.sel, rows |-> res.rows, probes |-> ProbesOf(res.rows)]

\* (evaluated as a state invariant of the states that carry a case, so that the primed variables are not needed)
Emit == done =>
          PrintT(<<"T", ToJson([kind |-> St.kind, ph |-> St.ph, set |-> St.set, wh |-> St.wh, nslots |-> St.nslots, nrows |-> St.nrows,
                                form |-> form, sv |-> Sv, ps |-> Ps,
                                sv2 |-> Sv2, ps2 |-> Ps2, once |-> Out(Once), twice |-> Out(Twice), other |-> Out(Other)])>>)
=============================================================================

CONSTANTS MaxLen = 4  LawDim = 2  LawFull = FALSE  Rich = FALSE
INIT InitLaws
NEXT NextLaws
INVARIANTS LawL2 LawCos LawCosTrans
CHECK_DEADLOCK FALSE

CONSTANTS Years <- AllYears  Mode = "dates"
SPECIFICATION Spec
INVARIANT MonthInv
INVARIANT YearInv
INVARIANT EmitMonth
INVARIANT EmitInvalid
CHECK_DEADLOCK FALSE

CONSTANTS Pages = {1, 2, 3, 4}  TrunkMax = 2  MaxOps = 6  ReturnTrunk = FALSE
SPECIFICATION Spec
VIEW view
INVARIANTS CountIsAllocatable
CHECK_DEADLOCK FALSE

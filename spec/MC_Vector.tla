----------------------------- MODULE MC_Vector -----------------------------
(* TLC models for Vector.tla:                                                                     *)
(*   MC_Vector_laws.cfg     laws of the metrics over all small vectors (an oracle bug shows here) *)
(*   Gen_Vector_kernels.cfg kernel conformance cases for EVERY length 1..MaxLen                   *)
(*   Gen_Vector_tables.cfg  tables x queries x operators x LIMITs with the ranks of all rows      *)
(*   Trace_Vector.tla/.cfg  observed results (file $OBS, ndjson) judged by FailedClauses          *)
EXTENDS Vector, Json

CONSTANTS MaxLen,      \* kernel cases for every length 1..MaxLen
          LawDim,      \* laws over all vectors of dimension 1..LawDim
          Rich,        \* TRUE: three spike values at every position; FALSE: one (cycling through the three with the position)
          LawFull      \* TRUE: components -3..3 and Large, every query in -3..3; FALSE: a representative subset

VARIABLE c

(* ------------------------------------------------------------------- laws *)
SmallComp == IF LawFull THEN (-3..3) \cup {Large} ELSE {-3, -1, 0, 1, 2, Large}
VecsOfDim(n, comps) == [1..n -> comps]
LawVecs == UNION {VecsOfDim(n, SmallComp) : n \in 1..LawDim}
TinyVecs == VecsOfDim(2, IF LawFull THEN -2..2 ELSE {-1, 0, 1, 2})
QVecs(n) == VecsOfDim(n, IF LawFull THEN -3..3 ELSE {-3, -1, 0, 2})
\* one state per (a, b) of equal dimension; the invariant quantifies over q and a third vector
\* Two-level state machines: the initial states are GROUP markers [g |-> TRUE, key |-> ..] that only fan out into
\* the cases [g |-> FALSE, v |-> case] (so that TLC's workers share the evaluation); invariants look at cases only.
Grp(k) == [g |-> TRUE, key |-> k]
Case(x) == [g |-> FALSE, v |-> x]
InitLaws == c \in {Grp(a) : a \in LawVecs}
NextLaws == c.g /\ c' \in {Case(<<c.key, b>>) : b \in {x \in LawVecs : Len(x) = Len(c.key)}}
LawL2 == c.g \/ (L2Laws(c.v[1], c.v[2]) /\ ExactInF32(c.v[1], c.v[2]))
LawCos == c.g \/ \A q \in QVecs(Len(c.v[1])) : CosSafe(c.v[1], q) /\ CosSafe(c.v[2], q) /\ CosLaws(c.v[1], c.v[2], q)
LawCosTrans == c.g \/ ((c.v[1] \in TinyVecs /\ c.v[2] \in TinyVecs) =>
                  \A x \in TinyVecs, q \in TinyVecs : CosTransitive(c.v[1], c.v[2], x, q))
LawArith == IsqrtLaw(300) /\ CmpFracLaw(14)      \* ASSUMEd by MC_Vector_laws.tla (evaluated once)

(* ---------------------------------------------------------- kernel cases *)
Zero(n) == [j \in 1..n |-> 0]
Ones(n) == [j \in 1..n |-> 1]
Spike(n, i, x) == [j \in 1..n |-> IF j = i THEN x ELSE 0]
Prefix(n, p) == [j \in 1..n |-> IF j <= p THEN 1 ELSE 0]
PatA(n) == [j \in 1..n |-> ((2 * j) % 7) - 3]          \* all of -3..3, negative components
PatB(n) == [j \in 1..n |-> ((3 * j + 1) % 7) - 3]
KC(f, n, p, a, b) == [fam |-> f, n |-> n, pos |-> p, a |-> a, b |-> b]
Pick(s, i) == IF Rich THEN {s[1], s[2], s[3]} ELSE {s[(i % 3) + 1]}
KCasesOf(n) ==
         UNION {{KC("spike_zero", n, i, Spike(n, i, x), Zero(n)) : x \in Pick(<<-2, 3, Large>>, i + n)} : i \in 1..n}
    \cup UNION {{KC("spike_ones", n, i, Spike(n, i, x), Ones(n)) : x \in Pick(<<Large, -3, 2>>, i + n)} : i \in 1..n}
    \cup {KC("spike_mirror", n, i, Spike(n, i, Large), Spike(n, n + 1 - i, -3)) : i \in 1..n}
    \cup {KC("spike_same", n, i, Spike(n, i, 2), Spike(n, i, 3)) : i \in 1..n}
    \cup {KC("prefix_zero", n, p, Prefix(n, p), Zero(n)) : p \in 1..n}
    \cup {KC("prefix_ones", n, p, Prefix(n, p), Ones(n)) : p \in 1..n}
    \cup {KC("pattern_spike", n, i, PatA(n), Spike(n, i, Large)) : i \in 1..n}
    \cup {KC("pattern", n, 0, PatA(n), PatB(n)), KC("pattern_self", n, 0, PatA(n), PatA(n)),
          KC("pattern_neg", n, 0, PatA(n), Scale(-2, PatA(n))), KC("zero_zero", n, 0, Zero(n), Zero(n))}
InitK == c \in {Grp(n) : n \in 1..MaxLen}
NextK == c.g /\ c' \in {Case(x) : x \in KCasesOf(c.key)}
KOut == LET x == c.v IN
        [fam |-> x.fam, n |-> x.n, pos |-> x.pos, a |-> x.a, b |-> x.b,
         l2sq |-> L2sq(x.a, x.b), dot |-> Dot(x.a, x.b), na |-> Norm2(x.a), nb |-> Norm2(x.b),
         cls |-> CosClass(x.a, x.b)]
EmitK == c.g \/ PrintT(<<"T", ToJson(KOut)>>)
\* meta-invariants on the generated cases: inputs stay exact in f32; the expansion law ties the four numbers together
KSound == c.g \/ LET x == c.v IN
          /\ ExactInF32(x.a, x.b)
          /\ L2sq(x.a, x.b) = Norm2(x.a) + Norm2(x.b) - 2 * Dot(x.a, x.b)
          /\ (x.fam = "pattern_self" => L2sq(x.a, x.b) = 0 /\ CosClass(x.a, x.b) = "same_dir")
          /\ (x.fam = "pattern_neg" => CosClass(x.a, x.b) = "opposite")
          /\ (x.fam = "spike_mirror" => CosClass(x.a, x.b) = IF 2 * x.pos = x.n + 1 THEN "opposite" ELSE "orthogonal")

(* ----------------------------------------------------------------- tables *)
TabNames == {"ties2", "zero2", "dup2", "neg3", "large2", "one1", "spike8", "spike9", "spike70"}
SpikeTab(n) == [i \in 1..7 |-> CASE i = 1 -> Spike(n, 1, 1)  [] i = 2 -> Spike(n, n, -2) [] i = 3 -> Spike(n, (n + 1) \div 2, 3)
                                 [] i = 4 -> Spike(n, n, 2)  [] i = 5 -> Ones(n)         [] i = 6 -> Spike(n, n - 1, Large)
                                 [] i = 7 -> Prefix(n, n - 1)]
Tab(t) == CASE t = "ties2"  -> << <<1, 0>>, <<0, 1>>, <<-1, 0>>, <<0, -1>>, <<1, 1>>, <<2, 2>> >>
            [] t = "zero2"  -> << <<0, 0>>, <<1, 0>>, <<0, 0>>, <<2, 1>>, <<-1, -2>> >>
            [] t = "dup2"   -> << <<1, 2>>, <<1, 2>>, <<3, -1>>, <<3, -1>>, <<0, 3>>, <<1, 2>> >>
            [] t = "neg3"   -> << <<-3, -2, -1>>, <<3, 2, 1>>, <<-1, 0, 2>>, <<0, 0, -3>>, <<2, -2, 2>>, <<1, 1, 1>> >>
            [] t = "large2" -> << <<Large, 0>>, <<0, Large>>, <<Large, Large>>, <<-Large, 3>>, <<3, 3>>, <<1, 0>>, <<Large, 1>> >>
            [] t = "one1"   -> << <<1>>, <<-2>>, <<3>>, <<0>>, <<Large>>, <<-1>> >>
            [] t = "spike8" -> SpikeTab(8)
            [] t = "spike9" -> SpikeTab(9)
            [] t = "spike70" -> SpikeTab(70)
TabClass(t) == CASE t \in {"ties2"} -> "ties" [] t = "zero2" -> "zero_rows" [] t = "dup2" -> "duplicates"
                 [] t = "neg3" -> "negative" [] t = "large2" -> "large" [] t = "one1" -> "dim1"
                 [] OTHER -> "spikes_long"
Dim(t) == Len(Tab(t)[1])
QueriesOf(t) == CASE Dim(t) = 1 -> {<<0>>, <<1>>, <<-3>>}
                  [] Dim(t) = 2 -> {<<0, 0>>, <<1, 0>>, <<1, 1>>, <<-1, 2>>, <<3, -3>>}
                  [] Dim(t) = 3 -> {<<0, 0, 0>>, <<1, 1, 1>>, <<-2, 0, 3>>, <<0, -1, 0>>}
                  [] OTHER -> {Zero(Dim(t)), Ones(Dim(t)), Spike(Dim(t), Dim(t), 3), Scale(-1, Prefix(Dim(t), Dim(t) - 1))}
KsOf(t) == {NoLimit, 1, 2, 3, Len(Tab(t)), Len(Tab(t)) + 1}
InitT == c \in UNION {{Grp(<<t, q>>) : q \in QueriesOf(t)} : t \in TabNames}
NextT == c.g /\ c' \in {Case([tab |-> c.key[1], q |-> c.key[2], op |-> op, k |-> k]) : op \in {"l2", "cos"}, k \in KsOf(c.key[1])}
KClass(t, k) == IF k = NoLimit THEN "nolimit" ELSE IF k < Len(Tab(t)) THEN "k<n" ELSE IF k = Len(Tab(t)) THEN "k=n" ELSE "k>n"
SpecClass(t, q, op) == IF op = "cos" /\ IsZero(q) THEN "zero_query"
                       ELSE IF Specified(Tab(t), q, op) # DOMAIN Tab(t) THEN "zero_rows" ELSE "exact"
RECURSIVE SetToSeq(_)
SetToSeq(S) == IF S = {} THEN << >> ELSE LET x == CHOOSE y \in S : \A z \in S : y <= z IN << x >> \o SetToSeq(S \ {x})
\* an answer built from the definition: specified rows by (rank, id), then the unspecified rows
RECURSIVE ByRank(_, _)
ByRank(rk, S) == IF S = {} THEN << >>
                 ELSE LET x == CHOOSE y \in S : \A z \in S : rk[y] < rk[z] \/ (rk[y] = rk[z] /\ y <= z)
                      IN  << x >> \o ByRank(rk, S \ {x})
Reference(t, q, op, k) == LET full == ByRank(RankFn(t, q, op), Specified(t, q, op)) \o SetToSeq(DOMAIN t \ Specified(t, q, op))
                          IN  SubSeq(full, 1, WantLen(t, k))
Reverse(s) == [i \in 1..Len(s) |-> s[Len(s) + 1 - i]]
TOut == LET x == c.v
            t == Tab(x.tab)
            sp == Specified(t, x.q, x.op)
            rk == RankFn(t, x.q, x.op)
        IN  [tab |-> x.tab, tabclass |-> TabClass(x.tab), dim |-> Dim(x.tab), rows |-> t, q |-> x.q, op |-> x.op, k |-> x.k,
             kclass |-> KClass(x.tab, x.k), spec |-> SpecClass(x.tab, x.q, x.op), want_len |-> WantLen(t, x.k),
             rank |-> [i \in 1..Len(t) |-> IF i \in sp THEN rk[i] ELSE -1],
             l2sq |-> [i \in 1..Len(t) |-> L2sq(t[i], x.q)],
             reference |-> Reference(t, x.q, x.op, x.k)]
EmitT == c.g \/ PrintT(<<"T", ToJson(TOut)>>)
\* meta-invariants: the predicate accepts the answer built from the definition and rejects broken ones
TSound == c.g \/
          LET x == c.v
              t == Tab(x.tab)
              ref == Reference(t, x.q, x.op, x.k)
              sp == Specified(t, x.q, x.op)
              rk == RankFn(t, x.q, x.op)
              rl == RankFn(t, x.q, "l2")
              d == [i \in DOMAIN t |-> L2sq(t[i], x.q)]
          IN  /\ \A i \in DOMAIN t : ExactInF32(t[i], x.q) /\ CosSafe(t[i], x.q)
              /\ Admissible(ref, t, x.q, x.op, x.k)
              /\ (Len(ref) > 0 => ~Admissible(Tail(ref), t, x.q, x.op, x.k))
              /\ (Len(ref) = 0 \/ ~Admissible(ref \o << ref[1] >>, t, x.q, x.op, x.k))
              \* reversing an answer whose specified rows have two different ranks is rejected
              /\ (\E i, j \in Range(ref) \cap sp : rk[i] # rk[j])
                     => ~Admissible(Reverse(ref), t, x.q, x.op, x.k)
              \* under L2 ranks and squared distances order alike
              /\ (x.op = "l2" => \A i, j \in DOMAIN t : (rl[i] < rl[j]) <=> (d[i] < d[j]))

=============================================================================

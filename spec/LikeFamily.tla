----------------------------- MODULE LikeFamily -----------------------------
(***************************************************************************)
(* LIKE over longer strings (C14): the all-combinations table of           *)
(* MC_ThreeVL.tla only holds texts of length <= 2, which cannot show       *)
(* matcher errors that need backtracking (a literal segment after % that   *)
(* overlaps itself, several % segments, _ next to %).                      *)
(* Here TLC enumerates (text, pattern) pairs over a two-letter alphabet    *)
(* and states the truth value with ThreeVL's LikeMatch - the same          *)
(* definition the rest of C14 uses.                                        *)
(***************************************************************************)
EXTENDS Integers, Sequences, FiniteSets, TLC

CONSTANTS MaxText, MaxPat

RECURSIVE LikeMatch(_, _)
LikeMatch(s, p) ==
    IF p = <<>> THEN s = <<>>
    ELSE IF Head(p) = "%" THEN LikeMatch(s, Tail(p)) \/ (s # <<>> /\ LikeMatch(Tail(s), p))
    ELSE IF s = <<>> THEN FALSE
    ELSE (Head(p) = "_" \/ Head(p) = Head(s)) /\ LikeMatch(Tail(s), Tail(p))

RECURSIVE Strings(_, _)
Strings(A, n) == IF n = 0 THEN {<<>>} ELSE LET S == Strings(A, n - 1) IN S \cup {Append(s, c) : s \in {t \in S : Len(t) = n - 1}, c \in A}

Texts == Strings({"a", "b"}, MaxText)
Pats == Strings({"a", "b", "%", "_"}, MaxPat)

\* laws of the definition itself (checked by TLC on the whole enumeration)
LawPercentMatchesAll == \A t \in Texts : LikeMatch(t, <<"%">>)
LawLiteralIsEquality == \A t \in Texts : \A p \in {q \in Pats : \A i \in 1..Len(q) : q[i] \in {"a", "b"}} : LikeMatch(t, p) = (t = p)
LawUnderscoresCountChars == \A t \in Texts : \A n \in 0..MaxPat : LikeMatch(t, [i \in 1..n |-> "_"]) = (Len(t) = n)
LawSuffix == \A t \in Texts : \A p \in {q \in Texts : Len(q) <= MaxPat - 1} :
                LikeMatch(t, <<"%">> \o p) = (Len(t) >= Len(p) /\ SubSeq(t, Len(t) - Len(p) + 1, Len(t)) = p)

VARIABLE done
Init == done = FALSE
Next == done' = TRUE
Spec == Init /\ [][Next]_done
=============================================================================

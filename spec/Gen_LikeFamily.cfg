CONSTANTS MaxText = 5  MaxPat = 4
SPECIFICATION Spec
INVARIANT Laws
ACTION_CONSTRAINT Emit
CHECK_DEADLOCK FALSE

------------------------------ MODULE Corruption ------------------------------
(***************************************************************************)
(* C23 - "decoders of stored bytes reject corruption without crashing".    *)
(*                                                                         *)
(* A FAULT MODEL over the file inventory of a valid TurDB database and     *)
(* over valid encodings of the byte-level decoders:                        *)
(*                                                                         *)
(*   file fault     shape x file kind x REGION x fault kind                *)
(*                  (turdb.meta, turdb.catalog, table / index / toast /    *)
(*                  HNSW-index files: 128-byte file header fields, B-tree  *)
(*                  pages by role and region - page header fields, leaf    *)
(*                  header, slot array, single slots, cells, free space -; *)
(*                  WAL segments: frame header fields, frame body)         *)
(*   decoder fault  decoder x sample x byte position (or page region) x    *)
(*                  fault kind, applied to a VALID encoding produced by    *)
(*                  the corresponding encoder                              *)
(*                                                                         *)
(* and the required OUTCOME CLASS of what follows the fault:               *)
(*                                                                         *)
(*   Database::open, every scan / lookup / write / checkpoint / close on   *)
(*   the faulty copy (resp. every accessor of the decoder) returns Ok or   *)
(*   Err: never a panic, never a crash of the process, never no answer.    *)
(*   NOTHING ELSE is required: a corrupted value may be returned as        *)
(*   garbage, corruption need not be detected (so `ok` is always allowed). *)
(*                                                                         *)
(* The spec is a generator + the statement of the outcome classes; the     *)
(* byte ranges of a region are resolved by harness/src/corrupt.rs from the *)
(* real files with TurDB's own header types.  What it does NOT cover:      *)
(* arbitrary byte strings - only the listed faults of the listed regions   *)
(* of two database shapes and of the listed samples.                       *)
(***************************************************************************)
EXTENDS Naturals, Sequences, FiniteSets, TLC

CONSTANTS Shapes,        \* {"tiny", "multi"}: 3-row table / multi-page table with index, TOAST values, HNSW index, WAL frames
          MaxPos,        \* highest byte position of the small decoders' samples that is faulted
          CatalogPos,    \* same for the catalog file decoder
          FileFaultKinds, DecoderFaultKinds,
          FileKindsUsed, DecodersUsed   \* restriction of the inventory (all of it when generating; a slice when model checking the run)

Allowed == {"ok", "err"}

-----------------------------------------------------------------------------
(* Regions *)

Dot(a, b) == a \o "." \o b

MetaRegions    == {"magic", "version", "page_size", "schema_count", "default_schema_id", "next_table_id", "next_index_id", "flags",
                   "reserved", "header", "page0.rest", "file"}
CatalogRegions == {"magic", "version", "page_size", "schema_count", "default_schema_id", "counters", "catalog_offset", "catalog_length",
                   "header_rest", "catalog.head", "catalog.middle", "catalog.tail", "catalog.body", "file"}

TableHeaderRegions == {"fh.magic", "fh.ids", "fh.row_count", "fh.root_page", "fh.column_count", "fh.first_free_page", "fh.auto_increment",
                       "fh.rightmost_hint", "fh.reserved", "fh", "page0.rest"}
IndexHeaderRegions == {"fh.magic", "fh.ids", "fh.root_page", "fh.meta", "fh.reserved", "fh", "page0.rest"}

PageRoles == {"root", "leaf.first", "leaf.middle", "leaf.last", "interior"}
PageHeaderFields == {"page_header.type", "page_header.flags", "page_header.cell_count", "page_header.free_start", "page_header.free_end",
                     "page_header.frag_reserved", "page_header.right_child", "page_header"}
SlotPicks == {"first", "middle", "last"}
LeafFields == {"leaf_header", "slot_array"}
              \cup {Dot("slot", Dot(p, f)) : p \in SlotPicks, f \in {"prefix", "offset", "key_len"}}
              \cup {Dot("cell", Dot(p, f)) : p \in SlotPicks, f \in {"key", "value_len", "value_head"}}
InteriorFields == {"slot_array", "slot.first", "slot.last"}
PageAreaFields == {"free_space", "cell_area", "page"}
PageFields == PageHeaderFields \cup LeafFields \cup InteriorFields \cup PageAreaFields
PageRegions == {Dot(r, f) : r \in PageRoles, f \in PageFields}
WholeFileRegions == {"file", "last_page"}

WalFramePicks == {"first", "middle", "last"}
WalFrameFields == {"header.file_id", "header.page_no", "header.db_size", "header.salt", "header.checksum", "header", "body.head", "body.tail", "body"}
WalRegions == {Dot("frame", Dot(p, f)) : p \in WalFramePicks, f \in WalFrameFields} \cup {Dot("frame", p) : p \in WalFramePicks} \cup {"file"}

FileKinds == {"meta", "catalog", "table", "index", "toast", "hnsw", "wal"}
Regions(fk) == CASE fk = "meta"    -> MetaRegions
                 [] fk = "catalog" -> CatalogRegions
                 [] fk = "table"   -> TableHeaderRegions \cup PageRegions \cup WholeFileRegions
                 [] fk = "toast"   -> TableHeaderRegions \cup PageRegions \cup WholeFileRegions
                 [] fk = "index"   -> IndexHeaderRegions \cup PageRegions \cup WholeFileRegions
                 [] fk = "hnsw"    -> IndexHeaderRegions \cup PageRegions \cup WholeFileRegions    \* the SQL-level HNSW index lives in an index file
                 [] fk = "wal"     -> WalRegions

AllFileFaultKinds == {"zero", "ff", "junk", "flip_first", "flip_middle", "flip_last", "trunc_at_start", "trunc_inside", "extend_junk"}
ASSUME FileFaultKinds \subseteq AllFileFaultKinds

\* truncation / extension are properties of the file: they are enumerated once per region START, not per kind of content
FileFaults == UNION { { [mode |-> "file", shape |-> s, file |-> fk, region |-> r, kind |-> k] :
                          s \in Shapes, r \in Regions(fk), k \in FileFaultKinds } : fk \in FileKinds \cap FileKindsUsed }

-----------------------------------------------------------------------------
(* Decoders.  Samples are numbered; what sample i of a decoder is, is fixed in harness/src/corrupt.rs (decoder_sample) *)

Decoders == {"varint", "key", "record", "jsonb", "array", "toastptr", "catalog", "walframe", "leaf", "interior",
             "tablehdr", "indexhdr", "metahdr", "hnswhdr"}
Samples(d) == CASE d = "varint" -> 0..11 [] d = "key" -> 0..11 [] d = "record" -> 0..1 [] d = "jsonb" -> 0..3 [] d = "array" -> 0..3
                [] d \in {"leaf", "interior"} -> 0..1 [] OTHER -> {0}
PageDecoders == {"leaf", "interior"}
Positions(d) == CASE d = "catalog"  -> 0..CatalogPos
                  [] d = "record"   -> 0..(3 * MaxPos)
                  [] d = "walframe" -> 0..47 \cup {48, 200, 16383, 16384, 16415}
                  [] d \in {"tablehdr", "indexhdr", "metahdr", "hnswhdr"} -> 0..127
                  [] OTHER -> 0..MaxPos
AllDecoderFaultKinds == {"zero", "ff", "flip_low", "flip_high", "inc", "trunc", "extend_junk"}
ASSUME DecoderFaultKinds \subseteq AllDecoderFaultKinds

DecoderFaults ==
       UNION { { [mode |-> "decoder", decoder |-> d, sample |-> i, pos |-> p, kind |-> k] :
                   i \in Samples(d), p \in Positions(d), k \in DecoderFaultKinds } : d \in (Decoders \cap DecodersUsed) \ PageDecoders }
  \cup UNION { { [mode |-> "decoder", decoder |-> d, sample |-> i, region |-> f, kind |-> k] :
                   i \in Samples(d), f \in PageFields, k \in DecoderFaultKinds \ {"trunc", "extend_junk"} } : d \in PageDecoders \cap DecodersUsed }

\* the unmodified database / sample: every step must be ok (this checks the harness, not TurDB)
Baselines == { [mode |-> "file", shape |-> s, file |-> "table", region |-> "fh", kind |-> "none"] : s \in Shapes }
        \cup UNION { { [mode |-> "decoder", decoder |-> d, sample |-> i, pos |-> 0, kind |-> "none"] : i \in Samples(d) } : d \in Decoders \cap DecodersUsed }

-----------------------------------------------------------------------------
(* What happens after the fault: a run is a sequence of steps, each answered by the implementation *)

FileSteps == <<"open", "scan", "lookup", "write", "checkpoint", "close", "reopen">>

VARIABLES fault, phase, opened, outcomes
vars == <<fault, phase, opened, outcomes>>

Init == /\ fault \in FileFaults \cup DecoderFaults \cup Baselines
        /\ phase = "picked" /\ opened = FALSE /\ outcomes = <<>>

\* the fault is applied to a copy of the database / of the sample; this is the transition the generator emits
Apply == /\ phase = "picked" /\ phase' = "faulty"
         /\ UNCHANGED <<fault, opened, outcomes>>

\* the implementation answers a step; the model only constrains the class of the answer
Answer(step) ==
  \E o \in (IF fault.kind = "none" THEN {"ok"} ELSE Allowed) :
     /\ outcomes' = Append(outcomes, <<step, o>>)
     /\ opened' = (IF step = "open" THEN o = "ok" ELSE IF step = "close" THEN FALSE ELSE opened)

Run == /\ phase = "faulty"
       /\ IF fault.mode = "decoder"
          THEN /\ Answer("decode") /\ phase' = "done"
          ELSE LET n == Len(outcomes) + 1 IN
               /\ n <= Len(FileSteps)
               \* nothing is executed on a database that did not open; it is opened again after a clean close
               /\ (n = 1 \/ opened \/ (FileSteps[n] = "reopen" /\ outcomes[1][2] = "ok"))
               /\ Answer(FileSteps[n])
               /\ phase' = (IF n = Len(FileSteps) THEN "done" ELSE "faulty")
       /\ UNCHANGED fault

GiveUp == /\ phase = "faulty" /\ fault.mode = "file" /\ Len(outcomes) >= 1 /\ outcomes[1][2] # "ok" /\ phase' = "done"
          /\ UNCHANGED <<fault, opened, outcomes>>

Next == Apply \/ Run \/ GiveUp
Spec == Init /\ [][Next]_vars /\ WF_vars(Next)

\* THE PROPERTY (checked on the real code by bin/check C23; in the model it holds by construction of Answer)
OutcomesAllowed == \A i \in 1..Len(outcomes) : outcomes[i][2] \in Allowed
Terminates == <>(phase = "done")

\* meta-properties of the fault model
TypeOK == /\ phase \in {"picked", "faulty", "done"} /\ opened \in BOOLEAN /\ Len(outcomes) <= Len(FileSteps)
NoRegionTwice == \A fk \in FileKinds : Cardinality(Regions(fk)) > 0
EveryKindHasHeaderAndBody ==
  /\ \A fk \in {"table", "index", "toast", "hnsw"} : "fh.magic" \in Regions(fk) /\ "root.page_header.cell_count" \in Regions(fk) /\ "file" \in Regions(fk)
  /\ "frame.first.header.checksum" \in Regions("wal") /\ "catalog.body" \in Regions("catalog") /\ "magic" \in Regions("meta")
ASSUME NoRegionTwice /\ EveryKindHasHeaderAndBody
=============================================================================

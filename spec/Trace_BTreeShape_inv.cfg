SPECIFICATION Spec
INVARIANTS InvKindsOk InvSlotAreaOk InvCellsInside InvCellsDisjoint InvKeysIncreasing InvSeparatorsBound InvUniformDepth InvLeafChain InvNoSharing
CHECK_DEADLOCK FALSE

\* behaviour generation: every explored transition is printed; sets are rewritten by lib/relbulk.py (no blanks inside braces)
CONSTANTS Variants = {"plain","pk","uniq","idx","nn","all","ai"}
CONSTANTS Apis = {"insert_batch","insert_batch_into_schema","insert_cached","bulk_insert"}
CONSTANTS SizesFirst = {0,1,2,3}
CONSTANTS SizesLater = {0,2,3}
CONSTANTS MaxOps = 2  WithTxn = TRUE  WithReopen = TRUE  WithDml = TRUE
SPECIFICATION Spec
VIEW view
ACTION_CONSTRAINT Emit
CHECK_DEADLOCK FALSE

-------------------------- MODULE Trace_OrderLimit --------------------------
(* Validation of OBSERVED outputs against OrderLimit.tla: the check writes one JSON object per line           *)
(*   {"id": .., "q": <query record as emitted by MC_OrderLimit>, "obs": [[..], ..]}   (NULL = -99)            *)
(* to the file named by the environment variable C15_TRACE; TLC evaluates the specification's own             *)
(* Verdict(obs, q) - ok, the smallest explaining set of named deviations, or bad - for every line and      *)
(* prints it.  The acceptance predicate that judges TurDB is therefore the TLA+ operator AdmissibleOutput     *)
(* itself; lib/checks/c15.py only carries a mirror of it that is cross-checked against these verdicts.       *)
EXTENDS OrderLimit, Json, IOUtils
Cases == ndJsonDeserialize(IOEnv.C15_TRACE)
VARIABLE i
Init == i \in 1..Len(Cases)
Next == UNCHANGED i
Spec == Init /\ [][Next]_i
Judge == LET r == Verdict(Cases[i].obs, Cases[i].q) IN PrintT(<<"T", ToJson([id |-> Cases[i].id, v |-> r.v, devs |-> r.devs])>>)
=============================================================================

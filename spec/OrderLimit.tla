----------------------------- MODULE OrderLimit -----------------------------
(***************************************************************************)
(* C15: ORDER BY, LIMIT, OFFSET and DISTINCT are exact.                    *)
(*                                                                         *)
(* A pure oracle.  A query is a record                                     *)
(*                                                                         *)
(*   [src, tab, w, sel, dist, keys, lim, off]                              *)
(*                                                                         *)
(* over a SOURCE that yields a sequence of three-column integer rows       *)
(* (NULL is N):                                                            *)
(*   plain  c1,c2,c3 = id, a, b          of table tab [WHERE id >= 2]      *)
(*   group  c1,c2,c3 = a, COUNT( * ), MIN(id)   ... GROUP BY a             *)
(*   join   c1,c2,c3 = x.id, y.id, x.a   tab x JOIN w y ON x.a = y.a       *)
(*   union  c1,c2,c3 = id, a, b  of tab  followed by  id+10, b, a of tab   *)
(*          (dist = TRUE is UNION, dist = FALSE is UNION ALL)              *)
(* sel is the select list (scalar expressions over c1..c3), keys the       *)
(* ORDER BY list (expression or ordinal, ASC/DESC), lim/off the window     *)
(* (NoLim = clause absent).                                                *)
(*                                                                         *)
(* SQL semantics:  project every source row to <<output tuple, key         *)
(* tuple>>; DISTINCT keeps one row per distinct output tuple (NULLs are    *)
(* not distinct from each other); sort by the key tuple with NULL before   *)
(* every non-NULL value ascending and after descending; cut the window.    *)
(* The order among rows whose key tuples tie is NOT determined, so the     *)
(* property is the PREDICATE AdmissibleOutput: an observed sequence is     *)
(* correct iff it has the window's length and, for every tie class of the  *)
(* sorted input, the observed rows at the positions that class occupies    *)
(* inside the window form a sub-bag of the class.  This is equivalent to   *)
(* "sorted by the comparator and a permutation of an admissible window",   *)
(* and never blames a tie.  When every tie class that meets the window     *)
(* has a single distinct output tuple the answer is a unique sequence      *)
(* (Deterministic), which is then compared exactly.                        *)
(***************************************************************************)
EXTENDS Integers, Sequences, FiniteSets, TLC

CONSTANTS MaxKeys,      \* 1..3  longest ORDER BY list
          FullWindows,  \* TRUE: LIMIT x OFFSET is the full product of {none,0,1,n-1,n,n+1}
          Rich          \* TRUE: more select lists / WHERE variants

N == -99        \* NULL
NoLim == -1     \* LIMIT / OFFSET clause absent

(* ------------------------------------------------------------------ tables *)
\* rows <<id, a, b>> in insertion order
Tab(t) == CASE t = "t" -> << <<1, 2, 1>>, <<2, N, 1>>, <<3, 1, N>>, <<4, 2, 0>>,
                             <<5, N, N>>, <<6, 2, 1>>, <<7, 1, 0>> >>          \* NULLs and duplicates
            [] t = "u" -> << <<1, 2, 1>>, <<2, 0, 1>>, <<3, 1, 3>>, <<4, 2, 0>>,
                             <<5, 0, 2>>, <<6, 2, 1>> >>                        \* NULL-free, duplicates
            [] t = "e" -> << >>                                                 \* empty
            [] t = "n" -> << <<1, N, 1>>, <<2, N, 0>>, <<3, N, 1>> >>           \* a is all NULL
\* the right-hand table of the join: w(id, a)
W == << <<1, 1>>, <<2, 2>>, <<3, 2>>, <<4, N>> >>
Tables == {"t", "u", "e", "n"}

(* ----------------------------------------------------------- small helpers *)
Min2(x, y) == IF x < y THEN x ELSE y
Max2(x, y) == IF x > y THEN x ELSE y
SeqToSet(s) == {s[i] : i \in 1..Len(s)}
RECURSIVE SelectSeqIdx(_, _, _)
\* subsequence of s at the positions satisfying keep(i)
SelectSeqIdx(s, keep(_), i) ==
    IF i > Len(s) THEN << >>
    ELSE (IF keep(i) THEN <<s[i]>> ELSE << >>) \o SelectSeqIdx(s, keep, i + 1)
Add(x, y) == IF x = N \/ y = N THEN N ELSE x + y
Neg(x) == IF x = N THEN N ELSE 0 - x

(* ------------------------------------------------------------------ sources *)
Swap(r) == <<r[1] + 10, r[3], r[2]>>
GroupKeys(rs) ==   \* distinct values of a in order of first appearance
    LET RECURSIVE G(_, _)
        G(i, acc) == IF i > Len(rs) THEN acc
                     ELSE G(i + 1, IF rs[i][2] \in SeqToSet(acc) THEN acc ELSE Append(acc, rs[i][2]))
    IN G(1, << >>)
MinOf(S) == CHOOSE x \in S : \A y \in S : x <= y
GroupRows(rs) ==   \* <<a, COUNT( * ), MIN(id)>>, the NULL keys form ONE group
    LET ks == GroupKeys(rs)
    IN << >> \o [g \in 1..Len(ks) |->
          LET members == {i \in 1..Len(rs) : rs[i][2] = ks[g]}
          IN <<ks[g], Cardinality(members), MinOf({rs[i][1] : i \in members})>>]
JoinRows(rs) ==    \* inner equi-join on a: NULL never matches
    LET RECURSIVE J(_, _)
        J(i, j) == IF i > Len(rs) THEN << >>
                   ELSE IF j > Len(W) THEN J(i + 1, 1)
                   ELSE (IF rs[i][2] # N /\ rs[i][2] = W[j][2] THEN << <<rs[i][1], W[j][1], rs[i][2]>> >> ELSE << >>)
                        \o J(i, j + 1)
    IN J(1, 1)
Base(q) ==
    LET rs == Tab(q.tab)
        flt == IF q.w = "idge2" THEN SelectSeqIdx(rs, LAMBDA i : rs[i][1] >= 2, 1) ELSE rs
    IN CASE q.src = "plain" -> flt
         [] q.src = "group" -> GroupRows(flt)
         [] q.src = "join"  -> JoinRows(flt)
         [] q.src = "union" -> flt \o [i \in 1..Len(flt) |-> Swap(flt[i])]

(* -------------------------------------------------------------- expressions *)
Cols == {"c1", "c2", "c3"}
Exprs == Cols \cup {"c2+c3", "0-c2"}
Val(e, r) == CASE e = "c1" -> r[1] [] e = "c2" -> r[2] [] e = "c3" -> r[3]
               [] e = "c2+c3" -> Add(r[2], r[3])
               [] e = "0-c2" -> Neg(r[2])
OrdIdx(x) == CASE x = "1" -> 1 [] x = "2" -> 2 [] x = "3" -> 3
\* a key is [k |-> "e" | "ord", x |-> expression | "1".."3", d |-> "ASC" | "DESC"]
OutOf(sel, r) == [i \in 1..Len(sel) |-> Val(sel[i], r)]
KeyVal(key, sel, r) == IF key.k = "ord" THEN Val(sel[OrdIdx(key.x)], r) ELSE Val(key.x, r)
KeysOf(keys, sel, r) == [i \in 1..Len(keys) |-> KeyVal(keys[i], sel, r)]
Dirs(keys) == << >> \o [i \in 1..Len(keys) |-> keys[i].d]
\* the key is computable from the output row (it is an ordinal or repeats a select item)
Projected(key, sel) == key.k = "ord" \/ key.x \in SeqToSet(sel)

(* --------------------------------------------------------------- comparator *)
\* ascending order of values: NULL first; -1 / 0 / 1
CmpVal(x, y) == IF x = y THEN 0 ELSE IF x = N THEN -1 ELSE IF y = N THEN 1 ELSE IF x < y THEN -1 ELSE 1
\* descending reverses everything, so NULL comes last
CmpDir(x, y, d) == IF d = "DESC" THEN 0 - CmpVal(x, y) ELSE CmpVal(x, y)
RECURSIVE CmpFrom(_, _, _, _)
CmpFrom(kx, ky, dirs, i) == IF i > Len(dirs) THEN 0
                            ELSE LET c == CmpDir(kx[i], ky[i], dirs[i]) IN IF c # 0 THEN c ELSE CmpFrom(kx, ky, dirs, i + 1)
Cmp(kx, ky, dirs) == CmpFrom(kx, ky, dirs, 1)
\* rows are records [o |-> output tuple, k |-> key tuple]
IsSortedBy(rows, dirs) == \A i \in 1..Len(rows) - 1 : Cmp(rows[i].k, rows[i + 1].k, dirs) <= 0

(* ------------------------------------------------- Distinct / sort / Window *)
Distinct(rows) ==       \* first occurrence of every output tuple
    SelectSeqIdx(rows, LAMBDA i : \A j \in 1..i - 1 : rows[j].o # rows[i].o, 1)
RECURSIVE InsertSorted(_, _, _)
InsertSorted(s, r, dirs) ==      \* stable: r goes after every element that is <= r
    IF s = << >> THEN <<r>>
    ELSE IF Cmp(Head(s).k, r.k, dirs) <= 0 THEN <<Head(s)>> \o InsertSorted(Tail(s), r, dirs)
    ELSE <<r>> \o s
RECURSIVE SortFrom(_, _, _)
SortFrom(rows, dirs, i) == IF i = 0 THEN << >> ELSE InsertSorted(SortFrom(rows, dirs, i - 1), rows[i], dirs)
SortBy(rows, dirs) == SortFrom(rows, dirs, Len(rows))
WinLo(n, off) == IF off = NoLim THEN 0 ELSE Min2(off, n)
WinHi(n, lim, off) == IF lim = NoLim THEN n ELSE Min2(n, WinLo(n, off) + lim)
Window(s, lim, off) == SubSeq(s, WinLo(Len(s), off) + 1, WinHi(Len(s), lim, off))
\* tie classes of a sorted sequence: 1,1,2,3,3,3,...
RECURSIVE ClassFrom(_, _, _)
ClassFrom(rows, dirs, i) ==
    IF i = 0 THEN << >>
    ELSE LET p == ClassFrom(rows, dirs, i - 1)
         IN Append(p, IF i = 1 THEN 1 ELSE IF Cmp(rows[i - 1].k, rows[i].k, dirs) = 0 THEN p[i - 1] ELSE p[i - 1] + 1)
Classes(rows, dirs) == ClassFrom(rows, dirs, Len(rows))

(* ------------------------------------------------------------ the semantics *)
\* the deduplicated, sorted input of the window, in ONE admissible order (ties in source order)
\* (<< >> \o f makes TLC evaluate the function once into a tuple instead of re-evaluating it at every application)
\* outsel: the select list that produces the output tuple (q.sel, except under a named deviation); ordinals always refer to q.sel
ProjectionB(b, q, keys, outsel) == << >> \o [i \in 1..Len(b) |-> [o |-> << >> \o OutOf(outsel, b[i]), k |-> << >> \o KeysOf(keys, q.sel, b[i])]]
ProjectionS(q, keys, outsel) == ProjectionB(Base(q), q, keys, outsel)
Projection(q, keys) == ProjectionS(q, keys, q.sel)
SortedInput(q, keys) ==
    LET p == Projection(q, keys) IN SortBy(IF q.dist THEN Distinct(p) ELSE p, Dirs(keys))
Outs(rows) == << >> \o [i \in 1..Len(rows) |-> rows[i].o]
Answer(q) == Outs(Window(SortedInput(q, q.keys), q.lim, q.off))

\* bags as functions value -> multiplicity
BagOfIdx(s, idx) == [v \in {s[i] : i \in idx} |-> Cardinality({i \in idx : s[i] = v})]
SubBag(b1, b2) == \A v \in DOMAIN b1 : v \in DOMAIN b2 /\ b1[v] <= b2[v]

\* THE PROPERTY.  obs: observed sequence of output tuples; R: SortedInput; cls: Classes(R); lim/off: the window
AdmissibleOutput(obs, R, cls, lim, off) ==
    LET n == Len(R)
        lo == WinLo(n, off)
        hi == WinHi(n, lim, off)
    IN /\ Len(obs) = Max2(hi - lo, 0)
       /\ \A c \in {cls[i] : i \in lo + 1..hi} :
             SubBag(BagOfIdx(obs, {i - lo : i \in {j \in lo + 1..hi : cls[j] = c}}),
                    BagOfIdx(Outs(R), {i \in 1..n : cls[i] = c}))
Admissible(obs, q) == LET R == SortedInput(q, q.keys) IN AdmissibleOutput(obs, R, Classes(R, Dirs(q.keys)), q.lim, q.off)
\* the answer is one sequence: every tie class meeting the window has a single distinct output tuple
Deterministic(R, cls, lim, off) ==
    LET n == Len(R) lo == WinLo(n, off) hi == WinHi(n, lim, off)
    IN \A c \in {cls[i] : i \in lo + 1..hi} : Cardinality({R[i].o : i \in {j \in 1..n : cls[j] = c}}) = 1

(***************************************************************************)
(* Named deviations: what the implementation is known to do instead.  A    *)
(* set of deviations turns the reference semantics into a variant; an      *)
(* observation that the reference rejects is EXPLAINED by the smallest set *)
(* of deviations whose variant admits it (Verdict).                        *)
(*                                                                         *)
(*  dead keys - ORDER BY items the implementation evaluates to a constant:  *)
(*    "ordinal_ignored"        every ordinal key (ORDER BY 2)              *)
(*    "unprojected_ignored"    every key that cannot be computed from the  *)
(*                             select list (the sort runs on projected rows)*)
(*    "aggregate_keys_ignored" over GROUP BY, every key other than the     *)
(*                             grouping column (an aggregate call is not   *)
(*                             evaluated by the sort)                      *)
(*    "setop_first_column"     ORDER BY over a set operation sorts by the  *)
(*                             FIRST OUTPUT COLUMN in the direction of the *)
(*                             first key, whatever the keys are            *)
(*  "expr_columns_dropped"  the result keeps only the select items that    *)
(*    are plain columns (expressions and aggregates vanish from the rows)  *)
(*  "null_equals_all"  the sort comparator answers Equal whenever one of   *)
(*    the two values is NULL and goes on to the next key.  That is not a   *)
(*    preorder, so the order depends on the sort algorithm; what an        *)
(*    insertion/merge sort still guarantees is that no ADJACENT pair is    *)
(*    inverted under that comparator, and a top-k selection made with it   *)
(*    may pick any rows.  Explained iff the observation has the right      *)
(*    length, its rows match distinct rows of the input and no adjacent    *)
(*    pair is inverted under CmpNullEq.  Needs a NULL among the key values.*)
(*  "index_scan_drops_null_keys"  a single-key ORDER BY on a column with a  *)
(*    secondary index (no WHERE) is answered by walking the index, which   *)
(*    holds no entry for a NULL key: rows whose key is NULL are lost.      *)
(*    (q.ix says that the query runs against the indexed copy of the       *)
(*    tables; that field exists only on the observations fed back by the   *)
(*    check, never on generated queries.)                                  *)
(*  over a join (ordered by the hand-written loop of Database::query):      *)
(*    "join_window_first"       LIMIT/OFFSET are applied to the join rows  *)
(*                              in the order the join PRODUCES them        *)
(*                              (JoinProd); what is left is ordered after  *)
(*    "join_topk_not_sorted"    with LIMIT (a TopK plan) nothing is ordered: *)
(*                              the window of the PRODUCED rows comes back *)
(*    "join_duplicate_name_key" ORDER BY y.id reads x.id when x.id is in   *)
(*                              the select list too (both are called id)   *)
(*    "join_limit0_returns_one" LIMIT 0 behaves like LIMIT 1               *)
(*  "distinct_window_twice"  SELECT DISTINCT with LIMIT/OFFSET cuts the    *)
(*    window out of the sorted rows BEFORE duplicates are removed, removes *)
(*    the duplicates and cuts the same window again.                       *)
(***************************************************************************)
DevSeq == << "aggregate_keys_ignored", "distinct_window_twice", "expr_columns_dropped", "index_scan_drops_null_keys",
             "join_duplicate_name_key", "join_limit0_returns_one", "join_topk_not_sorted", "join_window_first",
             "null_equals_all", "ordinal_ignored", "setop_first_column", "unprojected_ignored" >>
DevNames == SeqToSet(DevSeq)
PlainColumn(q, e) == IF q.src = "group" THEN e = "c1" ELSE e \in Cols
\* the order in which the hash join of the implementation PRODUCES the join rows: w-major (w is the probe side)
JoinProd(rs) ==
    LET RECURSIVE J(_, _)
        J(j, i) == IF j > Len(W) THEN << >>
                   ELSE IF i > Len(rs) THEN J(j + 1, 1)
                   ELSE (IF rs[i][2] # N /\ rs[i][2] = W[j][2] THEN << <<rs[i][1], W[j][1], rs[i][2]>> >> ELSE << >>) \o J(j, i + 1)
    IN J(1, 1)
DeadKeys(q, devs) == {i \in 1..Len(q.keys) :
                        \/ "ordinal_ignored" \in devs /\ q.keys[i].k = "ord"
                        \/ "unprojected_ignored" \in devs /\ ~Projected(q.keys[i], q.sel)
                             /\ ~("join_duplicate_name_key" \in devs /\ q.keys[i].k = "e" /\ q.keys[i].x = "c2")   \* readable as x.id
                        \/ "aggregate_keys_ignored" \in devs /\ q.keys[i].k = "e" /\ ~PlainColumn(q, q.keys[i].x)}
LiveKeys(q, devs) ==
    IF "setop_first_column" \in devs THEN << [k |-> "ord", x |-> "1", d |-> q.keys[1].d] >>
    ELSE IF "join_topk_not_sorted" \in devs THEN << >>
    ELSE LET ks == SelectSeqIdx(q.keys, LAMBDA i : i \notin DeadKeys(q, devs), 1)
         IN IF "join_duplicate_name_key" \in devs
              THEN [i \in 1..Len(ks) |-> IF ks[i].k = "e" /\ ks[i].x = "c2" THEN [k |-> "e", x |-> "c1", d |-> ks[i].d] ELSE ks[i]]
              ELSE ks
OutSel(q, devs) == IF "expr_columns_dropped" \in devs THEN SelectSeqIdx(q.sel, LAMBDA i : PlainColumn(q, q.sel[i]), 1) ELSE q.sel
CmpDirNullEq(x, y, d) == IF x = N \/ y = N THEN 0 ELSE CmpDir(x, y, d)
RECURSIVE CmpNullEqFrom(_, _, _, _)
CmpNullEqFrom(kx, ky, dirs, i) == IF i > Len(dirs) THEN 0
                                  ELSE LET c == CmpDirNullEq(kx[i], ky[i], dirs[i]) IN IF c # 0 THEN c ELSE CmpNullEqFrom(kx, ky, dirs, i + 1)
CmpNullEq(kx, ky, dirs) == CmpNullEqFrom(kx, ky, dirs, 1)
HasNullKey(R) == \E i \in 1..Len(R) : \E j \in 1..Len(R[i].k) : R[i].k[j] = N
\* is there an injective matching of obs[i..] to rows of R (same output tuple, not in used) with no adjacent inversion
RECURSIVE MatchFrom(_, _, _, _, _, _)
MatchFrom(obs, R, dirs, i, prev, used) ==
    IF i > Len(obs) THEN TRUE
    ELSE \E j \in 1..Len(R) :
            /\ j \notin used
            /\ R[j].o = obs[i]
            /\ (prev = 0 \/ CmpNullEq(R[prev].k, R[j].k, dirs) <= 0)
            /\ MatchFrom(obs, R, dirs, i + 1, j, used \cup {j})
NullEqAdmissible(obs, R, dirs, lim, off) ==
    LET n == Len(R) IN
    /\ HasNullKey(R)
    /\ Len(obs) = Max2(WinHi(n, lim, off) - WinLo(n, off), 0)
    /\ MatchFrom(obs, R, dirs, 1, 0, {})
\* distinct_window_twice: is there a first window W0 (m rows of P, in an order the sort may produce) whose
\* de-duplicated second window is obs?   acc: indices into P chosen so far
RECURSIVE TwiceFrom(_, _, _, _, _, _, _, _)
TwiceFrom(obs, P, dirs, q, m, nulleq, acc, used) ==
    IF Len(acc) = m
      THEN LET W0 == << >> \o [i \in 1..m |-> P[acc[i]]]
               R0 == SortBy(P, dirs)
           IN /\ obs = Outs(Window(Distinct(W0), q.lim, q.off))
              /\ (nulleq \/ AdmissibleOutput(Outs(W0), R0, Classes(R0, dirs), q.lim, q.off))
      ELSE \E j \in 1..Len(P) :
              /\ j \notin used
              /\ (acc = << >> \/ (IF nulleq THEN CmpNullEq(P[acc[Len(acc)]].k, P[j].k, dirs) ELSE Cmp(P[acc[Len(acc)]].k, P[j].k, dirs)) <= 0)
              /\ TwiceFrom(obs, P, dirs, q, m, nulleq, Append(acc, j), used \cup {j})
\* the deviation d can apply to q at all.  The dead-key deviations describe the Volcano sort; a set operation and a
\* join with LIMIT are ordered by other code (setop_first_column, join_topk_not_sorted)
Applies(q, d) ==
    LET volcano == q.src # "union" /\ ~(q.src = "join" /\ q.lim # NoLim) IN
    CASE d = "ordinal_ignored" -> volcano /\ \E i \in 1..Len(q.keys) : q.keys[i].k = "ord"
      [] d = "unprojected_ignored" -> volcano /\ \E i \in 1..Len(q.keys) : ~Projected(q.keys[i], q.sel)
      [] d = "aggregate_keys_ignored" -> q.src = "group" /\ \E i \in 1..Len(q.keys) : q.keys[i].k = "e" /\ ~PlainColumn(q, q.keys[i].x)
      [] d = "setop_first_column" -> q.src = "union" /\ Len(q.keys) > 0
      [] d = "distinct_window_twice" -> q.src = "plain" /\ q.dist /\ (q.lim # NoLim \/ q.off # NoLim)
      [] d = "expr_columns_dropped" -> \E i \in 1..Len(q.sel) : ~PlainColumn(q, q.sel[i])
      [] d = "index_scan_drops_null_keys" -> q.ix /\ q.src = "plain" /\ q.w = "none" /\ Len(q.keys) = 1 /\ q.keys[1].k = "e" /\ q.keys[1].x = "c2"
      [] d = "join_duplicate_name_key" -> q.src = "join" /\ "c1" \in SeqToSet(q.sel) /\ \E i \in 1..Len(q.keys) : q.keys[i].k = "e" /\ q.keys[i].x = "c2"
      [] d = "join_limit0_returns_one" -> q.src = "join" /\ q.lim = 0
      [] d = "join_topk_not_sorted" -> q.src = "join" /\ q.lim # NoLim /\ Len(q.keys) > 0
      [] d = "join_window_first" -> q.src = "join" /\ Len(q.keys) > 0 /\ (q.lim # NoLim \/ q.off # NoLim)
      [] d = "null_equals_all" -> Len(q.keys) > 0
Applicable(q, devs) == \A d \in devs : Applies(q, d)
\* observed is what the reference semantics modified by exactly the deviations devs allows
DevAdmissible(obs, q, devs) ==
    LET keys == LiveKeys(q, devs)
        dirs == Dirs(keys)
        lim == IF "join_limit0_returns_one" \in devs /\ q.lim = 0 THEN 1 ELSE q.lim
        winfirst == "join_window_first" \in devs \/ "join_topk_not_sorted" \in devs
        base == IF winfirst THEN JoinProd(Tab(q.tab)) ELSE Base(q)
        P0 == ProjectionB(base, q, keys, OutSel(q, devs))
        P1 == IF "index_scan_drops_null_keys" \in devs /\ Len(keys) > 0 THEN SelectSeqIdx(P0, LAMBDA i : P0[i].k[1] # N, 1) ELSE P0
        \* join_window_first: the window is cut out of the rows as the join produces them; what is left is ordered
        P == IF winfirst THEN Window(P1, lim, q.off) ELSE P1
        wl == IF winfirst THEN NoLim ELSE lim
        wo == IF winfirst THEN NoLim ELSE q.off
        nulleq == "null_equals_all" \in devs
    IN /\ Applicable(q, devs)
       /\ IF "distinct_window_twice" \in devs
            THEN /\ (nulleq => HasNullKey(P))
                 /\ TwiceFrom(obs, P, dirs, q, WinHi(Len(P), q.lim, q.off) - WinLo(Len(P), q.off), nulleq, << >>, {})
            ELSE LET R == SortBy(IF q.dist THEN Distinct(P) ELSE P, dirs) IN
                 IF nulleq THEN NullEqAdmissible(obs, R, dirs, wl, wo)
                           ELSE AdmissibleOutput(obs, R, Classes(R, dirs), wl, wo)
\* candidate explanations: at most four of the deviations that apply to q; fewer first, then by position in DevSeq
DevSets(q) == {S \in SUBSET {d \in DevNames : Applies(q, d)} : Cardinality(S) \in 1..4}
RECURSIVE WeightFrom(_, _)
WeightFrom(S, i) == IF i > Len(DevSeq) THEN 0 ELSE (IF DevSeq[i] \in S THEN 2 ^ (i - 1) ELSE 0) + WeightFrom(S, i + 1)
Rank(S) == Cardinality(S) * 10000 + WeightFrom(S, 1)
\* [v |-> "ok" | "dev" | "bad", devs |-> the explaining set]
Verdict(obs, q) ==
    IF Admissible(obs, q) THEN [v |-> "ok", devs |-> {}]
    ELSE LET hits == {S \in DevSets(q) : DevAdmissible(obs, q, S)}
         IN IF hits = {} THEN [v |-> "bad", devs |-> {}]
            ELSE [v |-> "dev", devs |-> CHOOSE S \in hits : \A T \in hits : Rank(S) <= Rank(T)]

(* -------------------------------------------------------------- query space *)
SelLists(src) ==
    CASE src = "plain" -> {<<"c1", "c2", "c3">>, <<"c2", "c3">>, <<"c1", "c2+c3">>, <<"c2">>}
                          \cup (IF Rich THEN {<<"c3", "c1">>, <<"c1">>} ELSE {})
      [] src = "group" -> {<<"c1", "c2", "c3">>} \cup (IF Rich THEN {<<"c2", "c1">>} ELSE {})
      [] src = "join"  -> {<<"c1", "c2", "c3">>, <<"c1", "c3">>}
      [] src = "union" -> {<<"c1", "c2", "c3">>, <<"c2", "c3">>}
DirsSet == {"ASC", "DESC"}
KeyItems(sel) == [k : {"e"}, x : Exprs, d : DirsSet]
                 \cup [k : {"ord"}, x : {"1", "2", "3"} \cap (IF Len(sel) = 1 THEN {"1"} ELSE IF Len(sel) = 2 THEN {"1", "2"} ELSE {"1", "2", "3"}), d : DirsSet]
Atom(key) == <<key.k, key.x>>
KeyLists(sel) ==
    LET K == KeyItems(sel)
        K1 == {<<k>> : k \in K}
        \* second keys: every item when Rich; otherwise the first and third column in both directions (c1 is unique in a
        \* plain source, so the order becomes total), one ordinal and one expression
        S2 == IF Rich THEN K
              ELSE {k \in K : \/ k.k = "e" /\ k.x \in {"c1", "c3"}
                              \/ k.k = "ord" /\ k.x = "1" /\ k.d = "ASC"
                              \/ k.k = "e" /\ k.x = "c2+c3" /\ k.d = "DESC"}
        K2 == {<<k1, k2>> : k1 \in K, k2 \in S2}
        ok2 == {s \in K2 : Atom(s[1]) # Atom(s[2])}
        \* a third key: the first column in either direction (the unique id of a plain source: the order becomes total)
        K3 == {<<s[1], s[2], k3>> : s \in ok2, k3 \in {k \in K : k.k = "e" /\ k.x = "c1"}}
        ok3 == {s \in K3 : Atom(s[3]) # Atom(s[1]) /\ Atom(s[3]) # Atom(s[2])}
    IN K1 \cup (IF MaxKeys >= 2 THEN ok2 ELSE {}) \cup (IF MaxKeys >= 3 THEN ok3 ELSE {})
WinVals(n) == {NoLim, 0, 1, n - 1, n, n + 1} \cap (Nat \cup {NoLim})
\* <<limit, offset>> pairs; n is the length of the window's input
ProductWindows(n) == WinVals(n) \X WinVals(n)
MidWindows(n) == (WinVals(n) \X {NoLim}) \cup ({NoLim} \X WinVals(n))
                 \cup ({<<1, 1>>, <<n - 1, 1>>, <<1, n - 1>>, <<n, 1>>, <<0, 1>>} \cap (Nat \X Nat))
SmallWindows(n) == {<<NoLim, NoLim>>} \cup ({<<n - 1, 1>>, <<1, 1>>} \cap (Nat \X Nat))
\* the longer the key list, the fewer windows (the full product only for the short lists of the thorough tier)
WindowsFor(ks, n) ==
    IF FullWindows THEN (IF Len(ks) <= 1 THEN ProductWindows(n) ELSE IF Len(ks) = 2 THEN MidWindows(n)
                         ELSE SmallWindows(n) \cup {<<n - 1, NoLim>>, <<NoLim, 1>>})
    ELSE (IF Len(ks) <= 1 THEN MidWindows(n) ELSE SmallWindows(n))
Sources == {"plain", "group", "join", "union"}
\* a family fixes everything but keys and window; n (the length of the window's input) depends on the family only
Families ==
    {f \in [src : Sources, tab : Tables, w : {"none", "idge2"}, sel : UNION {SelLists(s) : s \in Sources}, dist : BOOLEAN] :
        /\ f.sel \in SelLists(f.src)
        /\ (f.w = "idge2" => f.src = "plain" /\ f.tab \in {"t", "u"} /\ (Rich \/ f.sel = <<"c1", "c2", "c3">>))
        /\ (f.src \in {"group", "join", "union"} => f.tab \in {"t", "u"} \cup (IF f.sel = <<"c1", "c2", "c3">> THEN {"e"} ELSE {}))
        /\ (f.src \in {"group", "join"} => ~f.dist)}
WithKeys(f, keys, lim, off) == [src |-> f.src, tab |-> f.tab, w |-> f.w, sel |-> f.sel, dist |-> f.dist, keys |-> keys, lim |-> lim, off |-> off]
\* SQL requires the keys of SELECT DISTINCT / of a set operation to be output columns; no-key queries are included
KeysFor(f) ==
    {ks \in KeyLists(f.sel) \cup {<< >>} :
        /\ ((f.dist \/ f.src = "union") => \A i \in 1..Len(ks) : Projected(ks[i], f.sel))
        /\ (f.tab \in {"e", "n"} => Len(ks) <= 1)}
InputLen(f) == Len(SortedInput(WithKeys(f, << >>, NoLim, NoLim), << >>))
QueriesOf(f) == LET n == InputLen(f) IN UNION {{WithKeys(f, ks, w[1], w[2]) : w \in WindowsFor(ks, n)} : ks \in KeysFor(f)}

(* ------------------------------------------- meta-invariants on the oracle *)
OracleOK(q) ==
    LET R == SortedInput(q, q.keys)
        dirs == Dirs(q.keys)
        cls == Classes(R, dirs)
        n == Len(R)
        ans == Outs(Window(R, q.lim, q.off))
        P == Projection(q, q.keys)
        D == Distinct(P)
        In == IF q.dist THEN D ELSE P
        Adm(obs) == AdmissibleOutput(obs, R, cls, q.lim, q.off)
    IN /\ IsSortedBy(R, dirs)                                                    \* the sort sorts
       /\ BagOfIdx(R, 1..n) = BagOfIdx(In, 1..Len(In))                           \* ... and permutes
       /\ Len(ans) = (IF q.lim = NoLim THEN Max2(n - WinLo(n, q.off), 0)
                      ELSE Min2(q.lim, Max2(n - (IF q.off = NoLim THEN 0 ELSE q.off), 0)))   \* |Window| = min(limit, n - offset)
       /\ ans = Answer(q)
       /\ Adm(ans)                                                              \* the canonical answer is admissible
       /\ Distinct(D) = D                                                       \* DISTINCT is idempotent
       /\ Cardinality({D[i].o : i \in 1..Len(D)}) = Len(D)                      \* ... leaves each tuple once
       /\ {D[i].o : i \in 1..Len(D)} = {P[i].o : i \in 1..Len(P)}               \* ... and loses none
       /\ (q.lim = NoLim /\ q.off = NoLim => Len(ans) = n)
       /\ (q.lim = 0 => ans = << >>)
       \* the window of a window: OFFSET o LIMIT l = first l of (drop o)
       /\ ans = Outs(Window(Window(R, NoLim, q.off), q.lim, NoLim))
       \* reversing every direction reverses the order of the tie classes (NULL first <-> NULL last)
       /\ LET rdirs == << >> \o [i \in 1..Len(dirs) |-> IF dirs[i] = "ASC" THEN "DESC" ELSE "ASC"]
              RR == SortBy(R, rdirs)
          IN n > 0 => /\ Classes(RR, rdirs)[n] = cls[n]
                      /\ \A i \in 1..n : Cmp(RR[i].k, R[n + 1 - i].k, dirs) = 0
       \* the predicate is not blind: when the answer is unique, exchanging two different neighbours is rejected,
       \* and a sequence one row short or one row long is rejected
       /\ (Deterministic(R, cls, q.lim, q.off) => \A i \in 1..Len(ans) - 1 :
              (ans[i] # ans[i + 1]) => ~Adm([j \in 1..Len(ans) |-> IF j = i THEN ans[i + 1] ELSE IF j = i + 1 THEN ans[i] ELSE ans[j]]))
       /\ (Len(ans) > 0 => ~Adm(Tail(ans)) /\ ~Adm(ans \o <<ans[1]>>))
       \* ... and not tie-sensitive: rotating the rows of the window inside one tie class stays admissible
       /\ \A i \in 1..Len(ans) - 1 : cls[WinLo(n, q.off) + i] = cls[WinLo(n, q.off) + i + 1] =>
              Adm([j \in 1..Len(ans) |-> IF j = i THEN ans[i + 1] ELSE IF j = i + 1 THEN ans[i] ELSE ans[j]])
       /\ Verdict(ans, q).v = "ok"
=============================================================================

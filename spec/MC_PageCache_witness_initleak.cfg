\* witness: the code as it is must violate BudgetMatches at call level (init error after budget.allocate);
\* clear() is the repaired one here so that this is the only deviation
CONSTANTS Threads = {t1, t2}  KA = {k1, k2}  KB = {}  Cap = 2  MaxCalls = 2  MaxHeld = 2  Fine = FALSE  InitMayFail = TRUE
          BudgetPages = 3  Ballast = 30  ClearKeepsPinned = TRUE  ClearCountsUnderLock = TRUE  ReleaseOnInitError = FALSE
CONSTANT Keys <- KeysAll  ShardOf <- ShardsOneTwo
SYMMETRY Sym
SPECIFICATION Spec
VIEW view
INVARIANTS BudgetMatches
CHECK_DEADLOCK FALSE

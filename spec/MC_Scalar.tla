----------------------------- MODULE MC_Scalar -----------------------------
(* TLC model for Scalar.tla: the finite argument domains, the enumeration of function applications ("cases") with
   their admissible results, and the meta-invariants on the oracle.

   A case is  [f, args, exp, cls, dev]:
     f     function / operator name (rendered to SQL by lib/scalar.py)
     args  argument values
     exp   SET of admissible results (Scalar.tla values)
     cls   the spec-defined class of the application (used in finding signatures)
     dev   sequence of <<name, value>>: what specific, named wrong implementations would return (byte positions
           instead of characters, two's-complement wrap, NULL = NULL in CASE, ...); a divergence that equals one of
           them is reported under that name, anything else as "other"
   State graph: "root" -> one state per group; every group state prints its cases (invariant EmitCases) and the law
   groups check the meta-theorems, so TLC's workers share the work. *)
EXTENDS Scalar, Calendar, Json

CONSTANT Deep            \* FALSE: quick domains, TRUE: larger domains (thorough tier)

VARIABLE st

(* ------------------------------------------------------------------ domains *)
cA == 97        \* a      1 byte
cE == 233       \* e-acute 2 bytes
cU == 8364      \* euro   3 bytes
cS == 128512    \* emoji  4 bytes
Sigma  == {cA, cE, cU, cS}
SigmaT == {cA, 90, 32, cU}                     \* a Z space euro: case mapping and trimming
Seqs(S, n) == UNION { [1..m -> S] : m \in 0..n }
StrU   == Seqs(Sigma, 3)
StrT   == Seqs(SigmaT, 3)
StrB   == Seqs(Sigma, IF Deep THEN 3 ELSE 2)
Str2   == Seqs(Sigma, 2)
Str1   == Seqs(Sigma, 1)
Needles == Str2
MultiByte(s) == ByteLen(s) # Len(s)
MbCls(s) == IF MultiByte(s) THEN "multibyte" ELSE "ascii"

ORange == IF Deep THEN -3..3 ELSE -2..2
IntDom == { v \in { IntV(k, o) : k \in -2..2, o \in ORange } : InRange(v.k, v.o) }
SmallDom == { Small(n) : n \in {-7, -6, -1, 0, 1, 6, 7} }
Quarters == -11..11                             \* x = n/4
QArith == {-5, -2, -1, 0, 1, 3, 6}
Txt(s) == [t |-> "txt", s |-> s]                \* an ASCII text given literally
DecText(k, o) == [t |-> "dectext", k |-> k, o |-> o]     \* the decimal text of the integer k*2^62+o
FloatOf(k, o) == [t |-> "floatof", k |-> k, o |-> o]     \* the double nearest to the integer
RatText(n, d) == [t |-> "rattext", n |-> n, d |-> d]     \* a decimal rendering of n/d
DateV(n) == [t |-> "date", days |-> n]
Q(n) == Rat(n, 4)

C(f, args, exp, cls, dev) == [f |-> f, args |-> args, exp |-> exp, cls |-> cls, dev |-> dev]
NoDev == <<>>
DevIf(cond, name, v) == IF cond THEN << <<name, v>> >> ELSE <<>>

(* ------------------------------------------------------------------ string cases *)
CasesLen(u) ==
    { C("CHAR_LENGTH", <<Str(s)>>, {Small(CharLength(s))}, MbCls(s), DevIf(MultiByte(s), "byte_count", Small(ByteLen(s)))) : s \in StrU }
    \cup { C("LENGTH", <<Str(s)>>, {Small(Length(s))}, MbCls(s), DevIf(MultiByte(s), "char_count", Small(Len(s)))) : s \in StrU }
    \cup { C("REVERSE", <<Str(s)>>, {Str(Rev(s))}, MbCls(s), NoDev) : s \in StrU }
    \cup { C("ASCII", <<Str(s)>>, { Small(n) : n \in AsciiOf(s) }, IF s = <<>> THEN "empty" ELSE IF Head(s) < 128 THEN "ascii_first" ELSE "multibyte_first", NoDev) : s \in StrU }

CasesCase(u) ==
    { C("UPPER", <<Str(s)>>, {Str(Upper(s))}, MbCls(s), NoDev) : s \in StrT }
    \cup { C("LOWER", <<Str(s)>>, {Str(Lower(s))}, MbCls(s), NoDev) : s \in StrT }
    \cup { C("TRIM", <<Str(s)>>, {Str(Trim(s))}, MbCls(s), NoDev) : s \in StrT }
    \cup { C("LTRIM", <<Str(s)>>, {Str(Ltrim(s))}, MbCls(s), NoDev) : s \in StrT }
    \cup { C("RTRIM", <<Str(s)>>, {Str(Rtrim(s))}, MbCls(s), NoDev) : s \in StrT }

CasesLeftRight(u) ==
    { C("LEFT", <<Str(s), Small(n)>>, {Str(Left(s, n))}, IF n < 0 THEN "negative_count" ELSE MbCls(s), NoDev) : s \in StrU, n \in -1..4 }
    \cup { C("RIGHT", <<Str(s), Small(n)>>, {Str(Right(s, n))}, IF n < 0 THEN "negative_count" ELSE MbCls(s), NoDev) : s \in StrU, n \in -1..4 }

SubCls(s, pos) == IF pos < 0 /\ -pos > Len(s) THEN "negative_pos_before_start" ELSE IF pos = 0 THEN "pos_zero" ELSE MbCls(s)
CasesSubstr(u) ==
    { C("SUBSTR", <<Str(s), Small(p)>>, { Str(r) : r \in SubstrFrom(s, p) }, SubCls(s, p), NoDev) : s \in StrU, p \in -4..4 }
    \cup { C("SUBSTRING", <<Str(s), Small(p), Small(n)>>, { Str(r) : r \in Substr3(s, p, n) }, IF n < 0 THEN "negative_len" ELSE SubCls(s, p), NoDev)
           : s \in StrU, p \in -4..4, n \in -1..3 }

PosCls(p, s, from) ==
    IF p = <<>> THEN (IF s = <<>> THEN "empty_needle_empty_haystack" ELSE "empty_needle")
    ELSE IF Position(p, s, from) = 0 THEN "no_match"
    ELSE IF ByteLen(Take(s, Position(p, s, from) - 1)) # Position(p, s, from) - 1 THEN "multibyte_before_match" ELSE "ascii_before_match"
CasesInstr(u) ==
    { C("INSTR", <<Str(s), Str(p)>>, {Small(Position(p, s, 1))}, PosCls(p, s, 1),
        DevIf(BytePosition(p, s) # Position(p, s, 1), "byte_position", Small(BytePosition(p, s)))) : s \in StrU, p \in Needles }
CasesLocate(u) ==
    { C("LOCATE", <<Str(p), Str(s)>>, {Small(Position(p, s, 1))}, PosCls(p, s, 1),
        DevIf(BytePosition(p, s) # Position(p, s, 1), "byte_position", Small(BytePosition(p, s)))) : s \in StrU, p \in Needles }
    \cup { C("POSITION", <<Str(p), Str(s)>>, {Small(Position(p, s, 1))}, PosCls(p, s, 1),
        DevIf(BytePosition(p, s) # Position(p, s, 1), "byte_position", Small(BytePosition(p, s)))) : s \in Str2, p \in Str1 }
    \cup { C("LOCATE", <<Str(p), Str(s), Small(from)>>, {Small(Position(p, s, from))},
             IF from < 1 THEN "start_below_one" ELSE PosCls(p, s, from), NoDev)
           : s \in StrU, p \in { q \in Needles : q # <<>> }, from \in 0..4 }
    \cup UNION { { C("LOCATE", <<Str(<<>>), Str(s), Small(from)>>, {Small(from)}, "empty_needle", NoDev) : from \in 1..Len(s) } : s \in StrU }

ReplTo == { <<>>, <<cA>>, <<cU>>, <<cE, cS>> }
CasesReplace(u) ==
    { C("REPLACE", <<Str(s), Str(f), Str(t)>>, {Str(Replace(s, f, t))},
        IF Position(f, s, 1) = 0 THEN "no_match" ELSE MbCls(s \o f \o t), NoDev) : s \in StrU, f \in { q \in Needles : q # <<>> }, t \in ReplTo }

NStr1 == {Null} \cup { Str(s) : s \in Str1 }
Seps == { Null, Str(<<>>), Str(<<44>>), Str(<<cU>>) }
NullCls(args) == IF \E i \in 1..Len(args) : IsNull(args[i]) THEN "null_arg" ELSE "no_null"
CasesConcat(u) ==
    { C("CONCAT", <<Str(a), Str(b)>>, {ConcatV(<<Str(a), Str(b)>>)}, MbCls(a \o b), NoDev) : a \in StrB, b \in StrB }
    \cup { C("CONCAT", <<a, b, c>>, {ConcatV(<<a, b, c>>)}, NullCls(<<a, b, c>>), NoDev) : a \in NStr1, b \in NStr1, c \in NStr1 }
    \cup { C("CONCAT_WS", <<sep, a, b>>, {ConcatWsV(sep, <<a, b>>)}, IF IsNull(sep) THEN "null_separator" ELSE NullCls(<<a, b>>), NoDev)
           : sep \in Seps, a \in NStr1, b \in NStr1 }

Pads == { p \in Str2 : p # <<>> }
NegPadExp == { Null, Str(<<>>), Err("invalid") }
CasesPad(u) ==
    { C("LPAD", <<Str(s), Small(n), Str(p)>>, {Str(Lpad(s, n, p))}, IF n < Len(s) THEN "truncating" ELSE MbCls(s \o p), NoDev) : s \in Str2, n \in 0..5, p \in Pads }
    \cup { C("RPAD", <<Str(s), Small(n), Str(p)>>, {Str(Rpad(s, n, p))}, IF n < Len(s) THEN "truncating" ELSE MbCls(s \o p), NoDev) : s \in Str2, n \in 0..5, p \in Pads }
    \cup { C("LPAD", <<Str(s), Small(-1), Str(<<cA>>)>>, NegPadExp, "negative_length", NoDev) : s \in {<<>>, <<cA>>} }
(* RPAD with a negative length is emitted separately: the check runs it in an isolated, memory-limited child *)
CasesPadIsolated(u) ==
    { C("RPAD", <<Str(<<cA>>), Small(-1), Str(<<cA>>)>>, NegPadExp, "negative_length", NoDev) }

CasesRepeat(u) ==
    { C("REPEAT", <<Str(s), Small(n)>>, {Str(Repeat(s, n))}, IF n <= 0 THEN "non_positive_count" ELSE MbCls(s), NoDev) : s \in Str2, n \in -1..3 }
CasesStrcmp(u) ==
    { C("STRCMP", <<Str(a), Str(b)>>, {Small(CmpSeq(a, b))}, MbCls(a \o b), NoDev) : a \in Str2, b \in Str2 }

(* ------------------------------------------------------------------ integer cases *)
OvCls(v) == IF v.t = "err" THEN "overflow" ELSE "in_range"
CasesArith(u) ==
    { C("ADD", <<a, b>>, {AddV(a, b)}, OvCls(AddV(a, b)), DevIf(AddV(a, b).t = "err", "wrapped", WrapOf(AddP(a, b)))) : a \in IntDom, b \in IntDom }
    \cup { C("SUB", <<a, b>>, {SubV(a, b)}, OvCls(SubV(a, b)), DevIf(SubV(a, b).t = "err", "wrapped", WrapOf(SubP(a, b)))) : a \in IntDom, b \in IntDom }
    \cup { C("MUL", <<a, b>>, {MulV(a, b)}, OvCls(MulV(a, b)), DevIf(MulV(a, b).t = "err", "wrapped", WrapOf(MulLowP(a, b)))) : a \in IntDom, b \in IntDom }
    \cup { C("NEG", <<a>>, {NegV(a)}, OvCls(NegV(a)), DevIf(NegV(a).t = "err", "wrapped", WrapOf(NegP(a)))) : a \in IntDom }
    \cup { C("ABS", <<a>>, {AbsV(a)}, OvCls(AbsV(a)), DevIf(AbsV(a).t = "err", "wrapped", WrapOf(NegP(a)))) : a \in IntDom }
    \cup { C("SIGN", <<a>>, {Small(SignP(a))}, IF a.k # 0 THEN "boundary" ELSE "small", NoDev) : a \in IntDom }

Unit == { Small(0), Small(1), Small(-1) }
DivCls(a, b) == IF b = Small(0) THEN "division_by_zero"
                ELSE IF a = I64Min /\ b = Small(-1) THEN "min_by_minus_one"
                ELSE IF a.k # 0 THEN "boundary" ELSE "small"
SmallDivs == { Small(n) : n \in {-3, -2, 2, 3} }
Mods == { Small(n) : n \in {0, 1, -1, 2, 3, 7, -3} }
CasesDivMod(u) ==
    { C("DIV", <<a, b>>, DivV(a, b), DivCls(a, b), NoDev) : a \in IntDom, b \in Unit }
    \cup { C("DIV", <<a, b>>, DivV(a, b), DivCls(a, b), NoDev) : a \in SmallDom, b \in SmallDivs }
    \cup { C("MODOP", <<a, b>>, ModV(a, b), DivCls(a, b), NoDev) : a \in IntDom \cup SmallDom, b \in Mods }
    \cup { C("MOD", <<a, b>>, ModV(a, b), IF b = Small(0) THEN "division_by_zero" ELSE IF a.k # 0 THEN "beyond_2^53" ELSE "small",
             DevIf(b # Small(0) /\ ModViaFloat(a, b.o) # ModBig(a, b.o), "via_double", Small(ModViaFloat(a, b.o)))) : a \in IntDom \cup SmallDom, b \in Mods }

(* ------------------------------------------------------------------ rounding and float arithmetic on quarters *)
TieCls(n, e) == IF (2 * n * Pow10(e)) % 4 = 0 /\ (n * Pow10(e)) % 4 # 0 THEN "tie" ELSE IF (n * Pow10(e)) % 4 = 0 THEN "exact" ELSE "inexact"
NormRat(n, d) == IF d < 0 THEN Rat(-n, -d) ELSE Rat(n, d)
CasesRound(u) ==
    { C("CEIL", <<Q(n)>>, {Small(CeilR(n, 4))}, TieCls(n, 0), NoDev) : n \in Quarters }
    \cup { C("FLOOR", <<Q(n)>>, {Small(FloorR(n, 4))}, TieCls(n, 0), NoDev) : n \in Quarters }
    \cup { C("ROUND", <<Q(n)>>, {Small(RoundR(n, 4))}, TieCls(n, 0), DevIf(RoundEvenR(n, 4) # RoundR(n, 4), "half_even", Small(RoundEvenR(n, 4)))) : n \in Quarters }
    \cup { C("ROUND", <<Q(n), Small(e)>>, {RoundTo(n, 4, e)}, TieCls(n, e), NoDev) : n \in Quarters, e \in 0..2 }
    \cup { C("TRUNCATE", <<Q(n), Small(e)>>, {TruncTo(n, 4, e)}, TieCls(n, e), NoDev) : n \in Quarters, e \in 0..2 }
    \cup { C("CEIL", <<Small(n)>>, {Small(n)}, "integer", NoDev) : n \in -2..2 }
    \cup { C("FLOOR", <<Small(n)>>, {Small(n)}, "integer", NoDev) : n \in -2..2 }
    \cup { C("ROUND", <<Small(n)>>, {Small(n)}, "integer", NoDev) : n \in -2..2 }
    \cup { C("ABS", <<Q(n)>>, {Q(AbsN(n))}, "float", NoDev) : n \in Quarters }
    \cup { C("SIGN", <<Q(n)>>, {Small(SignN(n))}, "float", NoDev) : n \in Quarters }
    \cup { C("NEG", <<Q(n)>>, {Q(-n)}, "float", NoDev) : n \in Quarters }
CasesFloatArith(u) ==
    { C("ADD", <<Q(a), Q(b)>>, {Q(a + b)}, "float", NoDev) : a \in QArith, b \in QArith }
    \cup { C("SUB", <<Q(a), Q(b)>>, {Q(a - b)}, "float", NoDev) : a \in QArith, b \in QArith }
    \cup { C("MUL", <<Q(a), Q(b)>>, {Rat(a * b, 16)}, "float", NoDev) : a \in QArith, b \in QArith }
    \cup { C("DIV", <<Q(a), Q(b)>>, IF b = 0 THEN DivZero ELSE {NormRat(a, b)}, IF b = 0 THEN "division_by_zero" ELSE "float", NoDev) : a \in QArith, b \in QArith }
    \cup { C("ADD", <<Small(a), Q(b)>>, {Q(4 * a + b)}, "int_float", NoDev) : a \in -2..2, b \in QArith }
    \cup { C("MUL", <<Q(a), Small(b)>>, {Q(a * b)}, "int_float", NoDev) : a \in QArith, b \in -2..2 }

(* ------------------------------------------------------------------ GREATEST / LEAST *)
N3 == { Null, Small(-1), Small(0), Small(2) }
CasesExtreme(u) ==
    { C("GREATEST", <<a, b, c>>, Extreme(<<a, b, c>>, MaxInt), NullCls(<<a, b, c>>), NoDev) : a \in N3, b \in N3, c \in N3 }
    \cup { C("LEAST", <<a, b, c>>, Extreme(<<a, b, c>>, MinInt), NullCls(<<a, b, c>>), NoDev) : a \in N3, b \in N3, c \in N3 }
    \cup { C("GREATEST", <<a, b>>, {MaxInt(<<a, b>>)}, "boundary", NoDev) : a \in IntDom, b \in IntDom }
    \cup { C("LEAST", <<a, b>>, {MinInt(<<a, b>>)}, "boundary", NoDev) : a \in IntDom, b \in IntDom }
    \cup { C("GREATEST", <<Str(a), Str(b)>>, {MaxStr(<<Str(a), Str(b)>>)}, "text", NoDev) : a \in Str2, b \in Str1 }
    \cup { C("LEAST", <<Str(a), Str(b)>>, {MinStr(<<Str(a), Str(b)>>)}, "text", NoDev) : a \in Str2, b \in Str1 }

(* ------------------------------------------------------------------ control flow *)
DI == { Null, Small(0), Small(1), Small(2) }
DS == { Null, Str(<<>>), Str(<<cA>>), Str(<<cE>>) }
RX == Str(<<120>>)  RY == Str(<<121>>)  RZ == Str(<<122>>)
CaseCls(v, w1, w2) == IF IsNull(v) THEN (IF IsNull(w1) \/ IsNull(w2) THEN "null_operand_null_when" ELSE "null_operand")
                      ELSE IF IsNull(w1) \/ IsNull(w2) THEN "null_when" ELSE "no_null"
CasesControl(u) ==
    { C("COALESCE", <<a, b, c>>, {CoalesceV(<<a, b, c>>)}, NullCls(<<a, b, c>>), NoDev) : a \in DI, b \in DI, c \in DI }
    \cup { C("COALESCE", <<a, b, c>>, {CoalesceV(<<a, b, c>>)}, NullCls(<<a, b, c>>), NoDev) : a \in DS, b \in DS, c \in DS }
    \cup { C("IFNULL", <<a, b>>, {IfNullV(a, b)}, NullCls(<<a, b>>), NoDev) : a \in DI, b \in DI }
    \cup { C("IFNULL", <<a, b>>, {IfNullV(a, b)}, NullCls(<<a, b>>), NoDev) : a \in DS, b \in DS }
    \cup { C("NULLIF", <<a, b>>, {NullIfV(a, b)}, NullCls(<<a, b>>), NoDev) : a \in DI, b \in DI }
    \cup { C("NULLIF", <<a, b>>, {NullIfV(a, b)}, NullCls(<<a, b>>), NoDev) : a \in DS, b \in DS }
    \cup { C("IF", <<c, x, y>>, {IfV(c, x, y)}, IF IsNull(c) THEN "null_condition" ELSE "no_null", NoDev) : c \in DI, x \in DS, y \in DS }
    \cup { C("CASE_SIMPLE", <<v, w1, RX, w2, RY, RZ>>, {CaseSimple(v, w1, RX, w2, RY, RZ)}, CaseCls(v, w1, w2),
             DevIf(CaseSimpleLoose(v, w1, RX, w2, RY, RZ) # CaseSimple(v, w1, RX, w2, RY, RZ), "null_equals_null", CaseSimpleLoose(v, w1, RX, w2, RY, RZ)))
           : v \in DI, w1 \in DI, w2 \in DI }
    \cup { C("CASE_SEARCHED", <<c1, RX, c2, RY, RZ>>, {CaseSearched(c1, RX, c2, RY, RZ)}, NullCls(<<c1, c2>>), NoDev) : c1 \in DI, c2 \in DI }
    \cup { C("CASE_SEARCHED_NOELSE", <<c1, RX>>, {CaseSearched(c1, RX, Null, RY, Null)}, NullCls(<<c1>>), NoDev) : c1 \in DI }

(* ------------------------------------------------------------------ CAST *)
IntTexts == { <<"12", 12>>, <<"-7", -7>>, <<"0", 0>>, <<"007", 7>>, <<"2147483647", 2147483647>> }
BadIntTexts == { "abc", "", "12a", "--1" }
FloatTexts == { <<"1.25", 5, 4>>, <<"-0.5", -1, 2>>, <<"3", 3, 1>>, <<"0.0", 0, 1>>, <<"2.75", 11, 4>> }
CastDates == { <<2024, 2, 29>>, <<1970, 1, 1>>, <<1969, 12, 31>>, <<1, 1, 1>>, <<9999, 12, 31>>, <<2000, 2, 29>>, <<1900, 3, 1>> }
BadCastDates == { <<2023, 2, 29>>, <<1900, 2, 29>>, <<2024, 13, 1>>, <<2024, 0, 10>>, <<2024, 4, 31>>, <<2024, 1, 0>> }
Conv == { Null, Err("invalid") }
CasesCast(u) ==
    { C("CAST_TEXT", <<a>>, {DecText(a.k, a.o)}, IF a.k # 0 THEN "boundary" ELSE "small", NoDev) : a \in IntDom }
    \cup { C("CAST_INT", <<Txt(p[1])>>, {Small(p[2])}, "numeric_text", NoDev) : p \in IntTexts }
    \cup { C("CAST_INT", <<Txt(s)>>, Conv, "non_numeric_text", NoDev) : s \in BadIntTexts }
    \cup { C("CAST_INT", <<Q(n)>>, { Small(TruncR(n, 4)), Small(RoundR(n, 4)), Small(RoundEvenR(n, 4)) }, TieCls(n, 0), NoDev) : n \in Quarters }
    \cup { C("CAST_INT", <<a>>, {a}, "identity", NoDev) : a \in IntDom }
    \cup { C("CAST_FLOAT", <<a>>, {FloatOf(a.k, a.o)}, IF a.k # 0 THEN "boundary" ELSE "small", NoDev) : a \in IntDom }
    \cup { C("CAST_FLOAT", <<Txt(p[1])>>, {Rat(p[2], p[3])}, "numeric_text", NoDev) : p \in FloatTexts }
    \cup { C("CAST_FLOAT", <<Txt(s)>>, Conv, "non_numeric_text", NoDev) : s \in {"abc", ""} }
    \cup { C("CAST_TEXT", <<Q(n)>>, {RatText(n, 4)}, "float", NoDev) : n \in Quarters }
    \cup { C("CAST_TEXT", <<Str(s)>>, {Str(s)}, "identity", NoDev) : s \in Str2 }
    \cup { C("CAST_DATE", <<Txt(DateText(d[1], d[2], d[3]))>>, {DateV(DaysFromCivil(d[1], d[2], d[3]))}, "valid_date", NoDev) : d \in CastDates }
    \cup { C("CAST_DATE", <<Txt(DateText(d[1], d[2], d[3]))>>, Conv, "invalid_date", NoDev) : d \in BadCastDates }
    \cup { C("CAST_DATE_TEXT", <<Txt(DateText(d[1], d[2], d[3]))>>, {Txt(DateText(d[1], d[2], d[3]))}, "date_to_text",
             << <<"day_number_text", DecText(0, DaysFromCivil(d[1], d[2], d[3]))>> >>) : d \in CastDates }

(* ------------------------------------------------------------------ NULL in => NULL out
   one base application per strict function; every argument position is replaced by NULL in turn *)
sA == Str(<<cA, cE>>)  sB == Str(<<cE>>)
Strict == {
    <<"CHAR_LENGTH", <<sA>>>>, <<"LENGTH", <<sA>>>>, <<"UPPER", <<sA>>>>, <<"LOWER", <<sA>>>>, <<"REVERSE", <<sA>>>>, <<"ASCII", <<sA>>>>,
    <<"TRIM", <<sA>>>>, <<"LTRIM", <<sA>>>>, <<"RTRIM", <<sA>>>>, <<"LEFT", <<sA, Small(1)>>>>, <<"RIGHT", <<sA, Small(1)>>>>,
    <<"SUBSTR", <<sA, Small(1)>>>>, <<"SUBSTRING", <<sA, Small(1), Small(1)>>>>, <<"INSTR", <<sA, sB>>>>, <<"LOCATE", <<sB, sA>>>>,
    <<"LOCATE", <<sB, sA, Small(1)>>>>, <<"POSITION", <<sB, sA>>>>, <<"REPLACE", <<sA, sB, sB>>>>, <<"CONCAT", <<sA, sB>>>>,
    <<"LPAD", <<sA, Small(3), sB>>>>, <<"RPAD", <<sA, Small(3), sB>>>>, <<"REPEAT", <<sA, Small(2)>>>>, <<"STRCMP", <<sA, sB>>>>,
    <<"ABS", <<Small(-1)>>>>, <<"SIGN", <<Small(-1)>>>>, <<"MOD", <<Small(7), Small(3)>>>>, <<"CEIL", <<Q(5)>>>>, <<"FLOOR", <<Q(5)>>>>,
    <<"ROUND", <<Q(5)>>>>, <<"ROUND", <<Q(5), Small(1)>>>>, <<"TRUNCATE", <<Q(5), Small(1)>>>>,
    <<"ADD", <<Small(1), Small(2)>>>>, <<"SUB", <<Small(1), Small(2)>>>>, <<"MUL", <<Small(1), Small(2)>>>>, <<"DIV", <<Small(4), Small(2)>>>>,
    <<"MODOP", <<Small(7), Small(3)>>>>, <<"NEG", <<Small(1)>>>>,
    <<"CAST_INT", <<Txt("12")>>>>, <<"CAST_FLOAT", <<Txt("1.25")>>>>, <<"CAST_TEXT", <<Small(1)>>>>, <<"CAST_DATE", <<Txt("2024-02-29")>>>>,
    <<"YEAR", <<Txt("2024-02-29")>>>>, <<"MONTH", <<Txt("2024-02-29")>>>>, <<"DAY", <<Txt("2024-02-29")>>>>, <<"DAYOFWEEK", <<Txt("2024-02-29")>>>>,
    <<"DAYOFYEAR", <<Txt("2024-02-29")>>>>, <<"QUARTER", <<Txt("2024-02-29")>>>>, <<"LAST_DAY", <<Txt("2024-02-29")>>>>,
    <<"DATE_ADD", <<Txt("2024-02-29"), Small(1)>>>>, <<"DATE_SUB", <<Txt("2024-02-29"), Small(1)>>>>,
    <<"DATEDIFF", <<Txt("2024-02-29"), Txt("2024-02-28")>>>> }
WithNull(args, i) == [j \in 1..Len(args) |-> IF j = i THEN Null ELSE args[j]]
CasesNull(u) ==
    { C(b[1], WithNull(b[2], i), {Null}, "null_arg_" \o ToString(i) \o "_of_" \o ToString(Len(b[2])), NoDev) : b \in { x \in Strict : Len(x[2]) = 1 }, i \in 1..1 }
    \cup { C(b[1], WithNull(b[2], i), {Null}, "null_arg_" \o ToString(i) \o "_of_" \o ToString(Len(b[2])), NoDev) : b \in { x \in Strict : Len(x[2]) = 2 }, i \in 1..2 }
    \cup { C(b[1], WithNull(b[2], i), {Null}, "null_arg_" \o ToString(i) \o "_of_" \o ToString(Len(b[2])), NoDev) : b \in { x \in Strict : Len(x[2]) = 3 }, i \in 1..3 }
    (* the base applications themselves must NOT be NULL: guards against a check that is quiet because everything is NULL *)
    \cup { C(b[1], b[2], {[t |-> "notnull"]}, "base_not_null", NoDev) : b \in Strict }

(* ------------------------------------------------------------------ groups *)
Groups == { "len", "case", "leftright", "substr", "instr", "locate", "replace", "concat", "pad", "pad_isolated", "repeat", "strcmp",
            "arith", "divmod", "round", "floatarith", "extreme", "control", "cast", "nulls" }
LawGroups == { "laws_string", "laws_int", "laws_div", "laws_round" }
Cases(g) ==
    CASE g = "len" -> CasesLen(g) [] g = "case" -> CasesCase(g) [] g = "leftright" -> CasesLeftRight(g) [] g = "substr" -> CasesSubstr(g)
      [] g = "instr" -> CasesInstr(g) [] g = "locate" -> CasesLocate(g) [] g = "replace" -> CasesReplace(g) [] g = "concat" -> CasesConcat(g)
      [] g = "pad" -> CasesPad(g) [] g = "pad_isolated" -> CasesPadIsolated(g) [] g = "repeat" -> CasesRepeat(g) [] g = "strcmp" -> CasesStrcmp(g)
      [] g = "arith" -> CasesArith(g) [] g = "divmod" -> CasesDivMod(g) [] g = "round" -> CasesRound(g) [] g = "floatarith" -> CasesFloatArith(g)
      [] g = "extreme" -> CasesExtreme(g) [] g = "control" -> CasesControl(g) [] g = "cast" -> CasesCast(g) [] g = "nulls" -> CasesNull(g)
      [] OTHER -> {}

(* "root" -> "pre:<g>" -> "<g>": the second level spreads the groups over the workers (a worker checks the invariants
   of the successors it generates) *)
Pre(g) == "pre:" \o g
Init == st = "root"
Next == \/ st = "root" /\ \E g \in Groups \cup LawGroups : st' = Pre(g)
        \/ \E g \in Groups \cup LawGroups : st = Pre(g) /\ st' = g
Spec == Init /\ [][Next]_st

(* every case has at least one admissible result, and a named deviation is never itself admissible; then it is printed.
   (The case sets take a dummy parameter so that TLC evaluates them inside the workers, not once at start-up.) *)
WellFormedCase(c) == c.exp # {} /\ \A i \in 1..Len(c.dev) : c.dev[i][2] \notin c.exp
EmitCases == st \in Groups =>
    \A c \in Cases(st) : /\ WellFormedCase(c)
                         /\ PrintT(<<"T", ToJson([g |-> st, f |-> c.f, args |-> c.args, exp |-> c.exp, cls |-> c.cls, dev |-> c.dev])>>)

LawsString == st = "laws_string" => \A s \in StrU, t \in Str2, n \in -1..4 : StringLaws(s, t, n)
LawsInt    == st = "laws_int" => /\ \A a \in IntDom, b \in IntDom : IntLaws(a, b)
                                 /\ \A a \in IntDom, m \in {1, 2, 3, 7} : ModLaws(a, m)
LawsDiv    == st = "laws_div" => \A x \in -9..9, y \in {-7, -3, -2, -1, 1, 2, 3, 7} : DivLaws(x, y)
LawsRound  == st = "laws_round" => \A n \in -23..23, d \in {1, 2, 4, 10} : RoundLaws(n, d)
=============================================================================

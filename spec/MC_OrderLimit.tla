--------------------------- MODULE MC_OrderLimit ---------------------------
(* Generator for C15: TLC enumerates the queries of OrderLimit.tla family by family, checks the       *)
(* meta-invariants of the oracle on every query and prints query + expected answer.                   *)
EXTENDS OrderLimit, Json
CONSTANT FullInv     \* TRUE: every meta-invariant on every query; FALSE (quick tier): the expensive ones on a part
VARIABLES fam, q
NoQ == [src |-> "none"]
Init == fam \in Families /\ q = NoQ
Next == q.src = "none" /\ q' \in QueriesOf(fam) /\ fam' = fam
Spec == Init /\ [][Next]_<<fam, q>>
\* what the check needs: the query, the sorted input with its tie classes, window bounds, and whether the answer is unique
Describe(x) ==
    LET R == SortedInput(x, x.keys)
        cls == Classes(R, Dirs(x.keys))
        n == Len(R)
    IN [q |-> x, n |-> n, lo |-> WinLo(n, x.off), hi |-> WinHi(n, x.lim, x.off),
        rows |-> [i \in 1..n |-> [o |-> R[i].o, k |-> R[i].k, c |-> cls[i]]],
        det |-> Deterministic(R, cls, x.lim, x.off),
        ans |-> Answer(x),
        \* for the named deviations: the rows before DISTINCT; the join rows in the order the implementation produces them
        proj |-> IF x.dist /\ x.src = "plain" THEN Projection(x, x.keys)
                 ELSE IF x.src = "join" THEN ProjectionB(JoinProd(Tab(x.tab)), x, x.keys, x.sel) ELSE << >>,
        nullkey |-> HasNullKey(R),
        unproj |-> \E i \in 1..Len(x.keys) : ~Projected(x.keys[i], x.sel)]
Emit == q'.src # "none" => PrintT(<<"T", ToJson(Describe(q'))>>)
\* the cheap part of OracleOK: the sort sorts and permutes, the window has the right length, the answer is admissible
OracleCheap(x) ==
    LET R == SortedInput(x, x.keys)
        dirs == Dirs(x.keys)
        n == Len(R)
        P == Projection(x, x.keys)
        In == IF x.dist THEN Distinct(P) ELSE P
        ans == Outs(Window(R, x.lim, x.off))
    IN /\ IsSortedBy(R, dirs)
       /\ BagOfIdx(R, 1..n) = BagOfIdx(In, 1..Len(In))
       /\ Len(ans) = (IF x.lim = NoLim THEN Max2(n - WinLo(n, x.off), 0) ELSE Min2(x.lim, Max2(n - (IF x.off = NoLim THEN 0 ELSE x.off), 0)))
       /\ AdmissibleOutput(ans, R, Classes(R, dirs), x.lim, x.off)
\* quick tier: the full set on every query with at most one key (all windows) and on every multi-key query without a
\* window (the lexicographic comparator); the cheap part on the rest.  thorough tier: the full set everywhere
OracleInv == q.src # "none" =>
                IF FullInv \/ Len(q.keys) <= 1 \/ (q.lim = NoLim /\ q.off = NoLim) THEN OracleOK(q) ELSE OracleCheap(q)
=============================================================================

--------------------------- MODULE MC_OrderLimit ---------------------------
(* Generator for C15: TLC enumerates the queries of OrderLimit.tla family by family, checks the       *)
(* meta-invariants of the oracle on every query and prints query + expected answer.                   *)
EXTENDS OrderLimit, Json
VARIABLES fam, q
NoQ == [src |-> "none"]
Init == fam \in Families /\ q = NoQ
Next == q.src = "none" /\ q' \in QueriesOf(fam) /\ fam' = fam
Spec == Init /\ [][Next]_<<fam, q>>
\* what the check needs: the query, the sorted input with its tie classes, window bounds, and whether the answer is unique
Describe(x) ==
    LET R == SortedInput(x, x.keys)
        cls == Classes(R, Dirs(x.keys))
        n == Len(R)
    IN [q |-> x, n |-> n, lo |-> WinLo(n, x.off), hi |-> WinHi(n, x.lim, x.off),
        rows |-> [i \in 1..n |-> [o |-> R[i].o, k |-> R[i].k, c |-> cls[i]]],
        det |-> Deterministic(R, cls, x.lim, x.off),
        ans |-> Answer(x),
        \* for the named deviations: the rows before DISTINCT; the join rows in the order the implementation produces them
        proj |-> IF x.dist /\ x.src = "plain" THEN Projection(x, x.keys)
                 ELSE IF x.src = "join" THEN ProjectionB(JoinProd(Tab(x.tab)), x, x.keys, x.sel) ELSE << >>,
        nullkey |-> HasNullKey(R),
        unproj |-> \E i \in 1..Len(x.keys) : ~Projected(x.keys[i], x.sel)]
Emit == q'.src # "none" => PrintT(<<"T", ToJson(Describe(q'))>>)
OracleInv == q.src # "none" => OracleOK(q)
=============================================================================

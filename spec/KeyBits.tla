------------------------------ MODULE KeyBits ------------------------------
(***************************************************************************)
(* C26 - the bit tricks of src/encoding/key.rs on an 8-bit instance,       *)
(* model-checked for ALL pairs of bytes (65 536 states, every invariant).  *)
(*                                                                         *)
(*   integers    encode_int: prefix by sign, then the two's-complement     *)
(*               bytes big-endian                 -> i8 = one byte         *)
(*   sign flip   date / time / timestamp / interval / tz: value XOR the    *)
(*               sign bit                         -> i8                    *)
(*   floats      encode_float: NaN, -inf, +inf and zero get a prefix only; *)
(*               negative: NOT bits, positive: bits XOR sign bit           *)
(*                                                -> a 1+4+3 bit minifloat *)
(*               (bias 7) with subnormals, infinities and NaNs, i.e. the   *)
(*               same structure as binary64                                *)
(*   vectors and JSON numbers   the same transform WITHOUT the special     *)
(*               cases: `if x < 0.0 { !bits } else { bits ^ sign }`        *)
(*                                                                         *)
(* The invariants say that byte-wise comparison of the encodings is the    *)
(* numeric comparison of the values and that decoding inverts encoding.    *)
(* The prefix values are the public constants of key::type_prefix.         *)
(* VecOrderOK / VecRoundTripOK are the same claims for the vector / JSON   *)
(* number transform; they do NOT hold (negative zero), which TLC shows     *)
(* with MC_KeyBits_kf.cfg: the model-level witness of finding              *)
(* C26 negzero.                                                            *)
(***************************************************************************)
EXTENDS Integers, Sequences

Sign(n) == IF n < 0 THEN -1 ELSE IF n > 0 THEN 1 ELSE 0
RECURSIVE LexCmp(_, _)
LexCmp(a, b) ==
  IF a = <<>> THEN (IF b = <<>> THEN 0 ELSE -1)
  ELSE IF b = <<>> THEN 1
  ELSE IF Head(a) # Head(b) THEN Sign(Head(a) - Head(b))
  ELSE LexCmp(Tail(a), Tail(b))

RECURSIVE XorN(_, _, _)
XorN(a, b, n) == IF n = 0 THEN 0 ELSE (((a % 2) + (b % 2)) % 2) + 2 * XorN(a \div 2, b \div 2, n - 1)
Xor8(x, y) == XorN(x, y, 8)
(* the two masks key.rs uses.  NOT and "flip the sign bit" are written arithmetically below; the     *)
(* invariant MasksAreXor checks for every byte that these are the bitwise operations of the Rust     *)
(* source (!x  =  x XOR 0xFF,   x ^ 0x80).                                                            *)
Not8(x)    == 255 - x
FlipSign(x) == (x + 128) % 256
RECURSIVE Pow2(_)
Pow2(n) == IF n = 0 THEN 1 ELSE 2 * Pow2(n - 1)

(* prefixes (key::type_prefix) *)
NEG_INFINITY == 16  NEG_INT == 18  NEG_FLOAT == 19  ZERO == 20  POS_FLOAT == 21  POS_INT == 22
POS_INFINITY == 24  NAN == 25

(* ---------------------------------------------------------------- integers *)
AsI8(u)  == IF u >= 128 THEN u - 256 ELSE u          \* the i8 whose two's-complement byte is u
EncInt(v) == IF v < 0 THEN <<NEG_INT, v % 256>> ELSE IF v = 0 THEN <<ZERO>> ELSE <<POS_INT, v % 256>>
DecInt(k) == IF k[1] = ZERO THEN 0 ELSE IF k[1] = NEG_INT THEN AsI8(k[2]) ELSE k[2]
EncFlip(v) == <<FlipSign(v % 256)>>
DecFlip(k) == AsI8(FlipSign(k[1]))

(* ---------------------------------------------------------------- minifloat s eeee mmm *)
FS(b) == b \div 128
FE(b) == (b \div 8) % 16
FM(b) == b % 8
IsNaN(b) == FE(b) = 15 /\ FM(b) # 0
(* the value times 2^9 (bias 7, 3 mantissa bits): an integer, so values are compared exactly;       *)
(* an infinity gets a magnitude above every finite one                                               *)
MagDef(b) == IF FE(b) = 0 THEN FM(b) ELSE (8 + FM(b)) * Pow2(FE(b) - 1)
MagTable == [x \in 0..255 |-> MagDef(x)]        \* evaluated once by TLC
Mag(b) == MagTable[b]
Val(b) == IF FS(b) = 1 THEN -Mag(b) ELSE Mag(b)
(* IEEE order with -0 = +0 and all NaNs one value above +inf *)
ValCmp(a, b) == IF IsNaN(a) /\ IsNaN(b) THEN 0 ELSE IF IsNaN(a) THEN 1 ELSE IF IsNaN(b) THEN -1
                ELSE Sign(Val(a) - Val(b))
NegInf == 248   PosInf == 120

EncFloat(b) ==
  IF IsNaN(b) THEN <<NAN>>
  ELSE IF b = NegInf THEN <<NEG_INFINITY>>
  ELSE IF b = PosInf THEN <<POS_INFINITY>>
  ELSE IF Val(b) < 0 THEN <<NEG_FLOAT, Not8(b)>>
  ELSE IF Val(b) = 0 THEN <<ZERO>>
  ELSE <<POS_FLOAT, FlipSign(b)>>
(* decode_key: the float bits, or "int0" / "nan" / the infinities *)
DecFloat(k) ==
  IF k[1] = NAN THEN "nan" ELSE IF k[1] = NEG_INFINITY THEN "ninf" ELSE IF k[1] = POS_INFINITY THEN "pinf"
  ELSE IF k[1] = ZERO THEN "int0" ELSE IF k[1] = NEG_FLOAT THEN Not8(k[2]) ELSE FlipSign(k[2])
FloatBack(b) == IF IsNaN(b) THEN "nan" ELSE IF b = NegInf THEN "ninf" ELSE IF b = PosInf THEN "pinf"
                ELSE IF Val(b) = 0 THEN "int0" ELSE b

(* vectors and JSON numbers: no prefix, no special cases *)
EncVec(b) == <<IF ~IsNaN(b) /\ Val(b) < 0 THEN Not8(b) ELSE FlipSign(b)>>
DecVec(k) == IF k[1] >= 128 THEN FlipSign(k[1]) ELSE Not8(k[1])

(* ---------------------------------------------------------------- the state: a pair of bytes *)
VARIABLES a, b
(* a is chosen first, then b <= a: 256 states at depth 1 fan out to all 32 896 unordered pairs, which *)
(* lets TLC's workers share the work.  Every pair invariant below is symmetric in a and b (it states  *)
(* cmp(enc a, enc b) = cmp(a, b), and LexCmp / Sign are antisymmetric; IntFloatOK is stated for both  *)
(* role assignments), so unordered pairs cover all 65 536 ordered ones.  Invariants about one value   *)
(* are checked on the states with b = 0.  b = -1: not yet chosen.                                     *)
Init == a \in 0..255 /\ b = -1
Next == b = -1 /\ b' \in 0..a /\ a' = a
Spec == Init /\ [][Next]_<<a, b>>
Chosen == b # -1
Unary  == b = 0          \* one state per value of a

MasksAreXor == Unary => Not8(a) = Xor8(a, 255) /\ FlipSign(a) = Xor8(a, 128)
IntOrderOK == Chosen => LexCmp(EncInt(AsI8(a)), EncInt(AsI8(b))) = Sign(AsI8(a) - AsI8(b))
IntRoundTrip == Unary => DecInt(EncInt(AsI8(a))) = AsI8(a)
FlipOrderOK == Chosen => LexCmp(EncFlip(AsI8(a)), EncFlip(AsI8(b))) = Sign(AsI8(a) - AsI8(b))
FlipRoundTrip == Unary => DecFlip(EncFlip(AsI8(a))) = AsI8(a)
FloatOrderOK == Chosen => LexCmp(EncFloat(a), EncFloat(b)) = ValCmp(a, b)
FloatRoundTrip == Unary => DecFloat(EncFloat(a)) = FloatBack(a)
(* an integer and a float: ordered by sign class (documented number line); zero shares one key *)
SignClass(v) == IF v < 0 THEN 1 ELSE IF v = 0 THEN 2 ELSE 3
FClass(x) == IF IsNaN(x) THEN 5 ELSE IF x = NegInf THEN 0 ELSE IF x = PosInf THEN 4 ELSE SignClass(Val(x))
IntFloat(ib, fb) == LET i == AsI8(ib) c == LexCmp(EncInt(i), EncFloat(fb)) IN
              /\ (SignClass(i) # FClass(fb) => c = Sign(SignClass(i) - FClass(fb)))
              /\ (c = 0 <=> (i = 0 /\ ~IsNaN(fb) /\ Val(fb) = 0))
IntFloatOK == Chosen => IntFloat(a, b) /\ IntFloat(b, a)

(* expected to FAIL (MC_KeyBits_kf.cfg): the vector / JSON-number transform at negative zero *)
VecOrderOK     == (Chosen /\ ~IsNaN(a) /\ ~IsNaN(b)) =>
                     \/ LexCmp(EncVec(a), EncVec(b)) = ValCmp(a, b)
                     \/ (Val(a) = 0 /\ Val(b) = 0 /\ LexCmp(EncVec(a), EncVec(b)) = Sign(FS(b) - FS(a)))
VecRoundTripOK == Unary => DecVec(EncVec(a)) = a
(* and what does hold for it: everything except negative zero (and negative NaNs for the round trip) *)
VecOrderOKExceptNegZero == (Chosen /\ ~IsNaN(a) /\ ~IsNaN(b) /\ a # 128 /\ b # 128) => LexCmp(EncVec(a), EncVec(b)) = ValCmp(a, b)
VecRoundTripExcept      == (Unary /\ a # 128 /\ ~(IsNaN(a) /\ FS(a) = 1)) => DecVec(EncVec(a)) = a
=============================================================================

CONSTANTS Names = {"u", "w"}  Protocol = "temp_rename"  MaxOps = 4
SPECIFICATION Spec
VIEW view
INVARIANT NoLoss NoTableLost
CHECK_DEADLOCK FALSE

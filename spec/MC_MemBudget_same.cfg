\* same-pool contention: the CAS on the pool counter makes the limit hard
CONSTANTS Threads = {1, 2}  Sizes = {2, 8}  MaxOpsPerThread = 2  Prefill = 22  Limit = 32  CasOnTotal = FALSE
CONSTANT PoolsOf <- PoolsSame
SPECIFICATION FairSpec
VIEW view
INVARIANTS HardLimit Accounting ZeroWhenReleased
PROPERTY Terminates
CHECK_DEADLOCK FALSE

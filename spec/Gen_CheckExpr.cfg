SPECIFICATION Spec
INVARIANT Emit
INVARIANT Laws
CHECK_DEADLOCK FALSE

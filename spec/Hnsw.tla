-------------------------------- MODULE Hnsw --------------------------------
(***************************************************************************)
(* C25: HNSW search returns live, correctly ranked neighbours.             *)
(*                                                                         *)
(* The REFERENCE the user relies on: an HNSW index over a table column is  *)
(* a set `live` of row ids with a vector `vec[id]` each.  Inserts (with    *)
(* the level draw that the real index takes from a random number),         *)
(* deletes, updates (delete + insert under the same row id, as the DML     *)
(* layer does), vacuum batches and reopening the index file change nothing *)
(* but `live` and `vec` - vacuum and reopen change nothing at all.         *)
(*                                                                         *)
(* A k-nearest search is approximate, so the property is the PREDICATE     *)
(* ValidSearch(R, q, k, ef) on the returned sequence R of row ids:         *)
(*   size      at most k results                                           *)
(*   live      every result is a live row                                  *)
(*   distinct  no row twice                                                *)
(*   nonempty  something is returned whenever a live vector exists         *)
(*   sorted    results come in non-decreasing exact distance to q          *)
(*   topk      when the index is small enough for the search width to      *)
(*             cover it (nodes <= ef) the result is the exact top-k: the   *)
(*             min(k,|live|) closest rows, ties in any order               *)
(* plus, for the Reopen action, "the same searches return the same         *)
(* results before and after" (reopen_same, judged by the harness).         *)
(* Distances are exact: vectors are small integer points, squared L2.      *)
(*                                                                         *)
(* GHOST state (never used by the predicate) classifies histories into     *)
(* REGIMES so that a finding can be named from the specification: which    *)
(* node the HNSW construction rule makes the entry point (first node, then *)
(* any node drawn on a higher level), whether that node was deleted, how   *)
(* many nodes exist and how many bytes of a node page they occupy.         *)
(***************************************************************************)
EXTENDS Integers, Sequences, FiniteSets, TLC

CONSTANTS Ids,            \* row ids (positive integers)
          Levels,         \* level draws offered to Insert
          MaxOps,         \* length of a history
          MaxNodes,       \* bound on the number of nodes ever allocated
          WithDelete,     \* FALSE: histories of inserts / vacuum / reopen only
          PointsOf(_),    \* id -> set of candidate vectors
          NeighborCap,    \* regime thresholds, see Regime
          PageBudget,
          SlotBytes(_)

VARIABLES live, vec, nodes, foot, hasEp, epId, maxLvl, epLost, anyDel, pending, reopened, hist
abstract == <<live, vec>>
ghost == <<nodes, foot, hasEp, epId, maxLvl, epLost, anyDel, pending, reopened>>
\* the history is hidden from the fingerprint, its length is not: TLC explores every abstract state once per depth,
\* deterministically (whatever the number of workers), along its first history of that length
view == <<abstract, ghost, Len(hist)>>

NoVec == << >>
Min2(x, y) == IF x < y THEN x ELSE y
Range(s) == {s[i] : i \in 1..Len(s)}
RECURSIVE SumSq(_, _, _)
SumSq(a, b, i) == IF i = 0 THEN 0 ELSE (a[i] - b[i]) * (a[i] - b[i]) + SumSq(a, b, i - 1)
L2sq(a, b) == SumSq(a, b, Len(a))

(* ------------------------------------------------------ the search predicate *)
RECURSIVE Keep(_, _)
Keep(R, S) == IF R = << >> THEN << >>
              ELSE IF Head(R) \in S THEN << Head(R) >> \o Keep(Tail(R), S) ELSE Keep(Tail(R), S)

\* L = live set, V = vectors, N = number of nodes in the index; R = observed result, q = query
FailedClausesIn(L, V, N, R, q, k, ef) ==
    LET G == Range(R) \cap L
        S == Keep(R, L)
        d == [i \in L |-> L2sq(V[i], q)]
    IN  (IF Len(R) > k THEN {"size"} ELSE {})
        \cup (IF ~(Range(R) \subseteq L) THEN {"live"} ELSE {})
        \cup (IF Cardinality(Range(R)) # Len(R) THEN {"distinct"} ELSE {})
        \cup (IF L # {} /\ R = << >> THEN {"nonempty"} ELSE {})
        \cup (IF \E i \in 1..(Len(S) - 1) : d[S[i]] > d[S[i + 1]] THEN {"sorted"} ELSE {})
        \cup (IF N <= ef /\ ~(/\ Cardinality(G) = Min2(k, Cardinality(L))
                              /\ \A g \in G, o \in L \ G : d[g] <= d[o])
              THEN {"topk"} ELSE {})
\* blame order: the first failed clause names a finding
ClauseOrder == << "size", "live", "distinct", "nonempty", "sorted", "topk" >>
FailedClauses(R, q, k, ef) == FailedClausesIn(live, vec, nodes, R, q, k, ef)
ValidSearch(R, q, k, ef) == FailedClauses(R, q, k, ef) = {}

\* the exact answer: live rows by (distance, id), first k
RECURSIVE ByDist(_, _, _)
ByDist(S, V, q) == IF S = {} THEN << >>
                   ELSE LET x == CHOOSE y \in S : \A z \in S : L2sq(V[y], q) < L2sq(V[z], q) \/ (L2sq(V[y], q) = L2sq(V[z], q) /\ y <= z)
                        IN  << x >> \o ByDist(S \ {x}, V, q)
ExactTopK(q, k) == LET all == ByDist(live, vec, q) IN SubSeq(all, 1, Min2(k, Len(all)))

(* ------------------------------------------------------------------ regimes *)
(* page_overflow    the nodes no longer fit the part of a node page that a slot entry can address               *)
(* ep_deleted       the node that the construction rule made the entry point has been deleted (or updated)      *)
(* after_delete     some node has been deleted (or updated)                                                     *)
(* fanout_exceeded  more nodes than one neighbour list can hold plus one                                        *)
(* clean            none of these                                                                               *)
RegimeOf(n, f, lost, del) ==
    IF f + 4 * n > PageBudget THEN "page_overflow"
    ELSE IF lost THEN "ep_deleted"
    ELSE IF del THEN "after_delete"
    ELSE IF n > NeighborCap + 1 THEN "fanout_exceeded"
    ELSE "clean"
Regime == RegimeOf(nodes, foot, epLost, anyDel)

(* ------------------------------------------------------------------ actions *)
RECURSIVE SetToSeq(_)
SetToSeq(S) == IF S = {} THEN << >> ELSE LET x == CHOOSE y \in S : \A z \in S : y <= z IN << x >> \o SetToSeq(S \ {x})
Post == [live |-> live', vec |-> vec', nodes |-> nodes', regime |-> Regime', reopened |-> reopened']
Log(a, id, v, l) == hist' = Append(hist, [a |-> a, id |-> id, v |-> v, lvl |-> l, post |-> Post])

Init == /\ live = {} /\ vec = [i \in Ids |-> NoVec]
        /\ nodes = 0 /\ foot = 0 /\ hasEp = FALSE /\ epId = 0 /\ maxLvl = 0
        /\ epLost = FALSE /\ anyDel = FALSE /\ pending = 0 /\ reopened = FALSE
        /\ hist = << >>

Insert(id, v, l) ==
    /\ id \notin live /\ nodes < MaxNodes
    /\ live' = live \cup {id}
    /\ vec' = [vec EXCEPT ![id] = v]
    /\ nodes' = nodes + 1 /\ foot' = foot + SlotBytes(l)
    /\ hasEp' = TRUE
    /\ maxLvl' = IF ~hasEp \/ l > maxLvl THEN l ELSE maxLvl
    /\ epId' = IF ~epLost /\ (~hasEp \/ l > maxLvl) THEN id ELSE epId
    /\ UNCHANGED <<epLost, anyDel, pending, reopened>>
    /\ Log("ins", id, v, l)

Delete(id) ==
    /\ WithDelete /\ id \in live
    /\ live' = live \ {id}
    /\ vec' = [vec EXCEPT ![id] = NoVec]
    /\ epLost' = (epLost \/ epId = id)
    /\ epId' = IF epId = id THEN 0 ELSE epId
    /\ anyDel' = TRUE
    /\ pending' = Min2(pending + 1, 2)
    /\ UNCHANGED <<nodes, foot, hasEp, maxLvl, reopened>>
    /\ Log("del", id, NoVec, 0)

\* the DML layer's UPDATE of the vector column: delete_by_row_id, then insert under the same row id
Update(id, v, l) ==
    /\ WithDelete /\ id \in live /\ nodes < MaxNodes /\ v # vec[id]
    /\ live' = live
    /\ vec' = [vec EXCEPT ![id] = v]
    /\ nodes' = nodes + 1 /\ foot' = foot + SlotBytes(l)
    /\ LET lost == epLost \/ epId = id
       IN  /\ epLost' = lost
           /\ epId' = IF ~lost /\ l > maxLvl THEN id ELSE IF epId = id THEN 0 ELSE epId
    /\ maxLvl' = IF l > maxLvl THEN l ELSE maxLvl
    /\ anyDel' = TRUE
    /\ pending' = Min2(pending + 1, 2)
    /\ UNCHANGED <<hasEp, reopened>>
    /\ Log("upd", id, v, l)

VacuumBatch ==
    /\ pending > 0
    /\ pending' = 0
    /\ UNCHANGED <<live, vec, nodes, foot, hasEp, epId, maxLvl, epLost, anyDel, reopened>>
    /\ Log("vac", 0, NoVec, 0)

Reopen ==
    /\ reopened' = TRUE /\ pending' = 0
    /\ UNCHANGED <<live, vec, nodes, foot, hasEp, epId, maxLvl, epLost, anyDel>>
    /\ Log("reopen", 0, NoVec, 0)

Next == /\ Len(hist) < MaxOps
        /\ \/ \E id \in Ids : \E v \in PointsOf(id), l \in Levels : Insert(id, v, l) \/ Update(id, v, l)
           \/ \E id \in Ids : Delete(id)
           \/ VacuumBatch
           \/ Reopen
Spec == Init /\ [][Next]_<<abstract, ghost, hist>>

(* --------------------------------------------------------- invariants of the model *)
TypeOK == /\ live \subseteq Ids
          /\ \A i \in Ids : (i \in live) <=> (vec[i] # NoVec)
          /\ \A i \in live : vec[i] \in PointsOf(i)
          /\ nodes >= Cardinality(live) /\ nodes <= MaxNodes
          /\ epId \in live \cup {0} /\ (epLost => epId = 0) /\ (epLost => anyDel)
          /\ (hasEp <=> nodes > 0)
=============================================================================

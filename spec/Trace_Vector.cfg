CONSTANTS MaxLen = 4  LawDim = 1  LawFull = FALSE  Rich = FALSE
INIT InitO
NEXT NextO
INVARIANTS EmitO
CHECK_DEADLOCK FALSE

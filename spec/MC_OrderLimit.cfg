\* model-only run: every meta-invariant of the oracle on the thorough query space, nothing printed
CONSTANTS MaxKeys = 3  FullWindows = TRUE  Rich = TRUE  FullInv = TRUE
SPECIFICATION Spec
INVARIANT OracleInv
CHECK_DEADLOCK FALSE

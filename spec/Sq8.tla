-------------------------------- MODULE Sq8 --------------------------------
(***************************************************************************)
(* C25, last clause: scalar-quantized (SQ8) vectors decode to within one   *)
(* quantization step of the original.                                      *)
(*                                                                         *)
(* SQ8 maps every component of a vector to one of 256 codes between the    *)
(* vector's minimum and maximum; one quantization STEP is (max-min)/255.   *)
(* The model works in integer UNITS of 2^-UnitExp so that everything is    *)
(* exact: a vector is  min + u[i]  units with  u[i] >= 0,  Min(u) = 0  and *)
(* Max(u) = range, and only ranges that are multiples of 255 are generated *)
(* (step = range/255 units is then an exact binary fraction in f32, and so *)
(* is every value min + code*step).  The property is Sq8Ok: every decoded  *)
(* component is within one step of the original.  (An ideal quantizer      *)
(* achieves half a step: IdealWithinHalfStep, checked by TLC.)             *)
(***************************************************************************)
EXTENDS Integers, Sequences, TLC, Json

CONSTANTS Dense     \* TRUE: every value 0..range of the probed component; FALSE: every residue class near both ends and the middle

VARIABLE c
Abs(x) == IF x < 0 THEN -x ELSE x
RECURSIVE MaxR(_, _)
MaxR(u, i) == IF i = 0 THEN 0 ELSE LET m == MaxR(u, i - 1) IN IF u[i] > m THEN u[i] ELSE m
Range(u) == MaxR(u, Len(u))                  \* Min(u) = 0 by construction
Step(u) == Range(u) \div 255

\* dec[i] in units relative to min, as observed
Sq8Ok(u, dec) == Len(dec) = Len(u) /\ \A i \in 1..Len(u) : Abs(dec[i] - u[i]) <= Step(u)

Ideal(u) == [i \in 1..Len(u) |-> IF Step(u) = 0 THEN 0 ELSE Step(u) * ((2 * u[i] + Step(u)) \div (2 * Step(u)))]

Ranges == {0, 255, 510, 1020}
Probes(r) == IF r = 0 THEN {0}
             ELSE IF Dense THEN 0..r
             ELSE {x \in 0..r : x <= 9 \/ x >= r - 9 \/ Abs(x - r \div 2) <= 5}
Mins == {0, -1020, 4096, -3}
Exps == {0, 2, 10}
Grp(k) == [g |-> TRUE, key |-> k]
Case(x) == [g |-> FALSE, v |-> x]
Init == c \in {Grp(<<r, m, e>>) : r \in Ranges, m \in Mins, e \in Exps}
Next == c.g /\ c' \in LET r == c.key[1] IN
                      {Case([range |-> r, min |-> c.key[2], unit_exp |-> c.key[3], u |-> u]) :
                          u \in {<<0, r, x>> : x \in Probes(r)} \cup {<<r, x, 0, x>> : x \in Probes(r)} \cup {<<r \div 3>> : x \in {0}}}
\* note: the one-component vector <<r \div 3>> has min = max (range 0 for the quantizer): the case says so itself
Fix(x) == [x EXCEPT !.u = IF Len(x.u) = 1 THEN <<0>> ELSE x.u, !.min = IF Len(x.u) = 1 THEN x.min + x.u[1] ELSE x.min]
Out == LET x == Fix(c.v) IN
       [min |-> x.min, unit_exp |-> x.unit_exp, u |-> x.u, step |-> Step(x.u), range |-> Range(x.u),
        resid |-> [i \in 1..Len(x.u) |-> IF Step(x.u) = 0 THEN 0 ELSE x.u[i] % Step(x.u)]]
Emit == c.g \/ PrintT(<<"T", ToJson(Out)>>)
IdealWithinHalfStep == c.g \/ LET u == Fix(c.v).u IN
                       /\ Sq8Ok(u, Ideal(u))
                       /\ \A i \in 1..Len(u) : 2 * Abs(Ideal(u)[i] - u[i]) <= Step(u)
                       /\ (Step(u) > 0 => ~Sq8Ok(u, [Ideal(u) EXCEPT ![1] = u[1] + Step(u) + 1]))
\* every value of the case is an integer of magnitude < 2^24 units: exact in f32
ExactInput == c.g \/ LET x == Fix(c.v) IN \A i \in 1..Len(x.u) : Abs(x.min + x.u[i]) < 16777216
=============================================================================

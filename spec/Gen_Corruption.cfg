CONSTANTS Shapes = {"tiny", "multi"}  MaxPos = 47  CatalogPos = 560
CONSTANTS FileFaultKinds = {"zero", "ff", "junk", "flip_first", "flip_middle", "flip_last", "trunc_at_start", "trunc_inside", "extend_junk"}
CONSTANTS DecoderFaultKinds = {"zero", "ff", "flip_low", "flip_high", "inc", "trunc", "extend_junk"}
CONSTANTS FileKindsUsed <- AllFileKinds  DecodersUsed <- AllDecoders
SPECIFICATION GenSpec
INVARIANT TypeOK
ACTION_CONSTRAINT Emit
CHECK_DEADLOCK FALSE

CONSTANTS MaxSeq = 2
SPECIFICATION Spec
INVARIANT Laws
INVARIANT ModelFacts
INVARIANT Emit
CHECK_DEADLOCK FALSE

CONSTANTS Rich = FALSE
SPECIFICATION Spec
INVARIANT OracleInv
ACTION_CONSTRAINT Emit
CHECK_DEADLOCK FALSE

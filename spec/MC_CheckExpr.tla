---------------------------- MODULE MC_CheckExpr ----------------------------
EXTENDS CheckExpr, Json, TLC
RECURSIVE Show(_)
Show(t) == CASE t.op = "col" -> <<"col", t.nm>>
             [] t.op = "lit" -> <<"lit", t.val.k, t.val.n, t.val.c>>
             [] OTHER        -> <<t.op>> \o [j \in 1..Len(t.args) |-> Show(t.args[j])]
Emit == ~done => PrintT(<<"T", ToJson([e |-> Show(e), vals |-> [j \in 1..Len(XVals) |-> <<XVals[j].k, XVals[j].n>>],
                                      acc |-> [j \in 1..Len(XVals) |-> Accepts(e, XVals[j])]])>>)
Laws == done \/ e # AtomSeq[1] \/ OracleLaws        \* evaluated once
=============================================================================

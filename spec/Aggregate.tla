------------------------------ MODULE Aggregate ------------------------------
(***************************************************************************)
(* C16: aggregates and GROUP BY follow SQL semantics.                      *)
(*                                                                         *)
(* A pure oracle over bags of small integers (NULL is N).  A query is      *)
(*                                                                         *)
(*   [src, tab, w, g, wc, f, x, h]                                         *)
(*                                                                         *)
(*   src  "table": FROM tab            "join": FROM tab x JOIN w y ON      *)
(*        x.a = y.a  (every column below is x's; one input row per match)  *)
(*   w    WHERE: "none" | "idge2" (id >= 2) | "idlt0" (id < 0: no input)   *)
(*   g    GROUP BY list: << >>, <<"a">>, <<"b">>, <<"a","b">>, <<"a+b">>.. *)
(*   wc   TRUE: the select list is  g.., COUNT( * ), f(x);  FALSE: g.., f(x) *)
(*   f,x  the aggregate: COUNT( * ) (x = "*"), COUNT, SUM, AVG, MIN, MAX   *)
(*        of a column or of the expression a+b                             *)
(*   h    HAVING: "none" | "cnt>1" (COUNT( * ) > 1) | "sumb>=1"            *)
(*        (SUM(b) >= 1) | "self>=1" (f(x) >= 1)                            *)
(*                                                                         *)
(* Semantics (SQL): the input rows are partitioned by the value of the     *)
(* grouping expressions, NULL keys forming ONE group; with an empty        *)
(* GROUP BY list there is exactly one group even when there is no input.   *)
(* COUNT( * ) counts rows; every other aggregate ignores NULL inputs;      *)
(* over no non-NULL input COUNT is 0 and SUM/AVG/MIN/MAX are NULL.  AVG    *)
(* is kept exact as the pair <<sum, count>> (count 0: NULL).  HAVING keeps the groups on   *)
(* which its predicate is TRUE (a comparison with NULL is not TRUE).       *)
(* The answer is a BAG of rows (order is C15's business).                  *)
(***************************************************************************)
EXTENDS Integers, Sequences, FiniteSets, TLC

CONSTANT Rich      \* TRUE: more grouping lists / HAVING variants

N == -99
Tab(t) == CASE t = "t" -> << <<1, 2, 1>>, <<2, N, 1>>, <<3, 1, N>>, <<4, 2, 0>>,
                             <<5, N, N>>, <<6, 2, 1>>, <<7, 1, 0>> >>
            [] t = "u" -> << <<1, 2, 1>>, <<2, 0, 1>>, <<3, 1, 3>>, <<4, 2, 0>>,
                             <<5, 0, 2>>, <<6, 2, 1>> >>
            [] t = "e" -> << >>
            [] t = "n" -> << <<1, N, 1>>, <<2, N, 0>>, <<3, N, 1>> >>
W == << <<1, 1>>, <<2, 2>>, <<3, 2>>, <<4, N>> >>
Tables == {"t", "u", "e", "n"}

SeqToSet(s) == {s[i] : i \in 1..Len(s)}
RECURSIVE SelectSeqIdx(_, _, _)
SelectSeqIdx(s, keep(_), i) ==
    IF i > Len(s) THEN << >> ELSE (IF keep(i) THEN <<s[i]>> ELSE << >>) \o SelectSeqIdx(s, keep, i + 1)
Add(x, y) == IF x = N \/ y = N THEN N ELSE x + y
\* column s is a TEXT column whose values are the images of b under an order-preserving encoding (0 -> 'a', 1 -> 'b', ..):
\* for the oracle it is b, the renderer writes it as text, and MIN/MAX/COUNT of it exercise the non-numeric aggregate state
Val(e, r) == CASE e = "id" -> r[1] [] e = "a" -> r[2] [] e = "b" -> r[3] [] e = "s" -> r[3] [] e = "a+b" -> Add(r[2], r[3])
IsExpr(e) == e = "a+b"
IsText(e) == e = "s"

(* ------------------------------------------------------------------- input *)
JoinRows(rs) ==    \* x's row once per matching y (NULL never matches)
    LET RECURSIVE J(_, _)
        J(i, j) == IF i > Len(rs) THEN << >>
                   ELSE IF j > Len(W) THEN J(i + 1, 1)
                   ELSE (IF rs[i][2] # N /\ rs[i][2] = W[j][2] THEN <<rs[i]>> ELSE << >>) \o J(i, j + 1)
    IN J(1, 1)
Input(q) ==
    LET rs == Tab(q.tab)
        src == IF q.src = "join" THEN JoinRows(rs) ELSE rs
    IN CASE q.w = "none" -> src
         [] q.w = "idge2" -> SelectSeqIdx(src, LAMBDA i : src[i][1] >= 2, 1)
         [] q.w = "idlt0" -> SelectSeqIdx(src, LAMBDA i : src[i][1] < 0, 1)

(* -------------------------------------------------------------- aggregates *)
RECURSIVE SumSeq(_)
SumSeq(s) == IF s = << >> THEN 0 ELSE Head(s) + SumSeq(Tail(s))
MinOf(S) == CHOOSE v \in S : \A y \in S : v <= y
MaxOf(S) == CHOOSE v \in S : \A y \in S : v >= y
\* the non-NULL argument values of a group (a sequence: duplicates count)
ArgVals(x, rows) == LET all == [i \in 1..Len(rows) |-> Val(x, rows[i])] IN SelectSeqIdx(all, LAMBDA i : all[i] # N, 1)
Agg(f, x, rows) ==
    IF f = "COUNT(*)" THEN Len(rows)
    ELSE LET vs == ArgVals(x, rows) IN
         CASE f = "COUNT" -> Len(vs)
           [] f = "SUM" -> IF vs = << >> THEN N ELSE SumSeq(vs)
           [] f = "AVG" -> <<SumSeq(vs), Len(vs)>>                                \* exact: <<sum, count>>; count 0 means NULL
           [] f = "MIN" -> IF vs = << >> THEN N ELSE MinOf(SeqToSet(vs))
           [] f = "MAX" -> IF vs = << >> THEN N ELSE MaxOf(SeqToSet(vs))
IsNull(f, v) == IF f = "AVG" THEN v[2] = 0 ELSE v = N
\* v >= 1 for the value of aggregate f (AVG: sum >= count), never TRUE for NULL
GeOne(f, v) == IF IsNull(f, v) THEN FALSE ELSE IF f = "AVG" THEN v[1] >= v[2] ELSE v >= 1

(* ------------------------------------------------------------------ groups *)
KeyOf(g, r) == [i \in 1..Len(g) |-> Val(g[i], r)]
GroupKeysOf(g, rows) ==     \* distinct key tuples in order of first appearance; one (empty) key when g is empty
    IF g = << >> THEN << << >> >>
    ELSE LET RECURSIVE G(_, _)
             G(i, acc) == IF i > Len(rows) THEN acc
                          ELSE G(i + 1, IF KeyOf(g, rows[i]) \in SeqToSet(acc) THEN acc ELSE Append(acc, KeyOf(g, rows[i])))
         IN G(1, << >>)
Members(g, rows, key) == SelectSeqIdx(rows, LAMBDA i : KeyOf(g, rows[i]) = key, 1)
Having(h, f, x, rows) ==
    CASE h = "none" -> TRUE
      [] h = "cnt>1" -> Len(rows) > 1
      [] h = "sumb>=1" -> GeOne("SUM", Agg("SUM", "b", rows))
      [] h = "self>=1" -> GeOne(f, Agg(f, x, rows))

(***************************************************************************)
(* Named deviations (what the implementation is known to do instead); a    *)
(* set of them turns the reference into a variant, see Groups(q, devs).    *)
(*  "count_counts_nulls"          COUNT(x) counts rows, like COUNT( * )    *)
(*  "sum_of_nothing_is_zero"      SUM over no non-NULL input is 0, not NULL *)
(*  "expr_arg_is_first_column"    an aggregate of an EXPRESSION is computed *)
(*                                over the first column of the table (id)  *)
(*  "expr_key_shown_as_null"      grouping by an expression forms the right *)
(*                                groups but shows NULL as their key       *)
(*  "minmax_of_text_is_null"      MIN / MAX of a TEXT column are NULL       *)
(*  "having_looked_up_in_select_list"  a HAVING aggregate is not computed  *)
(*                                but looked up by name among the select-  *)
(*                                list aggregates (see HavingLookup): not  *)
(*                                found, it is NULL and no group passes;   *)
(*                                found by the bare function name, another *)
(*                                aggregate answers for it                 *)
(***************************************************************************)
DevSeq == << "count_counts_nulls", "expr_arg_is_first_column", "expr_key_shown_as_null", "having_looked_up_in_select_list",
             "minmax_of_text_is_null", "sum_of_nothing_is_zero" >>
DevNames == SeqToSet(DevSeq)
AggDev(f, x, rows, devs) ==
    LET xx == IF "expr_arg_is_first_column" \in devs /\ IsExpr(x) THEN "id" ELSE x
    IN IF f \in {"MIN", "MAX"} /\ IsText(x) /\ "minmax_of_text_is_null" \in devs THEN N
       ELSE IF f = "COUNT" /\ "count_counts_nulls" \in devs THEN Len(rows)
       ELSE IF f = "SUM" /\ "sum_of_nothing_is_zero" \in devs /\ ArgVals(xx, rows) = << >> THEN 0
       ELSE Agg(f, xx, rows)
\* How the HAVING aggregate is found among the select-list aggregates: by the name <fn>_<column>, else by the bare
\* name <fn>, which is the name of COUNT( * ) and of any aggregate of an expression.
\*   "exact": it is in the select list;  "byname": another aggregate with the same function answers for it;
\*   "none": nothing is found and the aggregate call evaluates to NULL.
HavingLookup(q) == CASE q.h = "none" -> "exact"
                     [] q.h = "cnt>1" -> IF q.wc \/ q.f = "COUNT(*)" THEN "exact" ELSE IF q.f = "COUNT" /\ IsExpr(q.x) THEN "byname" ELSE "none"
                     [] q.h = "sumb>=1" -> IF q.f = "SUM" /\ q.x = "b" THEN "exact" ELSE IF q.f = "SUM" /\ IsExpr(q.x) THEN "byname" ELSE "none"
                     [] q.h = "self>=1" -> "exact"
HavingDev(q, rows, devs) ==
    IF "having_looked_up_in_select_list" \in devs /\ HavingLookup(q) = "none" THEN FALSE
    ELSE IF "having_looked_up_in_select_list" \in devs /\ HavingLookup(q) = "byname"
      THEN (IF q.h = "cnt>1" THEN AggDev(q.f, q.x, rows, devs) > 1 ELSE GeOne(q.f, AggDev(q.f, q.x, rows, devs)))
    ELSE CASE q.h = "none" -> TRUE
           [] q.h = "cnt>1" -> Len(rows) > 1
           [] q.h = "sumb>=1" -> GeOne("SUM", AggDev("SUM", "b", rows, devs))
           [] q.h = "self>=1" -> GeOne(q.f, AggDev(q.f, q.x, rows, devs))
ShownKey(g, key, devs) == [i \in 1..Len(g) |-> IF "expr_key_shown_as_null" \in devs /\ IsExpr(g[i]) THEN N ELSE key[i]]
Applicable(q, devs) ==
    /\ ("count_counts_nulls" \in devs => q.f = "COUNT")
    /\ ("sum_of_nothing_is_zero" \in devs => q.f = "SUM" \/ q.h = "sumb>=1")
    /\ ("expr_arg_is_first_column" \in devs => IsExpr(q.x))
    /\ ("minmax_of_text_is_null" \in devs => IsText(q.x) /\ q.f \in {"MIN", "MAX"})
    /\ ("expr_key_shown_as_null" \in devs => \E i \in 1..Len(q.g) : IsExpr(q.g[i]))
    /\ ("having_looked_up_in_select_list" \in devs => HavingLookup(q) # "exact")

\* The answer under a set of deviations ({} = the reference): one record per surviving group, in order of first
\* appearance:  key (as shown), cnt = COUNT( * ), v = f(x), cls = class of the group's argument values
ArgClass(x, rows) ==
    IF rows = << >> THEN "no_rows"
    ELSE LET k == Len(ArgVals(x, rows)) IN IF k = 0 THEN "all_null" ELSE IF k < Len(rows) THEN "some_null" ELSE "no_null"
Groups(q, devs) ==
    LET rows == Input(q)
        ks == GroupKeysOf(q.g, rows)
        all == [i \in 1..Len(ks) |->
                  LET m == IF q.g = << >> THEN rows ELSE Members(q.g, rows, ks[i])
                  IN [key |-> << >> \o ShownKey(q.g, ks[i], devs), cnt |-> Len(m), v |-> AggDev(q.f, q.x, m, devs),
                      cls |-> IF q.f = "COUNT(*)" THEN (IF m = << >> THEN "no_rows" ELSE "rows") ELSE ArgClass(q.x, m),
                      pass |-> HavingDev(q, m, devs)]]
    IN SelectSeqIdx(all, LAMBDA i : all[i].pass, 1)
Answer(q) == Groups(q, {})

(***************************************************************************)
(* "handwritten_join_aggregate": what the hand-written aggregate path of   *)
(* Database::query does for an aggregate over a join (database.rs,         *)
(* find_hash_aggregate).  It is written down as the code behaves so that   *)
(* the check keeps PREDICTING that path instead of going blind on it:      *)
(*  - the joined row is <<x.id, x.a, x.b, x.s, y.id, y.a>>, produced y-major; *)
(*  - the first Filter under the plan root is applied to the joined rows:  *)
(*    with a HAVING clause that is the HAVING predicate (an aggregate call *)
(*    is not TRUE on a row, so every row is dropped and WHERE is ignored), *)
(*    otherwise the WHERE predicate;                                       *)
(*  - LIMIT cuts the JOINED rows;                                          *)
(*  - every row is projected to the select list first (a select item that  *)
(*    is not a plain column reads column 0), and the aggregation then      *)
(*    indexes that PROJECTED row with positions of the JOINED row;         *)
(*  - grouping expressions that are not plain columns are dropped;         *)
(*  - every COUNT counts rows, SUM(column) adds as a float, SUM of an      *)
(*    expression is 0, AVG/MIN/MAX are NULL;                               *)
(*  - no input row means no output row, also without GROUP BY;             *)
(*  - the output is <<group values.., aggregates..>>; HAVING, ORDER BY and *)
(*    the projection above the aggregate never run;                        *)
(*  - under ORDER BY + LIMIT (a TopK node at the plan root) the aggregate   *)
(*    is not found at all and the projected, cut join rows are returned    *)
(*    as they are (agg = FALSE below).                                     *)
(***************************************************************************)
NoLim == -1
CombIdx(e) == CASE e = "id" -> 1 [] e = "a" -> 2 [] e = "b" -> 3 [] e = "s" -> 4
IsCol(e) == e \in {"id", "a", "b", "s"}
JoinCombined(rs) ==
    LET RECURSIVE J(_, _)
        J(j, i) == IF j > Len(W) THEN << >>
                   ELSE IF i > Len(rs) THEN J(j + 1, 1)
                   ELSE (IF rs[i][2] # N /\ rs[i][2] = W[j][2] THEN << rs[i] \o <<rs[i][3]>> \o W[j] >> ELSE << >>) \o J(j, i + 1)
    IN J(1, 1)
HandJoinRows(q, lim, agg) ==
    LET comb == JoinCombined(Tab(q.tab))
        kept == IF q.h # "none" THEN << >>
                ELSE IF q.w = "idge2" THEN SelectSeqIdx(comb, LAMBDA i : comb[i][1] >= 2, 1)
                ELSE IF q.w = "idlt0" THEN << >> ELSE comb
        cut == IF lim = NoLim \/ lim >= Len(kept) THEN kept ELSE SubSeq(kept, 1, lim)
        items == q.g \o (IF q.wc THEN <<"COUNT(*)">> ELSE << >>) \o <<"agg">>
        P == [i \in 1..Len(cut) |-> [k \in 1..Len(items) |-> cut[i][IF IsCol(items[k]) THEN CombIdx(items[k]) ELSE 1]]]
        gcols == SelectSeqIdx(q.g, LAMBDA k : IsCol(q.g[k]), 1)
        gidx == SelectSeqIdx([k \in 1..Len(gcols) |-> CombIdx(gcols[k])], LAMBDA k : CombIdx(gcols[k]) <= Len(items), 1)
        KeyP(p) == [k \in 1..Len(gidx) |-> p[gidx[k]]]
        keys == LET RECURSIVE G(_, _)
                    G(i, acc) == IF i > Len(P) THEN acc
                                 ELSE G(i + 1, IF KeyP(P[i]) \in SeqToSet(acc) THEN acc ELSE Append(acc, KeyP(P[i])))
                IN G(1, << >>)
        SumOf(m) == IF IsCol(q.x) /\ CombIdx(q.x) <= Len(items)
                      THEN SumSeq(SelectSeqIdx([i \in 1..Len(m) |-> m[i][CombIdx(q.x)]], LAMBDA i : m[i][CombIdx(q.x)] # N, 1))
                      ELSE 0
        AggOf(m) == IF q.f \in {"COUNT", "COUNT(*)"} THEN Len(m) ELSE IF q.f = "SUM" THEN SumOf(m) ELSE N
    IN IF ~agg THEN [i \in 1..Len(P) |-> << >> \o P[i]]
       ELSE [g \in 1..Len(keys) |->
               LET m == SelectSeqIdx(P, LAMBDA i : KeyP(P[i]) = keys[g], 1)
               IN (<< >> \o keys[g]) \o (IF q.wc THEN <<Len(m)>> ELSE << >>) \o <<AggOf(m)>>]

(* -------------------------------------------------------------- query space *)
GroupLists == {<< >>, <<"a">>, <<"b">>, <<"a", "b">>, <<"a+b">>} \cup (IF Rich THEN {<<"b", "a">>, <<"a", "a+b">>, <<"id">>} ELSE {})
Fns == {"COUNT", "SUM", "AVG", "MIN", "MAX"}
Args == {"id", "a", "b", "a+b", "s"}
Havings == {"none", "cnt>1", "sumb>=1"} \cup (IF Rich THEN {"self>=1"} ELSE {})
Queries ==
    {q \in [src : {"table", "join"}, tab : Tables, w : {"none", "idge2", "idlt0"}, g : GroupLists, wc : BOOLEAN,
            f : Fns \cup {"COUNT(*)"}, x : Args \cup {"*"}, h : Havings] :
        /\ (q.f = "COUNT(*)") = (q.x = "*")
        /\ (IsText(q.x) => q.f \in {"COUNT", "MIN", "MAX"} /\ q.h \in {"none", "cnt>1"})
        /\ (q.f = "COUNT(*)" => ~q.wc)
        /\ (q.src = "join" => q.tab \in {"t", "u"} /\ q.w \in {"none", "idge2"})
        /\ (q.tab \in {"e", "n"} => q.w = "none" /\ (Rich \/ q.h \in {"none", "cnt>1"}))}

(* ------------------------------------------- meta-invariants on the oracle *)
Total(f, x, q) == Agg(f, x, Input(q))
OracleOK(q) ==
    LET rows == Input(q)
        q0 == [q EXCEPT !.h = "none"]
        G == Groups(q0, {})          \* all groups, no HAVING
        A == Answer(q)
        mem(i) == IF q.g = << >> THEN rows ELSE Members(q.g, rows, GroupKeysOf(q.g, rows)[i])
    IN /\ SumSeq([i \in 1..Len(G) |-> G[i].cnt]) = Len(rows)                          \* COUNT( * ) = sum of the group counts
       /\ Cardinality({G[i].key : i \in 1..Len(G)}) = Len(G)                           \* one row per distinct key (NULL keys: one group)
       /\ (q.g = << >> => Len(G) = 1)                                                  \* no GROUP BY: exactly one row, even on no input
       /\ (q.g # << >> /\ rows = << >> => G = << >>)
       /\ (q.g # << >> => \A i \in 1..Len(G) : G[i].cnt >= 1)
       /\ (rows = << >> /\ q.g = << >> => IF q.f \in {"COUNT", "COUNT(*)"} THEN G[1].v = 0 ELSE IsNull(q.f, G[1].v))   \* empty input: COUNT 0, others NULL
       /\ \A i \in 1..Len(G) :
            LET m == mem(i) IN
            /\ Agg("COUNT", IF q.x = "*" THEN "a" ELSE q.x, m) <= Len(m)                                  \* COUNT(x) <= COUNT( * )
            /\ (q.f = "SUM" => (G[i].v = N) = (Agg("COUNT", q.x, m) = 0))                                \* NULL exactly when nothing to add
            /\ (q.f = "AVG" => IsNull("AVG", G[i].v) = (Agg("COUNT", q.x, m) = 0))
            /\ (q.f = "AVG" /\ ~IsNull("AVG", G[i].v) => /\ G[i].v[2] = Agg("COUNT", q.x, m) /\ G[i].v[1] = Agg("SUM", q.x, m)
                                             /\ Agg("MIN", q.x, m) * G[i].v[2] <= G[i].v[1]
                                             /\ G[i].v[1] <= Agg("MAX", q.x, m) * G[i].v[2])              \* MIN <= AVG <= MAX
            /\ (q.f \in {"MIN", "MAX"} /\ G[i].v # N => \E j \in 1..Len(m) : Val(q.x, m[j]) = G[i].v)
       \* the group SUMs add up to the total SUM (NULL groups contribute nothing; all NULL <=> total NULL)
       /\ (q.f = "SUM" => LET parts == SelectSeqIdx([i \in 1..Len(G) |-> G[i].v], LAMBDA i : G[i].v # N, 1)
                          IN IF parts = << >> THEN Total("SUM", q.x, q) = N ELSE SumSeq(parts) = Total("SUM", q.x, q))
       /\ (q.f = "COUNT" => SumSeq([i \in 1..Len(G) |-> G[i].v]) = Total("COUNT", q.x, q))
       /\ (q.f = "MIN" /\ Total("MIN", q.x, q) # N =>
             Total("MIN", q.x, q) = MinOf({G[i].v : i \in {j \in 1..Len(G) : G[j].v # N}}))
       /\ (q.f = "MAX" /\ Total("MAX", q.x, q) # N =>
             Total("MAX", q.x, q) = MaxOf({G[i].v : i \in {j \in 1..Len(G) : G[j].v # N}}))
       \* HAVING only removes groups, and removes exactly those on which the predicate is not TRUE
       /\ SeqToSet(A) \subseteq SeqToSet(G)
       /\ (q.h = "cnt>1" => \A i \in 1..Len(G) : (G[i] \in SeqToSet(A)) = (G[i].cnt > 1))
       /\ (q.h = "none" => A = G)
       /\ \A i \in 1..Len(G) : (G[i] \in SeqToSet(A)) = Having(q.h, q.f, q.x, mem(i))      \* the reference HAVING, stated directly
       \* a deviation that is not applicable changes nothing
       /\ \A d \in DevNames : ~Applicable(q, {d}) => Groups(q, {d}) = A
=============================================================================

CONSTANTS N = 400  MaxOps = 12  WithTxn = FALSE  WithDDL = FALSE
SPECIFICATION Spec
VIEW view
INVARIANT CountsConsistent
ACTION_CONSTRAINT Emit
CHECK_DEADLOCK FALSE

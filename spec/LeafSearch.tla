----------------------------- MODULE LeafSearch -----------------------------
(***************************************************************************)
(* C30 - the vectorized leaf key search equals binary search.              *)
(*                                                                         *)
(* A leaf page is abstracted to its sorted key sequence (byte strings,     *)
(* strictly increasing in lexicographic order).  For a probe key           *)
(*                                                                         *)
(*    Search(keys, probe) = <<"F", i>>  if keys[i+1] = probe   (0-based i) *)
(*                          <<"N", c>>  otherwise, c = |{k in keys: k <    *)
(*                                      probe}| = the insertion point      *)
(*                                                                         *)
(* is what LeafNode::find_key must answer, whatever narrowing variant      *)
(* (AVX2, scalar) the CPU selects.  BinSearch is the plain binary search   *)
(* the property names; SearchIsBinarySearch (checked by TLC on everything  *)
(* that is generated) says that the two coincide on sorted sequences.      *)
(*                                                                         *)
(* Large pages are described, not enumerated: a descriptor is a sequence   *)
(* of runs <<p, L>> = L keys sharing the 4-byte prefix number p (prefixes  *)
(* strictly increasing), key j of a run being prefix ++ <<j div 256, j mod *)
(* 256>>.  Expected gives the answer as a function of the descriptor;      *)
(* DescriptorAgrees ties it to Search on the expanded keys.                *)
(***************************************************************************)
EXTENDS ByteKeys, TLC

\* ------------------------------------------------------------------ the oracle
\* (the order is a parameter: Lt(a, b) is SeqLess, or a tabulated copy of it, see LtU below)
SearchL(Lt(_, _), keys, probe) ==
  IF \E i \in DOMAIN keys : keys[i] = probe
  THEN <<"F", (CHOOSE i \in DOMAIN keys : keys[i] = probe) - 1>>
  ELSE <<"N", Cardinality({i \in DOMAIN keys : Lt(keys[i], probe)})>>
Search(keys, probe) == SearchL(SeqLess, keys, probe)

\* plain binary search over positions lo..hi-1 (0-based, as in the code)
RECURSIVE BinL(_, _, _, _, _)
BinL(Lt(_, _), keys, probe, lo, hi) ==
  IF lo >= hi THEN <<"N", lo>>
  ELSE LET mid == lo + (hi - lo) \div 2
           k == keys[mid + 1] IN
       IF k = probe THEN <<"F", mid>>
       ELSE IF Lt(k, probe) THEN BinL(Lt, keys, probe, mid + 1, hi) ELSE BinL(Lt, keys, probe, lo, mid)
BinSearch(keys, probe) == BinL(SeqLess, keys, probe, 0, Len(keys))

Sorted(keys) == \A i \in 1..(Len(keys) - 1) : SeqLess(keys[i], keys[i + 1])

\* ------------------------------------------------------------------ the 26-key universe, in key order
\* 3 keys shorter than 4 bytes; 3 keys whose zero-padded 4-byte prefix ties with another key's ("pre\0" and "pre\0\0"
\* share the padded prefix of "pre"; "pre1" is the bare prefix of the first group); two 4-byte prefixes x 10 suffixes
P1 == <<112, 114, 101, 49>>
P2 == <<112, 114, 101, 50>>
UOrder26 == << <<112>>, <<112, 114>>, <<112, 114, 101>>, <<112, 114, 101, 0>>, <<112, 114, 101, 0, 0>>, P1 >>
            \o [j \in 1..10 |-> P1 \o <<47 + j>>] \o [j \in 1..10 |-> P2 \o <<47 + j>>]
U26 == {UOrder26[i] : i \in DOMAIN UOrder26}
\* every universe key and every gap: k ++ <<0>> is the immediate successor of k, so these probes fall into every gap
\* that any subset of the universe can have; <<>> is below and <<255>> above everything
ProbeSeq26 == << <<>> >>
              \o Flatten([i \in DOMAIN UOrder26 |->
                    IF i < Len(UOrder26) /\ UOrder26[i] \o <<0>> = UOrder26[i + 1] THEN <<UOrder26[i]>>
                    ELSE <<UOrder26[i], UOrder26[i] \o <<0>> >>])
              \o << <<255>> >>
Strs26 == {ProbeSeq26[i] : i \in DOMAIN ProbeSeq26}
\* the order of the strings that occur, tabulated (a table lookup is far cheaper for TLC than SeqLess)
OrdU == [s \in Strs26 |-> CHOOSE i \in DOMAIN ProbeSeq26 : ProbeSeq26[i] = s]
LtU(x, y) == OrdU[x] < OrdU[y]
\* the literals above are what they claim to be (evaluated once, on the initial state of every generating run)
UniverseOk ==
  /\ Len(UOrder26) = 26 /\ Cardinality(U26) = 26
  /\ Sorted(UOrder26) /\ Sorted(ProbeSeq26)
  /\ Strs26 = U26 \cup {k \o <<0>> : k \in U26} \cup {<<>>, <<255>>}
  /\ \A x, y \in Strs26 : LtU(x, y) <=> SeqLess(x, y)
  /\ Cardinality({k \in U26 : Len(k) < 4}) = 3
  /\ Cardinality({k \in U26 : Len(k) = 5 /\ Prefix4(k) = P1}) = 10 /\ Cardinality({k \in U26 : Len(k) = 5 /\ Prefix4(k) = P2}) = 10
  /\ \E x, y \in U26 : x # y /\ Len(x) >= 4 /\ Len(y) < 4 /\ Prefix4(x) = Prefix4(y)     \* a zero-padding tie

\* keys: a sorted sequence of universe keys
Case(keys) == [keys |-> keys, probes |-> [i \in DOMAIN ProbeSeq26 |-> [p |-> ProbeSeq26[i], r |-> SearchL(LtU, keys, ProbeSeq26[i])]]]
\* on a sorted sequence the definition, the plain binary search, and their tabulated versions all agree
SearchIsBinarySearch(keys) ==
  /\ Sorted(keys)
  /\ \A i \in DOMAIN ProbeSeq26 :
       LET p == ProbeSeq26[i]  r == SearchL(LtU, keys, p) IN
       /\ r = BinL(LtU, keys, p, 0, Len(keys))
       /\ r = Search(keys, p)
       /\ r = BinSearch(keys, p)

\* ------------------------------------------------------------------ descriptors of large pages
\* (prefix numbers from 6 on start with a byte >= 0x80: a signed comparison of the prefix hints would misplace them)
PrefixOf(p) == <<IF p >= 6 THEN 240 ELSE 112, 0, p \div 256, p % 256>>
RunKey(p, j) == PrefixOf(p) \o <<j \div 256, j % 256>>
RECURSIVE SumLen(_, _)
SumLen(runs, r) == IF r = 0 THEN 0 ELSE runs[r][2] + SumLen(runs, r - 1)
Base(runs, r) == SumLen(runs, r - 1)              \* number of keys before run r
NKeysOf(runs) == SumLen(runs, Len(runs))
ExpandRuns(runs) == LET n == NKeysOf(runs)
                        runOf(i) == CHOOSE r \in DOMAIN runs : Base(runs, r) < i /\ i <= Base(runs, r) + runs[r][2]
                    IN [i \in 1..n |-> RunKey(runs[runOf(i)][1], i - 1 - Base(runs, runOf(i)))]
RunsOk(runs) == /\ \A r \in DOMAIN runs : runs[r][2] >= 1 /\ runs[r][1] \in 0..65535
                /\ \A r \in 1..(Len(runs) - 1) : runs[r][1] < runs[r + 1][1]

\* probes of a descriptor, run by run:
\*   eq  key j of the run                       gt  that key ++ <<0>> (the gap right after it)
\*   lt  the bare 4-byte prefix of the run (sorts before the run, after everything earlier; ties with the run's prefix)
\*   min <<>>                                   max <<255>>
ProbeBytes(runs, pr) ==
  CASE pr.kind = "eq" -> RunKey(runs[pr.run][1], pr.j)
    [] pr.kind = "gt" -> RunKey(runs[pr.run][1], pr.j) \o <<0>>
    [] pr.kind = "lt" -> PrefixOf(runs[pr.run][1])
    [] pr.kind = "min" -> <<>>
    [] pr.kind = "max" -> <<255>>
\* the answer as a function of the descriptor (b = Base(runs, run) = number of keys before the run)
ExpectedAt(b, n, pr) ==
  CASE pr.kind = "eq" -> <<"F", b + pr.j>>
    [] pr.kind = "gt" -> <<"N", b + pr.j + 1>>
    [] pr.kind = "lt" -> <<"N", b>>
    [] pr.kind = "min" -> <<"N", 0>>
    [] pr.kind = "max" -> <<"N", n>>
Expected(runs, pr) == ExpectedAt(Base(runs, pr.run), NKeysOf(runs), pr)
Pr(r, j, kind) == [run |-> r, j |-> j, kind |-> kind]
\* all answers of a descriptor, grouped by run (j = 0..L-1 is position j+1 of eq / gt)
DescAnswers(runs) ==
  LET n == NKeysOf(runs) IN
  [min |-> ExpectedAt(0, n, Pr(1, 0, "min")), max |-> ExpectedAt(0, n, Pr(1, 0, "max")),
   byrun |-> [r \in DOMAIN runs |->
                LET b == Base(runs, r) IN
                [lt |-> ExpectedAt(b, n, Pr(r, 0, "lt")),
                 eq |-> [j \in 1..runs[r][2] |-> ExpectedAt(b, n, Pr(r, j - 1, "eq"))],
                 gt |-> [j \in 1..runs[r][2] |-> ExpectedAt(b, n, Pr(r, j - 1, "gt"))]]]]
\* the descriptor formula is Search (and the plain binary search) on the expanded keys
DescriptorAgrees(runs) ==
  LET keys == ExpandRuns(runs)
      ans == DescAnswers(runs)
      ok(pr, res) == LET p == ProbeBytes(runs, pr) IN res = Search(keys, p) /\ res = BinSearch(keys, p) /\ res = Expected(runs, pr)
  IN /\ RunsOk(runs) /\ Sorted(keys) /\ Len(keys) = NKeysOf(runs)
     /\ ok(Pr(1, 0, "min"), ans.min) /\ ok(Pr(1, 0, "max"), ans.max)
     /\ \A r \in DOMAIN runs :
          /\ ok(Pr(r, 0, "lt"), ans.byrun[r].lt)
          /\ \A j \in 1..runs[r][2] : ok(Pr(r, j - 1, "eq"), ans.byrun[r].eq[j]) /\ ok(Pr(r, j - 1, "gt"), ans.byrun[r].gt[j])
=============================================================================

----------------------------- MODULE Walk_Hnsw -----------------------------
(* Random walks of Hnsw.tla for `tlc -simulate` (config Gen_Hnsw_walk.cfg). *)
EXTENDS MC_Hnsw
\* Walks: TLC's simulator evaluates constraints and invariants on EVERY candidate successor, so a finished walk is
\* marked by one extra step that has a single successor (fin' = TRUE) and is printed from an invariant on that state.
VARIABLE fin
WInit == Init /\ fin = FALSE
WNext == IF Len(hist) < MaxOps THEN Next /\ fin' = fin
         ELSE ~fin /\ fin' = TRUE /\ UNCHANGED <<abstract, ghost, hist>>
WSpec == WInit /\ [][WNext]_<<abstract, ghost, hist, fin>>
EmitWalk == ~fin \/ PrintT(<<"T", ToJson([hist |-> Out(hist)])>>)

=============================================================================

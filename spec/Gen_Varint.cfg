CONSTANTS Seed = 1  StrideN = 1500  SmallMod = 1
SPECIFICATION Spec
CHECK_DEADLOCK FALSE

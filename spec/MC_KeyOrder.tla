---------------------------- MODULE MC_KeyOrder ----------------------------
(***************************************************************************)
(* C26 - the representative points, the all-pairs oracle and the composite *)
(* keys.  Pts lists the points IN THE ORDER THE DOCUMENTATION OF key.rs    *)
(* GIVES THEM (type rank, then value); TLC checks that the computed        *)
(* comparison Cmp of KeyOrder.tla agrees with this hand-written order      *)
(* (ChainOK), that Cmp is a total preorder (RankOK), that values compare   *)
(* equal only where that is documented (EqualOK) and that every point is   *)
(* well formed, before anything is printed for the harness.                *)
(***************************************************************************)
EXTENDS KeyOrder, TLC, Json

V(t, p) == [t |-> t, p |-> p, c |-> <<>>]
K(t, c) == [t |-> t, p |-> <<>>, c |-> c]

(* ---- integers: <<neg, d3, d2, d1, d0>> *)
I(neg, d3, d2, d1, d0) == V("int", <<neg, d3, d2, d1, d0>>)
IMin  == I(1, 32768, 0, 0, 0)         IMinP1 == I(1, 32767, 65535, 65535, 65535)
IM2p32m1 == I(1, 0, 1, 0, 1)          IM2p32 == I(1, 0, 1, 0, 0)       IM2p31 == I(1, 0, 0, 32768, 0)
IM65536 == I(1, 0, 0, 1, 0)           IM256 == I(1, 0, 0, 0, 256)      IM255 == I(1, 0, 0, 0, 255)
IM2 == I(1, 0, 0, 0, 2)               IM1 == I(1, 0, 0, 0, 1)          I0 == I(0, 0, 0, 0, 0)
I1 == I(0, 0, 0, 0, 1)                I2 == I(0, 0, 0, 0, 2)           I255 == I(0, 0, 0, 0, 255)
I256 == I(0, 0, 0, 0, 256)            I65535 == I(0, 0, 0, 0, 65535)   I65536 == I(0, 0, 0, 1, 0)
I2p31 == I(0, 0, 0, 32768, 0)         I2p32m1 == I(0, 0, 0, 65535, 65535)  I2p32 == I(0, 0, 1, 0, 0)
I2p32p1 == I(0, 0, 1, 0, 1)           I2p53 == I(0, 32, 0, 0, 0)
IMaxM1 == I(0, 32767, 65535, 65535, 65534)   IMax == I(0, 32767, 65535, 65535, 65535)

(* ---- binary64: <<cls, neg, e, m3, m2, m1, m0>> *)
F(neg, e, m3, m2, m1, m0) == V("float", <<1, neg, e, m3, m2, m1, m0>>)
FNInf == V("float", <<0, 1, 2047, 0, 0, 0, 0>>)      FPInf == V("float", <<2, 0, 2047, 0, 0, 0, 0>>)
FNaNq == V("float", <<3, 0, 2047, 8, 0, 0, 0>>)      FNaNs == V("float", <<3, 0, 2047, 0, 0, 0, 1>>)
FNaNneg == V("float", <<3, 1, 2047, 8, 0, 0, 0>>)
FNMax == F(1, 2046, 15, 65535, 65535, 65535)  FN2p53 == F(1, 1076, 0, 0, 0, 0)  FN2p32 == F(1, 1055, 0, 0, 0, 0)
FN1_5 == F(1, 1023, 8, 0, 0, 0)               FN1ulp == F(1, 1023, 0, 0, 0, 1)  FN1 == F(1, 1023, 0, 0, 0, 0)
FNMinNorm == F(1, 1, 0, 0, 0, 0)              FNMaxSub == F(1, 0, 15, 65535, 65535, 65535)
FNMinSub == F(1, 0, 0, 0, 0, 1)               FNZero == F(1, 0, 0, 0, 0, 0)     FPZero == F(0, 0, 0, 0, 0, 0)
FMinSub == F(0, 0, 0, 0, 0, 1)                FMaxSub == F(0, 0, 15, 65535, 65535, 65535)
FMinNorm == F(0, 1, 0, 0, 0, 0)               FTenth == F(0, 1019, 9, 39321, 39321, 39322)
F1 == F(0, 1023, 0, 0, 0, 0)                  F1ulp == F(0, 1023, 0, 0, 0, 1)   F1_5 == F(0, 1023, 8, 0, 0, 0)
F2p32 == F(0, 1055, 0, 0, 0, 0)               F2p53 == F(0, 1076, 0, 0, 0, 0)
FMax == F(0, 2046, 15, 65535, 65535, 65535)

T(b) == V("text", b)
B(b) == V("blob", b)
D(n) == V("date", <<n>>)
Tm(neg, d3, d2, d1, d0) == V("time", <<neg, d3, d2, d1, d0>>)
Ts(neg, d3, d2, d1, d0) == V("timestamp", <<neg, d3, d2, d1, d0>>)
Tz(neg, d3, d2, d1, d0, tz) == V("timestamptz", <<neg, d3, d2, d1, d0, tz>>)
Iv(mo, dy, neg, d3, d2, d1, d0) == V("interval", <<mo, dy, neg, d3, d2, d1, d0>>)
Rep(x, n) == [i \in 1..n |-> x]
U(b) == V("uuid", b)
M(b) == V("macaddr", b)
E(a, b, c, d) == V("enum", <<a, b, c, d>>)

(* ---- JSON *)
JNull == V("jnull", <<>>)   JFalse == V("jbool", <<0>>)   JTrue == V("jbool", <<1>>)
JN(neg, e, m3, m2, m1, m0) == V("jnum", <<1, neg, e, m3, m2, m1, m0>>)
JS(b) == V("jstr", b)
JA(c) == K("jarr", c)
KV(k, v) == [t |-> "jkv", p |-> k, c |-> <<v>>]
JO(c) == K("jobj", c)
J1 == JN(0, 1023, 0, 0, 0, 0)

(* ---- binary32 vector elements: <<cls, neg, e, m1, m0>> *)
G(neg, e, m1, m0) == V("f32", <<1, neg, e, m1, m0>>)
GNInf == V("f32", <<0, 1, 255, 0, 0>>)  GPInf == V("f32", <<2, 0, 255, 0, 0>>)  GNaN == V("f32", <<3, 0, 255, 64, 0>>)
G0 == G(0, 0, 0, 0)  GN0 == G(1, 0, 0, 0)  G1 == G(0, 127, 0, 0)  GN1 == G(1, 127, 0, 0)  G1_5 == G(0, 127, 64, 0)
G2 == G(0, 128, 0, 0)  GN2 == G(1, 128, 0, 0)  GMinSub == G(0, 0, 0, 1)  GNMinSub == G(1, 0, 0, 1)
GMax == G(0, 254, 127, 65535)  GNMax == G(1, 254, 127, 65535)
Vec(c) == K("vector", c)
Arr(c) == K("array", c)
Tup(c) == K("tuple", c)
Null == V("null", <<>>)

(* ------------------------------------------------------------------------------------------------ *)
(* ALL POINTS, in documented ascending order (equal neighbours: the zeros, the NaNs, the JSON /     *)
(* vector zeros and the arrays that contain them)                                                   *)
Pts == <<
  Null,
  V("bool", <<0>>), V("bool", <<1>>),
  (* numbers: -inf < negative integers < negative floats < ZERO < positive floats < positive integers < +inf < NaN *)
  FNInf,
  IMin, IMinP1, IM2p32m1, IM2p32, IM2p31, IM65536, IM256, IM255, IM2, IM1,
  FNMax, FN2p53, FN2p32, FN1_5, FN1ulp, FN1, FNMinNorm, FNMaxSub, FNMinSub,
  I0, FNZero, FPZero,
  FMinSub, FMaxSub, FMinNorm, FTenth, F1, F1ulp, F1_5, F2p32, F2p53, FMax,
  I1, I2, I255, I256, I65535, I65536, I2p31, I2p32m1, I2p32, I2p32p1, I2p53, IMaxM1, IMax,
  FPInf,
  FNaNq, FNaNs, FNaNneg,
  (* text (bytes of valid UTF-8): "" < "\0" < "\0\0" < "\0\1" < "\1" < "a" < "a\0" < "a\0b" < "a\1" < "ab" < "b" < DEL < e-acute < U+FFFF < U+10FFFF *)
  T(<<>>), T(<<0>>), T(<<0, 0>>), T(<<0, 1>>), T(<<1>>), T(<<97>>), T(<<97, 0>>), T(<<97, 0, 98>>), T(<<97, 1>>),
  T(<<97, 98>>), T(<<98>>), T(<<127>>), T(<<195, 169>>), T(<<239, 191, 191>>), T(<<244, 143, 191, 191>>),
  (* blob: arbitrary bytes incl. 0xFF *)
  B(<<>>), B(<<0>>), B(<<0, 0>>), B(<<0, 1>>), B(<<0, 255>>), B(<<1>>), B(<<97>>), B(<<97, 0>>), B(<<127>>), B(<<254>>),
  B(<<254, 255>>), B(<<255>>), B(<<255, 0>>), B(<<255, 0, 0>>), B(<<255, 1>>), B(<<255, 255>>),
  D(-2147483647 - 1), D(-1), D(0), D(1), D(19000), D(2147483647),
  Tm(1, 0, 0, 0, 1), Tm(0, 0, 0, 0, 0), Tm(0, 0, 0, 0, 1), Tm(0, 0, 20, 7639, 24575),
  Ts(1, 32768, 0, 0, 0), Ts(1, 0, 0, 0, 1), Ts(0, 0, 0, 0, 0), Ts(0, 0, 0, 0, 1), Ts(0, 6, 2596, 6174, 16384),
  Ts(0, 32767, 65535, 65535, 65535),
  Tz(1, 0, 0, 0, 1, 840), Tz(0, 0, 0, 0, 0, -32768), Tz(0, 0, 0, 0, 0, -720), Tz(0, 0, 0, 0, 0, 0), Tz(0, 0, 0, 0, 0, 840),
  Tz(0, 0, 0, 0, 0, 32767), Tz(0, 0, 0, 0, 1, -720),
  Iv(-2147483647 - 1, 0, 0, 0, 0, 0, 0), Iv(-1, 5, 0, 0, 0, 0, 0), Iv(0, -1, 0, 32767, 65535, 65535, 65535),
  Iv(0, 0, 1, 0, 0, 0, 1), Iv(0, 0, 0, 0, 0, 0, 0), Iv(0, 0, 0, 0, 0, 0, 1), Iv(0, 1, 1, 32768, 0, 0, 0),
  Iv(1, -5, 0, 0, 0, 0, 0), Iv(2147483647, 2147483647, 0, 32767, 65535, 65535, 65535),
  U(Rep(0, 16)), U(Rep(0, 15) \o <<1>>), U(<<1>> \o Rep(0, 15)),
  U(<<18, 62, 69, 103, 232, 155, 18, 211, 164, 86, 66, 102, 20, 23, 64, 0>>),
  U(<<127>> \o Rep(255, 15)), U(<<128>> \o Rep(0, 15)), U(Rep(255, 15) \o <<254>>), U(Rep(255, 16)),
  (* INET: order among themselves is Open *)
  V("inet", <<0, 0, 0, 0, 0, 0>>), V("inet", <<0, 8, 10, 0, 0, 1>>), V("inet", <<0, 32, 255, 255, 255, 255>>),
  V("inet", <<1, 0>> \o Rep(0, 16)), V("inet", <<1, 128>> \o Rep(0, 15) \o <<1>>),
  M(Rep(0, 6)), M(Rep(0, 5) \o <<1>>), M(<<127>> \o Rep(255, 5)), M(<<128>> \o Rep(0, 5)), M(Rep(255, 6)),
  (* JSON: null < false < true < numbers < strings < arrays < objects *)
  JNull, JFalse, JTrue,
  JN(1, 1023, 8, 0, 0, 0), JN(1, 0, 0, 0, 0, 1), JN(1, 0, 0, 0, 0, 0), JN(0, 0, 0, 0, 0, 0), JN(0, 0, 0, 0, 0, 1), J1,
  JN(0, 1023, 8, 0, 0, 0),
  JS(<<>>), JS(<<97>>), JS(<<97, 0>>), JS(<<98>>),
  JA(<<>>), JA(<<JNull>>), JA(<<JNull, JNull>>), JA(<<J1>>), JA(<<J1, JS(<<97>>)>>), JA(<<JA(<<>>)>>), JA(<<JA(<<>>), JA(<<>>)>>),
  JO(<<>>), JO(<<KV(<<>>, J1)>>), JO(<<KV(<<0, 120>>, JTrue)>>), JO(<<KV(<<97>>, JNull)>>), JO(<<KV(<<97>>, J1)>>),
  JO(<<KV(<<97>>, J1), KV(<<98>>, JNull)>>), JO(<<KV(<<98>>, JNull)>>),
  (* arrays: element by element, a prefix first *)
  Arr(<<>>), Arr(<<Null>>), Arr(<<Null, Null>>), Arr(<<IM1>>), Arr(<<I0>>), Arr(<<FPZero>>), Arr(<<I1>>), Arr(<<I1, I2>>),
  Arr(<<I1, T(<<97>>)>>), Arr(<<I2>>), Arr(<<T(<<>>)>>), Arr(<<T(<<97>>)>>), Arr(<<B(<<0>>)>>), Arr(<<Arr(<<>>)>>),
  Arr(<<Arr(<<I1>>)>>),
  Tup(<<>>), Tup(<<Null>>), Tup(<<I1, T(<<97>>)>>),
  E(0, 0, 0, 0), E(0, 0, 0, 1), E(0, 0, 1, 0), E(0, 1, 0, 0), E(1, 0, 0, 0), E(65535, 65535, 65535, 65535),
  (* vectors: only same-dimension, NaN-free pairs are ordered *)
  Vec(<<>>),
  Vec(<<GNInf>>), Vec(<<GNMax>>), Vec(<<GN1>>), Vec(<<GNMinSub>>), Vec(<<GN0>>), Vec(<<G0>>), Vec(<<GMinSub>>), Vec(<<G1>>),
  Vec(<<G1_5>>), Vec(<<GMax>>), Vec(<<GPInf>>), Vec(<<GNaN>>),
  Vec(<<GN1, G2>>), Vec(<<G1, GN2>>), Vec(<<G1, GN0>>), Vec(<<G1, G0>>), Vec(<<G1, G2>>)
>>

N == Len(Pts)

(* ------------------------------------------------------------------------------------------------ *)
(* meta-checks on the oracle                                                                        *)
AllWF(u)   == \A i \in 1..N : WF(Pts[i])
(* the computed order agrees with the written order *)
ChainOK(u) == \A i \in 1..N : \A j \in (i + 1)..N : Open(Pts[i], Pts[j]) \/ Cmp(Pts[i], Pts[j]) <= 0
(* equal exactly when the canonical values coincide (documented zero / NaN) or only zero signs differ *)
EqualOK(u) == \A i \in 1..N : \A j \in 1..N :
             Open(Pts[i], Pts[j]) \/ ((Cmp(Pts[i], Pts[j]) = 0) <=> SameKeyAllowed(Pts[i], Pts[j]))
(* Cmp is a total preorder: it is the comparison of a rank function *)
Below(i) == Cardinality({j \in 1..N : ~Open(Pts[j], Pts[i]) /\ Cmp(Pts[j], Pts[i]) < 0})
OrderedWith(i, j) == ~Open(Pts[i], Pts[j])
RankOK(u)  == LET r == TLCEval([i \in 1..N |-> Below(i)]) IN
           \A i \in 1..N : \A j \in 1..N :
              /\ Cmp(Pts[i], Pts[j]) = -Cmp(Pts[j], Pts[i])
              /\ (OrderedWith(i, j) /\ Pts[i].t \notin {"inet", "vector"} /\ Pts[j].t \notin {"inet", "vector"})
                    => Cmp(Pts[i], Pts[j]) = Sign(r[i] - r[j])
(* the refinement CmpT differs from Cmp only on pairs that Cmp calls equal *)
RefineOK(u) == \A i \in 1..N : \A j \in 1..N : Cmp(Pts[i], Pts[j]) # 0 => CmpT(Pts[i], Pts[j]) = Cmp(Pts[i], Pts[j])

(* classes the property names: each must be present (non-vacuity, checked by TLC) *)
Tags == {Pts[i].t : i \in 1..N}
NonVacuous(u) ==
  /\ Tags = {"null", "bool", "int", "float", "text", "blob", "date", "time", "timestamp", "timestamptz", "interval",
             "uuid", "inet", "macaddr", "jnull", "jbool", "jnum", "jstr", "jarr", "jobj", "array", "tuple", "enum", "vector"}
  /\ \E i \in 1..N : Pts[i].t = "float" /\ FClass(Pts[i].p) = 5
  /\ \E i \in 1..N : Pts[i].t = "float" /\ FClass(Pts[i].p) = 2 /\ Pts[i].p[2] = 1
  /\ \E i \in 1..N : Pts[i].t = "float" /\ Pts[i].p[1] = 1 /\ Pts[i].p[3] = 0 /\ ~FIsZero(Pts[i].p)     \* subnormal
  /\ \E i \in 1..N : Pts[i].t = "blob" /\ \E k \in 1..Len(Pts[i].p) : Pts[i].p[k] = 255
  /\ \E i \in 1..N : Pts[i].t = "text" /\ \E k \in 1..Len(Pts[i].p) : Pts[i].p[k] = 0
  /\ \E i, j \in 1..N : i # j /\ Pts[i].t = "text" /\ Pts[j].t = "text" /\ Len(Pts[i].p) < Len(Pts[j].p)
                        /\ SubSeq(Pts[j].p, 1, Len(Pts[i].p)) = Pts[i].p /\ Len(Pts[i].p) > 0          \* proper prefixes

(* ------------------------------------------------------------------------------------------------ *)
(* seeded points: RandN integers, floats, timestamps, texts and blobs each, with pseudo-random       *)
(* digits / bytes, so that every byte position of the 64-bit transforms and every escape position     *)
(* gets exercised with values nobody picked by hand.  Compared among themselves (all pairs).          *)
CONSTANTS Seed, RandN
H(x) == ((x % 65536) * 1103 + 12345) % 65536
Rnd(i, k) == H(H(H(i * 97 + k) + ((Seed * 13) % 65536)) + k * 31)
RDigits(i, k0) == LET lead == Rnd(i, k0) % 4 IN      \* 0..3 leading zero digits: all magnitudes occur
                  [j \in 1..4 |-> IF j <= lead THEN 0 ELSE IF j = 1 THEN Rnd(i, k0 + j) % 32768 ELSE Rnd(i, k0 + j)]
RSigned(i, k0) == LET d == RDigits(i, k0) neg == IF d = <<0, 0, 0, 0>> THEN 0 ELSE Rnd(i, k0 + 5) % 2 IN <<neg>> \o d
RInt(i)   == V("int", RSigned(i, 0))
RTs(i)    == V("timestamp", RSigned(i, 10))
RFloat(i) == F(Rnd(i, 20) % 2, IF Rnd(i, 21) % 4 = 0 THEN Rnd(i, 22) % 3 ELSE Rnd(i, 22) % 2047, Rnd(i, 23) % 16, Rnd(i, 24), Rnd(i, 25), Rnd(i, 26))
TextAlpha == <<0, 1, 97, 98, 127>>
BlobAlpha == <<0, 1, 97, 254, 255>>
RText(i)  == T([j \in 1..(Rnd(i, 30) % 6) |-> TextAlpha[(Rnd(i, 30 + j) % 5) + 1]])
RBlob(i)  == B([j \in 1..(Rnd(i, 40) % 6) |-> BlobAlpha[(Rnd(i, 40 + j) % 5) + 1]])
RandPts == [n \in 1..(5 * RandN) |->
              LET i == ((n - 1) % RandN) + 1  g == (n - 1) \div RandN IN
              CASE g = 0 -> RInt(i) [] g = 1 -> RFloat(i) [] g = 2 -> RTs(i) [] g = 3 -> RText(i) [] g = 4 -> RBlob(i)]
NR == Len(RandPts)
RandWF(u) == \A i \in 1..NR : WF(RandPts[i])
RandRankOK(u) == LET r == TLCEval([i \in 1..NR |-> Cardinality({j \in 1..NR : Cmp(RandPts[j], RandPts[i]) < 0})]) IN
                 \A i \in 1..NR : \A j \in 1..NR :
                    /\ Cmp(RandPts[i], RandPts[j]) = Sign(r[i] - r[j])
                    /\ (Cmp(RandPts[i], RandPts[j]) = 0 <=> SameKeyAllowed(RandPts[i], RandPts[j]))
RpRec(i) == [k |-> "rp", i |-> i, v |-> RandPts[i], canon |-> Canon(RandPts[i]), canonz |-> CanonZ(RandPts[i]),
             cmp  |-> [j \in 1..NR |-> Cmp(RandPts[i], RandPts[j])],
             cmpt |-> [j \in 1..NR |-> CmpT(RandPts[i], RandPts[j])],
             open |-> [j \in 1..NR |-> 0],
             same |-> [j \in 1..NR |-> IF SameKeyAllowed(RandPts[i], RandPts[j]) THEN 1 ELSE 0]]

(* ------------------------------------------------------------------------------------------------ *)
(* composite keys: all 2-tuples over R2 and all 3-tuples over R3                                    *)
R2 == << Null, V("bool", <<0>>), V("bool", <<1>>), FNInf, IM1, FN1_5, I0, FNZero, F1, I1, FNaNq,
         T(<<>>), T(<<0>>), T(<<97>>), T(<<97, 0>>), T(<<97, 98>>), B(<<>>), B(<<0>>), B(<<255>>), D(0) >>
R3 == << Null, I0, FPZero, I1, T(<<>>), T(<<0>>), T(<<97>>), B(<<255>>) >>
(* self-delimiting containers as key columns: the next column must not be taken for their content *)
RC == << Null, I1, Arr(<<>>), Arr(<<Null>>), JA(<<>>), JA(<<JNull>>), JO(<<>>), JO(<<KV(<<>>, J1)>>), JO(<<KV(<<97>>, JNull)>>),
         Vec(<<>>), Vec(<<G1>>) >>
TupC == { <<i, j>> : i \in 1..Len(RC), j \in 1..Len(RC) }
RowC(ix) == <<RC[ix[1]], RC[ix[2]]>>
RankC(ix) == Cardinality({jx \in TupC : TupCmp(RowC(jx), RowC(ix)) < 0})
Tup2 == { <<i, j>> : i \in 1..Len(R2), j \in 1..Len(R2) }
Tup3 == { <<i, j, k>> : i \in 1..Len(R3), j \in 1..Len(R3), k \in 1..Len(R3) }
Row2(ix) == <<R2[ix[1]], R2[ix[2]]>>
Row3(ix) == <<R3[ix[1]], R3[ix[2]], R3[ix[3]]>>
(* dense position of a tuple in the lexicographic order: the number of tuples strictly below it *)
Rank2(ix) == Cardinality({jx \in Tup2 : TupCmp(Row2(jx), Row2(ix)) < 0})
Rank3(ix) == Cardinality({jx \in Tup3 : TupCmp(Row3(jx), Row3(ix)) < 0})
(* lexicographic order of tuples is the comparison of these ranks (checked on a diagonal sample) *)
TupRankOK(u) == LET r == TLCEval([ix \in Tup2 |-> Rank2(ix)]) IN
             \A ix \in Tup2 : \A jx \in { kx \in Tup2 : (kx[1] + kx[2] + ix[1]) % 7 = 0 } :
                TupCmp(Row2(ix), Row2(jx)) = Sign(r[ix] - r[jx])

(* ------------------------------------------------------------------------------------------------ *)
(* emission: one line per point (value, canonical decode forms, comparison with every point),        *)
(* one line per composite key (columns, rank)                                                        *)
PtRec(i) == [k |-> "pt", i |-> i, v |-> Pts[i], canon |-> Canon(Pts[i]), canonz |-> CanonZ(Pts[i]),
             cmp  |-> [j \in 1..N |-> Cmp(Pts[i], Pts[j])],
             cmpt |-> [j \in 1..N |-> CmpT(Pts[i], Pts[j])],
             open |-> [j \in 1..N |-> IF Open(Pts[i], Pts[j]) THEN 1 ELSE 0],
             same |-> [j \in 1..N |-> IF SameKeyAllowed(Pts[i], Pts[j]) THEN 1 ELSE 0]]
T2Rec(ix) == [k |-> "t2", ix |-> ix, cols |-> Row2(ix), rank |-> Rank2(ix)]
T3Rec(ix) == [k |-> "t3", ix |-> ix, cols |-> Row3(ix), rank |-> Rank3(ix)]
TCRec(ix) == [k |-> "tc", ix |-> ix, cols |-> RowC(ix), rank |-> RankC(ix)]

CONSTANT Sel       \* the parts to run (all: 0..11)
VARIABLES part, done
Parts == Sel
Init == part \in Parts /\ done = FALSE
Next == /\ done = FALSE /\ done' = TRUE /\ part' = part
        /\ CASE part = 0 -> /\ Assert(AllWF(0), "a point is not well formed")
                            /\ Assert(NonVacuous(0), "a class of values named by the property is missing")
                            /\ Assert(ChainOK(0), "Cmp disagrees with the documented order of the points")
                            /\ Assert(RefineOK(0), "CmpT is not a refinement of Cmp")
            [] part = 1 -> Assert(EqualOK(0), "values compare equal outside the documented cases")
            [] part = 2 -> Assert(RankOK(0), "Cmp is not a total preorder")
            [] part = 3 -> /\ \A i \in 1..N : PrintT(<<"T", ToJson(PtRec(i))>>)
                           /\ PrintT(<<"T", ToJson([k |-> "prefixes", decodable |-> Decodable])>>)
            [] part = 4 -> /\ Assert(TupRankOK(0), "tuple ranks do not represent TupCmp")
                           /\ \A ix \in TupC : PrintT(<<"T", ToJson(TCRec(ix))>>)
            [] part \in 5..6 -> \A ix \in {jx \in Tup2 : jx[1] % 2 = part - 5} : PrintT(<<"T", ToJson(T2Rec(ix))>>)
            [] part \in 7..10 -> \A ix \in {jx \in Tup3 : jx[1] % 4 = part - 7} : PrintT(<<"T", ToJson(T3Rec(ix))>>)
            [] part = 11 -> /\ Assert(RandWF(0), "a seeded point is not well formed")
                            /\ Assert(RandRankOK(0), "Cmp is not a total preorder / equality outside the documented cases on the seeded points")
                            /\ \A i \in 1..NR : PrintT(<<"T", ToJson(RpRec(i))>>)
Spec == Init /\ [][Next]_<<part, done>>
=============================================================================

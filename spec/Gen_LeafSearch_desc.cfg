CONSTANTS Bound = 0  Ns = {7, 8, 9, 15, 16, 17, 255, 256, 400}  Ls = {2, 3, 7, 8, 9, 16, 17}  Dense = FALSE  MetaMax = 17
SPECIFICATION SpecDesc
INVARIANTS EmitDesc MetaDesc
CHECK_DEADLOCK FALSE

\* repaired design, fine-grained (the windows inside get_or_insert and clear), 2 threads, two shards
CONSTANTS Threads = {t1, t2}  KA = {k1, k2, k3}  KB = {k4}  Cap = 2  MaxCalls = 2  MaxHeld = 2  Fine = TRUE  InitMayFail = TRUE
          BudgetPages = 3  Ballast = 30  ClearKeepsPinned = TRUE  ClearCountsUnderLock = TRUE  ReleaseOnInitError = TRUE
CONSTANT Keys <- KeysAll  ShardOf <- ShardsOneTwo
SYMMETRY Sym
SPECIFICATION Spec
VIEW view
INVARIANTS TypeOK PinnedStays PinAccounting DataIsLastWrite WithinCapacity BudgetMatches BudgetZeroWhenEmpty
PROPERTY FreshEntryShape
CHECK_DEADLOCK FALSE

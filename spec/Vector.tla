------------------------------- MODULE Vector -------------------------------
(***************************************************************************)
(* C24: vector distance ordering is exact.                                 *)
(*                                                                         *)
(* A pure oracle over INTEGER-valued vectors (sequences of integers).      *)
(* Components come from -3..3 plus one "large" class 2^10; every sum that  *)
(* a kernel forms on such inputs is an integer below 2^24, hence exact in  *)
(* f32 whatever the order of summation (ExactInF32).  Therefore            *)
(*   * the squared L2 distance and the dot product have an exact expected  *)
(*     value (L2sq, Dot);                                                  *)
(*   * the ORDER of two rows under L2 is the order of L2sq (sqrt is        *)
(*     strictly monotone: IsqrtLaw is the integer shadow of that fact);    *)
(*   * the ORDER of two rows under cosine distance 1 - a.q/(|a||q|) is     *)
(*     decided without division or square root by CosCmp: compare the      *)
(*     signs of the dot products, then (a.q)^2/|a|^2 against (b.q)^2/|b|^2 *)
(*     as exact fractions (CmpFrac: Euclid-style comparison that never     *)
(*     multiplies, so TLC's 32-bit integers suffice for the large class).  *)
(* Cosine distance to or from a zero vector is UNSPECIFIED (the kernels    *)
(* return 1, SQL returns NULL): such rows are only required not to panic   *)
(* and to leave the order of the other rows intact.                        *)
(*                                                                         *)
(* The property for a query  ORDER BY v <op> q [LIMIT k]  is the predicate *)
(* Admissible(R, ..): the result has min(k,n) distinct rows of the table,  *)
(* the specified rows in it appear in non-decreasing distance, and their   *)
(* distances are the smallest ones (ties may come in any order: the        *)
(* comparison is made on RANKS = number of strictly closer rows).          *)
(***************************************************************************)
EXTENDS Integers, Sequences, FiniteSets, TLC

Large == 1024
TwoTo24 == 16777216
Abs(x) == IF x < 0 THEN -x ELSE x
Sign(x) == IF x > 0 THEN 1 ELSE IF x < 0 THEN -1 ELSE 0
Min2(x, y) == IF x < y THEN x ELSE y

(* ------------------------------------------------------------- the metrics *)
RECURSIVE DotR(_, _, _)
DotR(a, b, i) == IF i = 0 THEN 0 ELSE a[i] * b[i] + DotR(a, b, i - 1)
Dot(a, b) == DotR(a, b, Len(a))
Norm2(a) == Dot(a, a)
Diff(a, b) == [i \in 1..Len(a) |-> a[i] - b[i]]
L2sq(a, b) == Norm2(Diff(a, b))
AbsV(a) == [i \in 1..Len(a) |-> Abs(a[i])]
IsZero(a) == \A i \in 1..Len(a) : a[i] = 0

\* every partial sum any kernel can form on (a,b) is an integer of magnitude < 2^24
ExactInF32(a, b) == /\ L2sq(a, b) < TwoTo24
                    /\ Dot(AbsV(a), AbsV(b)) < TwoTo24
                    /\ Norm2(a) < TwoTo24 /\ Norm2(b) < TwoTo24

(* sign of p1/q1 - p2/q2 for p >= 0, q > 0, without multiplication *)
RECURSIVE CmpFrac(_, _, _, _)
CmpFrac(p1, q1, p2, q2) ==
    LET a1 == p1 \div q1   a2 == p2 \div q2
        r1 == p1 % q1      r2 == p2 % q2
    IN  IF a1 # a2 THEN (IF a1 < a2 THEN -1 ELSE 1)
        ELSE IF r1 = 0 /\ r2 = 0 THEN 0
        ELSE IF r1 = 0 THEN -1
        ELSE IF r2 = 0 THEN 1
        ELSE -CmpFrac(q1, r1, q2, r2)       \* r1/q1 ? r2/q2  is the reverse of  q1/r1 ? q2/r2

CosDefined(a, q) == ~IsZero(a) /\ ~IsZero(q)
\* the squares formed below stay inside TLC's integers
CosSafe(a, q) == Abs(Dot(a, q)) <= 46340

(* -1: a is closer to q than b under cosine distance, 0: same distance, 1: farther (a, b, q non-zero). *)
(* In terms of da = a.q, na = |a|^2, db = b.q, nb = |b|^2 (the common factor |q| cancels).            *)
CosCmpK(da, na, db, nb) ==
    LET sa == Sign(da)    sb == Sign(db)
    IN  IF sa # sb THEN (IF sa > sb THEN -1 ELSE 1)
        ELSE IF sa = 0 THEN 0
        ELSE LET c == CmpFrac(da * da, na, db * db, nb)
             IN  IF sa > 0 THEN -c ELSE c
CosCmp(a, b, q) == CosCmpK(Dot(a, q), Norm2(a), Dot(b, q), Norm2(b))
CosLess(a, b, q) == CosCmp(a, b, q) = -1

(* qualitative class of the cosine distance between two vectors *)
FirstNonZero(a) == CHOOSE i \in 1..Len(a) : a[i] # 0 /\ \A j \in 1..(i - 1) : a[j] = 0
Parallel(a, b) == LET i0 == FirstNonZero(a) IN \A j \in 1..Len(a) : a[i0] * b[j] = a[j] * b[i0]
CosClass(a, b) ==
    IF IsZero(a) \/ IsZero(b) THEN "zero"
    ELSE LET d == Dot(a, b)
         IN  IF d = 0 THEN "orthogonal"                 \* distance exactly 1
             ELSE IF Parallel(a, b) THEN (IF d > 0 THEN "same_dir" ELSE "opposite")   \* 0 resp. 2
             ELSE IF d > 0 THEN "acute" ELSE "obtuse"   \* strictly inside (0,1) resp. (1,2)

(* ------------------------------------------------- tables, ranks, the property *)
\* a table is a function id -> vector; op is "l2" or "cos"
Specified(t, q, op) == IF op = "l2" THEN DOMAIN t
                       ELSE IF IsZero(q) THEN {} ELSE {i \in DOMAIN t : ~IsZero(t[i])}
\* rank of a specified row = number of specified rows strictly closer to q (tied rows share a rank)
RankFn(t, q, op) ==
    LET sp == Specified(t, q, op)
    IN  IF op = "l2"
        THEN LET d == [i \in sp |-> L2sq(t[i], q)]
             IN  [i \in sp |-> Cardinality({j \in sp : d[j] < d[i]})]
        ELSE LET dq == [i \in sp |-> Dot(t[i], q)]
                 nn == [i \in sp |-> Norm2(t[i])]
             IN  [i \in sp |-> Cardinality({j \in sp : CosCmpK(dq[j], nn[j], dq[i], nn[i]) = -1})]
Rank(t, q, op, i) == RankFn(t, q, op)[i]

Range(s) == {s[i] : i \in 1..Len(s)}
NoLimit == -1
WantLen(t, k) == IF k = NoLimit THEN Cardinality(DOMAIN t) ELSE Min2(k, Cardinality(DOMAIN t))

RECURSIVE Keep(_, _)
Keep(R, S) == IF R = << >> THEN << >>
              ELSE IF Head(R) \in S THEN << Head(R) >> \o Keep(Tail(R), S) ELSE Keep(Tail(R), S)

(* R = observed sequence of row ids.  The names of the violated clauses, in blame order. *)
FailedClauses(R, t, q, op, k) ==
    LET sp == Specified(t, q, op)
        S  == Keep(R, sp)
        rk == RankFn(t, q, op)
    IN  (IF Len(R) # WantLen(t, k) THEN {"count"} ELSE {})
        \cup (IF ~(Range(R) \subseteq DOMAIN t) THEN {"rows"} ELSE {})
        \cup (IF Cardinality(Range(R)) # Len(R) THEN {"distinct"} ELSE {})
        \cup (IF \E i \in 1..(Len(S) - 1) : rk[S[i]] > rk[S[i + 1]] THEN {"sorted"} ELSE {})
        \* the specified rows returned are the closest ones: nothing left out is strictly closer than one returned
        \cup (IF \E i \in Range(S), o \in sp \ Range(S) : rk[o] < rk[i] THEN {"topk"} ELSE {})
Admissible(R, t, q, op, k) == FailedClauses(R, t, q, op, k) = {}

(* -------------------------------------------------- laws of the model itself *)
RECURSIVE IsqrtR(_, _)
IsqrtR(x, r) == IF (r + 1) * (r + 1) > x THEN r ELSE IsqrtR(x, r + 1)
Isqrt(x) == IsqrtR(x, 0)
\* ordering by squared distance = ordering by distance (integer shadow of "sqrt is strictly monotone")
IsqrtLaw(N) == /\ \A x \in 0..N : Isqrt(x) * Isqrt(x) <= x /\ x < (Isqrt(x) + 1) * (Isqrt(x) + 1)
               /\ \A x, y \in 0..N : x <= y => Isqrt(x) <= Isqrt(y)
               /\ \A s, u \in 0..Isqrt(N) : (s * s < u * u) <=> (s < u)
CmpFracLaw(N) == \A p1, p2 \in 0..N, q1, q2 \in 1..N :
                    CmpFrac(p1, q1, p2, q2) = Sign(p1 * q2 - p2 * q1)

L2Laws(a, b) == /\ L2sq(a, b) = L2sq(b, a) /\ Dot(a, b) = Dot(b, a)
                /\ L2sq(a, b) >= 0 /\ L2sq(a, a) = 0 /\ (L2sq(a, b) = 0 <=> a = b)
                /\ L2sq(a, b) = Norm2(a) + Norm2(b) - 2 * Dot(a, b)
Scale(c, a) == [i \in 1..Len(a) |-> c * a[i]]
CosLaws(a, b, q) ==
    (CosDefined(a, q) /\ CosDefined(b, q)) =>
        /\ CosCmp(a, b, q) = -CosCmp(b, a, q) /\ CosCmp(a, a, q) = 0
        /\ CosCmp(Scale(2, a), b, q) = CosCmp(a, b, q) /\ CosCmp(a, b, Scale(3, q)) = CosCmp(a, b, q)
        \* on vectors of equal length the two metrics order alike
        /\ ((Norm2(a) = Norm2(b)) => (CosCmp(a, b, q) = Sign(L2sq(a, q) - L2sq(b, q))))
        \* the qualitative classes are ordered: same_dir < acute < orthogonal < obtuse < opposite
        /\ LET pos(c) == CASE c = "same_dir" -> 0 [] c = "acute" -> 1 [] c = "orthogonal" -> 2
                           [] c = "obtuse" -> 3 [] c = "opposite" -> 4
           IN  /\ ((pos(CosClass(a, q)) < pos(CosClass(b, q))) => (CosCmp(a, b, q) = -1))
               /\ ((CosClass(a, q) = CosClass(b, q) /\ CosClass(a, q) \in {"same_dir", "orthogonal", "opposite"})
                      => (CosCmp(a, b, q) = 0))
CosTransitive(a, b, c, q) ==
    (CosDefined(a, q) /\ CosDefined(b, q) /\ CosDefined(c, q)) =>
        ((CosCmp(a, b, q) <= 0 /\ CosCmp(b, c, q) <= 0) => (CosCmp(a, c, q) <= 0))
=============================================================================

---------------------------- MODULE MC_Grammar ----------------------------
EXTENDS Grammar, Json
\* one line per Call: the tokens, the productions used, the plan and the admissible outcomes
Emit == (done' /\ ~done) => PrintT(<<"T", ToJson([toks |-> pre, trail |-> trail, muts |-> muts, allowed |-> Allowed])>>)
=============================================================================

---------------------------- MODULE MC_BTreeMap ----------------------------
(***************************************************************************)
(* Generators for C28/C29: key universes, preload scripts, the per-        *)
(* transition enumeration (BFS, history hidden by VIEW) and the motif      *)
(* driven random walks (-simulate).  Every emitted step carries the        *)
(* model's result and post-state; nothing is computed outside TLC.         *)
(***************************************************************************)
EXTENDS BTreeMap, Json

CONSTANTS
  MaxOps,     \* BFS: explored steps after the preload; walks: length of a walk (run with -depth MaxOps + 1)
  Preloads,   \* sequence of scripts (sequences of [o,k,v]); BFS starts from each of them
  Motifs,     \* walk motifs
  PhaseLen,   \* walk: steps per phase
  OpVals      \* BFS: OpVals[o] = values tried with operation o

VARIABLES pre, motif, n
mcvars == <<m, hist, pre, motif, n>>
view == <<m, pre, motif>>

\* ------------------------------------------------------------------ byte strings
Rep(byte, cnt) == << <<byte, cnt>> >>
Str(s) == ToRle(s)
\* letters
ca == 97  cb == 98  cc == 99  cd == 100  ce == 101  cf == 102  cg == 103  ch == 104  ci == 105  cl == 108  cm == 109  cn == 110  co == 111  cp == 112  cq == 113  cw == 119  cx == 120  cy == 121  cz == 122
ABCD == <<ca, cb, cc, cd>>
LMNO == <<cl, cm, cn, co>>

\* --- U6: six keys for the exhaustive enumeration: a key shorter than 4 bytes, two keys sharing a 4-byte prefix,
\*     a 1 KB key sharing that prefix, a 3 KB key, and a maximum
KB_U6 == <<
  Str(<<ca, cb>>),
  Str(ABCD),
  Str(ABCD \o <<cx>>),
  Str(ABCD \o <<cx>>) \o Rep(cy, 1000),
  Str(LMNO) \o Rep(cx, 2996),
  Str(<<cz, cz>>) >>

\* --- U40: mixed universe for the walks (13 keys share the prefix "abcd"; zero-padding ties; 0x00 / 0xFF;
\*     1-3 KB keys that differ only after 1000..3000 equal bytes)
KB_U40 == <<
  <<>>,
  Str(<<ca>>), Str(<<ca, cb>>), Str(<<ca, cb, cc>>), Str(ABCD), Str(ABCD \o <<0>>),
  Str(ABCD \o <<ca>>), Str(ABCD \o <<ca, ca>>), Str(ABCD \o <<ca, cb>>), Str(ABCD \o <<cb>>), Str(ABCD \o <<cc>>),
  Str(ABCD \o <<cd>>), Str(ABCD \o <<ce>>), Str(ABCD \o <<cf>>), Str(ABCD \o <<cg>>), Str(ABCD \o <<ch>>),
  Str(ABCD \o <<ci>>),
  Str(<<ca, cb, cc, ce>>), Str(<<ca, cb, cc, ce, ca>>), Str(<<ca, cb, cc, ce, cb>>), Str(<<ca, cb, cd>>), Str(<<cb>>),
  Str(<<0>>), Str(<<0, 0>>), Rep(255, 4), Rep(255, 5),
  Str(LMNO) \o Rep(cx, 996),
  Str(LMNO) \o Rep(cx, 996) \o Str(<<ca>>),
  Str(LMNO) \o Rep(cx, 996) \o Str(<<cy>>),
  Str(LMNO) \o Rep(cx, 1996),
  Str(LMNO) \o Rep(cx, 1996) \o Str(<<ca>>),
  Str(LMNO) \o Rep(cx, 2996),
  Str(LMNO) \o Rep(cx, 2996) \o Str(<<ca>>),
  Str(LMNO) \o Rep(cw, 996),
  Str(<<cl, cm, cn, cp>>) \o Rep(cz, 1500),
  Str(<<cl, cm, cn>>), Str(LMNO), Str(LMNO \o <<cx>>),
  Str(<<cz, cz>>) \o Rep(cq, 2500),
  Str(<<cm>>) >>

\* --- U20: sixteen ~3 KB keys (separators of that size fill an interior page after five of them: interior splits,
\*     three levels) that differ only in the last bytes, plus four short keys
KB_U20 == [j \in 1..20 |->
  IF j <= 16 THEN Str(LMNO) \o Rep(cx, 2990) \o Str(<<ca + (j \div 4), ca + (j % 4)>>)
  ELSE IF j = 17 THEN Str(<<ca>>) ELSE IF j = 18 THEN Str(LMNO) ELSE IF j = 19 THEN Str(<<cz>>) ELSE <<>>]

\* --- U36: thirty-six ~3 KB keys. The preload Pre_Full inserts the odd ones in ascending order: leaves of three keys (a
\*     leaf takes five) under a root that is full with six children. Three more keys into the range of one leaf split
\*     that leaf and then the ROOT INTERIOR page - at every child position (first, middle, second to last, last), which
\*     sorted or reverse fills never do
KB_U36 == [j \in 1..36 |-> Str(LMNO) \o Rep(cx, 2990) \o Str(<<ca + (j \div 6), ca + (j % 6)>>)]

\* --- UBig: cells that fit a page but not two to a half: A (2001-byte key) and C fit one leaf together with 6000-byte
\*     values, B (3001-byte key) between them fits with neither (a full leaf [A, C] + B cannot be split in two)
KB_UBig == << Str(<<ca>>) \o Rep(cx, 2000), Str(<<cb>>) \o Rep(cx, 3000), Str(<<cc>>) \o Rep(cx, 2000) >>

\* --- values: id -> length.  0, 1 and 5 bytes (tiny), 240/241 (value-length varint grows from 1 to 2 bytes),
\*     two different 3000-byte values (in-place update), 6000 bytes
VLen8 == <<0, 1, 5, 240, 241, 3000, 3000, 6000>>
AllVals8 == [k \in Keys |-> 1..8]

Op(oo, k, v) == [o |-> oo, k |-> k, v |-> v]
\* --- preload scripts over U6 (values: 8 = 6000 bytes, 6 = 3000 bytes)
Pre_U6 == <<
  <<>>,
  \* two leaves [1,2 | 3]
  <<Op("ins", 1, 8), Op("ins", 2, 8), Op("ins", 3, 8)>>,
  \* ... with the right (rightmost) leaf emptied
  <<Op("ins", 1, 8), Op("ins", 2, 8), Op("ins", 3, 8), Op("del", 3, 0)>>,
  \* ... with the left leaf emptied
  <<Op("ins", 1, 8), Op("ins", 2, 8), Op("ins", 3, 8), Op("del", 1, 0), Op("del", 2, 0)>>,
  \* a root leaf without entries and without room (12 KB of dead cells)
  <<Op("ins", 2, 8), Op("ins", 3, 8), Op("del", 2, 0), Op("del", 3, 0)>>,
  \* three leaves [1,2 | 3,4 | 5], the middle one emptied
  <<Op("ins", 1, 8), Op("ins", 2, 8), Op("ins", 3, 8), Op("ins", 4, 8), Op("ins", 5, 6), Op("del", 3, 0), Op("del", 4, 0)>>,
  \* right leaf [3,4] full of dead cells: re-inserting its first key makes an empty leaf split
  <<Op("ins", 1, 8), Op("ins", 2, 8), Op("ins", 3, 8), Op("ins", 4, 8), Op("del", 3, 0), Op("del", 4, 0)>> >>
NoPreload == << <<>> >>
Pre_Full == << [i \in 1..18 |-> Op("ins", 2 * i - 1, 1)] >>
OpVals_Full == [ins |-> {1}, ifabs |-> {}, app |-> {}, upd |-> {}, del |-> {}, get |-> {}, fwd |-> {}, back |-> {}]
OpVals_U6 == [ins |-> {1, 3, 6, 8}, ifabs |-> {3}, app |-> {3, 8}, upd |-> {1, 3, 6, 8}]
OpVals_Big == [ins |-> {1, 8}, ifabs |-> {8}, app |-> {8}, upd |-> {1, 8}]

\* ------------------------------------------------------------------ BFS: every transition once
StepsOf(script) ==
  LET RECURSIVE go(_, _, _)
      go(s, cur, acc) == IF s = <<>> THEN acc ELSE go(Tail(s), Post(s[1], cur), Append(acc, Step(s[1], cur)))
  IN go(script, EmptyMap, <<>>)

BfsOps == {op \in AllOps : op.o \in DOMAIN OpVals => op.v \in OpVals[op.o]}

InitBfs == /\ pre \in DOMAIN Preloads
           /\ m = Run(Preloads[pre], EmptyMap)
           /\ hist = StepsOf(Preloads[pre])
           /\ motif = "bfs" /\ n = 0
NextBfs == /\ Len(hist) < Len(Preloads[pre]) + MaxOps
           /\ \E op \in BfsOps : Do(op)
           /\ UNCHANGED <<pre, motif, n>>
SpecBfs == InitBfs /\ [][NextBfs]_mcvars
EmitBfs == PrintT(<<"T", ToJson([pre |-> pre, steps |-> hist'])>>)
PreloadsOk == n = 0 /\ \A j \in DOMAIN Preloads : ScriptOk(Preloads[j], EmptyMap)
\* meta-invariants on the key order, evaluated once (on the initial states)
OrderOk == Len(hist) > 0 \/ (OrderIsByteOrder(Keys) /\ RleOrderAgrees(Keys))

\* ------------------------------------------------------------------ walks
\* phases cycle: fill (by motif), churn (anything), drain (deletes in key order: whole leaves become empty), churn
Phase == (n \div PhaseLen) % 4
Tiny == {v \in Vals : VLen[v] <= 5}
Big == {v \in Vals : VLen[v] >= 3000}
ValPool == CASE motif = "eqprefix" -> Tiny
             [] motif = "deep" -> Big \cup {CHOOSE v \in Tiny : TRUE}
             [] OTHER -> Vals
AbsentKeys == Keys \ Present(m)
Lowest(S) == CHOOSE k \in S : \A j \in S : ~KLt(j, k)
Highest(S) == CHOOSE k \in S : \A j \in S : ~KLt(k, j)
Above(S) == {k \in S : MaxPresent(m, k)}
Below(S) == {k \in S : \A j \in Present(m) : KLt(k, j)}
P4 == [k \in Keys |-> RlePrefix4(KB[k])]
ShortKeys == {k \in Keys : KLen[k] <= 8}
\* the largest class of short keys sharing one 4-byte prefix hint
PfxClass == [k \in ShortKeys |-> {j \in ShortKeys : P4[j] = P4[k]}]
EqPrefixKeys == PfxClass[CHOOSE k \in ShortKeys : \A j \in ShortKeys : Cardinality(PfxClass[j]) <= Cardinality(PfxClass[k])]

FillKeys ==
  IF AbsentKeys = {} THEN {}
  ELSE CASE motif \in {"sorted", "deep"} -> {IF Above(AbsentKeys) # {} THEN Lowest(Above(AbsentKeys)) ELSE Lowest(AbsentKeys)}
         [] motif = "reverse" -> {IF Below(AbsentKeys) # {} THEN Highest(Below(AbsentKeys)) ELSE Highest(AbsentKeys)}
         [] motif = "eqprefix" -> IF AbsentKeys \cap EqPrefixKeys # {} THEN AbsentKeys \cap EqPrefixKeys ELSE AbsentKeys
         [] OTHER -> AbsentKeys
DrainKeys ==
  IF Present(m) = {} THEN {}
  ELSE CASE motif \in {"sorted", "eqprefix", "deep"} -> {Lowest(Present(m))}
         [] motif = "reverse" -> {Highest(Present(m))}
         [] OTHER -> \* widen an existing hole, else start one anywhere
              LET edge == {k \in Present(m) : \E j \in AbsentKeys : Rank[j] = Rank[k] + 1 \/ Rank[j] = Rank[k] - 1}
              IN IF edge # {} THEN edge ELSE Present(m)

\* A walk keeps only the operations (cheap candidate states); results and post-states of the whole walk are
\* computed by StepsOf when the walk is printed.  Keys and values of churn steps are drawn with RandomElement
\* (one candidate per action instead of |Keys| * |Vals|); the last step of a walk is fixed (a backward scan), so
\* that exactly one line is printed per walk although TLC evaluates constraints on every candidate successor.
WalkDo(op) == /\ Enabled(op, m)
              /\ m' = Post(op, m)
              /\ hist' = Append(hist, op)
              /\ n' = n + 1
              /\ UNCHANGED <<pre, motif>>
Pick(S) == IF S = {} THEN {} ELSE {RandomElement(S)}

FillIns == Phase = 0 /\ \E k \in Pick(FillKeys), v \in Pick(ValPool) : WalkDo(Op("ins", k, v))
FillApp == Phase = 0 /\ \E k \in Pick(FillKeys), v \in Pick(ValPool) : WalkDo(Op("app", k, v))
FillIfAbs == Phase = 0 /\ \E k \in Pick(FillKeys), v \in Pick(ValPool) : WalkDo(Op("ifabs", k, v))
DrainDel == Phase = 2 /\ \E k \in Pick(DrainKeys) : WalkDo(Op("del", k, 0))
DrainProbe == Phase = 2 /\ \E k \in Pick(Keys) : WalkDo(Op("get", k, 0)) \/ WalkDo(Op("fwd", k, 0))
ChurnIns == Phase \in {1, 3} /\ \E k \in Pick(Keys), v \in Pick(ValPool) : WalkDo(Op("ins", k, v))
ChurnIfAbs == Phase \in {1, 3} /\ \E k \in Pick(Keys), v \in Pick(ValPool) : WalkDo(Op("ifabs", k, v))
ChurnApp == Phase \in {1, 3} /\ \E k \in Pick(Above(AbsentKeys)), v \in Pick(ValPool) : WalkDo(Op("app", k, v))
ChurnUpd == Phase \in {1, 3} /\ \E k \in Pick(Present(m)), v \in Pick(ValPool) : WalkDo(Op("upd", k, v))
ChurnUpdAbsent == Phase \in {1, 3} /\ \E k \in Pick(AbsentKeys), v \in Pick(ValPool) : WalkDo(Op("upd", k, v))
ChurnDel == Phase \in {1, 3} /\ \E k \in Pick(Keys) : WalkDo(Op("del", k, 0))
ChurnScan == Phase \in {1, 3} /\ (WalkDo(Op("back", 0, 0)) \/ \E k \in Pick(Keys \cup {0}) : WalkDo(Op("fwd", k, 0)))
\* a phase that cannot move (nothing to fill / drain) lets any insert through
Stuck == /\ (Phase = 0 /\ AbsentKeys = {}) \/ (Phase = 2 /\ Present(m) = {})
         /\ \E k \in Pick(Keys), v \in Pick(ValPool) : WalkDo(Op("ins", k, v))

\* always enabled, so that a walk never ends early because every random pick was disabled
Idle == \E k \in Pick(Keys) : WalkDo(Op("get", k, 0))

InitWalk == /\ pre = 1 /\ m = EmptyMap /\ hist = <<>> /\ motif \in Motifs /\ n = 0
NextWalk == IF n = MaxOps - 1 THEN WalkDo(Op("back", 0, 0))
            ELSE /\ n < MaxOps - 1
                 /\ \/ FillIns \/ FillApp \/ FillIfAbs \/ DrainDel \/ DrainDel \/ DrainProbe
                    \/ ChurnIns \/ ChurnIfAbs \/ ChurnApp \/ ChurnUpd \/ ChurnUpd \/ ChurnUpdAbsent \/ ChurnDel \/ ChurnScan \/ Stuck
                    \/ Idle
SpecWalk == InitWalk /\ [][NextWalk]_mcvars
EmitWalk == n' = MaxOps => PrintT(<<"T", ToJson([w |-> motif, steps |-> StepsOf(hist')])>>)

\* ------------------------------------------------------------------ the universe, printed once
Universe == [keys |-> KB, order |-> Order, vlen |-> VLen, hints |-> HintModes, klen |-> KLen,
             unsafe |-> {<<k, v>> \in Keys \X Vals : FitsPage(k, v) /\ ~SplitSafe(k, v)}]
ASSUME PrintT(<<"T", ToJson([u |-> Universe])>>)
=============================================================================

\* witness: the code as it is must violate PinnedStays (clear() drops a pinned entry)
CONSTANTS Threads = {t1, t2}  KA = {k1, k2}  KB = {}  Cap = 2  MaxCalls = 2  MaxHeld = 2  Fine = FALSE  InitMayFail = FALSE
          BudgetPages = 3  Ballast = 30  ClearKeepsPinned = FALSE  ClearCountsUnderLock = FALSE  ReleaseOnInitError = FALSE
CONSTANT Keys <- KeysAll  ShardOf <- ShardsOneTwo
SYMMETRY Sym
SPECIFICATION Spec
VIEW view
INVARIANTS PinnedStays
CHECK_DEADLOCK FALSE

CONSTANTS Pages = {1, 2, 3, 4, 5, 6}  TrunkMax = 2  MaxOps = 9  ReturnTrunk = TRUE
SPECIFICATION Spec
VIEW view
INVARIANTS Conservation CountIsAllocatable NoDoubleAlloc NeverGarbage
CHECK_DEADLOCK FALSE

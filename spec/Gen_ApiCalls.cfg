CONSTANTS MaxCalls = 3  ParamTypes = {"int", "text", "null", "vec"}
SPECIFICATION Spec
VIEW view
INVARIANT TypeOK SavepointsOnlyInTxn
ACTION_CONSTRAINT Emit
CHECK_DEADLOCK FALSE

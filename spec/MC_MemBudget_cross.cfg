\* different pools: the limit may be exceeded only after overlapping cross-pool allocations (recorded finding)
CONSTANTS Threads = {1, 2}  Sizes = {2, 8}  MaxOpsPerThread = 2  Prefill = 22  Limit = 32  CasOnTotal = FALSE
CONSTANT PoolsOf <- PoolsMixed
SPECIFICATION Spec
VIEW view
INVARIANTS HardLimitUnlessCrossPool Accounting ZeroWhenReleased
CHECK_DEADLOCK FALSE

CONSTANTS Handles = {0, 1}  Ids = {1, 2}  MaxOps = 5  MaxKeys = 4  Starts = {"plain", "both_in_txn"}  Kinds = {"insert", "update", "delete", "read", "drop"}
SPECIFICATION Spec
VIEW view
INVARIANT SequentialWhenAutocommit SerialWhenAlone OwnWritesVisible RefNoDirtyRead RefNoLostUpdate
CHECK_DEADLOCK FALSE

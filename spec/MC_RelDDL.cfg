\* the reference checked against itself (no deviation switched on)
CONSTANTS MaxOps = 2  WithS1 = TRUE  WithReopen = FALSE  Starts = {"t2","empty"}
CONSTANTS Dev = {}
SPECIFICATION Spec
VIEW view
INVARIANTS WellFormed ConstraintsHold
PROPERTIES AlterPreserves ErrChangesNothing
CHECK_DEADLOCK FALSE
